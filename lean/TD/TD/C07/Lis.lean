import TD.C07.Bits

/-!
# C07 — the LIS decoders in closed form on the bit fields of the argument (core Lean only)

Every statement is about an arbitrary Python int `w`; `low64 w` is its two's complement low 64 bits, so the same
statement covers the unsigned word and the (possibly negative) value that `struct.unpack` produces.
-/
namespace TD.C07

/-- fields below bit `k` only depend on the word modulo `2^k` -/
theorem fld_mod (X lo n k : Nat) (h : lo + n ≤ k) : fld (X % 2 ^ k) lo n = fld X lo n := by
  unfold fld
  have hk : k = lo + (k - lo) := by omega
  rw [hk, Nat.pow_add, Nat.mod_mul_right_div_self]
  exact Nat.mod_mod_of_dvd _ (Nat.pow_dvd_pow 2 (by omega))

/-- an unsigned word below `2^64` is its own low 64 bits -/
theorem low64_natCast (u : Nat) (h : u < 2 ^ 64) : low64 (u : Int) = u := by
  unfold low64
  simp only [Nat.reducePow] at h
  omega

/-- the two's complement (signed) reading of a `bits`-bit word has the same low `bits` bits -/
theorem low64_toSigned (bits u : Nat) (hb : 1 ≤ bits ∧ bits ≤ 64) (h : u < 2 ^ bits) :
    low64 (toSigned bits u) % 2 ^ bits = u := by
  unfold low64 toSigned
  have h64 : (2 : Nat) ^ bits ∣ 2 ^ 64 := Nat.pow_dvd_pow 2 hb.2
  obtain ⟨c, hc⟩ := h64
  have hp : 0 < 2 ^ bits := Nat.pos_of_ne_zero (by simp)
  split
  · have : ((u : Int) % 18446744073709551616).toNat = u := by
      have : u < 2 ^ 64 := Nat.lt_of_lt_of_le h (Nat.pow_le_pow_right (by omega) hb.2)
      simp only [Nat.reducePow] at this; omega
    rw [this]; exact Nat.mod_eq_of_lt h
  · have hc' : (18446744073709551616 : Int) = ((2 ^ bits : Nat) : Int) * (c : Int) := by
      have : (2 : Nat) ^ 64 = 2 ^ bits * c := hc
      simp only [Nat.reducePow] at this ⊢
      omega
    have hcpos : 1 ≤ c := by
      rcases Nat.eq_zero_or_pos c with h0 | h0
      · subst h0; simp at hc
      · exact h0
    generalize hP : (2 ^ bits : Nat) = P at *
    have h1 : ((u : Int) - (P : Int)) % 18446744073709551616 = (u : Int) - P + 18446744073709551616 := by
      have hlt : (P : Int) * c ≥ P := by
        have : (P : Int) * 1 ≤ (P : Int) * c := Int.mul_le_mul_of_nonneg_left (by omega) (by omega)
        omega
      omega
    rw [h1, hc']
    have : ((u : Int) - P + (P : Int) * c).toNat = u + P * (c - 1) := by
      have : (P : Int) * c = P * ((c - 1 : Nat) : Int) + P := by
        have : (c : Int) = ((c - 1 : Nat) : Int) + 1 := by omega
        rw [this, Int.mul_add, Int.mul_one]
      rw [this]
      have h2 : (u : Int) - P + (P * ((c - 1 : Nat) : Int) + P) = ((u + P * (c - 1) : Nat) : Int) := by
        simp only [Int.natCast_add, Int.natCast_mul]; omega
      rw [h2]; exact Int.toNat_natCast _
    rw [this, Nat.add_mul_mod_self_left]
    exact Nat.mod_eq_of_lt h

theorem from49_dy (w : Int) :
    from49 w = .fin ⟨16 * twos 12 (fld (low64 w) 4 12), (fld (low64 w) 0 4 : Int) - 15⟩ := by
  unfold from49
  rw [ldexp_exact _ _ (by omega)]
  have e1 := pyAnd_fld w 12 4 0xFFF0 rfl
  have e2 := pyAnd_fld w 1 15 0x8000 rfl
  have e3 := pyAnd_fld w 4 0 0xF rfl
  generalize ha : pyAnd w 65520 = a
  generalize hb : pyAnd w 32768 = b
  generalize hc : pyAnd w 15 = c
  rw [e1] at ha; rw [e2] at hb; rw [e3] at hc
  subst ha hb hc
  unfold fld twos
  generalize low64 w = U
  simp only [Nat.reducePow, Nat.reduceSub]
  split <;> split <;> simp only [FV.fin.injEq, Dy.mk.injEq] <;> omega

/-- the exponent that `from50` uses, as coded: 10 bits of the field, minus 65536 when bit 31 is set -/
theorem from50_as_coded (w : Int) :
    from50 w = ldexp (twos 16 (fld (low64 w) 0 16))
      ((fld (low64 w) 16 10 : Int) - 15 - (if fld (low64 w) 31 1 = 1 then 65536 else 0)) := by
  unfold from50
  have e1 := pyAnd_fld w 16 0 0xFFFF rfl
  have e2 := pyAnd_fld (pyShr w 16) 10 0 0x03FF rfl
  have e3 := pyAnd_fld w 1 15 0x8000 rfl
  have e4 := pyAnd_fld w 1 31 0x80000000 rfl
  generalize ha : pyAnd w 65535 = a
  generalize hb : pyAnd (pyShr w 16) 1023 = b
  generalize hc : pyAnd w 32768 = c
  generalize hd : pyAnd w 2147483648 = d
  rw [e1] at ha; rw [e2] at hb; rw [e3] at hc; rw [e4] at hd
  subst ha hb hc hd
  have hsh : fld (low64 (pyShr w 16)) 0 10 = fld (low64 w) 16 10 := by
    unfold fld low64 pyShr
    rw [Int.shiftRight_eq_div_pow]
    have := shr16_low w 1024 (Or.inl rfl)
    simp only [Nat.reducePow, Nat.div_one] at this ⊢
    exact this
  rw [hsh]
  unfold fld twos
  generalize low64 w = U
  simp only [Nat.reducePow, Nat.reduceSub, Nat.div_one, Nat.mul_one]
  congr 1
  · split <;> split <;> omega
  · split <;> split <;> omega

/-- `from50` is right when the 16-bit exponent field is in `0 … 1023`. -/
theorem from50_dy_partial (w : Int) (hE : fld (low64 w) 16 16 ≤ 1023) :
    from50 w = .fin ⟨twos 16 (fld (low64 w) 0 16), twos 16 (fld (low64 w) 16 16) - 15⟩ := by
  rw [from50_as_coded]
  have h31 : fld (low64 w) 31 1 = 0 := by unfold fld at *; simp only [Nat.reducePow] at *; omega
  have h10 : fld (low64 w) 16 10 = fld (low64 w) 16 16 := by unfold fld at *; simp only [Nat.reducePow] at *; omega
  have hs : twos 16 (fld (low64 w) 16 16) = fld (low64 w) 16 16 := by
    unfold twos; simp only [Nat.reducePow, Nat.reduceSub]; split <;> omega
  rw [h31, h10, hs, ldexp_exact _ _ (by omega)]
  simp

theorem from56_spec (w : Int) : from56 w = twos 8 (fld (low64 w) 0 8) := by
  unfold from56
  have e1 := pyAnd_fld w 1 7 0x80 rfl
  have e2 := pyAnd_fld w 8 0 0xFF rfl
  generalize ha : pyAnd w 128 = a
  generalize hb : pyAnd w 255 = b
  rw [e1] at ha; rw [e2] at hb
  subst ha hb
  unfold fld twos
  generalize low64 w = U
  simp only [Nat.reducePow, Nat.reduceSub]
  split <;> split <;> omega

theorem from66_spec (w : Int) : from66 w = fld (low64 w) 0 8 := by
  unfold from66
  rw [pyAnd_fld w 8 0 0xFF rfl]
  simp

theorem from77_spec (w : Int) : from77 w = fld (low64 w) 0 8 := from66_spec w

/-- closed form of code 68 on the fields of the word: sign `s`, exponent `E`, fraction `F` -/
def dec68 (s E F : Nat) : Dy :=
  if s = 1 then ⟨(F : Int) - 8388608, 104 - (E : Int)⟩ else ⟨F, (E : Int) - 151⟩

theorem from68_dy (w : Int) :
    from68 w = .fin (dec68 (fld (low64 w) 31 1) (fld (low64 w) 23 8) (fld (low64 w) 0 23)) := by
  unfold from68
  have e1 := pyAnd_fld w 1 31 0x80000000 rfl
  have e2 := pyAnd_fld w 23 0 0x007FFFFF rfl
  have e3 := pyAnd_fld w 8 23 0x7F800000 rfl
  generalize ha : pyAnd w 2147483648 = a
  generalize hb : pyAnd w 8388607 = b
  generalize hc : pyAnd w 2139095040 = c
  rw [e1] at ha; rw [e2] at hb; rw [e3] at hc
  subst ha hb hc
  have hs : fld (low64 w) 31 1 = 0 ∨ fld (low64 w) 31 1 = 1 := by unfold fld; omega
  have hF : fld (low64 w) 0 23 * 2 ^ 0 < 8388608 := by unfold fld; omega
  have hE : fld (low64 w) 23 8 < 256 := by unfold fld; omega
  have hA : fld (low64 w) 31 1 * 2 ^ 31 = 0 ∨ fld (low64 w) 31 1 * 2 ^ 31 = 2147483648 := by omega
  simp only []
  rw [mant68 _ _ hF hA, exp68]
  rcases hs with hs | hs
  · rw [hs, ldexp_exact _ _ (by simp; omega)]
    simp [dec68]
  · rw [hs, ldexp_exact _ _ (by simp; omega)]
    simp [dec68]

/-- the Cython / C++ algorithm computes the same function as the Python one, on every Python int. -/
theorem from68c_eq (w : Int) : from68c w = from68 w := by
  rw [from68_dy]
  unfold from68c
  have e1 := pyAnd_fld w 1 31 0x80000000 rfl
  have e2 := pyAnd_fld w 23 0 0x007FFFFF rfl
  have e3 := pyAnd_fld w 8 23 0x7F800000 rfl
  generalize ha : pyAnd w 2147483648 = a
  generalize hb : pyAnd w 8388607 = b
  generalize hc : pyAnd w 2139095040 = c
  rw [e1] at ha; rw [e2] at hb; rw [e3] at hc
  subst ha hb hc
  have hs : fld (low64 w) 31 1 = 0 ∨ fld (low64 w) 31 1 = 1 := by unfold fld; omega
  have hF : fld (low64 w) 0 23 * 2 ^ 0 < 8388608 := by unfold fld; omega
  have hE : fld (low64 w) 23 8 < 256 := by unfold fld; omega
  simp only []
  rw [exp68]
  rcases hs with hs | hs
  · rw [hs]
    simp only [Nat.zero_mul, ne_eq, not_true_eq_false, if_false]
    rw [pyOr_zero, ldexp_exact _ _ (by omega)]
    simp [dec68]
  · rw [hs]
    simp only [Nat.one_mul, ne_eq, Nat.reducePow]
    rw [if_pos (by decide), if_pos (by decide), pyOr_neg23 _ (by simpa using hF), ldexp_exact _ _ (by omega)]
    simp [dec68]

theorem from70_dy (w : Int) : from70 w = .fin ⟨twos 32 (fld (low64 w) 0 32), -16⟩ := by
  unfold from70
  have e1 := pyAnd_fld (pyShr w 16) 16 0 0xFFFF rfl
  have e2 := pyAnd_fld w 16 0 0xFFFF rfl
  have e4 := pyAnd_fld w 1 31 0x80000000 rfl
  generalize ha : pyAnd (pyShr w 16) 65535 = a
  generalize hb : pyAnd w 65535 = b
  generalize hd : pyAnd w 2147483648 = d
  rw [e1] at ha; rw [e2] at hb; rw [e4] at hd
  subst ha hb hd
  have hsh : fld (low64 (pyShr w 16)) 0 16 = fld (low64 w) 16 16 := by
    unfold fld low64 pyShr
    rw [Int.shiftRight_eq_div_pow]
    have := shr16_low w 65536 (Or.inr rfl)
    simp only [Nat.reducePow, Nat.div_one] at this ⊢
    exact this
  rw [hsh]
  simp only []
  unfold fld twos
  generalize low64 w = U
  simp only [Nat.reducePow, Nat.reduceSub, Nat.div_one, Nat.mul_one]
  clear e1 e2 e4 hsh
  have h1 : U % 4294967296 = (U / 65536 % 65536) * 65536 + U % 65536 := by omega
  have h2 : U / 2147483648 % 2 = (U % 4294967296) / 2147483648 := by omega
  have h3 : U / 65536 % 65536 < 65536 := Nat.mod_lt _ (by omega)
  have h4 : U % 65536 < 65536 := Nat.mod_lt _ (by omega)
  generalize U % 4294967296 = R at *
  generalize U / 65536 % 65536 = H at *
  generalize U % 65536 = L at *
  rw [h2]
  clear h2
  split <;> split <;> simp only [FV.fin.injEq, Dy.mk.injEq, and_true] <;> omega

end TD.C07
