import TD.C07.Lemmas

/-!
# C07 — representation codes decode per the standards; encoders invert decoders

Property theorems only.  The model (`TD.C07.Model`) transcribes `LIS/core/pRepCode.py`, `cRepCode.pyx`,
`LISRepCode.cpp`, `LIS/core/RepCode.py` and `RP66V1/core/pRepCode.py`; it is tied to the three implementations by the
correspondence run of `./check C07` (the Cython and C++ extensions are rebuilt from the current sources on every run).

Vocabulary.  `fld u lo n` is the `n`-bit field of the word `u` starting at bit `lo`; `twos n x` is the two's complement
reading of an `n`-bit field; `Dy.val ⟨m, e⟩ = m·2^e : ℚ`.  A decoder argument `w : Int` is either the unsigned word
`u` or the signed value `toSigned bits u` that `struct.unpack` produces — every `decode_spec` covers both.
All statements are for ALL words / byte strings (no size bound other than the width of the code).

Two statements of the property are FALSE on the code as it is; they are proved in the partial form given here, their
negations are proved on a witness, and they are registered as known findings in `known_findings.d/C07.json`:
* code 50 (`F8-from50-exponent-mask`): only `from50_decode_spec_partial` (exponent field 0 … 1023);
* `to68` clamps `v ≤ -2^127` to a word that decodes to `-2^-129`; hence `from68_to68_partial` excludes `0x80000000`.
-/
namespace TD.C07

/-- the two ways a `bits`-bit word `u` reaches a decoder -/
def IsArg (bits u : Nat) (w : Int) : Prop := w = (u : Int) ∨ w = toSigned bits u

/-! ## LIS-79 -/

/-- **Code 49** (16-bit float): 12-bit two's complement fraction `M/2^11` (bits 15…4) times `2^E` (bits 3…0). -/
theorem from49_decode_spec (u : Nat) (hu : u < 2 ^ 16) (w : Int) (hw : IsArg 16 u w) :
    ∃ d, from49 w = .fin d ∧ d.val = (twos 12 (fld u 4 12) : ℚ) * (2 : ℚ) ^ ((fld u 0 4 : ℤ) - 11) := by
  refine ⟨_, from49_dy w, ?_⟩
  rw [fld_arg 16 u 4 12 w (by omega) hu hw (by omega), fld_arg 16 u 0 4 w (by omega) hu hw (by omega)]
  have := Dy.val_scale (twos 12 (fld u 4 12)) ((fld u 0 4 : ℤ) - 11) 4
  rw [show (twos 12 (fld u 4 12)) * 2 ^ 4 = 16 * twos 12 (fld u 4 12) by omega,
    show ((fld u 0 4 : ℤ) - 11 - (4 : ℕ)) = (fld u 0 4 : ℤ) - 15 by omega] at this
  rw [this, Dy.val_mk]

example : IsArg 16 0xB388 (-19576) ∧ from49 (-19576) = .fin ⟨-19584, -7⟩ ∧ from49 0xB388 = .fin ⟨-19584, -7⟩ :=
  ⟨Or.inr (by decide), by decide, by decide⟩

/-- **Code 50, partial** (32-bit low resolution float): `M/2^15 · 2^E` with `M` the 16-bit two's complement
mantissa (bits 15…0) and `E` the 16-bit two's complement exponent (bits 31…16) — proved only for `0 ≤ E ≤ 1023`.
FULL STATEMENT (false, finding F8): the same conclusion for every `u < 2^32`.  Missing: every negative exponent and
every exponent above 1023 (the code masks the exponent with `0x3FF` and subtracts 65536 when bit 31 is set). -/
theorem from50_decode_spec_partial (u : Nat) (hu : u < 2 ^ 32) (w : Int) (hw : IsArg 32 u w) (hE : fld u 16 16 ≤ 1023) :
    ∃ d, from50 w = .fin d ∧
      d.val = (twos 16 (fld u 0 16) : ℚ) * (2 : ℚ) ^ ((twos 16 (fld u 16 16) : ℤ) - 15) := by
  have h1 := fld_arg 32 u 16 16 w (by omega) hu hw (by omega)
  have h0 := fld_arg 32 u 0 16 w (by omega) hu hw (by omega)
  refine ⟨_, from50_dy_partial w (by rw [h1]; exact hE), ?_⟩
  rw [h1, h0, Dy.val_mk]

example : fld 0x00084C80 16 16 ≤ 1023 ∧ from50 0x00084C80 = .fin ⟨19584, -7⟩ := by decide

/-- **Code 50, the full statement fails** (F8): `0xFFFF4000` is `0.5·2^-1 = 2^-2` by the standard, the code
returns `0.0`; the same for the signed argument that `struct.unpack('>i')` produces. -/
theorem from50_full_statement_false :
    twos 16 (fld 0xFFFF4000 0 16) = 16384 ∧ twos 16 (fld 0xFFFF4000 16 16) - 15 = -16 ∧
    from50 0xFFFF4000 = .fin ⟨0, 0⟩ ∧ from50 (toSigned 32 0xFFFF4000) = .fin ⟨0, 0⟩ := by decide

/-- **Code 56** (8-bit two's complement). -/
theorem from56_decode_spec (u : Nat) (hu : u < 2 ^ 8) (w : Int) (hw : IsArg 8 u w) : from56 w = twos 8 u := by
  rw [from56_spec, fld_arg 8 u 0 8 w (by omega) hu hw (by omega)]
  unfold fld; simp only [Nat.pow_zero, Nat.div_one]; rw [Nat.mod_eq_of_lt hu]

/-- **Codes 66 and 77** (unsigned byte / 8-bit mask). -/
theorem from66_decode_spec (u : Nat) (hu : u < 2 ^ 8) (w : Int) (hw : IsArg 8 u w) :
    from66 w = u ∧ from77 w = u := by
  rw [from66_spec, from77_spec, fld_arg 8 u 0 8 w (by omega) hu hw (by omega)]
  unfold fld; simp only [Nat.pow_zero, Nat.div_one]; rw [Nat.mod_eq_of_lt hu]; exact ⟨rfl, rfl⟩

/-- **Codes 73 and 79** (32/16-bit two's complement): the decoder is the identity on the value `struct` unpacked,
which is the two's complement reading of the word. -/
theorem from73_79_decode_spec (u : Nat) :
    from73 (toSigned 32 u) = twos 32 u ∧ from79 (toSigned 16 u) = twos 16 u := by
  unfold from73 from79 toSigned twos
  exact ⟨rfl, rfl⟩

/-- **Code 68** (32-bit float): sign `S` (bit 31), exponent `E` (bits 30…23, excess 128, one's complemented when
negative), 23-bit fraction `F` (two's complemented together with the sign):
`S = 0`: `F/2^23 · 2^(E-128)`;  `S = 1`: `(F - 2^23)/2^23 · 2^((255-E)-128)`. -/
theorem from68_decode_spec (u : Nat) (hu : u < 2 ^ 32) (w : Int) (hw : IsArg 32 u w) :
    ∃ d, from68 w = .fin d ∧
      d.val = if fld u 31 1 = 1
        then (((fld u 0 23 : ℤ) - 2 ^ 23 : ℤ) : ℚ) * (2 : ℚ) ^ (((255 : ℤ) - fld u 23 8) - 128 - 23)
        else ((fld u 0 23 : ℤ) : ℚ) * (2 : ℚ) ^ ((fld u 23 8 : ℤ) - 128 - 23) := by
  refine ⟨_, from68_dy w, ?_⟩
  rw [fld_arg 32 u 31 1 w (by omega) hu hw (by omega), fld_arg 32 u 23 8 w (by omega) hu hw (by omega),
    fld_arg 32 u 0 23 w (by omega) hu hw (by omega)]
  unfold dec68
  split
  · rw [Dy.val_mk]; congr 2; omega
  · rw [Dy.val_mk]; congr 2; omega

example : from68 0xBBB38000 = .fin ⟨-5013504, -15⟩ ∧ from68 0x444C8000 = .fin ⟨5013504, -15⟩ := by decide

/-- **Code 68, three implementations**: the Cython / C++ algorithm (`cRepCode.from68`, `_from68`) and the Python
algorithm (`pRepCode.from68`) are the same function on every Python int. -/
theorem from68c_eq_from68 (w : Int) : from68c w = from68 w := from68c_eq w

/-- **Code 68, re-encoding a decoded word gives an equivalent word (partial)**: for every 32-bit word except
`0x80000000`, `from68 (to68 (from68 u))` is the same number as `from68 u`.
FULL STATEMENT (false): the same for every `u < 2^32`.  Missing: `u = 0x80000000` (= -2^127), see
`from68_to68_fails_at_min`. -/
theorem from68_to68_partial (u : Nat) (hu : u < 2 ^ 32) (hne : u ≠ 0x80000000) :
    ∃ d d', from68 (u : Int) = .fin d ∧ from68 ((to68 d.m d.e : Nat) : Int) = .fin d' ∧ d'.val = d.val := by
  have hd := from68_dy (u : Int)
  rw [low64_natCast u (Nat.lt_of_lt_of_le hu (by decide))] at hd
  have hs : fld u 31 1 ≤ 1 := by unfold fld; omega
  have hE : fld u 23 8 < 256 := by unfold fld; omega
  have hF : fld u 0 23 < 8388608 := by unfold fld; omega
  have hn : ¬ (fld u 31 1 = 1 ∧ fld u 23 8 = 0 ∧ fld u 0 23 = 0) := by
    unfold fld; simp only [Nat.reducePow, Nat.div_one] at hu ⊢; omega
  obtain ⟨d', h1, h2⟩ := from68_to68_fields _ _ _ hs hE hF hn
  exact ⟨_, d', hd, h1, h2.val_eq⟩

example : (0x444C8000 : Nat) < 2 ^ 32 ∧ (0x444C8000 : Nat) ≠ 0x80000000 ∧ to68 5013504 (-15) = 0x444C8000 := by decide

/-- **Code 68, the excluded word**: `0x80000000` decodes to `-2^23·2^104 = -2^127`, `to68` sends that to
`0xFFC00000`, which decodes to `-2^22·2^-151 = -2^-129` (finding `C07-to68-negative-clamp`, pinned by
`TestRepCodeTo68Basic.test_minmax`). -/
theorem from68_to68_fails_at_min :
    from68 0x80000000 = .fin ⟨-8388608, 104⟩ ∧ to68 (-8388608) 104 = 0xFFC00000 ∧
    from68 0xFFC00000 = .fin ⟨-4194304, -151⟩ := by decide

/-- **Code 68, canonical-word lemma (precise equivalence)**: `to68 (from68 u) = u` holds exactly for the canonical
words (`Canon68`: positive — top fraction bit set, or exponent field 0 with a non-zero fraction, or the zero word
`0x40000000`; negative — fraction in `1 … 2^22`, or exponent field 255 with a fraction above `2^22`); every other
word is re-encoded to a different (normalised) word of the same value (`from68_to68_partial`). -/
theorem to68_from68_fixed_iff (u : Nat) (hu : u < 2 ^ 32) :
    (∃ d, from68 (u : Int) = .fin d ∧ to68 d.m d.e = u) ↔ Canon68 (fld u 31 1) (fld u 23 8) (fld u 0 23) := by
  have hd := from68_dy (u : Int)
  rw [low64_natCast u (Nat.lt_of_lt_of_le hu (by decide))] at hd
  have hs : fld u 31 1 ≤ 1 := by unfold fld; omega
  have hE : fld u 23 8 < 256 := by unfold fld; omega
  have hF : fld u 0 23 < 8388608 := by unfold fld; omega
  have hdec : fld u 31 1 * 2147483648 + fld u 23 8 * 8388608 + fld u 0 23 = u := by
    unfold fld; simp only [Nat.reducePow, Nat.div_one] at hu ⊢; omega
  have key := reenc_fixed_iff _ _ _ hs hE hF
  rw [hdec] at key
  unfold reenc at key
  constructor
  · rintro ⟨d, h1, h2⟩
    rw [hd] at h1
    cases h1
    exact key.1 h2
  · intro hc
    exact ⟨_, hd, key.2 hc⟩

example : Canon68 (fld 0xBBB38000 31 1) (fld 0xBBB38000 23 8) (fld 0xBBB38000 0 23) := by
  unfold Canon68; decide
example : ¬ Canon68 (fld 0x44000001 31 1) (fld 0x44000001 23 8) (fld 0x44000001 0 23) := by
  unfold Canon68; decide

/-- **Code 68, every encoder output is canonical and `to68 ∘ from68` is the identity on the image of `to68`**:
for every dyadic `m·2^e` (every finite double; clamps included) the word `to68 v` is a 32-bit canonical word, and
decoding it and encoding again gives back the same word. -/
theorem to68_from68_to68 (m e : Int) :
    to68 m e < 2 ^ 32 ∧ Canon68 (fld (to68 m e) 31 1) (fld (to68 m e) 23 8) (fld (to68 m e) 0 23) ∧
    ∃ d, from68 ((to68 m e : Nat) : Int) = .fin d ∧ to68 d.m d.e = to68 m e := by
  obtain ⟨hc, hlt⟩ := to68_canonical m e
  exact ⟨hlt, hc, (to68_from68_fixed_iff _ hlt).2 hc⟩

example : to68 1 (-2) = 0x3FC00000 ∧ from68 0x3FC00000 = .fin ⟨4194304, -24⟩ ∧ to68 4194304 (-24) = 0x3FC00000 := by decide

/-- the range in which `to68` neither clamps nor depresses the mantissa: `2^-129 ≤ |m·2^e| < 2^127`, expressed
through the exponent that `frexp` returns -/
def InRange68 (m e : Int) : Prop := m ≠ 0 ∧ -128 ≤ frexpExp m e ∧ frexpExp m e ≤ 127

/-- **Code 68, encoding error**: for every dyadic `v = m·2^e` in range (every finite double is a dyadic),
`|from68 (to68 v) - v| < |v|·2^-22`. -/
theorem to68_error (m e : Int) (h : InRange68 m e) :
    ∃ d, from68 ((to68 m e : Nat) : Int) = .fin d ∧
      |d.val - Dy.val ⟨m, e⟩| < |Dy.val ⟨m, e⟩| * (2 : ℚ) ^ (-22 : ℤ) := by
  obtain ⟨t, a, b, h1, h2⟩ := to68_error_core m e h.1 h.2.1 h.2.2
  exact ⟨_, h1, val_error h2⟩

example : InRange68 (-153) 0 ∧ to68 (-153) 0 = 0xBBB38000 := ⟨⟨by decide, by decide, by decide⟩, by decide⟩
example : InRange68 6004799503160661 (-54) := ⟨by decide, by decide, by decide⟩   -- 1/3 as a double

/-- `InRange68` really is `2^-129 ≤ |v| < 2^127` (one direction: the bounds that the frexp exponent gives). -/
theorem inRange68_bounds (m e : Int) (h : InRange68 m e) :
    (2 : ℚ) ^ (-129 : ℤ) ≤ |Dy.val ⟨m, e⟩| ∧ |Dy.val ⟨m, e⟩| < (2 : ℚ) ^ (127 : ℤ) := by
  obtain ⟨hm, hlo, hhi⟩ := h
  unfold frexpExp at hlo hhi
  rw [if_neg hm] at hlo hhi
  have hA0 : m.natAbs ≠ 0 := by omega
  obtain ⟨hb1, hb2⟩ := bitLen_bounds _ hA0
  have hbp := bitLen_pos _ hA0
  rw [Dy.val_mk, abs_mul, abs_of_pos (by positivity : (0 : ℚ) < 2 ^ e)]
  have habs : ((m.natAbs : ℕ) : ℚ) = |(m : ℚ)| := by rw [Nat.cast_natAbs, Int.cast_abs]
  rw [← habs]
  have h2 : (2 : ℚ) ≠ 0 := by norm_num
  have c1 : ((2 ^ (bitLen m.natAbs - 1) : ℕ) : ℚ) ≤ ((m.natAbs : ℕ) : ℚ) := by exact_mod_cast hb1
  have c2 : ((m.natAbs : ℕ) : ℚ) < ((2 ^ bitLen m.natAbs : ℕ) : ℚ) := by exact_mod_cast hb2
  push_cast at c1 c2 ⊢
  have hp : (0 : ℚ) < 2 ^ e := by positivity
  constructor
  · calc (2 : ℚ) ^ (-129 : ℤ) ≤ (2 : ℚ) ^ (((bitLen m.natAbs - 1 : ℕ) : ℤ) + e) :=
          zpow_le_zpow_right₀ (by norm_num) (by omega)
      _ = (2 : ℚ) ^ (bitLen m.natAbs - 1) * 2 ^ e := by rw [zpow_add₀ h2, zpow_natCast]
      _ ≤ _ := mul_le_mul_of_nonneg_right c1 hp.le
  · calc ((m.natAbs : ℕ) : ℚ) * 2 ^ e < (2 : ℚ) ^ (bitLen m.natAbs) * 2 ^ e := mul_lt_mul_of_pos_right c2 hp
      _ = (2 : ℚ) ^ (((bitLen m.natAbs : ℕ) : ℤ) + e) := by rw [zpow_add₀ h2, zpow_natCast]
      _ ≤ (2 : ℚ) ^ (127 : ℤ) := zpow_le_zpow_right₀ (by norm_num) (by omega)

/-- **Code 68, the negative clamp is wrong**: `to68 (-2^127) = 0xFFC00000`, and so is `to68` of anything below
(e.g. `-2^130`); the word decodes to `-2^-129`, while `0x80000000` is the word of the minimum `-2^127`. -/
theorem to68_negative_clamp_defect :
    to68 (-1) 127 = 0xFFC00000 ∧ to68 (-1) 130 = 0xFFC00000 ∧ from68 0xFFC00000 = .fin ⟨-4194304, -151⟩ := by decide

/-- **Code 70** (32-bit two's complement fixed point, binary point in the middle): `twos 32 u / 2^16`. -/
theorem from70_decode_spec (u : Nat) (hu : u < 2 ^ 32) (w : Int) (hw : IsArg 32 u w) :
    ∃ d, from70 w = .fin d ∧ d.val = (twos 32 u : ℚ) * (2 : ℚ) ^ (-16 : ℤ) := by
  refine ⟨_, from70_dy w, ?_⟩
  rw [fld_arg 32 u 0 32 w (by omega) hu hw (by omega)]
  have : fld u 0 32 = u := by unfold fld; simp only [Nat.pow_zero, Nat.div_one]; exact Nat.mod_eq_of_lt hu
  rw [this, Dy.val_mk]

/-- **Code 70 through `RepCode.readBytes`** (the public read path: `struct.unpack('>I')`, then the Cython
`from70(unsigned int)`): every four bytes decode to `twos32(word)/2^16`, negative values included
(the former finding `C07-readBytes70-negative`, fixed in /repo by `STRUCT_RC_70 = STRUCT_RC_UINT_4`). -/
theorem readBytes70_decode_spec (b0 b1 b2 b3 : Nat) (h0 : b0 < 256) (h1 : b1 < 256) (h2 : b2 < 256) (h3 : b3 < 256) :
    ∃ d, readBytes 70 [b0, b1, b2, b3] = .ok (.flt (.fin d)) ∧
      d.val = (twos 32 (((b0 * 256 + b1) * 256 + b2) * 256 + b3) : ℚ) * (2 : ℚ) ^ (-16 : ℤ) := by
  have hu : ((b0 * 256 + b1) * 256 + b2) * 256 + b3 < 2 ^ 32 := by simp only [Nat.reducePow]; omega
  obtain ⟨d, hd, hv⟩ := from70_decode_spec _ hu _ (Or.inl rfl)
  refine ⟨d, ?_, hv⟩
  have hw : beWord [b0, b1, b2, b3] = ((b0 * 256 + b1) * 256 + b2) * 256 + b3 := by
    simp [beWord]
  have hok : cArgOk 70 ((((b0 * 256 + b1) * 256 + b2) * 256 + b3 : Nat) : Int) = true := by
    simp only [Nat.reducePow] at hu
    simp only [cArgOk, decide_eq_true_eq]
    omega
  simp only [readBytes, lisSize, structSigned, rcFrom, cFrom, pFrom, hw]
  push_cast at hok hd ⊢
  simp [hok, hd]

example : readBytes 70 [0xFF, 0x66, 0xC0, 0x00] = .ok (.flt (.fin ⟨-10043392, -16⟩)) ∧
    readBytes 70 [0x00, 0x99, 0x40, 0x00] = .ok (.flt (.fin ⟨10043392, -16⟩)) := ⟨by rfl, by rfl⟩

/-! ## RP66V1 Appendix B -/

/-- **UVARI, decode_spec + consumes_exactly**: 1, 2 or 4 bytes selected by the two top bits of the first byte; the
value is the remaining 7, 14 or 30 bits; `IndexError` exactly when the bytes of the selected form are not all there. -/
theorem uvari_decode_spec (bs : List Nat) (i : Nat) (wf : Bytes.wf bs) :
    UVARI bs i = match uvariSpec bs i with
      | some (v, n) => .ok (v, i + n)
      | none => .error .indexError := uvari_spec bs i wf

example : UVARI [0xC0, 0, 0, 1, 0xFF] 0 = .ok (1, 4) ∧ UVARI [7, 0x81, 0x02] 1 = .ok (258, 3) := ⟨by rfl, by rfl⟩

/-- **UVARI / ORIGIN, len_helper_agrees**: whenever decoding succeeds, `UVARI_len` is the number of bytes consumed. -/
theorem uvari_len_helper_agrees (bs : List Nat) (i v j : Nat) (wf : Bytes.wf bs) (h : UVARI bs i = .ok (v, j)) :
    UVARI_len bs (i : Int) = .ok (j - i) ∧ ORIGIN_len bs (i : Int) = .ok (j - i) ∧ i < j ∧ j ≤ bs.length := by
  obtain ⟨h1, h2, h3⟩ := uvari_len_agrees bs i v j wf h
  exact ⟨h1, h1, h2, h3⟩

/-- **IDENT / UNITS, consumes_exactly + len_helper_agrees**: a length byte `n` and the next `n` bytes; the helper
returns `1 + n`. -/
theorem ident_consumes_exactly (bs : List Nat) (i j : Nat) (v : List Nat) (h : IDENT bs i = .ok (v, j)) :
    bs[i]? = some v.length ∧ j = i + 1 + v.length ∧ j ≤ bs.length ∧ v = (bs.drop (i + 1)).take v.length ∧
      IDENT_len bs (i : Int) = .ok (j - i) ∧ UNITS bs i = .ok (v, j) := by
  obtain ⟨h1, h2, h3, h4, h5⟩ := ident_consumes bs i j v h
  exact ⟨h1, h2, h3, h4, h5, by rw [units_eq_ident]; exact h⟩

example : IDENT [3, 65, 66, 67, 9] 0 = .ok ([65, 66, 67], 4) := by rfl

/-- **OBNAME, len_helper_agrees**: whenever an OBNAME (ORIGIN + USHORT + IDENT) decodes, `OBNAME_len` is the number
of bytes consumed. -/
theorem obname_len_helper_agrees (bs : List Nat) (i j : Nat) (o : ObName) (wf : Bytes.wf bs)
    (h : OBNAME bs i = .ok (o, j)) : OBNAME_len bs (i : Int) = .ok (j - i) ∧ i + 3 ≤ j ∧ j ≤ bs.length :=
  obname_len_agrees bs i j o wf h

example : OBNAME [0x80, 1, 2, 3, 0x41, 0x42, 0x43, 0x44] 0 = .ok (⟨1, 2, [0x41, 0x42, 0x43]⟩, 7) := by rfl

/-- **Integer codes SSHORT, USHORT, STATUS, SNORM, UNORM, SLONG, ULONG — decode_spec + consumes_exactly**: the `n`
bytes at the index, big-endian, two's complement for the signed codes; exactly `n` bytes consumed; `IndexError`
exactly when fewer than `n` bytes remain (`byteAt bs k` is byte `k` of the buffer). -/
theorem rp66_int_decode_spec (bs : List Nat) (i : Nat) (wf : Bytes.wf bs) :
    SSHORT bs i = (if i + 1 ≤ bs.length then .ok (twos 8 (byteAt bs i), i + 1) else .error .indexError) ∧
    USHORT bs i = (if i + 1 ≤ bs.length then .ok (byteAt bs i, i + 1) else .error .indexError) ∧
    STATUS bs i = USHORT bs i ∧
    SNORM bs i = (if i + 2 ≤ bs.length then .ok (twos 16 (byteAt bs i * 256 + byteAt bs (i + 1)), i + 2)
      else .error .indexError) ∧
    UNORM bs i = (if i + 2 ≤ bs.length then .ok (byteAt bs i * 256 + byteAt bs (i + 1), i + 2)
      else .error .indexError) ∧
    SLONG bs i = (if i + 4 ≤ bs.length then
        .ok (twos 32 (((byteAt bs i * 256 + byteAt bs (i + 1)) * 256 + byteAt bs (i + 2)) * 256 + byteAt bs (i + 3)), i + 4)
      else .error .indexError) ∧
    ULONG bs i = (if i + 4 ≤ bs.length then
        .ok (((byteAt bs i * 256 + byteAt bs (i + 1)) * 256 + byteAt bs (i + 2)) * 256 + byteAt bs (i + 3), i + 4)
      else .error .indexError) :=
  ⟨sshort_spec bs i, (ushort_spec bs i).1, (ushort_spec bs i).2, snorm_spec bs i, unorm_spec bs i wf,
    (slong_ulong_spec bs i).1, (slong_ulong_spec bs i).2⟩

example : SNORM [9, 0xFF, 0x67] 1 = .ok (-153, 3) ∧ SLONG [0xFF, 0xFF, 0xFF, 0x67] 0 = .ok (-153, 4) ∧
    SSHORT [0x99] 0 = .ok (-103, 1) ∧ ULONG [0, 0, 0, 0x99] 1 = .error .indexError := ⟨by rfl, by rfl, by rfl, by rfl⟩

/-- **DTIME, decode_spec + consumes_exactly** (B.21): eight bytes — year − 1900, time zone (high nibble) and month
(low nibble), day, hour, minute, second, milliseconds (2 bytes, big-endian); `IndexError` exactly when fewer than
eight bytes remain. -/
theorem dtime_decode_spec (bs : List Nat) (i : Nat) (wf : Bytes.wf bs) :
    DTIME bs i = if i + 8 ≤ bs.length then
        .ok (⟨byteAt bs i + 1900, byteAt bs (i + 1) / 16, byteAt bs (i + 1) % 16, byteAt bs (i + 2), byteAt bs (i + 3),
              byteAt bs (i + 4), byteAt bs (i + 5), byteAt bs (i + 6) * 256 + byteAt bs (i + 7)⟩, i + 8)
      else .error .indexError := dtime_spec bs i wf

example : DTIME [0x57, 0x14, 0x13, 0x0F, 0x14, 0x2B, 0x00, 0x21] 0 = .ok (⟨1987, 1, 4, 19, 15, 20, 43, 33⟩, 8) := by rfl

/-- **ASCII, decode_spec** (B.20): a UVARI length `n` (occupying `k` bytes) and the next `n` bytes. -/
theorem ascii_decode_spec (bs : List Nat) (i : Nat) (wf : Bytes.wf bs) :
    ASCII bs i = match uvariSpec bs i with
      | none => .error .indexError
      | some (n, k) => if n > bs.length - (i + k) then .error .indexError
                       else .ok ((bs.drop (i + k)).take n, i + k + n) := ascii_spec bs i wf

/-- **ASCII, consumes_exactly**: a decoded string of length `n` consumed the `k` bytes of its UVARI length
(`k = UVARI_len`) plus `n`, all inside the buffer. -/
theorem ascii_consumes_exactly (bs : List Nat) (i j : Nat) (v : List Nat) (wf : Bytes.wf bs)
    (h : ASCII bs i = .ok (v, j)) :
    ∃ k, uvariSpec bs i = some (v.length, k) ∧ j = i + k + v.length ∧ j ≤ bs.length ∧
      v = (bs.drop (i + k)).take v.length ∧ UVARI_len bs (i : Int) = .ok k := ascii_consumes bs i j v wf h

example : ASCII [0x80, 0x03, 65, 66, 67, 9] 0 = .ok ([65, 66, 67], 5) := by rfl

/-- **IDENT / UNITS, decode_spec**: `UNITS` is read exactly like `IDENT` (disallowed characters are only logged):
one length byte `n`, then `n` bytes; `IndexError` exactly when they are not all there. -/
theorem ident_units_decode_spec (bs : List Nat) (i : Nat) :
    UNITS bs i = IDENT bs i ∧
    IDENT bs i = (match bs[i]? with
      | none => .error .indexError
      | some n => if n > bs.length - (i + 1) then .error .indexError
                  else .ok ((bs.drop (i + 1)).take n, i + 1 + n)) := ⟨rfl, ident_spec bs i⟩

/-- **OBNAME, decode_spec + consumes_exactly** (B.23): ORIGIN (a UVARI of `k` bytes), copy number (one byte),
IDENT; consumed `k + 1 + 1 + len(identifier)` bytes, all inside the buffer. -/
theorem obname_consumes_exactly (bs : List Nat) (i j : Nat) (o : ObName) (wf : Bytes.wf bs)
    (h : OBNAME bs i = .ok (o, j)) :
    ∃ k, uvariSpec bs i = some (o.o, k) ∧ bs[i + k]? = some o.c ∧ IDENT bs (i + k + 1) = .ok (o.i, j) ∧
      j = i + k + 1 + 1 + o.i.length ∧ j ≤ bs.length := obname_consumes bs i j o wf h

/-- **OBJREF, decode_spec + consumes_exactly** (B.24): an IDENT (object type) followed by an OBNAME; the bytes
consumed are `IDENT_len` plus `OBNAME_len` at the following index. -/
theorem objref_consumes_exactly (bs : List Nat) (i j : Nat) (t : List Nat) (o : ObName) (wf : Bytes.wf bs)
    (h : OBJREF bs i = .ok ((t, o), j)) :
    IDENT bs i = .ok (t, i + 1 + t.length) ∧ OBNAME bs (i + 1 + t.length) = .ok (o, j) ∧
      IDENT_len bs (i : Int) = .ok (1 + t.length) ∧
      OBNAME_len bs ((i + 1 + t.length : Nat) : Int) = .ok (j - (i + 1 + t.length)) ∧ j ≤ bs.length :=
  objref_consumes bs i j t o wf h

example : OBJREF [2, 70, 71, 0x05, 1, 1, 72] 0 = .ok (([70, 71], ⟨5, 1, [72]⟩), 7) := by rfl

/-- **FSINGL / FDOUBL, decode_spec + consumes_exactly**: four (eight) bytes, big-endian, IEEE-754 fields
(sign, biased exponent, fraction) incl. subnormals, signed zero, infinities and NaN. -/
theorem fsingl_fdoubl_decode_spec (bs : List Nat) (i : Nat) :
    FSINGL bs i = (if 4 > bs.length - i then .error .indexError else
      .ok (let w := beWord ((bs.drop i).take 4); ieeeSpec 8 23 (fld w 31 1) (fld w 23 8) (fld w 0 23), i + 4)) ∧
    FDOUBL bs i = (if 8 > bs.length - i then .error .indexError else
      .ok (let w := beWord ((bs.drop i).take 8); ieeeSpec 11 52 (fld w 63 1) (fld w 52 11) (fld w 0 52), i + 8)) := by
  unfold FSINGL FDOUBL ldChunk
  constructor
  · split
    · rfl
    · simp only [bind, Except.bind, pure, Except.pure, ieee_fields]
  · split
    · rfl
    · simp only [bind, Except.bind, pure, Except.pure, ieee_fields]

example : FSINGL [0x43, 0x19, 0, 0] 0 = .ok (.fin ⟨10027008, -16⟩, 4) := by rfl

/-- **ISINGL (IBM System/360 single) and `ReadBIT.bytes_to_float`**: `(-1)^S · F/2^24 · 16^(E-64)`. -/
theorem isingl_decode_spec (b0 b1 b2 b3 : Nat) (h0 : b0 < 256) (h1 : b1 < 256) (h2 : b2 < 256) (h3 : b3 < 256) :
    ISINGL [b0, b1, b2, b3] 0 = .ok (ibm4 b0 b1 b2 b3, 4) ∧ ibmBytes [b0, b1, b2, b3] = .ok (ibm4 b0 b1 b2 b3) ∧
    ibm4 b0 b1 b2 b3 =
      (let F := b1 * 65536 + b2 * 256 + b3
       let E : Int := (b0 % 128 : Nat)
       if b0 < 128 then .fin ⟨F, 4 * (E - 64) - 24⟩
       else if F = 0 then .negZero else .fin ⟨-(F : Int), 4 * (E - 64) - 24⟩) :=
  ⟨by rfl, by rfl, ibm4_spec b0 b1 b2 b3 h0 h1 h2 h3⟩

example : ISINGL [0xC2, 0x76, 0xA0, 0x00] 0 = .ok (.fin ⟨-7774208, -16⟩, 4) := by rfl

/-- **VSINGL, decode_spec as the repository codes it** (DESIGN F9: the fraction has weight `2^-23`, following the
repository's / RP66V1's printed vector `0C 44 00 80 → 153`; a VAX F_floating fraction has weight `2^-24`):
`(-1)^S · (0.5 + F/2^23) · 2^(E-128)`, `0` when `E = 0 ∧ S = 0`; four bytes consumed. -/
theorem vsingl_decode_spec (b0 b1 b2 b3 : Nat) (h0 : b0 < 256) (h1 : b1 < 256) (h2 : b2 < 256) (h3 : b3 < 256) :
    VSINGL [b0, b1, b2, b3] 0 = .ok (vax4 b0 b1 b2 b3, 4) ∧
    vax4 b0 b1 b2 b3 =
      (let F := (b0 % 128) * 65536 + b3 * 256 + b2
       let E := (b1 % 128) * 2 + b0 / 128
       if E = 0 ∧ b1 < 128 then .fin ⟨0, 0⟩
       else .fin ⟨if b1 < 128 then ((4194304 + F : Nat) : Int) else -((4194304 + F : Nat) : Int), (E : Int) - 151⟩) :=
  ⟨by rfl, vax4_spec b0 b1 b2 b3 h0 h1 h2 h3⟩

example : VSINGL [0x0C, 0x44, 0x00, 0x80] 0 = .ok (.fin ⟨5013504, -15⟩, 4) := by rfl   -- 153

/-! ## Output ranges (for ALL arguments, no hypothesis on the word) -/

/-- **Codes 56, 66, 77, output range**: whatever Python int reaches the decoder (any width, either sign), the result is
a value of the code: a signed char for 56, an unsigned byte for 66 and 77.  (A decoder that forgot the mask, or
sign-extended from the wrong bit, leaves the range for some word.) -/
theorem from56_66_77_range (w : Int) :
    (-128 ≤ from56 w ∧ from56 w ≤ 127) ∧ (0 ≤ from66 w ∧ from66 w ≤ 255) ∧ (0 ≤ from77 w ∧ from77 w ≤ 255) := by
  rw [from56_spec, from66_spec, from77_spec]
  have hb : fld (low64 w) 0 8 < 256 := by unfold fld; omega
  generalize fld (low64 w) 0 8 = x at hb
  refine ⟨?_, by omega, by omega⟩
  unfold twos
  split <;> omega

example : from56 0x80 = -128 ∧ from56 0x17F = 127 ∧ from66 (-1) = 255 := by decide

/-- **UVARI, width and value range**: a successful decode consumed 1, 2 or 4 bytes and the value fits the 7, 14 or
30 bits of that form — never more (so `UVARI` can never report a length that overruns a 2^30-byte record). -/
theorem uvari_value_bound (bs : List Nat) (i v j : Nat) (wf : Bytes.wf bs) (h : UVARI bs i = .ok (v, j)) :
    (j = i + 1 ∧ v < 2 ^ 7) ∨ (j = i + 2 ∧ v < 2 ^ 14) ∨ (j = i + 4 ∧ v < 2 ^ 30) := by
  rw [uvari_spec bs i wf] at h
  unfold uvariSpec at h
  cases h0 : bs[i]? with
  | none => simp [h0] at h
  | some c =>
    have hc := wf_get wf h0
    simp only [h0] at h
    by_cases h1 : c < 128
    · simp only [h1, if_true] at h
      cases h; exact .inl ⟨rfl, by omega⟩
    · by_cases h2 : c < 192
      · simp only [h1, h2, if_false, if_true] at h
        cases h1' : bs[i + 1]? with
        | none => simp [h1'] at h
        | some b =>
          have hb := wf_get wf h1'
          simp only [h1'] at h
          cases h; exact .inr (.inl ⟨rfl, by omega⟩)
      · simp only [h1, h2, if_false] at h
        cases h1' : bs[i + 1]? with
        | none => simp [h1'] at h
        | some b1 =>
          cases h2' : bs[i + 2]? with
          | none => simp [h1', h2'] at h
          | some b2 =>
            cases h3' : bs[i + 3]? with
            | none => simp [h1', h2', h3'] at h
            | some b3 =>
              have hb1 := wf_get wf h1'
              have hb2 := wf_get wf h2'
              have hb3 := wf_get wf h3'
              simp only [h1', h2', h3'] at h
              cases h; exact .inr (.inr ⟨rfl, by omega⟩)

example : UVARI [0xFF, 0xFF, 0xFF, 0xFF] 0 = .ok (2 ^ 30 - 1, 4) ∧ UVARI [0xBF, 0xFF] 0 = .ok (2 ^ 14 - 1, 2) :=
  ⟨by rfl, by rfl⟩

end TD.C07
