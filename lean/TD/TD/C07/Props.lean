import TD.C07.Lemmas

namespace TD.C07

theorem from66_spec (w : Int) (h0 : 0 ≤ w) (h1 : w < 256) : from66 w = w := by
  unfold from66 pyAnd
  have : (w % 18446744073709551616).toNat = w.toNat := by omega
  rw [this, show (0xFF : Nat) = 2 ^ 8 - 1 by rfl, Nat.and_two_pow_sub_one_eq_mod]
  omega

end TD.C07
