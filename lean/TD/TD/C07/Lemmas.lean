import TD.C07.Model

/-!
# C07 — helper lemmas (bit masks as div/mod)
-/
namespace TD.C07

/-- a contiguous mask: `x &&& ((2^a - 1) * 2^b)` keeps bits `b … b+a-1`. -/
theorem and_mask (x a b : Nat) : x &&& ((2 ^ a - 1) * 2 ^ b) = (x / 2 ^ b % 2 ^ a) * 2 ^ b := by
  apply Nat.eq_of_testBit_eq
  intro i
  simp only [Nat.testBit_and, Nat.testBit_mul_two_pow, Nat.testBit_two_pow_sub_one, Nat.testBit_mod_two_pow,
    Nat.testBit_div_two_pow]
  by_cases h : b ≤ i
  · simp [h]
    by_cases h2 : i - b < a
    · simp [h2]
    · simp [h2]
  · simp [h]

end TD.C07
