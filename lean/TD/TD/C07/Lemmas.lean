import TD.C07.Lis
