import TD.C07.To68
import TD.C07.Canon68
import TD.C07.Rp66
import TD.C07.Rp66b
import Mathlib.Algebra.Order.Field.Rat
import Mathlib.Algebra.Order.Field.Power
import Mathlib.Algebra.Order.Ring.Abs
import Mathlib.Data.Int.Cast.Lemmas
import Mathlib.Data.Nat.Cast.Order.Ring
import Mathlib.Tactic.Ring
import Mathlib.Tactic.Positivity
import Mathlib.Tactic.Linarith
import Mathlib.Tactic.NormNum

/-!
# C07 — the rational value of a dyadic (Mathlib: ℚ, zpow) and the bridge from the integer-level lemmas
-/
namespace TD.C07

/-- the rational number a dyadic stands for -/
def Dy.val (d : Dy) : ℚ := (d.m : ℚ) * (2 : ℚ) ^ d.e

theorem Dy.Eqv.val_eq {d₁ d₂ : Dy} (h : Dy.Eqv d₁ d₂) : d₁.val = d₂.val := by
  obtain ⟨a, b, hm, he⟩ := h
  unfold Dy.val
  have h2 : (2 : ℚ) ≠ 0 := by norm_num
  have e1 : d₁.e = (d₂.e - b) + a := by omega
  have e2 : d₂.e = (d₂.e - b) + b := by omega
  have hmq : (d₁.m : ℚ) * (2 : ℚ) ^ a = (d₂.m : ℚ) * (2 : ℚ) ^ b := by exact_mod_cast hm
  rw [e1, zpow_add₀ h2, zpow_natCast]
  conv_rhs => rw [e2, zpow_add₀ h2, zpow_natCast]
  calc (d₁.m : ℚ) * ((2 : ℚ) ^ (d₂.e - b) * 2 ^ a) = ((d₁.m : ℚ) * 2 ^ a) * (2 : ℚ) ^ (d₂.e - b) := by ring
    _ = ((d₂.m : ℚ) * 2 ^ b) * (2 : ℚ) ^ (d₂.e - b) := by rw [hmq]
    _ = _ := by ring

theorem val_error {m t e : Int} {a b : Nat}
    (h : (t * 2 ^ a - m * 2 ^ b).natAbs * 2 ^ 22 < m.natAbs * 2 ^ b) :
    |(Dy.val ⟨t, e + a - b⟩) - Dy.val ⟨m, e⟩| < |Dy.val ⟨m, e⟩| * (2 : ℚ) ^ (-22 : ℤ) := by
  obtain ⟨E, rfl⟩ : ∃ E : Int, e = E + b := ⟨e - b, by omega⟩
  have e1 : E + (b : Int) + a - b = E + a := by omega
  unfold Dy.val
  simp only [e1]
  have h2 : (2 : ℚ) ≠ 0 := by norm_num
  have hpos : (0 : ℚ) < (2 : ℚ) ^ E := by positivity
  have lhs : (t : ℚ) * (2 : ℚ) ^ (E + (a : Int)) - (m : ℚ) * (2 : ℚ) ^ (E + (b : Int))
      = (((t * 2 ^ a - m * 2 ^ b : Int) : ℚ)) * (2 : ℚ) ^ E := by
    rw [zpow_add₀ h2, zpow_add₀ h2, zpow_natCast, zpow_natCast]
    push_cast; ring
  have rhs : (m : ℚ) * (2 : ℚ) ^ (E + (b : Int)) = ((m * 2 ^ b : Int) : ℚ) * (2 : ℚ) ^ E := by
    rw [zpow_add₀ h2, zpow_natCast]
    push_cast; ring
  rw [lhs, rhs, abs_mul, abs_mul, abs_of_pos hpos]
  have hq : ((t * 2 ^ a - m * 2 ^ b : Int).natAbs : ℚ) * 2 ^ 22 < ((m.natAbs * 2 ^ b : Nat) : ℚ) := by
    exact_mod_cast h
  rw [Nat.cast_natAbs, Int.cast_abs] at hq
  have hm : ((m.natAbs * 2 ^ b : Nat) : ℚ) = |((m * 2 ^ b : Int) : ℚ)| := by
    push_cast
    rw [abs_mul, abs_of_pos (by positivity : (0 : ℚ) < 2 ^ b), Nat.cast_natAbs, Int.cast_abs]
  rw [hm] at hq
  have h22 : (2 : ℚ) ^ (-22 : ℤ) = 1 / 2 ^ 22 := by norm_num
  rw [h22]
  have : |((t * 2 ^ a - m * 2 ^ b : Int) : ℚ)| < |((m * 2 ^ b : Int) : ℚ)| * (1 / 2 ^ 22) := by
    rw [mul_one_div, lt_div_iff₀ (by positivity)]; exact hq
  calc _ < |((m * 2 ^ b : Int) : ℚ)| * (1 / 2 ^ 22) * 2 ^ E := by
        exact mul_lt_mul_of_pos_right this hpos
    _ = _ := by ring

theorem Dy.val_mk (m e : Int) : Dy.val ⟨m, e⟩ = (m : ℚ) * (2 : ℚ) ^ e := rfl

/-- scaling the mantissa by `2^k` and lowering the exponent by `k` does not change the value -/
theorem Dy.val_scale (m e : Int) (k : Nat) : Dy.val ⟨m * 2 ^ k, e - k⟩ = Dy.val ⟨m, e⟩ :=
  Dy.Eqv.val_eq ⟨0, k, by simp, by simp⟩

/-- the argument of a decoder: the unsigned word itself or the two's complement value `struct` unpacks -/
theorem fld_arg (bits u lo n : Nat) (w : Int) (hb : 1 ≤ bits ∧ bits ≤ 64) (hu : u < 2 ^ bits)
    (hw : w = (u : Int) ∨ w = toSigned bits u) (h : lo + n ≤ bits) : fld (low64 w) lo n = fld u lo n := by
  rcases hw with rfl | rfl
  · rw [low64_natCast _ (Nat.lt_of_lt_of_le hu (Nat.pow_le_pow_right (by omega) hb.2))]
  · rw [← fld_mod _ lo n bits h, low64_toSigned bits u hb hu]

end TD.C07
