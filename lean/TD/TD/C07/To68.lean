import TD.C07.Lis

/-!
# C07 — the code-68 encoder (core Lean only)
-/
namespace TD.C07

theorem bitLen_bounds (x : Nat) (hx : x ≠ 0) : 2 ^ (bitLen x - 1) ≤ x ∧ x < 2 ^ bitLen x := by
  unfold bitLen
  rw [if_neg hx]
  exact ⟨by simpa using Nat.log2_self_le hx, Nat.lt_log2_self⟩

theorem bitLen_pos (x : Nat) (hx : x ≠ 0) : 1 ≤ bitLen x := by
  unfold bitLen; rw [if_neg hx]; omega

/-- the word assembled by the shifts and ors of `to68` -/
theorem word_assemble (s E M : Nat) (hE : E < 256) (hM : M < 8388608) :
    (((s <<< 8) ||| E) <<< 23) ||| M = s * 2147483648 + E * 8388608 + M := by
  rw [← Nat.shiftLeft_add_eq_or_of_lt (by simpa using hM), ← Nat.shiftLeft_add_eq_or_of_lt (by simpa using hE)]
  simp only [Nat.shiftLeft_eq, Nat.reducePow]
  omega

theorem fld_assembled (s E M : Nat) (hs : s ≤ 1) (hE : E < 256) (hM : M < 8388608) :
    fld (s * 2147483648 + E * 8388608 + M) 31 1 = s ∧ fld (s * 2147483648 + E * 8388608 + M) 23 8 = E ∧
      fld (s * 2147483648 + E * 8388608 + M) 0 23 = M := by
  unfold fld
  simp only [Nat.reducePow, Nat.div_one]
  omega

/-- decoding an assembled word gives back the fields -/
theorem from68_assembled (s E M : Nat) (hs : s ≤ 1) (hE : E < 256) (hM : M < 8388608) :
    from68 ((s * 2147483648 + E * 8388608 + M : Nat) : Int) = .fin (dec68 s E M) := by
  rw [from68_dy, low64_natCast _ (by simp only [Nat.reducePow]; omega)]
  obtain ⟨h1, h2, h3⟩ := fld_assembled s E M hs hE hM
  rw [h1, h2, h3]

/-- magnitude of `int(mant * 2^23)` for a mantissa magnitude `A` of `n` bits -/
def tmag (A n : Nat) : Nat := if n ≤ 23 then A * 2 ^ (23 - n) else A / 2 ^ (n - 23)

theorem tmag_bounds (A n : Nat) (hn : 1 ≤ n) (h1 : 2 ^ (n - 1) ≤ A) (h2 : A < 2 ^ n) :
    2 ^ 22 ≤ tmag A n ∧ tmag A n < 2 ^ 23 := by
  unfold tmag
  split
  · rename_i h
    have e1 : 2 ^ (n - 1) * 2 ^ (23 - n) = 2 ^ 22 := by rw [← Nat.pow_add]; congr 1; omega
    have e2 : 2 ^ n * 2 ^ (23 - n) = 2 ^ 23 := by rw [← Nat.pow_add]; congr 1; omega
    have hp : 0 < 2 ^ (23 - n) := Nat.pos_of_ne_zero (by simp)
    constructor
    · rw [← e1]; exact Nat.mul_le_mul_right _ h1
    · rw [← e2]; exact Nat.mul_lt_mul_of_pos_right h2 hp
  · rename_i h
    have e1 : 2 ^ (n - 1) = 2 ^ 22 * 2 ^ (n - 23) := by rw [← Nat.pow_add]; congr 1; omega
    have e2 : 2 ^ n = 2 ^ 23 * 2 ^ (n - 23) := by rw [← Nat.pow_add]; congr 1; omega
    have hp : 0 < 2 ^ (n - 23) := Nat.pos_of_ne_zero (by simp)
    constructor
    · rw [Nat.le_div_iff_mul_le hp, ← e1]; exact h1
    · rw [Nat.div_lt_iff_lt_mul hp, ← e2]; exact h2

/-- `int()` of a positive / negative value: truncation of the magnitude -/
theorem truncShift_pos (A n : Nat) : truncShift (A : Int) (23 - (n : Int)) = tmag A n := by
  unfold truncShift tmag
  split
  · rename_i h
    have : n ≤ 23 := by omega
    rw [if_pos this]
    have : (23 - (n : Int)).toNat = 23 - n := by omega
    rw [this]; simp
  · rename_i h
    have hn : ¬ n ≤ 23 := by omega
    rw [if_neg hn]
    have : (-(23 - (n : Int))).toNat = n - 23 := by omega
    rw [this, Int.tdiv_eq_ediv_of_nonneg (by omega)]
    simp

theorem truncShift_neg (A n : Nat) : truncShift (-(A : Int)) (23 - (n : Int)) = -(tmag A n : Int) := by
  unfold truncShift tmag
  split
  · rename_i h
    have : n ≤ 23 := by omega
    rw [if_pos this]
    have : (23 - (n : Int)).toNat = 23 - n := by omega
    rw [this]; simp [Int.neg_mul]
  · rename_i h
    have hn : ¬ n ≤ 23 := by omega
    rw [if_neg hn]
    have : (-(23 - (n : Int))).toNat = n - 23 := by omega
    rw [this, Int.neg_tdiv, Int.tdiv_eq_ediv_of_nonneg (by omega)]
    simp

/-- the truncation error of the 23-bit mantissa: exact up to 23 bits, else below one part in `2^22` -/
theorem tmag_error (A n : Nat) (hn : 1 ≤ n) (h1 : 2 ^ (n - 1) ≤ A) (h2 : A < 2 ^ n) :
    (n ≤ 23 ∧ tmag A n = A * 2 ^ (23 - n)) ∨
    (23 < n ∧ tmag A n * 2 ^ (n - 23) ≤ A ∧ (A - tmag A n * 2 ^ (n - 23)) * 2 ^ 22 < A) := by
  unfold tmag
  split
  · rename_i h; exact Or.inl ⟨h, rfl⟩
  · rename_i h
    right
    have hp : 0 < 2 ^ (n - 23) := Nat.pos_of_ne_zero (by simp)
    have e1 : 2 ^ (n - 1) = 2 ^ (n - 23) * 2 ^ 22 := by rw [← Nat.pow_add]; congr 1; omega
    have hdm := Nat.div_add_mod A (2 ^ (n - 23))
    have hml := Nat.mod_lt A hp
    refine ⟨by omega, ?_, ?_⟩
    · rw [Nat.mul_comm]; exact Nat.mul_div_le _ _
    · have : A - A / 2 ^ (n - 23) * 2 ^ (n - 23) = A % 2 ^ (n - 23) := by
        rw [Nat.mul_comm]; omega
      rw [this]
      calc A % 2 ^ (n - 23) * 2 ^ 22 < 2 ^ (n - 23) * 2 ^ 22 := Nat.mul_lt_mul_of_pos_right hml (by simp)
        _ = 2 ^ (n - 1) := e1.symm
        _ ≤ A := h1

theorem pyAnd_ff (x : Int) : pyAnd x 0xFF = (x % 256).toNat := by
  rw [pyAnd_fld x 8 0 0xFF rfl]
  unfold fld low64
  simp only [Nat.reducePow, Nat.div_one, Nat.mul_one]
  omega

theorem pyAnd_m23 (x : Int) : pyAnd x 0x007FFFFF = (x % 8388608).toNat := by
  rw [pyAnd_fld x 23 0 0x007FFFFF rfl]
  unfold fld low64
  simp only [Nat.reducePow, Nat.div_one, Nat.mul_one]
  omega

/-- `to68` of a positive value in the normal range -/
theorem to68_normal_pos (A : Nat) (e : Int) (hA : A ≠ 0) (hlo : -128 ≤ e + bitLen A) (hhi : e + bitLen A ≤ 127) :
    to68 (A : Int) e = 0 * 2147483648 + (e + bitLen A + 128).toNat * 8388608 + tmag A (bitLen A) := by
  have hb := bitLen_bounds A hA
  have hbp := bitLen_pos A hA
  have ht := tmag_bounds A (bitLen A) hbp hb.1 hb.2
  unfold to68 frexpExp
  simp only [Int.natAbs_natCast]
  generalize bitLen A = n at *
  have hm0 : ¬ ((A : Int) = 0) := by omega
  have c1 : ¬ (e + (n : Int) ≤ -(128 + 23)) := by omega
  have c2 : ¬ (e + (n : Int) > 127) := by omega
  have c3 : ¬ (e + (n : Int) < -128) := by omega
  have c4 : ¬ ((A : Int) < 0) := by omega
  simp only [hm0, c1, c2, c3, c4, if_false, Int.sub_zero]
  rw [truncShift_pos, pyAnd_ff, pyAnd_m23, word_assemble _ _ _ (by omega) (by simp only [Nat.reducePow] at ht; omega)]
  simp only [Nat.reducePow] at ht
  have h1 : ((e + (n : Int) - 128) % 256).toNat = (e + n + 128).toNat := by omega
  have h2 : (((tmag A n : Nat) : Int) % 8388608).toNat = tmag A n := by omega
  rw [h1, h2]

/-- `to68` of a negative value in the normal range -/
theorem to68_normal_neg (A : Nat) (e : Int) (hA : A ≠ 0) (hlo : -128 ≤ e + bitLen A) (hhi : e + bitLen A ≤ 127) :
    to68 (-(A : Int)) e = 1 * 2147483648 + (127 - (e + bitLen A)).toNat * 8388608 + (8388608 - tmag A (bitLen A)) := by
  have hb := bitLen_bounds A hA
  have hbp := bitLen_pos A hA
  have ht := tmag_bounds A (bitLen A) hbp hb.1 hb.2
  unfold to68 frexpExp
  simp only [Int.natAbs_neg, Int.natAbs_natCast]
  generalize bitLen A = n at *
  have hm0 : ¬ (-(A : Int) = 0) := by omega
  have c1 : ¬ (e + (n : Int) ≤ -(128 + 23)) := by omega
  have c2 : ¬ (e + (n : Int) > 127) := by omega
  have c3 : ¬ (e + (n : Int) < -128) := by omega
  have c4 : (-(A : Int) < 0) := by omega
  simp only [hm0, c1, c2, c3, c4, if_false, if_true, Int.sub_zero]
  rw [truncShift_neg, pyAnd_ff, pyAnd_m23, word_assemble _ _ _ (by omega) (by omega)]
  simp only [Nat.reducePow] at ht
  have h1 : ((127 - (e + (n : Int))) % 256).toNat = (127 - (e + n)).toNat := by omega
  have h2 : ((-((tmag A n : Nat) : Int)) % 8388608).toNat = 8388608 - tmag A n := by omega
  rw [h1, h2]

/-- decoding the encoding of a value in the normal range: the truncated mantissa at exponent `exp - 23` -/
theorem from68_to68_normal_pos (A : Nat) (e : Int) (hA : A ≠ 0) (hlo : -128 ≤ e + bitLen A) (hhi : e + bitLen A ≤ 127) :
    from68 (to68 (A : Int) e : Nat) = .fin ⟨tmag A (bitLen A), e + bitLen A - 23⟩ := by
  have hb := bitLen_bounds A hA
  have ht := tmag_bounds A (bitLen A) (bitLen_pos A hA) hb.1 hb.2
  simp only [Nat.reducePow] at ht
  rw [to68_normal_pos A e hA hlo hhi, from68_assembled _ _ _ (by omega) (by omega) (by omega)]
  unfold dec68
  simp only [Nat.zero_ne_one, if_false, FV.fin.injEq, Dy.mk.injEq, true_and]
  omega

theorem from68_to68_normal_neg (A : Nat) (e : Int) (hA : A ≠ 0) (hlo : -128 ≤ e + bitLen A) (hhi : e + bitLen A ≤ 127) :
    from68 (to68 (-(A : Int)) e : Nat) = .fin ⟨-(tmag A (bitLen A) : Int), e + bitLen A - 23⟩ := by
  have hb := bitLen_bounds A hA
  have ht := tmag_bounds A (bitLen A) (bitLen_pos A hA) hb.1 hb.2
  simp only [Nat.reducePow] at ht
  rw [to68_normal_neg A e hA hlo hhi, from68_assembled _ _ _ (by omega) (by omega) (by omega)]
  unfold dec68
  simp only [if_true, FV.fin.injEq, Dy.mk.injEq]
  omega

/-! ### below the normal range (depressed mantissa), exact when `e ≥ -151` -/

theorem truncShift_nonneg (m : Int) (s : Int) (hs : 0 ≤ s) : truncShift m s = m * ((2 ^ s.toNat : Nat) : Int) := by
  unfold truncShift; rw [if_pos hs]

theorem denormal_bound (A : Nat) (e : Int) (hA : A ≠ 0) (h151 : 0 ≤ e + 151) (hhi : e + bitLen A < -128) :
    1 ≤ A * 2 ^ (e + 151).toNat ∧ A * 2 ^ (e + 151).toNat < 4194304 := by
  have hb := bitLen_bounds A hA
  generalize bitLen A = n at *
  generalize hk : (e + 151).toNat = k
  have hp : 0 < 2 ^ k := Nat.pos_of_ne_zero (by simp)
  constructor
  · exact Nat.mul_pos (Nat.pos_of_ne_zero hA) hp
  · have h1 : A * 2 ^ k < 2 ^ n * 2 ^ k := Nat.mul_lt_mul_of_pos_right hb.2 hp
    have h2 : 2 ^ n * 2 ^ k = 2 ^ (n + k) := (Nat.pow_add 2 n k).symm
    have h3 : 2 ^ (n + k) ≤ 2 ^ 22 := Nat.pow_le_pow_right (by omega) (by omega)
    simp only [Nat.reducePow] at h3
    omega

/-- `to68` of a positive value below the normal range (mantissa depressed to exponent -128), `e ≥ -151` -/
theorem to68_denormal_pos (A : Nat) (e : Int) (hA : A ≠ 0) (h151 : 0 ≤ e + 151) (hhi : e + bitLen A < -128) :
    to68 (A : Int) e = 0 * 2147483648 + 0 * 8388608 + A * 2 ^ (e + 151).toNat := by
  have hT := denormal_bound A e hA h151 hhi
  have hbp := bitLen_pos A hA
  unfold to68 frexpExp
  simp only [Int.natAbs_natCast]
  generalize bitLen A = n at *
  have hm0 : ¬ ((A : Int) = 0) := by omega
  have c1 : ¬ (e + (n : Int) ≤ -(128 + 23)) := by omega
  have c2 : ¬ (e + (n : Int) > 127) := by omega
  have c3 : (e + (n : Int) < -128) := by omega
  have c4 : ¬ ((A : Int) < 0) := by omega
  simp only [hm0, c1, c2, c3, c4, if_false, if_true]
  have hsh : (23 : Int) - n - (-128 - (e + n)) = e + 151 := by omega
  rw [hsh, truncShift_nonneg _ _ h151, pyAnd_ff, pyAnd_m23, word_assemble _ _ _ (by omega) (by omega)]
  have h1 : (((-128 : Int) - 128) % 256).toNat = 0 := by decide
  have h2 : (((A : Int) * ((2 ^ (e + 151).toNat : Nat) : Int)) % 8388608).toNat = A * 2 ^ (e + 151).toNat := by
    rw [← Int.natCast_mul]; omega
  rw [h1, h2]

theorem from68_to68_denormal_pos (A : Nat) (e : Int) (hA : A ≠ 0) (h151 : 0 ≤ e + 151) (hhi : e + bitLen A < -128) :
    from68 (to68 (A : Int) e : Nat) = .fin ⟨((A * 2 ^ (e + 151).toNat : Nat) : Int), -151⟩ := by
  have hT := denormal_bound A e hA h151 hhi
  rw [to68_denormal_pos A e hA h151 hhi, from68_assembled _ _ _ (by omega) (by omega) (by omega)]
  unfold dec68
  simp

/-- `to68` of a negative value below the normal range, `e ≥ -151` -/
theorem to68_denormal_neg (A : Nat) (e : Int) (hA : A ≠ 0) (h151 : 0 ≤ e + 151) (hhi : e + bitLen A < -128) :
    to68 (-(A : Int)) e = 1 * 2147483648 + 255 * 8388608 + (8388608 - A * 2 ^ (e + 151).toNat) := by
  have hT := denormal_bound A e hA h151 hhi
  have hbp := bitLen_pos A hA
  unfold to68 frexpExp
  simp only [Int.natAbs_neg, Int.natAbs_natCast]
  generalize bitLen A = n at *
  have hm0 : ¬ (-(A : Int) = 0) := by omega
  have c1 : ¬ (e + (n : Int) ≤ -(128 + 23)) := by omega
  have c2 : ¬ (e + (n : Int) > 127) := by omega
  have c3 : (e + (n : Int) < -128) := by omega
  have c4 : (-(A : Int) < 0) := by omega
  simp only [hm0, c1, c2, c3, c4, if_false, if_true]
  have hsh : (23 : Int) - n - (-128 - (e + n)) = e + 151 := by omega
  rw [hsh, truncShift_nonneg _ _ h151, pyAnd_ff, pyAnd_m23, word_assemble _ _ _ (by omega) (by omega)]
  have h1 : (((127 : Int) - -128) % 256).toNat = 255 := by decide
  have h2 : ((-(A : Int) * ((2 ^ (e + 151).toNat : Nat) : Int)) % 8388608).toNat = 8388608 - A * 2 ^ (e + 151).toNat := by
    rw [Int.neg_mul, ← Int.natCast_mul]; omega
  rw [h1, h2]

theorem from68_to68_denormal_neg (A : Nat) (e : Int) (hA : A ≠ 0) (h151 : 0 ≤ e + 151) (hhi : e + bitLen A < -128) :
    from68 (to68 (-(A : Int)) e : Nat) = .fin ⟨-((A * 2 ^ (e + 151).toNat : Nat) : Int), -151⟩ := by
  have hT := denormal_bound A e hA h151 hhi
  rw [to68_denormal_neg A e hA h151 hhi, from68_assembled _ _ _ (by omega) (by omega) (by omega)]
  unfold dec68
  simp only [if_true, FV.fin.injEq, Dy.mk.injEq]
  omega

theorem to68_zero (e : Int) : to68 0 e = 0x40000000 := by
  unfold to68 frexpExp
  simp [bitLen, truncShift, pyAnd_ff, pyAnd_m23]

theorem from68_zero_word : from68 ((0x40000000 : Nat) : Int) = .fin ⟨0, -23⟩ := by
  have := from68_assembled 0 128 0 (by omega) (by omega) (by omega)
  simpa [dec68] using this

/-! ### value equivalence of dyadics without leaving the integers -/

/-- `d₁` and `d₂` denote the same number: `m₁·2^e₁ = m₂·2^e₂`, witnessed by a common scaling. -/
def Dy.Eqv (d₁ d₂ : Dy) : Prop := ∃ a b : Nat, d₁.m * 2 ^ a = d₂.m * 2 ^ b ∧ d₁.e - a = d₂.e - b

theorem bitLen_le (A k : Nat) (hA : A ≠ 0) (h : A < 2 ^ k) : bitLen A ≤ k := by
  have hb := bitLen_bounds A hA
  rcases Nat.lt_or_ge k (bitLen A) with hlt | hge
  · have : 2 ^ k ≤ 2 ^ (bitLen A - 1) := Nat.pow_le_pow_right (by omega) (by omega)
    omega
  · exact hge

/-- **core of `from68_to68`**: re-encoding what a word decodes to gives a word that decodes to the same number,
for every sign / exponent / fraction except the single word `0x80000000` (= -2^127). -/
theorem from68_to68_fields (s E F : Nat) (hs : s ≤ 1) (hE : E < 256) (hF : F < 8388608)
    (hne : ¬ (s = 1 ∧ E = 0 ∧ F = 0)) :
    ∃ d, from68 (to68 (dec68 s E F).m (dec68 s E F).e : Nat) = .fin d ∧ Dy.Eqv d (dec68 s E F) := by
  have hs' : s = 0 ∨ s = 1 := by omega
  rcases hs' with rfl | rfl
  · -- positive
    simp only [dec68, Nat.zero_ne_one, if_false]
    by_cases hF0 : F = 0
    · subst hF0
      refine ⟨⟨0, -23⟩, ?_, ?_⟩
      · rw [show ((0 : Nat) : Int) = 0 from rfl, to68_zero]; exact from68_zero_word
      · by_cases h : E ≤ 128
        · exact ⟨128 - E, 0, by simp, by simp only; omega⟩
        · exact ⟨0, E - 128, by simp, by simp only; omega⟩
    · have hn := bitLen_le F 23 hF0 (by simpa using hF)
      have hbp := bitLen_pos F hF0
      by_cases hden : (E : Int) - 151 + bitLen F < -128
      · refine ⟨_, from68_to68_denormal_pos F _ hF0 (by omega) hden, ?_⟩
        refine ⟨0, ((E : Int) - 151 + 151).toNat, ?_, ?_⟩
        · simp only [Int.natCast_mul, Int.natCast_pow, Int.pow_zero, Int.mul_one]; rfl
        · simp only; omega
      · refine ⟨_, from68_to68_normal_pos F _ hF0 (by omega) (by omega), ?_⟩
        refine ⟨0, 23 - bitLen F, ?_, ?_⟩
        · have : tmag F (bitLen F) = F * 2 ^ (23 - bitLen F) := by unfold tmag; rw [if_pos hn]
          simp only [this, Int.natCast_mul, Int.natCast_pow, Int.pow_zero, Int.mul_one]; rfl
        · simp only; omega
  · -- negative: mantissa F - 2^23 = -(2^23 - F)
    simp only [dec68, if_true]
    have hA0 : 8388608 - F ≠ 0 := by omega
    have hmA : (F : Int) - 8388608 = -((8388608 - F : Nat) : Int) := by omega
    rw [hmA]
    generalize hAdef : 8388608 - F = A at *
    have hA24 : A < 2 ^ 24 := by simp only [Nat.reducePow]; omega
    have hn := bitLen_le A 24 hA0 hA24
    have hbp := bitLen_pos A hA0
    have hb := bitLen_bounds A hA0
    -- the overflow branch is only reached by E = 0, F = 0
    have hnov : (104 : Int) - E + bitLen A ≤ 127 := by
      rcases Nat.lt_or_ge (bitLen A) 24 with h | h
      · omega
      · have h24 : bitLen A = 24 := by omega
        rw [h24] at hb
        simp only [Nat.reducePow, Nat.reduceSub] at hb
        have : F = 0 := by omega
        have : E ≠ 0 := fun h0 => hne ⟨rfl, h0, this⟩
        omega
    by_cases hden : (104 : Int) - E + bitLen A < -128
    · refine ⟨_, from68_to68_denormal_neg A _ hA0 (by omega) hden, ?_⟩
      refine ⟨0, ((104 : Int) - E + 151).toNat, ?_, ?_⟩
      · simp only [Int.natCast_mul, Int.natCast_pow, Int.pow_zero, Int.mul_one, Int.neg_mul]; rfl
      · simp only; omega
    · refine ⟨_, from68_to68_normal_neg A _ hA0 (by omega) hnov, ?_⟩
      rcases Nat.lt_or_ge (bitLen A) 24 with h | h
      · refine ⟨0, 23 - bitLen A, ?_, ?_⟩
        · have : tmag A (bitLen A) = A * 2 ^ (23 - bitLen A) := by unfold tmag; rw [if_pos (by omega)]
          simp only [this, Int.natCast_mul, Int.natCast_pow, Int.pow_zero, Int.mul_one, Int.neg_mul]; rfl
        · simp only; omega
      · have h24 : bitLen A = 24 := by omega
        rw [h24] at hb ⊢
        simp only [Nat.reducePow, Nat.reduceSub] at hb
        have hA : A = 8388608 := by omega
        subst hA
        refine ⟨1, 0, ?_, by simp only; omega⟩
        show (-((tmag 8388608 24 : Nat) : Int)) * 2 ^ 1 = -((8388608 : Nat) : Int) * 2 ^ 0
        decide

/-- **core of `to68_error`**: in the normal range the decoded re-encoding is the mantissa truncated to 23 bits. -/
theorem to68_error_core (m e : Int) (hm : m ≠ 0) (hlo : -128 ≤ frexpExp m e) (hhi : frexpExp m e ≤ 127) :
    ∃ (t : Int) (a b : Nat), from68 (to68 m e : Nat) = .fin ⟨t, e + a - b⟩ ∧
      (t * 2 ^ a - m * 2 ^ b).natAbs * 2 ^ 22 < m.natAbs * 2 ^ b := by
  unfold frexpExp at hlo hhi
  rw [if_neg hm] at hlo hhi
  have hA0 : m.natAbs ≠ 0 := by omega
  have hb := bitLen_bounds _ hA0
  have hbp := bitLen_pos _ hA0
  have herr := tmag_error _ _ hbp hb.1 hb.2
  rcases Int.natAbs_eq m with hmA | hmA
  · generalize m.natAbs = A at *
    subst hmA
    refine ⟨tmag A (bitLen A), ?_⟩
    rcases herr with ⟨hle, heq⟩ | ⟨hgt, hle, hlt⟩
    · refine ⟨0, 23 - bitLen A, ?_, ?_⟩
      · rw [from68_to68_normal_pos A e hA0 hlo hhi]; simp only [FV.fin.injEq, Dy.mk.injEq, true_and]; omega
      · have hz : ((tmag A (bitLen A) : Nat) : Int) * 2 ^ 0 - (A : Int) * 2 ^ (23 - bitLen A) = 0 := by
          rw [heq]; simp
        rw [hz]
        have : 0 < A * 2 ^ (23 - bitLen A) := Nat.mul_pos (by omega) (Nat.pos_of_ne_zero (by simp))
        simpa using this
    · refine ⟨bitLen A - 23, 0, ?_, ?_⟩
      · rw [from68_to68_normal_pos A e hA0 hlo hhi]; simp only [FV.fin.injEq, Dy.mk.injEq, true_and]; omega
      · have hz : (((tmag A (bitLen A) : Nat) : Int) * 2 ^ (bitLen A - 23) - (A : Int) * 2 ^ 0).natAbs
            = A - tmag A (bitLen A) * 2 ^ (bitLen A - 23) := by
          have : ((tmag A (bitLen A) : Nat) : Int) * 2 ^ (bitLen A - 23)
              = ((tmag A (bitLen A) * 2 ^ (bitLen A - 23) : Nat) : Int) := by simp
          rw [this]; omega
        rw [hz]; simpa using hlt
  · generalize m.natAbs = A at *
    subst hmA
    refine ⟨-(tmag A (bitLen A) : Int), ?_⟩
    rcases herr with ⟨hle, heq⟩ | ⟨hgt, hle, hlt⟩
    · refine ⟨0, 23 - bitLen A, ?_, ?_⟩
      · rw [from68_to68_normal_neg A e hA0 hlo hhi]; simp only [FV.fin.injEq, Dy.mk.injEq, true_and]; omega
      · have hz : -((tmag A (bitLen A) : Nat) : Int) * 2 ^ 0 - -(A : Int) * 2 ^ (23 - bitLen A) = 0 := by
          rw [heq]; simp [Int.neg_mul]
        rw [hz]
        have : 0 < A * 2 ^ (23 - bitLen A) := Nat.mul_pos (by omega) (Nat.pos_of_ne_zero (by simp))
        simpa using this
    · refine ⟨bitLen A - 23, 0, ?_, ?_⟩
      · rw [from68_to68_normal_neg A e hA0 hlo hhi]; simp only [FV.fin.injEq, Dy.mk.injEq, true_and]; omega
      · have hz : (-((tmag A (bitLen A) : Nat) : Int) * 2 ^ (bitLen A - 23) - -(A : Int) * 2 ^ 0).natAbs
            = A - tmag A (bitLen A) * 2 ^ (bitLen A - 23) := by
          have : ((tmag A (bitLen A) : Nat) : Int) * 2 ^ (bitLen A - 23)
              = ((tmag A (bitLen A) * 2 ^ (bitLen A - 23) : Nat) : Int) := by simp
          rw [Int.neg_mul, this]; omega
        rw [hz]; simpa using hlt

end TD.C07
