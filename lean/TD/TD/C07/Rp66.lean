import TD.C07.Bits

/-!
# C07 — RP66V1 Appendix B decoders (core Lean only)
-/
namespace TD.C07

/-- every element is a byte -/
def Bytes.wf (bs : List Nat) : Prop := ∀ b ∈ bs, b < 256

theorem wf_get {bs : List Nat} (h : Bytes.wf bs) {i b : Nat} (hb : bs[i]? = some b) : b < 256 :=
  h b (List.mem_of_getElem? hb)

theorem shl8_or (x b : Nat) (hb : b < 256) : (x <<< 8) ||| b = x * 256 + b := by
  rw [← Nat.shiftLeft_add_eq_or_of_lt (by simpa using hb), Nat.shiftLeft_eq]

theorem and_c0 (c : Nat) : c &&& 0xc0 = (c / 64 % 4) * 64 := and_mask c 2 6
theorem and_7f (c : Nat) : c &&& 0x7f = c % 128 := Nat.and_two_pow_sub_one_eq_mod c 7
theorem and_3f (c : Nat) : c &&& 0x3f = c % 64 := Nat.and_two_pow_sub_one_eq_mod c 6

/-! ### UVARI (B.18): 1, 2 or 4 bytes selected by the two top bits of the first byte -/

/-- the standard's UVARI at offset `i`: value and length, `none` when the bytes are not all there -/
def uvariSpec (bs : List Nat) (i : Nat) : Option (Nat × Nat) :=
  match bs[i]? with
  | none => none
  | some c =>
    if c < 128 then some (c, 1)
    else if c < 192 then
      match bs[i + 1]? with
      | some b => some ((c - 128) * 256 + b, 2)
      | none => none
    else
      match bs[i + 1]?, bs[i + 2]?, bs[i + 3]? with
      | some b1, some b2, some b3 => some ((c - 192) * 16777216 + b1 * 65536 + b2 * 256 + b3, 4)
      | _, _, _ => none

set_option maxRecDepth 8192 in
theorem uvari_spec (bs : List Nat) (i : Nat) (wf : Bytes.wf bs) :
    UVARI bs i = match uvariSpec bs i with
      | some (v, n) => .ok (v, i + n)
      | none => .error .indexError := by
  unfold UVARI uvariSpec ldRead
  cases h0 : bs[i]? with
  | none => rfl
  | some c =>
    have hc := wf_get wf h0
    simp only [bind, Except.bind, and_c0, and_7f, and_3f, pure, Except.pure]
    by_cases h1 : c < 128
    · have : ¬ (c / 64 % 4 * 64 = 128) := by omega
      have h' : ¬ (c / 64 % 4 * 64 = 192) := by omega
      simp only [this, h', h1, if_false, if_true]
    · by_cases h2 : c < 192
      · have : (c / 64 % 4 * 64 = 128) := by omega
        simp only [this, h1, h2, if_false, if_true]
        cases h1' : bs[i + 1]? with
        | none => rfl
        | some b =>
          have hb := wf_get wf h1'
          simp only [shl8_or _ _ hb]
          congr 2
          omega
      · have : ¬ (c / 64 % 4 * 64 = 128) := by omega
        have h' : (c / 64 % 4 * 64 = 192) := by omega
        simp only [this, h', h1, h2, if_false, if_true]
        cases h1' : bs[i + 1]? with
        | none => rfl
        | some b1 =>
          cases h2' : bs[i + 1 + 1]? with
          | none => simp [show i + 2 = i + 1 + 1 from rfl, h2']
          | some b2 =>
            cases h3' : bs[i + 1 + 1 + 1]? with
            | none => simp [show i + 2 = i + 1 + 1 from rfl, show i + 3 = i + 1 + 1 + 1 from rfl, h2', h3']
            | some b3 =>
              have hb1 := wf_get wf h1'
              have hb2 := wf_get wf h2'
              have hb3 := wf_get wf h3'
              simp only [show i + 2 = i + 1 + 1 from rfl, show i + 3 = i + 1 + 1 + 1 from rfl, h2', h3',
                shl8_or _ _ hb1, shl8_or _ _ hb2, shl8_or _ _ hb3]
              refine congrArg Except.ok (Prod.ext ?_ ?_)
              · show (((c % 64 * 256 + b1) * 256 + b2) * 256 + b3 = (c - 192) * 16777216 + b1 * 65536 + b2 * 256 + b3)
                omega
              · show i + 1 + 1 + 1 + 1 = i + 4
                omega

set_option maxRecDepth 8192 in
/-- `UVARI_len` is the length the standard gives to the form selected by the first byte (0 past the end). -/
theorem uvari_len_spec (bs : List Nat) (i : Nat) (wf : Bytes.wf bs) :
    UVARI_len bs (i : Int) = .ok (match bs[i]? with
      | none => 0
      | some c => if c < 128 then 1 else if c < 192 then 2 else 4) := by
  unfold UVARI_len
  have : ¬ ((i : Int) < 0) := by omega
  simp only [this, if_false, Int.toNat_natCast]
  cases h0 : bs[i]? with
  | none => rfl
  | some c =>
    have hc := wf_get wf h0
    simp only [and_c0]
    by_cases h1 : c < 128
    · have : ¬ (c / 64 % 4 * 64 = 128) := by omega
      have h' : ¬ (c / 64 % 4 * 64 = 192) := by omega
      simp only [this, h', h1, if_false, if_true]
    · by_cases h2 : c < 192
      · have : (c / 64 % 4 * 64 = 128) := by omega
        simp only [this, h1, h2, if_false, if_true]
      · have : ¬ (c / 64 % 4 * 64 = 128) := by omega
        have h' : (c / 64 % 4 * 64 = 192) := by omega
        rw [if_neg this, if_pos h', if_neg h1, if_neg h2]

/-- **len_helper_agrees (UVARI / ORIGIN)**: whenever decoding succeeds, the helper returns exactly the number of
bytes consumed. -/
theorem uvari_len_agrees (bs : List Nat) (i v j : Nat) (wf : Bytes.wf bs) (h : UVARI bs i = .ok (v, j)) :
    UVARI_len bs (i : Int) = .ok (j - i) ∧ i < j ∧ j ≤ bs.length := by
  rw [uvari_spec bs i wf] at h
  rw [uvari_len_spec bs i wf]
  unfold uvariSpec at h
  cases h0 : bs[i]? with
  | none => simp [h0] at h
  | some c =>
    have hi : i < bs.length := (List.getElem?_eq_some_iff.1 h0).1
    simp only [h0] at h ⊢
    by_cases h1 : c < 128
    · simp only [h1, if_true] at h ⊢
      cases h; exact ⟨by congr 1; omega, by omega, by omega⟩
    · by_cases h2 : c < 192
      · simp only [h1, h2, if_false, if_true] at h ⊢
        cases h1' : bs[i + 1]? with
        | none => simp [h1'] at h
        | some b =>
          have hi1 : i + 1 < bs.length := (List.getElem?_eq_some_iff.1 h1').1
          simp only [h1'] at h
          cases h; exact ⟨by congr 1; omega, by omega, by omega⟩
      · simp only [h1, h2, if_false] at h ⊢
        cases h1' : bs[i + 1]? with
        | none => simp [h1'] at h
        | some b1 =>
          cases h2' : bs[i + 2]? with
          | none => simp [h1', h2'] at h
          | some b2 =>
            cases h3' : bs[i + 3]? with
            | none => simp [h1', h2', h3'] at h
            | some b3 =>
              have hi3 : i + 3 < bs.length := (List.getElem?_eq_some_iff.1 h3').1
              simp only [h1', h2', h3'] at h
              cases h; exact ⟨by congr 1; omega, by omega, by omega⟩

/-! ### IDENT / UNITS (B.19, B.27): one length byte, then that many bytes -/

theorem ident_spec (bs : List Nat) (i : Nat) :
    IDENT bs i = match bs[i]? with
      | none => .error .indexError
      | some n => if n > bs.length - (i + 1) then .error .indexError
                  else .ok ((bs.drop (i + 1)).take n, i + 1 + n) := by
  unfold IDENT pascalString ldRead ldChunk
  cases bs[i]? <;> rfl

theorem units_eq_ident : UNITS = IDENT := rfl

/-- **consumes_exactly + len_helper_agrees (IDENT)** -/
theorem ident_consumes (bs : List Nat) (i j : Nat) (v : List Nat) (h : IDENT bs i = .ok (v, j)) :
    bs[i]? = some v.length ∧ j = i + 1 + v.length ∧ j ≤ bs.length ∧ v = (bs.drop (i + 1)).take v.length ∧
      IDENT_len bs (i : Int) = .ok (j - i) := by
  rw [ident_spec] at h
  unfold IDENT_len
  have hneg : ¬ ((i : Int) < 0) := by omega
  simp only [hneg, if_false, Int.toNat_natCast]
  cases h0 : bs[i]? with
  | none => simp [h0] at h
  | some n =>
    have hi : i < bs.length := (List.getElem?_eq_some_iff.1 h0).1
    simp only [h0] at h
    by_cases hn : n > bs.length - (i + 1)
    · simp [hn] at h
    · simp only [hn, if_false] at h
      have hl : ((bs.drop (i + 1)).take n).length = n := by
        rw [List.length_take, List.length_drop]; omega
      have hv : (bs.drop (i + 1)).take n = v := (Prod.mk.inj (Except.ok.inj h)).1
      have hj : i + 1 + n = j := (Prod.mk.inj (Except.ok.inj h)).2
      subst hv
      rw [hl]
      have h3 : j ≤ bs.length := by omega
      refine ⟨rfl, hj.symm, h3, rfl, ?_⟩
      have h4 : 1 + n = j - i := by omega
      show Except.ok (1 + n) = Except.ok (j - i)
      rw [h4]

/-! ### OBNAME (B.23) = ORIGIN (UVARI) + USHORT + IDENT -/

/-- **len_helper_agrees (OBNAME)**: whenever an OBNAME decodes, `OBNAME_len` is the number of bytes consumed. -/
theorem obname_len_agrees (bs : List Nat) (i j : Nat) (o : ObName) (wf : Bytes.wf bs)
    (h : OBNAME bs i = .ok (o, j)) : OBNAME_len bs (i : Int) = .ok (j - i) ∧ i + 3 ≤ j ∧ j ≤ bs.length := by
  unfold OBNAME ORIGIN USHORT at h
  cases hu : UVARI bs i with
  | error e => simp [hu, bind, Except.bind] at h
  | ok r1 =>
    obtain ⟨ov, j1⟩ := r1
    obtain ⟨hlen1, hlt1, hle1⟩ := uvari_len_agrees bs i ov j1 wf hu
    simp only [hu, bind, Except.bind] at h
    cases hc : ldRead bs j1 with
    | error e => simp [hc] at h
    | ok r2 =>
      obtain ⟨cv, j2⟩ := r2
      have hj2 : j2 = j1 + 1 ∧ j1 < bs.length := by
        unfold ldRead at hc
        cases hb : bs[j1]? with
        | none => simp [hb] at hc
        | some b =>
          have := (List.getElem?_eq_some_iff.1 hb).1
          simp only [hb] at hc; cases hc; exact ⟨rfl, this⟩
      simp only [hc] at h
      cases hid : IDENT bs j2 with
      | error e => simp [hid] at h
      | ok r3 =>
        obtain ⟨iv, j3⟩ := r3
        simp only [hid, pure, Except.pure] at h
        have hj : j3 = j := (Prod.mk.inj (Except.ok.inj h)).2
        subst hj
        obtain ⟨hb0, hj3, hle3, _, hilen⟩ := ident_consumes bs j2 j3 iv hid
        have hj2lt : j2 < bs.length := (List.getElem?_eq_some_iff.1 hb0).1
        unfold OBNAME_len ORIGIN_len
        have hneg : ¬ ((i : Int) < 0) := by omega
        simp only [hneg, if_false, hlen1, bind, Except.bind]
        have h1 : j1 - i ≠ 0 := by omega
        have h2 : (bs.length : Int) ≥ ((j1 - i + 1 : Nat) : Int) + (i : Int) := by omega
        simp only [h1, ne_eq, not_false_eq_true, if_true, h2]
        have h3 : (i : Int) + ((j1 - i + 1 : Nat) : Int) = ((j2 : Nat) : Int) := by omega
        rw [h3, hilen]
        have h4 : j3 - j2 ≠ 0 := by omega
        simp only [h4, ne_eq, not_false_eq_true, if_true, pure, Except.pure]
        exact ⟨by congr 1; omega, by omega, hle3⟩

/-! ### IEEE-754, IBM and VAX fields -/

/-- IEEE-754 binary interchange format on its three fields (sign, biased exponent, fraction) -/
def ieeeSpec (eb fb : Nat) (s E F : Nat) : FV :=
  let bias : Int := ((2 ^ (eb - 1) - 1 : Nat) : Int)
  let sg : Int := if s = 1 then -1 else 1
  if E = 2 ^ eb - 1 then (if F = 0 then .inf (s = 1) else .nan)
  else if E = 0 then (if F = 0 then (if s = 1 then .negZero else .fin ⟨0, 0⟩) else .fin ⟨sg * F, 1 - bias - fb⟩)
  else .fin ⟨sg * ((2 ^ fb + F : Nat) : Int), (E : Int) - bias - fb⟩

theorem ieee_fields (eb fb w : Nat) :
    ieee eb fb w = ieeeSpec eb fb (fld w (eb + fb) 1) (fld w fb eb) (fld w 0 fb) := by
  unfold ieee ieeeSpec fld
  simp only [Nat.and_two_pow_sub_one_eq_mod, Nat.shiftRight_eq_div_pow, Nat.pow_zero, Nat.div_one, Nat.pow_one,
    Nat.and_one_is_mod]

/-- `mantissa = b1<<16 | b2<<8 | b3` -/
theorem be3 (b1 b2 b3 : Nat) (h2 : b2 < 256) (h3 : b3 < 256) :
    (b1 <<< 16) ||| (b2 <<< 8) ||| b3 = b1 * 65536 + b2 * 256 + b3 := by
  rw [Nat.or_assoc, shl8_or _ _ h3, ← Nat.shiftLeft_add_eq_or_of_lt (by simp only [Nat.reducePow]; omega),
    Nat.shiftLeft_eq]
  simp only [Nat.reducePow]; omega

/-- IBM System/360 single precision: `(-1)^s · 0.F · 16^(E-64)` with a 24-bit fraction -/
theorem ibm4_spec (b0 b1 b2 b3 : Nat) (h0 : b0 < 256) (h1 : b1 < 256) (h2 : b2 < 256) (h3 : b3 < 256) :
    ibm4 b0 b1 b2 b3 =
      (let F := b1 * 65536 + b2 * 256 + b3
       let E : Int := (b0 % 128 : Nat)
       if b0 < 128 then .fin ⟨F, 4 * (E - 64) - 24⟩
       else if F = 0 then .negZero else .fin ⟨-(F : Int), 4 * (E - 64) - 24⟩) := by
  unfold ibm4
  have e1 : b0 &&& 0x80 = (b0 / 128 % 2) * 128 := and_mask b0 1 7
  simp only [e1, and_7f, be3 _ _ _ h2 h3]
  by_cases h : b0 < 128
  · have : b0 / 128 % 2 * 128 = 0 := by omega
    simp [this, h]
  · have : b0 / 128 % 2 * 128 ≠ 0 := by omega
    simp [this, h]

end TD.C07
