import TD.C07.Rp66
import TD.C07.Lis

/-!
# C07 — RP66V1 Appendix B, part 2 (core Lean only): integer codes, DTIME, ASCII, OBNAME, OBJREF
-/
namespace TD.C07

theorem ldRead_ok (bs : List Nat) (j : Nat) (h : j < bs.length) : ldRead bs j = .ok (bs[j]?.getD 0, j + 1) := by
  unfold ldRead
  rw [List.getElem?_eq_getElem h]
  rfl

theorem ldRead_err (bs : List Nat) (j : Nat) (h : bs.length ≤ j) : ldRead bs j = .error .indexError := by
  unfold ldRead
  rw [List.getElem?_eq_none h]

theorem getD_lt (bs : List Nat) (wf : Bytes.wf bs) (j : Nat) : bs[j]?.getD 0 < 256 := by
  cases h : bs[j]? with
  | none => simp
  | some b => simpa using wf_get wf h

theorem toSigned_eq_twos (n x : Nat) : toSigned n x = twos n x := rfl

/-- the `n` bytes at offset `i`, when they are all there -/
theorem chunk_eq (bs : List Nat) (i : Nat) :
    (i + 2 ≤ bs.length → (bs.drop i).take 2 = [bs[i]?.getD 0, bs[i + 1]?.getD 0]) ∧
    (i + 4 ≤ bs.length → (bs.drop i).take 4 = [bs[i]?.getD 0, bs[i + 1]?.getD 0, bs[i + 2]?.getD 0, bs[i + 3]?.getD 0]) := by
  constructor
  · intro h
    rw [List.drop_eq_getElem_cons (by omega : i < bs.length),
      List.drop_eq_getElem_cons (by omega : i + 1 < bs.length)]
    simp only [List.take_succ_cons, List.take_zero, List.getElem?_eq_getElem (by omega : i < bs.length),
      List.getElem?_eq_getElem (by omega : i + 1 < bs.length), Option.getD_some]
  · intro h
    rw [List.drop_eq_getElem_cons (by omega : i < bs.length),
      List.drop_eq_getElem_cons (by omega : i + 1 < bs.length),
      List.drop_eq_getElem_cons (by omega : i + 1 + 1 < bs.length),
      List.drop_eq_getElem_cons (by omega : i + 1 + 1 + 1 < bs.length)]
    simp only [List.take_succ_cons, List.take_zero, List.getElem?_eq_getElem (by omega : i < bs.length),
      List.getElem?_eq_getElem (by omega : i + 1 < bs.length), List.getElem?_eq_getElem (by omega : i + 2 < bs.length),
      List.getElem?_eq_getElem (by omega : i + 3 < bs.length), Option.getD_some]

/-- byte `k` of the buffer (0 past the end; only used under a length hypothesis) -/
abbrev byteAt (bs : List Nat) (k : Nat) : Nat := bs[k]?.getD 0

/-! ### the fixed-length integer codes (B.12 – B.17, B.26) -/

theorem sshort_spec (bs : List Nat) (i : Nat) :
    SSHORT bs i = if i + 1 ≤ bs.length then .ok (twos 8 (byteAt bs i), i + 1) else .error .indexError := by
  unfold SSHORT
  by_cases h : i + 1 ≤ bs.length
  · rw [if_pos h, ldRead_ok _ _ (by omega)]
    simp only [bind, Except.bind, pure, Except.pure, twos, byteAt]
    congr 2
    simp only [Nat.reducePow, Nat.reduceSub]
    split <;> split <;> omega
  · rw [if_neg h, ldRead_err _ _ (by omega)]; rfl

theorem ushort_spec (bs : List Nat) (i : Nat) :
    USHORT bs i = (if i + 1 ≤ bs.length then .ok (byteAt bs i, i + 1) else .error .indexError) ∧
    STATUS bs i = USHORT bs i := by
  refine ⟨?_, rfl⟩
  unfold USHORT
  by_cases h : i + 1 ≤ bs.length
  · rw [if_pos h, ldRead_ok _ _ (by omega)]
  · rw [if_neg h, ldRead_err _ _ (by omega)]

theorem unorm_spec (bs : List Nat) (i : Nat) (wf : Bytes.wf bs) :
    UNORM bs i = if i + 2 ≤ bs.length then .ok (byteAt bs i * 256 + byteAt bs (i + 1), i + 2)
      else .error .indexError := by
  unfold UNORM
  by_cases h : i + 2 ≤ bs.length
  · rw [if_pos h, ldRead_ok _ _ (by omega)]
    simp only [bind, Except.bind]
    rw [ldRead_ok _ _ (by omega)]
    simp only [pure, Except.pure, shl8_or _ _ (getD_lt bs wf (i + 1))]
  · rw [if_neg h]
    by_cases h1 : i + 1 ≤ bs.length
    · rw [ldRead_ok _ _ (by omega)]
      simp only [bind, Except.bind]
      rw [ldRead_err _ _ (by omega)]
    · rw [ldRead_err _ _ (by omega)]; rfl

theorem snorm_spec (bs : List Nat) (i : Nat) :
    SNORM bs i = if i + 2 ≤ bs.length then .ok (twos 16 (byteAt bs i * 256 + byteAt bs (i + 1)), i + 2)
      else .error .indexError := by
  unfold SNORM ldChunk
  by_cases h : i + 2 ≤ bs.length
  · rw [if_pos h, if_neg (by omega)]
    simp only [bind, Except.bind, pure, Except.pure, (chunk_eq bs i).1 h, toSigned_eq_twos]
    simp [beWord]
  · rw [if_neg h, if_pos (by omega)]; rfl

theorem slong_ulong_spec (bs : List Nat) (i : Nat) :
    SLONG bs i = (if i + 4 ≤ bs.length then
        .ok (twos 32 (((byteAt bs i * 256 + byteAt bs (i + 1)) * 256 + byteAt bs (i + 2)) * 256 + byteAt bs (i + 3)), i + 4)
      else .error .indexError) ∧
    ULONG bs i = (if i + 4 ≤ bs.length then
        .ok (((byteAt bs i * 256 + byteAt bs (i + 1)) * 256 + byteAt bs (i + 2)) * 256 + byteAt bs (i + 3), i + 4)
      else .error .indexError) := by
  unfold SLONG ULONG ldChunk
  by_cases h : i + 4 ≤ bs.length
  · rw [if_pos h, if_pos h, if_neg (by omega)]
    simp only [bind, Except.bind, pure, Except.pure, (chunk_eq bs i).2 h, toSigned_eq_twos]
    simp [beWord]
  · rw [if_neg h, if_neg h, if_pos (by omega)]; exact ⟨rfl, rfl⟩

/-! ### DTIME (B.21): eight bytes Y, TZ|M, D, H, MN, S, MS(2) -/

theorem and_f (v : Nat) : v &&& 0xf = v % 16 := Nat.and_two_pow_sub_one_eq_mod v 4

theorem tz_nibble (v : Nat) (h : v < 256) : (v >>> 4) &&& 0xf = v / 16 := by
  rw [and_f, Nat.shiftRight_eq_div_pow]; omega

theorem dtime_spec (bs : List Nat) (i : Nat) (wf : Bytes.wf bs) :
    DTIME bs i = if i + 8 ≤ bs.length then
        .ok (⟨byteAt bs i + 1900, byteAt bs (i + 1) / 16, byteAt bs (i + 1) % 16, byteAt bs (i + 2), byteAt bs (i + 3),
              byteAt bs (i + 4), byteAt bs (i + 5), byteAt bs (i + 6) * 256 + byteAt bs (i + 7)⟩, i + 8)
      else .error .indexError := by
  unfold DTIME USHORT
  by_cases h : i + 8 ≤ bs.length
  · rw [if_pos h]
    simp (disch := omega) only [bind, Except.bind, ldRead_ok, unorm_spec _ _ wf, if_pos, pure, Except.pure, and_f,
      tz_nibble _ (getD_lt bs wf (i + 1)), byteAt, Nat.add_assoc, Nat.reduceAdd]
  · rw [if_neg h]
    have hk : bs.length - i = 0 ∨ bs.length - i = 1 ∨ bs.length - i = 2 ∨ bs.length - i = 3 ∨ bs.length - i = 4 ∨
        bs.length - i = 5 ∨ bs.length - i = 6 ∨ bs.length - i = 7 := by omega
    rcases hk with hk | hk | hk | hk | hk | hk | hk | hk <;>
      simp (disch := omega) only [bind, Except.bind, ldRead_ok, ldRead_err, unorm_spec _ _ wf, if_neg]

/-! ### ASCII (B.20): a UVARI length, then that many bytes -/

theorem ascii_spec (bs : List Nat) (i : Nat) (wf : Bytes.wf bs) :
    ASCII bs i = match uvariSpec bs i with
      | none => .error .indexError
      | some (n, k) => if n > bs.length - (i + k) then .error .indexError
                       else .ok ((bs.drop (i + k)).take n, i + k + n) := by
  unfold ASCII
  rw [uvari_spec bs i wf]
  cases uvariSpec bs i with
  | none => rfl
  | some r => obtain ⟨n, k⟩ := r; rfl

/-- **consumes_exactly (ASCII)** -/
theorem ascii_consumes (bs : List Nat) (i j : Nat) (v : List Nat) (wf : Bytes.wf bs) (h : ASCII bs i = .ok (v, j)) :
    ∃ k, uvariSpec bs i = some (v.length, k) ∧ j = i + k + v.length ∧ j ≤ bs.length ∧
      v = (bs.drop (i + k)).take v.length ∧ UVARI_len bs (i : Int) = .ok k := by
  rw [ascii_spec bs i wf] at h
  cases hu : uvariSpec bs i with
  | none => simp [hu] at h
  | some r =>
    obtain ⟨n, k⟩ := r
    simp only [hu] at h
    by_cases hn : n > bs.length - (i + k)
    · simp [hn] at h
    · simp only [hn, if_false] at h
      have hl : ((bs.drop (i + k)).take n).length = n := by
        rw [List.length_take, List.length_drop]; omega
      have hv : (bs.drop (i + k)).take n = v := (Prod.mk.inj (Except.ok.inj h)).1
      have hj : i + k + n = j := (Prod.mk.inj (Except.ok.inj h)).2
      have hU : UVARI bs i = .ok (n, i + k) := by rw [uvari_spec bs i wf, hu]
      obtain ⟨hlen, hlt, hle⟩ := uvari_len_agrees bs i n (i + k) wf hU
      subst hv
      rw [hl]
      refine ⟨k, rfl, hj.symm, by omega, rfl, ?_⟩
      rw [hlen]; congr 1; omega

/-! ### OBNAME (B.23), OBJREF (B.24) -/

/-- **decode_spec + consumes_exactly (OBNAME)**: ORIGIN (UVARI, `k` bytes), copy number (1 byte), IDENT. -/
theorem obname_consumes (bs : List Nat) (i j : Nat) (o : ObName) (wf : Bytes.wf bs) (h : OBNAME bs i = .ok (o, j)) :
    ∃ k, uvariSpec bs i = some (o.o, k) ∧ bs[i + k]? = some o.c ∧ IDENT bs (i + k + 1) = .ok (o.i, j) ∧
      j = i + k + 1 + 1 + o.i.length ∧ j ≤ bs.length := by
  unfold OBNAME ORIGIN USHORT at h
  rw [uvari_spec bs i wf] at h
  cases hu : uvariSpec bs i with
  | none => simp [hu, bind, Except.bind] at h
  | some r =>
    obtain ⟨ov, k⟩ := r
    simp only [hu, bind, Except.bind] at h
    unfold ldRead at h
    cases hc : bs[i + k]? with
    | none => simp [hc] at h
    | some c =>
      simp only [hc] at h
      cases hid : IDENT bs (i + k + 1) with
      | error e => simp [hid] at h
      | ok r3 =>
        obtain ⟨iv, j3⟩ := r3
        simp only [hid, pure, Except.pure] at h
        have ho : (⟨ov, c, iv⟩ : ObName) = o := (Prod.mk.inj (Except.ok.inj h)).1
        have hj : j3 = j := (Prod.mk.inj (Except.ok.inj h)).2
        subst ho hj
        obtain ⟨_, hj3, hle3, _, _⟩ := ident_consumes bs (i + k + 1) j3 iv hid
        exact ⟨k, rfl, hc, hid, by simp only; omega, hle3⟩

/-- **consumes_exactly (OBJREF)** = IDENT then OBNAME, and the two helper lengths add up to what was consumed. -/
theorem objref_consumes (bs : List Nat) (i j : Nat) (t : List Nat) (o : ObName) (wf : Bytes.wf bs)
    (h : OBJREF bs i = .ok ((t, o), j)) :
    IDENT bs i = .ok (t, i + 1 + t.length) ∧ OBNAME bs (i + 1 + t.length) = .ok (o, j) ∧
      IDENT_len bs (i : Int) = .ok (1 + t.length) ∧
      OBNAME_len bs ((i + 1 + t.length : Nat) : Int) = .ok (j - (i + 1 + t.length)) ∧ j ≤ bs.length := by
  unfold OBJREF at h
  cases hid : IDENT bs i with
  | error e => simp [hid, bind, Except.bind] at h
  | ok r1 =>
    obtain ⟨tv, j1⟩ := r1
    simp only [hid, bind, Except.bind] at h
    cases hob : OBNAME bs j1 with
    | error e => simp [hob] at h
    | ok r2 =>
      obtain ⟨ov, j2⟩ := r2
      simp only [hob, pure, Except.pure] at h
      have h1 : (tv, ov) = (t, o) := (Prod.mk.inj (Except.ok.inj h)).1
      have hj : j2 = j := (Prod.mk.inj (Except.ok.inj h)).2
      have ht : tv = t := (Prod.mk.inj h1).1
      have ho : ov = o := (Prod.mk.inj h1).2
      subst ht ho hj
      obtain ⟨_, hj1, _, _, hlen⟩ := ident_consumes bs i j1 tv hid
      subst hj1
      obtain ⟨hol, _, hle⟩ := obname_len_agrees bs _ j2 ov wf hob
      refine ⟨rfl, hob, ?_, hol, hle⟩
      rw [hlen]; congr 1; omega

/-! ### VSINGL exactly as the repository codes it (DESIGN F9) -/

/-- `VSINGL` on its fields: sign `S = b1 bit 7`, exponent `E = (b1 low 7 bits)·2 + b0 bit 7`, fraction
`F = (b0 low 7 bits)·2^16 + b3·2^8 + b2`; value `(-1)^S · (2^22 + F) · 2^(E - 151)` = `(0.5 + F/2^23)·2^(E-128)`,
and `0` when `E = 0 ∧ S = 0`. -/
theorem vax4_spec (b0 b1 b2 b3 : Nat) (h0 : b0 < 256) (h1 : b1 < 256) (h2 : b2 < 256) (h3 : b3 < 256) :
    vax4 b0 b1 b2 b3 =
      (let F := (b0 % 128) * 65536 + b3 * 256 + b2
       let E := (b1 % 128) * 2 + b0 / 128
       if E = 0 ∧ b1 < 128 then .fin ⟨0, 0⟩
       else .fin ⟨if b1 < 128 then ((4194304 + F : Nat) : Int) else -((4194304 + F : Nat) : Int), (E : Int) - 151⟩) := by
  unfold vax4
  have e1 : b1 &&& 0x80 = (b1 / 128 % 2) * 128 := and_mask b1 1 7
  have e2 : b0 &&& 0x80 = (b0 / 128 % 2) * 128 := and_mask b0 1 7
  have e3 : ((b1 % 128) <<< 1) ||| ((b0 / 128 % 2 * 128) >>> 7) = (b1 % 128) * 2 + b0 / 128 := by
    rw [Nat.shiftRight_eq_div_pow, ← Nat.shiftLeft_add_eq_or_of_lt (by simp only [Nat.reducePow]; omega), Nat.shiftLeft_eq]
    simp only [Nat.reducePow]; omega
  simp only [e1, e2, and_7f, be3 _ _ _ h3 h2, e3]
  by_cases hs : b1 < 128
  · have : b1 / 128 % 2 * 128 = 0 := by omega
    simp [this, hs]
  · have : b1 / 128 % 2 * 128 ≠ 0 := by omega
    simp [this, hs]

end TD.C07
