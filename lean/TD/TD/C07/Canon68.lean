import TD.C07.To68

/-!
# C07 — which code-68 words are fixed points of `to68 ∘ from68` (core Lean only)
-/
namespace TD.C07

theorem bitLen_eq (A k : Nat) (hk : 1 ≤ k) (h1 : 2 ^ (k - 1) ≤ A) (h2 : A < 2 ^ k) : bitLen A = k := by
  have hp : 0 < 2 ^ (k - 1) := Nat.pos_of_ne_zero (by simp)
  have hA : A ≠ 0 := by omega
  have hle := bitLen_le A k hA h2
  have hb := bitLen_bounds A hA
  rcases Nat.lt_or_ge (bitLen A) k with h | h
  · have : 2 ^ bitLen A ≤ 2 ^ (k - 1) := Nat.pow_le_pow_right (by omega) (by omega)
    omega
  · omega

/-- The canonical (normalised) code-68 words, on the fields sign `s`, exponent `E`, fraction `F`:
positive: top fraction bit set, or the smallest exponent with a non-zero fraction (denormal), or the zero word
`0x40000000`; negative: fraction in `1 … 2^22` (mantissa in `[-1, -1/2)`), or the largest exponent field (= smallest
exponent, denormal) with a fraction above `2^22`. -/
def Canon68 (s E F : Nat) : Prop :=
  (s = 0 ∧ (4194304 ≤ F ∨ (E = 0 ∧ F ≠ 0) ∨ (E = 128 ∧ F = 0))) ∨
  (s = 1 ∧ ((1 ≤ F ∧ F ≤ 4194304) ∨ (E = 255 ∧ 4194304 < F)))

/-- the word `to68` produces for the value that the fields `(s, E, F)` decode to -/
def reenc (s E F : Nat) : Nat := to68 (dec68 s E F).m (dec68 s E F).e

theorem tmag_23 (A : Nat) : tmag A 23 = A := by unfold tmag; simp

theorem tmag_24 : tmag 8388608 24 = 4194304 := by decide

/-- canonical words are fixed points -/
theorem reenc_canonical (s E F : Nat) (hE : E < 256) (hF : F < 8388608) (hc : Canon68 s E F) :
    reenc s E F = s * 2147483648 + E * 8388608 + F := by
  unfold reenc
  rcases hc with ⟨rfl, hc⟩ | ⟨rfl, hc⟩
  · simp only [dec68, Nat.zero_ne_one, if_false]
    by_cases hbig : 4194304 ≤ F
    · have hn : bitLen F = 23 := bitLen_eq F 23 (by omega) (by simpa using hbig) (by simpa using hF)
      have := to68_normal_pos F ((E : Int) - 151) (by omega) (by rw [hn]; omega) (by rw [hn]; omega)
      rw [this, hn, tmag_23]
      have : ((E : Int) - 151 + ((23 : Nat) : Int) + 128).toNat = E := by omega
      rw [this]
    · rcases hc with h | ⟨rfl, hF0⟩ | ⟨rfl, rfl⟩
      · omega
      · have hn := bitLen_le F 22 hF0 (by simp only [Nat.reducePow]; omega)
        have := to68_denormal_pos F (((0 : Nat) : Int) - 151) hF0 (by omega) (by omega)
        rw [this]
        simp
      · exact to68_zero _
  · simp only [dec68, if_true]
    have hmA : (F : Int) - 8388608 = -((8388608 - F : Nat) : Int) := by omega
    rw [hmA]
    rcases hc with ⟨h1, h2⟩ | ⟨rfl, h2⟩
    · have hn : bitLen (8388608 - F) = 23 :=
        bitLen_eq _ 23 (by omega) (by simp only [Nat.reducePow, Nat.reduceSub]; omega) (by simp only [Nat.reducePow]; omega)
      have := to68_normal_neg (8388608 - F) ((104 : Int) - E) (by omega) (by rw [hn]; omega) (by rw [hn]; omega)
      rw [this, hn, tmag_23]
      have : ((127 : Int) - ((104 : Int) - E + ((23 : Nat) : Int))).toNat = E := by omega
      rw [this]
      omega
    · have hA0 : 8388608 - F ≠ 0 := by omega
      have hn := bitLen_le (8388608 - F) 22 hA0 (by simp only [Nat.reducePow]; omega)
      have := to68_denormal_neg (8388608 - F) ((104 : Int) - ((255 : Nat) : Int)) hA0 (by omega) (by omega)
      rw [this]
      have : ((104 : Int) - ((255 : Nat) : Int) + 151).toNat = 0 := by decide
      rw [this]
      omega

/-- non-canonical words are not fixed points: re-encoding normalises them -/
theorem reenc_noncanonical (s E F : Nat) (hs : s ≤ 1) (hE : E < 256) (hF : F < 8388608) (hc : ¬ Canon68 s E F) :
    reenc s E F ≠ s * 2147483648 + E * 8388608 + F := by
  unfold Canon68 at hc
  unfold reenc
  have hs' : s = 0 ∨ s = 1 := by omega
  rcases hs' with rfl | rfl
  · simp only [dec68, Nat.zero_ne_one, if_false]
    by_cases hF0 : F = 0
    · subst hF0
      rw [show ((0 : Nat) : Int) = 0 from rfl, to68_zero]
      omega
    · have hFs : F < 4194304 := by omega
      have hE0 : E ≠ 0 := by omega
      have hn := bitLen_le F 22 hF0 (by simp only [Nat.reducePow]; omega)
      have hbp := bitLen_pos F hF0
      by_cases hden : (E : Int) - 151 + bitLen F < -128
      · rw [to68_denormal_pos F _ hF0 (by omega) hden]
        have hb := denormal_bound F ((E : Int) - 151) hF0 (by omega) hden
        omega
      · rw [to68_normal_pos F _ hF0 (by omega) (by omega)]
        have hb := bitLen_bounds F hF0
        have ht := tmag_bounds F (bitLen F) hbp hb.1 hb.2
        simp only [Nat.reducePow] at ht
        have : ((E : Int) - 151 + (bitLen F : Int) + 128).toNat < E := by omega
        generalize ((E : Int) - 151 + (bitLen F : Int) + 128).toNat = E' at *
        omega
  · simp only [dec68, if_true]
    have hmA : (F : Int) - 8388608 = -((8388608 - F : Nat) : Int) := by omega
    rw [hmA]
    by_cases hF0 : F = 0
    · subst hF0
      by_cases hE0 : E = 0
      · subst hE0
        have : to68 (-((8388608 - 0 : Nat) : Int)) ((104 : Int) - ((0 : Nat) : Int)) = 0xFFC00000 := by decide
        rw [this]; omega
      · have hn : bitLen (8388608 - 0) = 24 := by decide
        rw [to68_normal_neg (8388608 - 0) _ (by omega) (by rw [hn]; omega) (by rw [hn]; omega), hn]
        rw [show tmag (8388608 - 0) 24 = 4194304 from tmag_24]
        have : ((127 : Int) - ((104 : Int) - E + ((24 : Nat) : Int))).toNat = E - 1 := by omega
        rw [this]
        omega
    · have hFb : 4194304 < F := by omega
      have hE255 : E ≠ 255 := by omega
      have hA0 : 8388608 - F ≠ 0 := by omega
      have hn := bitLen_le (8388608 - F) 22 hA0 (by simp only [Nat.reducePow]; omega)
      have hbp := bitLen_pos _ hA0
      by_cases hden : (104 : Int) - E + bitLen (8388608 - F) < -128
      · rw [to68_denormal_neg _ _ hA0 (by omega) hden]
        have hb := denormal_bound _ ((104 : Int) - E) hA0 (by omega) hden
        omega
      · rw [to68_normal_neg _ _ hA0 (by omega) (by omega)]
        have hb := bitLen_bounds _ hA0
        have ht := tmag_bounds _ _ hbp hb.1 hb.2
        simp only [Nat.reducePow] at ht
        have h1 : E < ((127 : Int) - ((104 : Int) - E + (bitLen (8388608 - F) : Int))).toNat := by omega
        have h2 : ((127 : Int) - ((104 : Int) - E + (bitLen (8388608 - F) : Int))).toNat ≤ 255 := by omega
        generalize ((127 : Int) - ((104 : Int) - E + (bitLen (8388608 - F) : Int))).toNat = E' at *
        generalize tmag (8388608 - F) (bitLen (8388608 - F)) = T at *
        omega

/-- **canonical-word lemma, precise form**: a word is reproduced by `to68 ∘ from68` exactly when it is canonical. -/
theorem reenc_fixed_iff (s E F : Nat) (hs : s ≤ 1) (hE : E < 256) (hF : F < 8388608) :
    reenc s E F = s * 2147483648 + E * 8388608 + F ↔ Canon68 s E F := by
  constructor
  · intro h
    by_cases hc : Canon68 s E F
    · exact hc
    · exact absurd h (reenc_noncanonical s E F hs hE hF hc)
  · exact reenc_canonical s E F hE hF

end TD.C07
