import TD.C07.To68

/-!
# C07 — which code-68 words are fixed points of `to68 ∘ from68` (core Lean only)
-/
namespace TD.C07

theorem bitLen_eq (A k : Nat) (hk : 1 ≤ k) (h1 : 2 ^ (k - 1) ≤ A) (h2 : A < 2 ^ k) : bitLen A = k := by
  have hp : 0 < 2 ^ (k - 1) := Nat.pos_of_ne_zero (by simp)
  have hA : A ≠ 0 := by omega
  have hle := bitLen_le A k hA h2
  have hb := bitLen_bounds A hA
  rcases Nat.lt_or_ge (bitLen A) k with h | h
  · have : 2 ^ bitLen A ≤ 2 ^ (k - 1) := Nat.pow_le_pow_right (by omega) (by omega)
    omega
  · omega

/-- The canonical (normalised) code-68 words, on the fields sign `s`, exponent `E`, fraction `F`:
positive: top fraction bit set, or the smallest exponent with a non-zero fraction (denormal), or the zero word
`0x40000000`; negative: fraction in `1 … 2^22` (mantissa in `[-1, -1/2)`), or the largest exponent field (= smallest
exponent, denormal) with a fraction above `2^22`. -/
def Canon68 (s E F : Nat) : Prop :=
  (s = 0 ∧ (4194304 ≤ F ∨ (E = 0 ∧ F ≠ 0) ∨ (E = 128 ∧ F = 0))) ∨
  (s = 1 ∧ ((1 ≤ F ∧ F ≤ 4194304) ∨ (E = 255 ∧ 4194304 < F)))

/-- the word `to68` produces for the value that the fields `(s, E, F)` decode to -/
def reenc (s E F : Nat) : Nat := to68 (dec68 s E F).m (dec68 s E F).e

theorem tmag_23 (A : Nat) : tmag A 23 = A := by unfold tmag; simp

theorem tmag_24 : tmag 8388608 24 = 4194304 := by decide

/-- canonical words are fixed points -/
theorem reenc_canonical (s E F : Nat) (hE : E < 256) (hF : F < 8388608) (hc : Canon68 s E F) :
    reenc s E F = s * 2147483648 + E * 8388608 + F := by
  unfold reenc
  rcases hc with ⟨rfl, hc⟩ | ⟨rfl, hc⟩
  · simp only [dec68, Nat.zero_ne_one, if_false]
    by_cases hbig : 4194304 ≤ F
    · have hn : bitLen F = 23 := bitLen_eq F 23 (by omega) (by simpa using hbig) (by simpa using hF)
      have := to68_normal_pos F ((E : Int) - 151) (by omega) (by rw [hn]; omega) (by rw [hn]; omega)
      rw [this, hn, tmag_23]
      have : ((E : Int) - 151 + ((23 : Nat) : Int) + 128).toNat = E := by omega
      rw [this]
    · rcases hc with h | ⟨rfl, hF0⟩ | ⟨rfl, rfl⟩
      · omega
      · have hn := bitLen_le F 22 hF0 (by simp only [Nat.reducePow]; omega)
        have := to68_denormal_pos F (((0 : Nat) : Int) - 151) hF0 (by omega) (by omega)
        rw [this]
        simp
      · exact to68_zero _
  · simp only [dec68, if_true]
    have hmA : (F : Int) - 8388608 = -((8388608 - F : Nat) : Int) := by omega
    rw [hmA]
    rcases hc with ⟨h1, h2⟩ | ⟨rfl, h2⟩
    · have hn : bitLen (8388608 - F) = 23 :=
        bitLen_eq _ 23 (by omega) (by simp only [Nat.reducePow, Nat.reduceSub]; omega) (by simp only [Nat.reducePow]; omega)
      have := to68_normal_neg (8388608 - F) ((104 : Int) - E) (by omega) (by rw [hn]; omega) (by rw [hn]; omega)
      rw [this, hn, tmag_23]
      have : ((127 : Int) - ((104 : Int) - E + ((23 : Nat) : Int))).toNat = E := by omega
      rw [this]
      omega
    · have hA0 : 8388608 - F ≠ 0 := by omega
      have hn := bitLen_le (8388608 - F) 22 hA0 (by simp only [Nat.reducePow]; omega)
      have := to68_denormal_neg (8388608 - F) ((104 : Int) - ((255 : Nat) : Int)) hA0 (by omega) (by omega)
      rw [this]
      have : ((104 : Int) - ((255 : Nat) : Int) + 151).toNat = 0 := by decide
      rw [this]
      omega

/-- non-canonical words are not fixed points: re-encoding normalises them -/
theorem reenc_noncanonical (s E F : Nat) (hs : s ≤ 1) (hE : E < 256) (hF : F < 8388608) (hc : ¬ Canon68 s E F) :
    reenc s E F ≠ s * 2147483648 + E * 8388608 + F := by
  unfold Canon68 at hc
  unfold reenc
  have hs' : s = 0 ∨ s = 1 := by omega
  rcases hs' with rfl | rfl
  · simp only [dec68, Nat.zero_ne_one, if_false]
    by_cases hF0 : F = 0
    · subst hF0
      rw [show ((0 : Nat) : Int) = 0 from rfl, to68_zero]
      omega
    · have hFs : F < 4194304 := by omega
      have hE0 : E ≠ 0 := by omega
      have hn := bitLen_le F 22 hF0 (by simp only [Nat.reducePow]; omega)
      have hbp := bitLen_pos F hF0
      by_cases hden : (E : Int) - 151 + bitLen F < -128
      · rw [to68_denormal_pos F _ hF0 (by omega) hden]
        have hb := denormal_bound F ((E : Int) - 151) hF0 (by omega) hden
        omega
      · rw [to68_normal_pos F _ hF0 (by omega) (by omega)]
        have hb := bitLen_bounds F hF0
        have ht := tmag_bounds F (bitLen F) hbp hb.1 hb.2
        simp only [Nat.reducePow] at ht
        have : ((E : Int) - 151 + (bitLen F : Int) + 128).toNat < E := by omega
        generalize ((E : Int) - 151 + (bitLen F : Int) + 128).toNat = E' at *
        omega
  · simp only [dec68, if_true]
    have hmA : (F : Int) - 8388608 = -((8388608 - F : Nat) : Int) := by omega
    rw [hmA]
    by_cases hF0 : F = 0
    · subst hF0
      by_cases hE0 : E = 0
      · subst hE0
        have : to68 (-((8388608 - 0 : Nat) : Int)) ((104 : Int) - ((0 : Nat) : Int)) = 0xFFC00000 := by decide
        rw [this]; omega
      · have hn : bitLen (8388608 - 0) = 24 := by decide
        rw [to68_normal_neg (8388608 - 0) _ (by omega) (by rw [hn]; omega) (by rw [hn]; omega), hn]
        rw [show tmag (8388608 - 0) 24 = 4194304 from tmag_24]
        have : ((127 : Int) - ((104 : Int) - E + ((24 : Nat) : Int))).toNat = E - 1 := by omega
        rw [this]
        omega
    · have hFb : 4194304 < F := by omega
      have hE255 : E ≠ 255 := by omega
      have hA0 : 8388608 - F ≠ 0 := by omega
      have hn := bitLen_le (8388608 - F) 22 hA0 (by simp only [Nat.reducePow]; omega)
      have hbp := bitLen_pos _ hA0
      by_cases hden : (104 : Int) - E + bitLen (8388608 - F) < -128
      · rw [to68_denormal_neg _ _ hA0 (by omega) hden]
        have hb := denormal_bound _ ((104 : Int) - E) hA0 (by omega) hden
        omega
      · rw [to68_normal_neg _ _ hA0 (by omega) (by omega)]
        have hb := bitLen_bounds _ hA0
        have ht := tmag_bounds _ _ hbp hb.1 hb.2
        simp only [Nat.reducePow] at ht
        have h1 : E < ((127 : Int) - ((104 : Int) - E + (bitLen (8388608 - F) : Int))).toNat := by omega
        have h2 : ((127 : Int) - ((104 : Int) - E + (bitLen (8388608 - F) : Int))).toNat ≤ 255 := by omega
        generalize ((127 : Int) - ((104 : Int) - E + (bitLen (8388608 - F) : Int))).toNat = E' at *
        generalize tmag (8388608 - F) (bitLen (8388608 - F)) = T at *
        omega

/-- **canonical-word lemma, precise form**: a word is reproduced by `to68 ∘ from68` exactly when it is canonical. -/
theorem reenc_fixed_iff (s E F : Nat) (hs : s ≤ 1) (hE : E < 256) (hF : F < 8388608) :
    reenc s E F = s * 2147483648 + E * 8388608 + F ↔ Canon68 s E F := by
  constructor
  · intro h
    by_cases hc : Canon68 s E F
    · exact hc
    · exact absurd h (reenc_noncanonical s E F hs hE hF hc)
  · exact reenc_canonical s E F hE hF

/-! ### every output of `to68` is a canonical word -/

/-- magnitude of `int(A·2^s)` -/
def tdm (A : Nat) (s : Int) : Nat := if 0 ≤ s then A * 2 ^ s.toNat else A / 2 ^ (-s).toNat

theorem truncShift_natCast (A : Nat) (s : Int) : truncShift (A : Int) s = tdm A s := by
  unfold truncShift tdm
  split
  · simp
  · rw [Int.tdiv_eq_ediv_of_nonneg (by omega)]; simp

theorem truncShift_neg_natCast (A : Nat) (s : Int) : truncShift (-(A : Int)) s = -(tdm A s : Int) := by
  unfold truncShift tdm
  split
  · simp [Int.neg_mul]
  · rw [Int.neg_tdiv, Int.tdiv_eq_ediv_of_nonneg (by omega)]; simp

/-- below the normal range the depressed, truncated mantissa is in `1 … 2^22 - 1` -/
theorem tdm_denormal_bound (A : Nat) (e : Int) (hA : A ≠ 0) (hlo : -151 < e + bitLen A) (hhi : e + bitLen A < -128) :
    1 ≤ tdm A (e + 151) ∧ tdm A (e + 151) < 4194304 := by
  have hb := bitLen_bounds A hA
  have hbp := bitLen_pos A hA
  unfold tdm
  split
  · rename_i h
    exact denormal_bound A e hA h hhi
  · rename_i h
    generalize hk : (-(e + 151)).toNat = k
    generalize hn : bitLen A = n at *
    have hkn : k ≤ n - 1 := by omega
    have hp : 0 < 2 ^ k := Nat.pos_of_ne_zero (by simp)
    constructor
    · rw [Nat.le_div_iff_mul_le hp, Nat.one_mul]
      exact Nat.le_trans (Nat.pow_le_pow_right (by omega) hkn) hb.1
    · rw [Nat.div_lt_iff_lt_mul hp]
      have h1 : 2 ^ n = 2 ^ (n - k) * 2 ^ k := by rw [← Nat.pow_add]; congr 1; omega
      have h2 : 2 ^ (n - k) ≤ 2 ^ 22 := Nat.pow_le_pow_right (by omega) (by omega)
      have h3 : 2 ^ (n - k) * 2 ^ k ≤ 2 ^ 22 * 2 ^ k := Nat.mul_le_mul_right _ h2
      simp only [Nat.reducePow] at h3
      omega

theorem to68_denormal_pos' (A : Nat) (e : Int) (hA : A ≠ 0) (hlo : -151 < e + bitLen A) (hhi : e + bitLen A < -128) :
    to68 (A : Int) e = 0 * 2147483648 + 0 * 8388608 + tdm A (e + 151) := by
  have hT := tdm_denormal_bound A e hA hlo hhi
  unfold to68 frexpExp
  simp only [Int.natAbs_natCast]
  generalize bitLen A = n at *
  have hm0 : ¬ ((A : Int) = 0) := by omega
  have c1 : ¬ (e + (n : Int) ≤ -(128 + 23)) := by omega
  have c2 : ¬ (e + (n : Int) > 127) := by omega
  have c3 : (e + (n : Int) < -128) := by omega
  have c4 : ¬ ((A : Int) < 0) := by omega
  simp only [hm0, c1, c2, c3, c4, if_false, if_true]
  have hsh : (23 : Int) - n - (-128 - (e + n)) = e + 151 := by omega
  rw [hsh, truncShift_natCast, pyAnd_ff, pyAnd_m23, word_assemble _ _ _ (by omega) (by omega)]
  have h1 : (((-128 : Int) - 128) % 256).toNat = 0 := by decide
  have h2 : (((tdm A (e + 151) : Nat) : Int) % 8388608).toNat = tdm A (e + 151) := by omega
  rw [h1, h2]

theorem to68_denormal_neg' (A : Nat) (e : Int) (hA : A ≠ 0) (hlo : -151 < e + bitLen A) (hhi : e + bitLen A < -128) :
    to68 (-(A : Int)) e = 1 * 2147483648 + 255 * 8388608 + (8388608 - tdm A (e + 151)) := by
  have hT := tdm_denormal_bound A e hA hlo hhi
  unfold to68 frexpExp
  simp only [Int.natAbs_neg, Int.natAbs_natCast]
  generalize bitLen A = n at *
  have hm0 : ¬ (-(A : Int) = 0) := by omega
  have c1 : ¬ (e + (n : Int) ≤ -(128 + 23)) := by omega
  have c2 : ¬ (e + (n : Int) > 127) := by omega
  have c3 : (e + (n : Int) < -128) := by omega
  have c4 : (-(A : Int) < 0) := by omega
  simp only [hm0, c1, c2, c3, c4, if_false, if_true]
  have hsh : (23 : Int) - n - (-128 - (e + n)) = e + 151 := by omega
  rw [hsh, truncShift_neg_natCast, pyAnd_ff, pyAnd_m23, word_assemble _ _ _ (by omega) (by omega)]
  have h1 : (((127 : Int) - -128) % 256).toNat = 255 := by decide
  have h2 : ((-((tdm A (e + 151) : Nat) : Int)) % 8388608).toNat = 8388608 - tdm A (e + 151) := by omega
  rw [h1, h2]

theorem to68_clamps (m e : Int) (hm : m ≠ 0) :
    (frexpExp m e ≤ -151 → to68 m e = 0x40000000) ∧
    (127 < frexpExp m e → to68 m e = if m < 0 then 0xFFC00000 else 0x7FFFFFFF) := by
  unfold to68
  generalize frexpExp m e = x
  constructor
  · intro h
    have : x ≤ -(128 + 23) := by omega
    simp only [this, if_true]
  · intro h
    have h1 : ¬ x ≤ -(128 + 23) := by omega
    have h2 : x > 127 := by omega
    simp only [h1, h2, if_false, if_true]

/-- the fields of a word (`sign·2^31 + E·2^23 + F`) satisfy `Canon68` -/
def CanonWord (u : Nat) : Prop := Canon68 (fld u 31 1) (fld u 23 8) (fld u 0 23)

theorem canonWord_assembled (s E F : Nat) (hs : s ≤ 1) (hE : E < 256) (hF : F < 8388608) (h : Canon68 s E F) :
    CanonWord (s * 2147483648 + E * 8388608 + F) := by
  unfold CanonWord
  obtain ⟨h1, h2, h3⟩ := fld_assembled s E F hs hE hF
  rw [h1, h2, h3]; exact h

theorem asm_exists (s E F : Nat) (hs : s ≤ 1) (hE : E < 256) (hF : F < 8388608) (hc : Canon68 s E F) :
    ∃ s' E' F', s' ≤ 1 ∧ E' < 256 ∧ F' < 8388608 ∧
      s * 2147483648 + E * 8388608 + F = s' * 2147483648 + E' * 8388608 + F' ∧ Canon68 s' E' F' :=
  ⟨s, E, F, hs, hE, hF, rfl, hc⟩

/-- **every word `to68` produces is an assembled canonical word** (all `m·2^e`, including the clamps) -/
theorem to68_fields (m e : Int) :
    ∃ s E F, s ≤ 1 ∧ E < 256 ∧ F < 8388608 ∧ to68 m e = s * 2147483648 + E * 8388608 + F ∧ Canon68 s E F := by
  by_cases hm : m = 0
  · subst hm
    rw [to68_zero]
    exact asm_exists 0 128 0 (by omega) (by omega) (by omega) (Or.inl ⟨rfl, Or.inr (Or.inr ⟨rfl, rfl⟩)⟩)
  · have hcl := to68_clamps m e hm
    by_cases hu : frexpExp m e ≤ -151
    · rw [hcl.1 hu]
      exact asm_exists 0 128 0 (by omega) (by omega) (by omega) (Or.inl ⟨rfl, Or.inr (Or.inr ⟨rfl, rfl⟩)⟩)
    · by_cases ho : 127 < frexpExp m e
      · rw [hcl.2 ho]
        split
        · exact asm_exists 1 255 4194304 (by omega) (by omega) (by omega) (Or.inr ⟨rfl, Or.inl ⟨by omega, by omega⟩⟩)
        · exact asm_exists 0 255 8388607 (by omega) (by omega) (by omega) (Or.inl ⟨rfl, Or.inl (by omega)⟩)
      · unfold frexpExp at hu ho
        rw [if_neg hm] at hu ho
        have hA0 : m.natAbs ≠ 0 := by omega
        have hb := bitLen_bounds _ hA0
        have hbp := bitLen_pos _ hA0
        rcases Int.natAbs_eq m with hmA | hmA
        · generalize m.natAbs = A at *
          subst hmA
          by_cases hden : e + bitLen A < -128
          · rw [to68_denormal_pos' A e hA0 (by omega) hden]
            have hT := tdm_denormal_bound A e hA0 (by omega) hden
            exact asm_exists 0 0 _ (by omega) (by omega) (by omega) (Or.inl ⟨rfl, Or.inr (Or.inl ⟨rfl, by omega⟩)⟩)
          · rw [to68_normal_pos A e hA0 (by omega) (by omega)]
            have ht := tmag_bounds A (bitLen A) hbp hb.1 hb.2
            simp only [Nat.reducePow] at ht
            exact asm_exists 0 _ _ (by omega) (by omega) (by omega) (Or.inl ⟨rfl, Or.inl (by omega)⟩)
        · generalize m.natAbs = A at *
          subst hmA
          by_cases hden : e + bitLen A < -128
          · rw [to68_denormal_neg' A e hA0 (by omega) hden]
            have hT := tdm_denormal_bound A e hA0 (by omega) hden
            exact asm_exists 1 255 _ (by omega) (by omega) (by omega) (Or.inr ⟨rfl, Or.inr ⟨rfl, by omega⟩⟩)
          · rw [to68_normal_neg A e hA0 (by omega) (by omega)]
            have ht := tmag_bounds A (bitLen A) hbp hb.1 hb.2
            simp only [Nat.reducePow] at ht
            exact asm_exists 1 _ _ (by omega) (by omega) (by omega) (Or.inr ⟨rfl, Or.inl ⟨by omega, by omega⟩⟩)

theorem to68_canonical (m e : Int) : CanonWord (to68 m e) ∧ to68 m e < 2 ^ 32 := by
  obtain ⟨s, E, F, hs, hE, hF, hw, hc⟩ := to68_fields m e
  rw [hw]
  exact ⟨canonWord_assembled s E F hs hE hF hc, by simp only [Nat.reducePow]; omega⟩

end TD.C07
