import TD.C07.Model

/-!
# C07 — helper lemmas (core Lean only): bit masks as bit fields, Python int primitives
-/
namespace TD.C07

/-- a contiguous mask: `x &&& ((2^a - 1) * 2^b)` keeps bits `b … b+a-1`. -/
theorem and_mask (x a b : Nat) : x &&& ((2 ^ a - 1) * 2 ^ b) = (x / 2 ^ b % 2 ^ a) * 2 ^ b := by
  apply Nat.eq_of_testBit_eq
  intro i
  simp only [Nat.testBit_and, Nat.testBit_mul_two_pow, Nat.testBit_two_pow_sub_one, Nat.testBit_mod_two_pow,
    Nat.testBit_div_two_pow]
  by_cases h : b ≤ i
  · simp [h]
    by_cases h2 : i - b < a
    · simp [h2]
    · simp [h2]
  · simp [h]

/-- bit field `n` bits wide starting at bit `lo` (the standard's "bits lo+n-1 … lo") -/
def fld (u lo n : Nat) : Nat := u / 2 ^ lo % 2 ^ n

/-- two's complement reading of an `n`-bit field -/
def twos (n : Nat) (x : Nat) : Int := if x < 2 ^ (n - 1) then (x : Int) else (x : Int) - ((2 ^ n : Nat) : Int)

/-- the low 64 bits of a Python int, which is all that `&` with a 64-bit mask sees -/
def low64 (w : Int) : Nat := (w % 18446744073709551616).toNat

/-- the unsigned `bits`-bit word that a Python int `w` stands for (`w` itself, or the two's complement of a negative
`struct`-unpacked value) -/
def uword (bits : Nat) (w : Int) : Nat := (w % ((2 ^ bits : Nat) : Int)).toNat

theorem pyAnd_fld (w : Int) (n lo mask : Nat) (hm : mask = (2 ^ n - 1) * 2 ^ lo) :
    pyAnd w mask = fld (low64 w) lo n * 2 ^ lo := by
  subst hm; unfold pyAnd fld low64; exact and_mask _ _ _

theorem ldexp_exact (m e : Int) (h : -1075 < e) : ldexp m e = .fin ⟨m, e⟩ := by
  unfold ldexp
  have : ¬ (m ≠ 0 ∧ e + (bitLen m.natAbs : Int) ≤ -1075) := by
    intro ⟨_, h2⟩; omega
  simp [this]

theorem pyOr_zero (b : Nat) : pyOr 0 b = b := by
  unfold pyOr; simp

theorem pyOr_neg23 (b : Nat) (hb : b < 8388608) : pyOr (-8388608) b = (b : Int) - 8388608 := by
  unfold pyOr
  have h1 : ¬ (0 : Int) ≤ -8388608 := by omega
  rw [if_neg h1]
  have h2 : (-(-8388608 : Int) - 1).toNat = 2 ^ 23 - 1 := by decide
  simp only [h2]
  rw [Nat.and_comm, Nat.and_two_pow_sub_one_eq_mod, Int.negSucc_eq]
  have : b % 2 ^ 23 = b := Nat.mod_eq_of_lt (by simpa using hb)
  rw [this]
  omega


theorem exp68 (E : Nat) : pyShr ((E * 2 ^ 23 : Nat) : Int) 23 = E := by
  unfold pyShr
  rw [Int.shiftRight_eq_div_pow]
  simp only [Nat.reducePow]
  omega

theorem mant68 (A M : Nat) (hM : M < 8388608) (hA : A = 0 ∨ A = 2147483648) :
    pyOr (pyShr (if (A : Int) ≠ 0 then (A : Int) * (-1) else (A : Int)) 8) M
      = if A = 0 then (M : Int) else (M : Int) - 8388608 := by
  rcases hA with rfl | rfl
  · simp [pyShr, pyOr]
  · simp [pyShr]
    rw [show ((-2147483648 : Int) >>> 8) = -8388608 by decide, pyOr_neg23 _ hM]

/-- `(w >> 16) & mask` sees bits 16… of the low 64 bits of `w` -/
theorem shr16_low (w : Int) (k : Nat) (hk : k = 1024 ∨ k = 65536) :
    ((w / 65536) % 18446744073709551616).toNat % k = (w % 18446744073709551616).toNat / 65536 % k := by
  have h : w % 18446744073709551616 = 65536 * ((w / 65536) % 281474976710656) + w % 65536 := by omega
  rcases hk with rfl | rfl <;> omega

end TD.C07
