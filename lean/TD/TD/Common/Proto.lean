/-
Shared helpers for the line-protocol drivers (core Lean only).
-/
namespace TD.Proto

def hexVal (c : Char) : Option Nat :=
  if '0' ≤ c ∧ c ≤ '9' then some (c.toNat - '0'.toNat)
  else if 'a' ≤ c ∧ c ≤ 'f' then some (c.toNat - 'a'.toNat + 10)
  else if 'A' ≤ c ∧ c ≤ 'F' then some (c.toNat - 'A'.toNat + 10)
  else none

/-- decode a hex string ("" or "-" = empty) into bytes -/
def unhex (s : String) : Option (List Nat) :=
  let rec go : List Char → List Nat → Option (List Nat)
    | [], acc => some acc.reverse
    | [_], _ => none
    | a :: b :: r, acc => match hexVal a, hexVal b with
      | some x, some y => go r ((x * 16 + y) :: acc)
      | _, _ => none
  if s = "-" then some [] else go s.toList []

def hexDigit (n : Nat) : Char := if n < 10 then Char.ofNat (48 + n) else Char.ofNat (87 + n)

def hex (bs : List Nat) : String :=
  if bs.isEmpty then "-" else String.ofList (bs.flatMap (fun b => [hexDigit (b / 16), hexDigit (b % 16)]))

/-- parse optional int: "N" = none -/
def optInt (s : String) : Option (Option Int) :=
  if s = "N" then some none else s.toInt?.map some

def showOptInt : Option Int → String
  | none => "N"
  | some v => toString v

def joinInts (l : List Int) : String := ",".intercalate (l.map toString)
def joinNats (l : List Nat) : String := ",".intercalate (l.map toString)

/-- generic stdin loop -/
partial def loop (h : IO.FS.Stream) (out : IO.FS.Stream) (step : String → String) : IO Unit := do
  let line ← h.getLine
  if line.isEmpty then return ()
  let l := (line.dropEndWhile (fun c => c = '\n' || c = '\r')).toString
  out.putStrLn (step l)
  loop h out step

def run (step : String → String) : IO Unit := do
  let i ← IO.getStdin
  let o ← IO.getStdout
  loop i o step
  o.flush

end TD.Proto
