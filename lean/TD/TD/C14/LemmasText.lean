/-
C14 — text lemmas: strip / translate / split and the two line scanners on printed lines.
-/
import TD.C14.LemmasNum
namespace TD.C14
open TD.C14.Spec

/-! ### character facts -/

theorem tokChar_notSpace {c : Nat} (h : 33 ≤ c ∧ c ≤ 126) : isSpace c = false := by
  simp [isSpace]; omega

theorem blankChar_space {c : Nat} (h : c = 32 ∨ c = 9 ∨ c = 11 ∨ c = 12 ∨ c = 13) : isSpace c = true := by
  rcases h with h | h | h | h | h <;> subst h <;> decide

theorem tokChar_printable {c : Nat} (h : 33 ≤ c ∧ c ≤ 126) : (decide (256 ≤ c) || isPrintable c) = true := by
  simp [isPrintable]; omega

theorem blankChar_printable {c : Nat} (h : c = 32 ∨ c = 9 ∨ c = 11 ∨ c = 12 ∨ c = 13) :
    (decide (256 ≤ c) || isPrintable c) = true := by
  rcases h with h | h | h | h | h <;> subst h <;> decide

theorem upperDigit_tokChar {c : Nat} (h : isUpperDigit c = true) : 33 ≤ c ∧ c ≤ 126 := by
  simp [isUpperDigit] at h; omega

theorem isName_isTok {n : Str} (h : isName n) : isTok n :=
  ⟨h.1, fun c hc => upperDigit_tokChar (h.2 c hc)⟩

/-! ### str.split() -/

theorem splitAux_tok (t r cur : Str) (ht : ∀ c ∈ t, isSpace c = false) :
    splitAux (t ++ r) cur = splitAux r (t.reverse ++ cur) := by
  induction t generalizing cur with
  | nil => rfl
  | cons a t ih =>
    have ha : isSpace a = false := ht a (by simp)
    rw [List.cons_append, splitAux]
    simp only [ha, Bool.false_eq_true, if_false]
    rw [ih (a :: cur) (fun c hc => ht c (by simp [hc]))]
    simp

theorem splitAux_spaces (s r : Str) (hs : ∀ c ∈ s, isSpace c = true) :
    splitAux (s ++ r) [] = splitAux r [] := by
  induction s with
  | nil => rfl
  | cons a s ih =>
    have ha : isSpace a = true := hs a (by simp)
    rw [List.cons_append, splitAux]
    simp only [ha, if_true]
    exact ih (fun c hc => hs c (by simp [hc]))

theorem splitAux_flush (s r cur : Str) (hs : ∀ c ∈ s, isSpace c = true) (hne : s ≠ []) (hcur : cur ≠ []) :
    splitAux (s ++ r) cur = cur.reverse :: splitAux r [] := by
  cases s with
  | nil => exact absurd rfl hne
  | cons a s =>
    have ha : isSpace a = true := hs a (by simp)
    rw [List.cons_append, splitAux]
    simp only [ha, if_true, if_neg hcur]
    rw [splitAux_spaces s r (fun c hc => hs c (by simp [hc]))]

theorem splitAux_end (cur : Str) (hcur : cur ≠ []) : splitAux [] cur = [cur.reverse] := by
  simp [splitAux, hcur]

/-! ### interleave -/

def sepAt (seps : List Str) : Str := seps.head?.getD [32]

theorem interleave_cons2 (t t2 : Str) (ts seps : List Str) :
    interleave (t :: t2 :: ts) seps = t ++ (sepAt seps ++ interleave (t2 :: ts) seps.tail) := by
  cases seps <;> simp [interleave, sepAt]

theorem interleave_single (t : Str) (seps : List Str) : interleave [t] seps = t := by
  cases seps <;> rfl

theorem sepAt_isSep (seps : List Str) (h : ∀ s ∈ seps, isSep s) : isSep (sepAt seps) := by
  cases seps with
  | nil => exact ⟨by simp [sepAt], by intro c hc; simp [sepAt] at hc; omega⟩
  | cons s r => simpa [sepAt] using h s (by simp)

theorem tail_isSep (seps : List Str) (h : ∀ s ∈ seps, isSep s) : ∀ s ∈ seps.tail, isSep s :=
  fun s hs => h s (List.mem_of_mem_tail hs)

theorem isSep_spaces {s : Str} (h : isSep s) : ∀ c ∈ s, isSpace c = true :=
  fun c hc => blankChar_space (h.2 c hc)

theorem isBlank_spaces {s : Str} (h : isBlank s) : ∀ c ∈ s, isSpace c = true :=
  fun c hc => blankChar_space (h c hc)

theorem isTok_notSpace {t : Str} (h : isTok t) : ∀ c ∈ t, isSpace c = false :=
  fun c hc => tokChar_notSpace (h.2 c hc)

/-- `split()` of a printed token line gives back the tokens -/
theorem splitAux_interleave (toks : List Str) (seps : List Str) (pad r : Str)
    (ht : ∀ t ∈ toks, isTok t) (hs : ∀ s ∈ seps, isSep s) (hp : isSep pad) :
    splitAux (interleave toks seps ++ (pad ++ r)) [] = toks ++ splitAux r [] := by
  induction toks generalizing seps with
  | nil =>
    simp only [interleave, List.nil_append]
    exact splitAux_spaces pad r (isSep_spaces hp)
  | cons t ts ih =>
    have htt := ht t (by simp)
    cases ts with
    | nil =>
      rw [interleave_single, splitAux_tok t _ [] (isTok_notSpace htt), List.append_nil,
        splitAux_flush pad r _ (isSep_spaces hp) hp.1 (by simpa using htt.1)]
      simp
    | cons t2 ts =>
      have hsep := sepAt_isSep seps hs
      rw [interleave_cons2, List.append_assoc, splitAux_tok t _ [] (isTok_notSpace htt), List.append_nil,
        List.append_assoc, splitAux_flush (sepAt seps) _ _ (isSep_spaces hsep) hsep.1 (by simpa using htt.1)]
      rw [ih seps.tail (fun x hx => ht x (by simp [hx])) (tail_isSep seps hs)]
      simp

theorem splitAux_tok_pad (t pad : Str) (ht : isTok t) (hp : isBlank pad) : splitAux (t ++ pad) [] = [t] := by
  rw [splitAux_tok t _ [] (isTok_notSpace ht), List.append_nil]
  cases pad with
  | nil => rw [splitAux_end _ (by simpa using ht.1)]; simp
  | cons a p =>
    have := splitAux_flush (a :: p) [] t.reverse (isBlank_spaces hp) (by simp) (by simpa using ht.1)
    rw [List.append_nil] at this
    rw [this]; simp [splitAux]

theorem splitAux_interleave_end (toks : List Str) (seps : List Str) (pad : Str)
    (ht : ∀ t ∈ toks, isTok t) (hs : ∀ s ∈ seps, isSep s) (hp : isBlank pad) :
    splitAux (interleave toks seps ++ pad) [] = toks := by
  induction toks generalizing seps with
  | nil =>
    simp only [interleave, List.nil_append]
    have := splitAux_spaces pad [] (isBlank_spaces hp)
    rw [List.append_nil] at this
    rw [this]; rfl
  | cons t ts ih =>
    have htt := ht t (by simp)
    cases ts with
    | nil => rw [interleave_single]; exact splitAux_tok_pad t pad htt hp
    | cons t2 ts =>
      have hsep := sepAt_isSep seps hs
      rw [interleave_cons2, List.append_assoc, splitAux_tok t _ [] (isTok_notSpace htt), List.append_nil,
        List.append_assoc, splitAux_flush (sepAt seps) _ _ (isSep_spaces hsep) hsep.1 (by simpa using htt.1)]
      rw [ih seps.tail (fun x hx => ht x (by simp [hx])) (tail_isSep seps hs)]
      simp

/-- `line.split()` of a printed token line (with blank margins) gives back the tokens -/
theorem splitWs_line (toks : List Str) (seps : List Str) (lead pad : Str)
    (ht : ∀ t ∈ toks, isTok t) (hs : ∀ s ∈ seps, isSep s) (hl : isBlank lead) (hp : isBlank pad) :
    splitWs (lead ++ (interleave toks seps ++ pad)) = toks := by
  unfold splitWs
  rw [splitAux_spaces lead _ (isBlank_spaces hl)]
  exact splitAux_interleave_end toks seps pad ht hs hp

/-! ### shape of a printed line body -/

theorem interleave_chars (toks seps : List Str) (ht : ∀ t ∈ toks, isTok t) (hs : ∀ s ∈ seps, isSep s) :
    ∀ c ∈ interleave toks seps, (33 ≤ c ∧ c ≤ 126) ∨ (c = 32 ∨ c = 9 ∨ c = 11 ∨ c = 12 ∨ c = 13) := by
  induction toks generalizing seps with
  | nil => simp [interleave]
  | cons t ts ih =>
    cases ts with
    | nil =>
      rw [interleave_single]
      exact fun c hc => Or.inl ((ht t (by simp)).2 c hc)
    | cons t2 ts =>
      rw [interleave_cons2]
      intro c hc
      simp only [List.mem_append] at hc
      rcases hc with hc | hc | hc
      · exact Or.inl ((ht t (by simp)).2 c hc)
      · exact Or.inr ((sepAt_isSep seps hs).2 c hc)
      · exact ih seps.tail (fun x hx => ht x (by simp [hx])) (tail_isSep seps hs) c hc

theorem interleave_head (t : Str) (ts seps : List Str) (ht : isTok t) :
    ∃ a X, interleave (t :: ts) seps = a :: X ∧ 33 ≤ a ∧ a ≤ 126 := by
  cases t with
  | nil => exact absurd rfl ht.1
  | cons a t' =>
    have ha := ht.2 a (by simp)
    cases ts with
    | nil => exact ⟨a, t', by rw [interleave_single], ha⟩
    | cons t2 ts => exact ⟨a, _, by rw [interleave_cons2]; rfl, ha⟩

theorem interleave_last (toks seps : List Str) (hne : toks ≠ []) (ht : ∀ t ∈ toks, isTok t) :
    ∃ Y z, interleave toks seps = Y ++ [z] ∧ 33 ≤ z ∧ z ≤ 126 := by
  induction toks generalizing seps with
  | nil => exact absurd rfl hne
  | cons t ts ih =>
    cases ts with
    | nil =>
      have htt := ht t (by simp)
      rw [interleave_single]
      refine ⟨t.dropLast, t.getLast htt.1, (List.dropLast_concat_getLast htt.1).symm, htt.2 _ (List.getLast_mem htt.1)⟩
    | cons t2 ts =>
      obtain ⟨Y, z, hY, hz⟩ := ih seps.tail (by simp) (fun x hx => ht x (by simp [hx]))
      refine ⟨t ++ (sepAt seps ++ Y), z, ?_, hz⟩
      rw [interleave_cons2, hY]; simp

/-! ### line preparation -/

theorem prep_printLine (toks : List Str) (lay : LineLay) (hne : toks ≠ []) (ht : ∀ t ∈ toks, isTok t) (hl : lay.wf) :
    prep (printLine toks lay) = interleave toks lay.seps := by
  obtain ⟨hlead, htrail, hseps⟩ := hl
  cases toks with
  | nil => exact absurd rfl hne
  | cons t ts =>
  obtain ⟨a, X, hB, ha⟩ := interleave_head t ts lay.seps (ht t (by simp))
  obtain ⟨Y, z, hB2, hz⟩ := interleave_last (t :: ts) lay.seps hne ht
  have hchars := interleave_chars (t :: ts) lay.seps ht hseps
  unfold prep printLine strip
  generalize interleave (t :: ts) lay.seps = B at *
  have h1 : (lay.lead ++ (B ++ lay.trail)).dropWhile isSpace = B ++ lay.trail := by
    refine (takeWhile_run (p := isSpace) lay.lead (B ++ lay.trail) (isBlank_spaces hlead) ?_).2
    intro a' r' heq
    rw [hB] at heq
    simp only [List.cons_append, List.cons.injEq] at heq
    rw [← heq.1]; exact tokChar_notSpace ha
  have h2 : (lay.trail.reverse ++ B.reverse).dropWhile isSpace = B.reverse := by
    refine (takeWhile_run (p := isSpace) lay.trail.reverse B.reverse ?_ ?_).2
    · intro c hc; exact isBlank_spaces htrail c (List.mem_reverse.mp hc)
    · intro a' r' heq
      rw [hB2] at heq
      simp only [List.reverse_append, List.reverse_cons, List.reverse_nil, List.nil_append, List.cons_append,
        List.cons.injEq] at heq
      rw [← heq.1]; exact tokChar_notSpace hz
  have h3 : translate B = B := by
    unfold translate
    rw [List.filter_eq_self]
    intro c hc
    rcases hchars c hc with h | h
    · exact tokChar_printable h
    · exact blankChar_printable h
  rw [List.append_assoc, h1, List.reverse_append, h2, List.reverse_reverse, h3]

/-! ### the header scanner -/

theorem stripPrefix_append (p r : Str) : stripPrefix p (p ++ r) = some r := by
  induction p with
  | nil => rfl
  | cons a p ih => simp [stripPrefix, ih]

theorem skipSpaces1_sep (s r : Str) (hs : isSep s) (hr : ∀ a t, r = a :: t → isSpace a = false) :
    skipSpaces1 (s ++ r) = some r := by
  obtain ⟨hne, hb⟩ := hs
  cases s with
  | nil => exact absurd rfl hne
  | cons c s' =>
    have hc : isSpace c = true := blankChar_space (hb c (by simp))
    simp only [List.cons_append, skipSpaces1, hc, if_true]
    congr 1
    exact (takeWhile_run (p := isSpace) s' r (fun x hx => blankChar_space (hb x (by simp [hx]))) hr).2

theorem head_notSpace_of_tok (t r : Str) (ht : isTok t) : ∀ a x, t ++ r = a :: x → isSpace a = false := by
  intro a x heq
  cases t with
  | nil => exact absurd rfl ht.1
  | cons b t' =>
    simp only [List.cons_append, List.cons.injEq] at heq
    rw [← heq.1]; exact tokChar_notSpace (ht.2 b (by simp))

theorem sUTIM_tok : isTok sUTIM := by decide
theorem sDATE_tok : isTok sDATE := by decide
theorem sTIME_tok : isTok sTIME := by decide

theorem scanHeader_print (sel seps : List Str) (hne : sel ≠ []) (ht : ∀ t ∈ sel, isTok t) (hs : ∀ s ∈ seps, isSep s) :
    scanHeader (interleave (headerTokens sel) seps) = true := by
  cases sel with
  | nil => exact absurd rfl hne
  | cons n ns =>
  obtain ⟨a, X, hB, ha⟩ := interleave_head n ns seps.tail.tail.tail (ht n (by simp))
  have e1 := sepAt_isSep seps hs
  have e2 := sepAt_isSep seps.tail (tail_isSep _ hs)
  have e3 := sepAt_isSep seps.tail.tail (tail_isSep _ (tail_isSep _ hs))
  unfold headerTokens
  rw [interleave_cons2, interleave_cons2, interleave_cons2, hB]
  unfold scanHeader
  rw [stripPrefix_append]
  simp only []
  rw [skipSpaces1_sep _ _ e1 (head_notSpace_of_tok sDATE _ sDATE_tok)]
  simp only []
  rw [stripPrefix_append]
  simp only []
  rw [skipSpaces1_sep _ _ e2 (head_notSpace_of_tok sTIME _ sTIME_tok)]
  simp only []
  rw [stripPrefix_append]
  obtain ⟨hne3, hb3⟩ := e3
  cases hsep : sepAt seps.tail.tail with
  | nil => exact absurd hsep hne3
  | cons c s' =>
    rw [hsep] at hb3
    have hc : isSpace c = true := blankChar_space (hb3 c (by simp))
    cases s' with
    | nil => simpa using hc
    | cons c2 s'' => simpa using hc

theorem stripPrefix_some (p l r : Str) (h : stripPrefix p l = some r) : l = p ++ r := by
  induction p generalizing l with
  | nil => simp [stripPrefix] at h; simp [h]
  | cons a p ih =>
    cases l with
    | nil => simp [stripPrefix] at h
    | cons c l' =>
      simp only [stripPrefix] at h
      split at h
      · next hac => rw [hac, ih l' h]; rfl
      · exact absurd h (by simp)

theorem dropWhile_head {p : Nat → Bool} (l : Str) : ∀ a t, l.dropWhile p = a :: t → p a = false := by
  induction l with
  | nil => intro a t h; simp at h
  | cons c l ih =>
    intro a t h
    by_cases hc : p c = true
    · rw [List.dropWhile_cons_of_pos hc] at h; exact ih a t h
    · rw [List.dropWhile_cons_of_neg hc] at h
      simp only [List.cons.injEq] at h
      rw [← h.1]; simpa using hc

theorem skipSpaces1_some (l r : Str) (h : skipSpaces1 l = some r) :
    ∃ s, l = s ++ r ∧ s ≠ [] ∧ (∀ c ∈ s, isSpace c = true) ∧ (∀ a t, r = a :: t → isSpace a = false) := by
  cases l with
  | nil => simp [skipSpaces1] at h
  | cons c l' =>
    simp only [skipSpaces1] at h
    split at h
    · next hc =>
      simp only [Option.some.injEq] at h
      refine ⟨c :: l'.takeWhile isSpace, ?_, by simp, ?_, ?_⟩
      · rw [← h]; simp [List.takeWhile_append_dropWhile]
      · intro x hx
        simp only [List.mem_cons] at hx
        rcases hx with rfl | hx
        · exact hc
        · exact (List.all_eq_true.mp (List.all_takeWhile (p := isSpace) (l := l'))) x hx
      · rw [← h]; exact dropWhile_head l'
    · exact absurd h (by simp)

theorem sUTIM_ns : ∀ c ∈ sUTIM, isSpace c = false := by decide
theorem sDATE_ns : ∀ c ∈ sDATE, isSpace c = false := by decide
theorem sTIME_ns : ∀ c ∈ sTIME, isSpace c = false := by decide

/-- a line that the header detector accepts has `UTIM DATE TIME` as its first three words -/
theorem scanHeader_tokens (l : Str) (h : scanHeader l = true) :
    ∃ rest, splitWs l = sUTIM :: sDATE :: sTIME :: rest := by
  unfold scanHeader at h
  split at h
  · exact absurd h (by simp)
  next r1 h1 =>
  split at h
  · exact absurd h (by simp)
  next r2 h2 =>
  split at h
  · exact absurd h (by simp)
  next r3 h3 =>
  split at h
  · exact absurd h (by simp)
  next r4 h4 =>
  split at h
  next c x y h5 =>
    obtain ⟨s1, e1, n1, sp1, _⟩ := skipSpaces1_some _ _ h2
    obtain ⟨s2, e2, n2, sp2, _⟩ := skipSpaces1_some _ _ h4
    have hl : l = sUTIM ++ (s1 ++ (sDATE ++ (s2 ++ (sTIME ++ ([c] ++ (x :: y)))))) := by
      rw [stripPrefix_some _ _ _ h1, e1, stripPrefix_some _ _ _ h3, e2, stripPrefix_some _ _ _ h5]; rfl
    refine ⟨splitAux (x :: y) [], ?_⟩
    unfold splitWs
    rw [hl, splitAux_tok _ _ [] sUTIM_ns, List.append_nil, splitAux_flush s1 _ _ sp1 n1 (by decide),
      splitAux_tok _ _ [] sDATE_ns, List.append_nil, splitAux_flush s2 _ _ sp2 n2 (by decide),
      splitAux_tok _ _ [] sTIME_ns, List.append_nil,
      splitAux_flush [c] _ _ (by simpa using h) (by simp) (by decide)]
    rfl
  · exact absurd h (by simp)

/-! ### the declaration scanner -/

theorem interleave_snoc (ws : List Str) (u : Str) (seps : List Str) (hne : ws ≠ []) (hs : ∀ s ∈ seps, isSep s) :
    ∃ sK, isSep sK ∧ interleave (ws ++ [u]) seps = interleave ws seps ++ (sK ++ u) := by
  induction ws generalizing seps with
  | nil => exact absurd rfl hne
  | cons w ws ih =>
    cases ws with
    | nil =>
      refine ⟨sepAt seps, sepAt_isSep seps hs, ?_⟩
      rw [List.cons_append, List.nil_append, interleave_cons2, interleave_single, interleave_single]
    | cons w2 ws' =>
      obtain ⟨sK, hK, hEq⟩ := ih seps.tail (by simp) (tail_isSep seps hs)
      refine ⟨sK, hK, ?_⟩
      rw [List.cons_append, List.cons_append, interleave_cons2, ← List.cons_append, hEq, interleave_cons2]
      simp

theorem scanDecl_shape (name s0 R0 sK units : Str) (hn : isName name) (h0 : isSep s0) (hK : isSep sK)
    (hu : isTok units) (hR : R0 ≠ []) :
    scanDecl (name ++ (s0 ++ (R0 ++ (sK ++ units)))) = some (name, s0.tail ++ (R0 ++ sK.dropLast), units) := by
  obtain ⟨hn1, hn2⟩ := hn
  cases s0 with
  | nil => exact absurd rfl h0.1
  | cons c0 s0' =>
  have hc0 : isSpace c0 = true := blankChar_space (h0.2 c0 (by simp))
  have hc0u : isUpperDigit c0 = false := by
    rcases h0.2 c0 (by simp) with h | h | h | h | h <;> subst h <;> decide
  obtain ⟨ht, hd⟩ := takeWhile_run (p := isUpperDigit) name (c0 :: (s0' ++ (R0 ++ (sK ++ units)))) hn2
    (by intro a r heq; simp only [List.cons.injEq] at heq; rw [← heq.1]; exact hc0u)
  have hKl := List.dropLast_concat_getLast hK.1
  have hcl : isSpace (sK.getLast hK.1) = true := blankChar_space (hK.2 _ (List.getLast_mem hK.1))
  have hrev : (s0' ++ (R0 ++ (sK ++ units))).reverse =
      units.reverse ++ (sK.getLast hK.1 :: (sK.dropLast.reverse ++ (R0.reverse ++ s0'.reverse))) := by
    conv => lhs; rw [← hKl]
    simp
  obtain ⟨ht2, hd2⟩ := takeWhile_run (p := fun c => !isSpace c) units.reverse
    (sK.getLast hK.1 :: (sK.dropLast.reverse ++ (R0.reverse ++ s0'.reverse)))
    (by intro a ha; simp [tokChar_notSpace (hu.2 a (List.mem_reverse.mp ha))])
    (by intro a r heq; simp only [List.cons.injEq] at heq; rw [← heq.1]; simp [hcl])
  unfold scanDecl
  simp only [List.cons_append] at ht hd ⊢
  rw [ht, hd]
  simp only [if_neg hn1, hc0, Bool.not_true, Bool.false_eq_true, if_false, hrev, ht2, hd2, List.reverse_reverse]
  rw [if_neg hu.1]
  have hne : sK.dropLast.reverse ++ (R0.reverse ++ s0'.reverse) ≠ [] := by
    intro h
    simp at h
    exact hR h.2.1
  simp only [if_neg hne]
  simp

/-- the declaration scanner on a printed declaration: name, raw description (its words are the declared ones), units -/
theorem scanDecl_print (d : Decl) (seps : List Str) (hd : d.wf) (hs : ∀ s ∈ seps, isSep s) :
    ∃ g2, scanDecl (interleave (declTokens d) seps) = some (d.name, g2, d.units) ∧ splitWs g2 = d.words := by
  obtain ⟨hn, hw, hwt, hu, _⟩ := hd
  cases hws : d.words with
  | nil => exact absurd hws hw
  | cons w ws =>
  obtain ⟨sK, hK, hEq⟩ := interleave_snoc (w :: ws) d.units seps.tail (by simp) (tail_isSep seps hs)
  have h0 := sepAt_isSep seps hs
  have hwt' : ∀ t ∈ w :: ws, isTok t := by rw [← hws]; exact hwt
  obtain ⟨a, X, hB, _⟩ := interleave_head w ws seps.tail (hwt' w (by simp))
  have hR : interleave (w :: ws) seps.tail ≠ [] := by rw [hB]; simp
  refine ⟨(sepAt seps).tail ++ (interleave (w :: ws) seps.tail ++ sK.dropLast), ?_, ?_⟩
  · unfold declTokens
    rw [hws, List.cons_append, interleave_cons2, ← List.cons_append, hEq]
    exact scanDecl_shape d.name (sepAt seps) _ sK d.units hn h0 hK hu hR
  · apply splitWs_line (w :: ws) seps.tail _ _ hwt' (tail_isSep seps hs)
    · intro c hc; exact h0.2 c (List.mem_of_mem_tail hc)
    · intro c hc; exact hK.2 c (List.dropLast_subset _ hc)

end TD.C14
