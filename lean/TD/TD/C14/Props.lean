/-
C14 — property theorems: DAT mud-log files parse to their declared channels and values; mismatching files are
rejected with a DAT error.

Model: `TD.C14.parseFile` / `canParseFile` (Model.lean, a line-for-line model of `DAT_parser._parse_file`).
Specification: `TD.C14.Spec` — content (`File` minus its layout fields), printer `print`, required result `expected`.
-/
import TD.C14.LemmasReject
namespace TD.C14
open TD.C14.Spec

/-- The literals in `DAT_parser.py` (regenerated into `TD.Gen.C14` on every run) are the ones the hand-written
scanners and conversion functions of `Model.lean` were written for. A changed regular expression, month list,
strptime format, year pivot or key table makes this fail to check. -/
theorem gen_tables_as_modelled :
    TD.Gen.C14.reChannelDefinition = "^([A-Z0-9]+)\\s(.+?)\\s(\\S+)$" ∧
    TD.Gen.C14.reDataHeaderDefinition = "^UTIM\\s+DATE\\s+TIME\\s+.+$" ∧
    TD.Gen.C14.reDateStyleA = "^(\\d+)(Jan|Feb|Mar|Apr|May|Jun|Jul|Aug|Sep|Oct|Nov|Dec)(\\d+)$" ∧
    TD.Gen.C14.reDateStyleB = "^(\\d+)-(Jan|Feb|Mar|Apr|May|Jun|Jul|Aug|Sep|Oct|Nov|Dec)-(\\d+)$" ∧
    TD.Gen.C14.timeFormat = "%H-%M-%S" ∧
    TD.Gen.C14.yearPivotTest = "yr > 50" ∧
    TD.Gen.C14.monthNames = monthNames ∧
    TD.Gen.C14.conversionMap =
      [(sUTIM, sSec, "_unit_unix_time_to_datetime_datetime"), (sDATE, sDdmmyy, "_unit_ddmmyy_to_datetime_date"),
       (sTIME, sHhmmss, "_unit_hhmmyy_to_datetime_time")] ∧
    TD.Gen.C14.typeMap = [(sUTIM, sSec, "object"), (sDATE, sDdmmyy, "object"), (sTIME, sHhmmss, "object")] := by
  decide

/-! ### a concrete file used by the `example`s -/

def sp : Str := [32]
def exA : Str := [65, 49]                      -- "A1"

/-- declarations out of order with tabs, header `UTIM DATE TIME A1`, two rows in both date spellings -/
def exFile : File :=
  { decls := [(⟨exA, [[66, 105, 116], [68, 105, 97]], [105, 110]⟩, { seps := [[9], [32, 32]] }),
              (⟨sTIME, [[84]], sHhmmss⟩, { lead := [32], trail := [32, 13] }),
              (⟨sUTIM, [[85, 110, 105, 120], [84, 105, 109, 101]], sSec⟩, {}),
              (⟨sDATE, [[68]], sDdmmyy⟩, { seps := [[9, 9]] })],
    sel := [exA],
    hdrLay := { seps := [[9]], trail := [32] },
    rows := [(⟨⟨2006, 12, 9, 11, 50, 17⟩, ⟨2006, 12, 9⟩, ⟨11, 50, 17⟩, [⟨none, [8], some [5, 0], none⟩]⟩, {}, {}),
             (⟨⟨2000, 2, 29, 23, 59, 59⟩, ⟨1951, 1, 5⟩, ⟨0, 5, 9⟩, [⟨some true, [], some [2, 5], some (true, some false, [0, 3])⟩]⟩,
              { seps := [[9]] }, { dash := true, dayZeros := 1, hPad := false, sPad := false })],
    finalNewline := false }

theorem exFile_wf : exFile.wf := by
  refine ⟨?_, by decide, ⟨_, List.mem_cons_of_mem _ (List.mem_cons_of_mem _ (List.mem_cons_self)), rfl, rfl⟩,
    ⟨_, List.mem_cons_of_mem _ (List.mem_cons_of_mem _ (List.mem_cons_of_mem _ (List.mem_cons_self))), rfl, rfl⟩,
    ⟨_, List.mem_cons_of_mem _ (List.mem_cons_self), rfl, rfl⟩, by decide, by decide, by decide, by decide, ?_⟩
  · intro d hd
    simp only [exFile, List.mem_cons, List.mem_nil_iff, or_false] at hd
    rcases hd with rfl | rfl | rfl | rfl <;> exact ⟨⟨by decide, by decide, by decide, by decide, by decide⟩, by decide⟩
  · intro r hr
    simp only [exFile, List.mem_cons, List.mem_nil_iff, or_false] at hr
    rcases hr with rfl | rfl
    · refine ⟨⟨by decide, by decide, by decide, by decide, by decide, by decide, by decide, by decide, by decide, by decide,
        rfl, ?_⟩, by decide⟩
      intro x hx
      simp only [List.mem_cons, List.mem_nil_iff, or_false] at hx
      subst hx
      exact ⟨by decide, by decide, by decide, by intro e he; cases he⟩
    · refine ⟨⟨by decide, by decide, by decide, by decide, by decide, by decide, by decide, by decide, by decide, by decide,
        rfl, ?_⟩, by decide⟩
      intro x hx
      simp only [List.mem_cons, List.mem_nil_iff, or_false] at hx
      subst hx
      exact ⟨by decide, by decide, by decide, by intro e he; cases he; exact ⟨by decide, by decide⟩⟩

/-! ### parse ∘ print -/

/-- **DAT files parse to their declared channels and values.** For every content (declarations in any order, a header
`UTIM DATE TIME` + a non-empty list of distinct other declared channels, any number of rows with valid date/times in
either date spelling and decimal numbers) and every layout (any blank characters — space, tab, VT, FF, CR — around and
between the tokens of each line, optional final newline, 1- or 2-digit fields, leading zeros): the parser returns one
channel per header name, in header order, with the description (words joined by single spaces) and units of its
declaration, object dtype for the three leading columns, and the exact values, one frame per data line.
`expected f` is computed from the content parts of `f` only (`d.1`, `r.1`, `f.sel`), so the result does not depend on
the layout (`dat_layout_independent`). -/
theorem dat_parse_print (f : File) (h : f.wf) : parseFile (print f) = .ok (expected f) :=
  parse_print f h

example : parseFile (print exFile) = .ok (expected exFile) := dat_parse_print exFile exFile_wf

/-- the content of a file: everything but the layout -/
def content (f : File) : List Decl × List Str × List Row := (f.decls.map (·.1), f.sel, f.rows.map (·.1))

theorem chanOf_content (f g : File) (h : f.decls.map (·.1) = g.decls.map (·.1)) (n : Str) : chanOf f n = chanOf g n := by
  have hf : ∀ (ds : List (Decl × LineLay)),
      (ds.find? (fun d => decide (d.1.name = n))).map (·.1) = (ds.map (·.1)).find? (fun d => decide (d.name = n)) := by
    intro ds
    induction ds with
    | nil => rfl
    | cons d ds ih =>
      simp only [List.find?_cons, List.map_cons]
      split <;> simp_all
  have e := hf f.decls
  rw [h, ← hf g.decls] at e
  unfold chanOf
  cases h1 : f.decls.find? (fun d => decide (d.1.name = n)) <;>
    cases h2 : g.decls.find? (fun d => decide (d.1.name = n)) <;> rw [h1, h2] at e <;> simp at e
  all_goals first | rfl | (simp only []; rw [e])

/-- two well-formed files with the same content parse to the same result whatever their layouts -/
theorem dat_layout_independent (f g : File) (hf : f.wf) (hg : g.wf) (hc : content f = content g) :
    parseFile (print f) = parseFile (print g) := by
  rw [dat_parse_print f hf, dat_parse_print g hg]
  simp only [content, Prod.mk.injEq] at hc
  obtain ⟨h1, h2, h3⟩ := hc
  unfold expected
  have hr : f.rows.map (fun r => cellValues r.1) = g.rows.map (fun r => cellValues r.1) := by
    have := congrArg (List.map cellValues) h3
    simpa [List.map_map, Function.comp_def] using this
  have hch : chanOf f = chanOf g := funext (chanOf_content f g h1)
  rw [hr, h2, hch]

/-! ### rejection -/

/-- **Every failure is a DAT error**: whatever the text, the parser either returns channels or raises
`ExceptionDATRead` — never an assertion failure, a `TypeError` or anything else (in the model). -/
theorem errors_are_dat (text : Str) (e : Err) (h : parseFile text = .error e) : e = .dat :=
  parseLines_err false _ e h

/-- `can_parse_file` never lets an exception escape -/
theorem can_parse_never_raises (text : Str) : ∃ b, canParseFile text = .ok b := by
  unfold canParseFile
  cases h : parseLines true (splitLines text) with
  | ok r => exact ⟨_, rfl⟩
  | error e =>
    have := parseLines_err true _ e h
    subst this
    exact ⟨false, rfl⟩

example : parseFile [65, 10, 66] = .error .dat := by decide

/-- **A data line that does not match the header is rejected.** After any well-formed declaration section, header and
data lines, a line whose number of whitespace-separated words (after stripping and removal of non-printable
characters) differs from the number of header names makes the whole file a DAT error — whatever follows it
(`tail`), including when the offending line is empty. -/
theorem row_width_mismatch_rejected (f : File) (hf : f.wf) (bad : Str) (tail : List Str) (fin : Bool)
    (hbad : (splitWs (prep bad)).length ≠ 3 + f.sel.length)
    (h10 : ∀ l ∈ bad :: tail, ∀ c ∈ l, c ≠ 10)
    (hlast : fin = true ∨ ∀ l, (bad :: tail).getLast? = some l → l ≠ []) :
    parseFile (joinLines (f.lines ++ bad :: tail) fin) = .error .dat := by
  unfold parseFile
  rw [splitLines_joinLines' _ _ ?_ ?_]
  · exact row_width_lines f hf bad tail hbad
  · intro l hl
    rcases List.mem_append.mp hl with h | h
    · exact (lines_ok f hf l h).2
    · exact h10 l h
  · rcases hlast with h | h
    · exact Or.inl h
    · right
      intro l hl
      have hc : (bad :: tail).getLast? = some ((tail.getLast?).getD bad) := List.getLast?_cons
      rw [List.getLast?_append, hc] at hl
      exact h l (by rw [hc]; exact hl)

/-- a row with a column dropped, and an empty line, after `exFile` -/
example : parseFile (joinLines (exFile.lines ++ [[49, 32, 57, 68, 101, 99, 48, 54, 32, 49, 45, 50, 45, 51]]) true) = .error .dat :=
  row_width_mismatch_rejected exFile exFile_wf _ [] true (by decide) (by decide) (Or.inl rfl)

example : parseFile (joinLines (exFile.lines ++ [[], [49]]) false) = .error .dat :=
  row_width_mismatch_rejected exFile exFile_wf [] [[49]] false (by decide) (by decide) (Or.inr (by decide))

/-- **A header that names an undeclared channel is rejected.** After any well-formed declaration section (distinct
names), a header line `UTIM DATE TIME …` in any layout one of whose names has no declaration makes the file a DAT
error, whatever follows. (This includes a missing declaration of UTIM, DATE or TIME themselves.) -/
theorem undeclared_channel_rejected (decls : List (Decl × LineLay)) (sel : List Str) (lay : LineLay) (tail : List Str)
    (fin : Bool)
    (hd : ∀ d ∈ decls, d.1.wf ∧ d.2.wf) (hnd : (decls.map (fun d => d.1.name)).Nodup)
    (hne : sel ≠ []) (ht : ∀ t ∈ sel, isTok t) (hl : lay.wf)
    (hun : ∃ n ∈ headerTokens sel, n ∉ decls.map (fun d => d.1.name))
    (h10 : ∀ l ∈ tail, ∀ c ∈ l, c ≠ 10)
    (hlast : fin = true ∨ ∀ l, tail.getLast? = some l → l ≠ []) :
    parseFile (joinLines (decls.map (fun d => printLine (declTokens d.1) d.2) ++
      printLine (headerTokens sel) lay :: tail) fin) = .error .dat := by
  have hhdr := printLine_ok (headerTokens sel) lay (by simp [headerTokens]) (headerTokens_tok sel ht) hl
  unfold parseFile
  rw [splitLines_joinLines' _ _ ?_ ?_]
  · exact undeclared_lines false decls sel lay tail hd hnd hne ht hl hun
  · intro l hl'
    rcases List.mem_append.mp hl' with h | h
    · obtain ⟨d, hdm, rfl⟩ := List.mem_map.mp h
      exact (printLine_ok _ _ (by simp [declTokens]) (declTokens_tok d.1 (hd d hdm).1) (hd d hdm).2).2
    · rcases List.mem_cons.mp h with rfl | h'
      · exact hhdr.2
      · exact h10 l h'
  · rcases hlast with h | h
    · exact Or.inl h
    · right
      intro l hl'
      rw [List.getLast?_append] at hl'
      cases tail with
      | nil =>
        have hc : [printLine (headerTokens sel) lay].getLast? = some (printLine (headerTokens sel) lay) := rfl
        rw [hc] at hl'
        have : printLine (headerTokens sel) lay = l := Option.some.inj hl'
        rw [← this]; exact hhdr.1
      | cons t ts =>
        have hc : (printLine (headerTokens sel) lay :: t :: ts).getLast? = (t :: ts).getLast? := List.getLast?_cons_cons
        have hc2 : (t :: ts).getLast? = some ((ts.getLast?).getD t) := List.getLast?_cons
        rw [hc, hc2] at hl'
        exact h l (by rw [hc2]; exact hl')

/-- the header of `exFile` with `B2` (not declared) instead of `A1` -/
example : parseFile (joinLines (exFile.decls.map (fun d => printLine (declTokens d.1) d.2) ++
    [printLine (headerTokens [[66, 50]]) {}]) true) = .error .dat :=
  undeclared_channel_rejected exFile.decls [[66, 50]] {} [] true (fun d hd => exFile_wf.1 d hd) exFile_wf.2.1
    (by decide) (by decide) (by decide) ⟨[66, 50], by decide, by decide⟩ (by decide) (Or.inl rfl)

/-- **A token that is not a number under a numeric channel is rejected.** For every text: if the line scanner
completes and has put, in the column of a channel whose conversion is `float` (any channel other than
(UTIM, sec), (DATE, ddmmyy), (TIME, hhmmss)), a token that `float()` refuses, the result is a DAT error — never a
value. (Stated on the scanner's final state, so it covers every file and layout, not only printed ones; for printed
files `loop_file` says what that state is: the header's channels and the transposed token table.) -/
theorem bad_number_rejected (text : Str) (st : St) (hloop : loop false {} (splitLines text) = .ok st)
    (c : Chan) (col : List Str) (tok : Str) (hmem : (c, col) ∈ st.chans.zip st.table)
    (hk : convKind c.name c.units = .float) (htok : tok ∈ col) (hbad : parseFloat tok = none) :
    parseFile text = .error .dat :=
  bad_number_lines false _ st hloop c col tok hmem hk htok hbad

/-- `exFile` followed by the row `1 9Dec06 1-2-3 12x4` -/
example : parseFile (joinLines (exFile.lines ++ [[49, 32, 57, 68, 101, 99, 48, 54, 32, 49, 45, 50, 45, 51, 32, 49, 50, 120, 52]]) true)
    = .error .dat := by decide +kernel

end TD.C14
