/-
C14 — property theorems.
-/
import TD.C14.Model
import TD.C14.Spec
namespace TD.C14
open TD.C14.Spec

/-- The literals in `DAT_parser.py` (regenerated into `TD.Gen.C14` on every run) are the ones the hand-written
scanners and conversion functions of `Model.lean` were written for. A changed regular expression, month list,
strptime format, year pivot or key table makes this fail to check. -/
theorem gen_tables_as_modelled :
    TD.Gen.C14.reChannelDefinition = "^([A-Z0-9]+)\\s(.+?)\\s(\\S+)$" ∧
    TD.Gen.C14.reDataHeaderDefinition = "^UTIM\\s+DATE\\s+TIME\\s+.+$" ∧
    TD.Gen.C14.reDateStyleA = "^(\\d+)(Jan|Feb|Mar|Apr|May|Jun|Jul|Aug|Sep|Oct|Nov|Dec)(\\d+)$" ∧
    TD.Gen.C14.reDateStyleB = "^(\\d+)-(Jan|Feb|Mar|Apr|May|Jun|Jul|Aug|Sep|Oct|Nov|Dec)-(\\d+)$" ∧
    TD.Gen.C14.timeFormat = "%H-%M-%S" ∧
    TD.Gen.C14.yearPivotTest = "yr > 50" ∧
    TD.Gen.C14.monthNames = monthNames ∧
    TD.Gen.C14.conversionMap =
      [(sUTIM, sSec, "_unit_unix_time_to_datetime_datetime"), (sDATE, sDdmmyy, "_unit_ddmmyy_to_datetime_date"),
       (sTIME, sHhmmss, "_unit_hhmmyy_to_datetime_time")] ∧
    TD.Gen.C14.typeMap = [(sUTIM, sSec, "object"), (sDATE, sDdmmyy, "object"), (sTIME, sHhmmss, "object")] := by
  decide

end TD.C14
