/-
C14 — the line loop on printed files: declaration phase, header line, data rows, transposition, conversion.
-/
import TD.C14.LemmasText
import TD.C14.LemmasDT
namespace TD.C14
open TD.C14.Spec

/-! ### readlines -/

theorem splitLinesAux_line (l r cur : Str) (hl : ∀ c ∈ l, c ≠ 10) :
    splitLinesAux (l ++ 10 :: r) cur = (cur.reverse ++ l) :: splitLinesAux r [] := by
  induction l generalizing cur with
  | nil => simp [splitLinesAux]
  | cons a l ih =>
    have ha : a ≠ 10 := hl a (by simp)
    rw [List.cons_append, splitLinesAux, if_neg ha, ih (a :: cur) (fun c hc => hl c (by simp [hc]))]
    simp

theorem splitLinesAux_last (l cur : Str) (hl : ∀ c ∈ l, c ≠ 10) (hne : l ≠ []) :
    splitLinesAux l cur = [cur.reverse ++ l] := by
  induction l generalizing cur with
  | nil => exact absurd rfl hne
  | cons a l ih =>
    have ha : a ≠ 10 := hl a (by simp)
    rw [splitLinesAux, if_neg ha]
    cases l with
    | nil => simp [splitLinesAux]
    | cons b l' =>
      rw [ih (a :: cur) (fun c hc => hl c (by simp [hc])) (by simp)]
      simp

theorem splitLines_joinLines (ls : List Str) (fin : Bool) (h : ∀ l ∈ ls, l ≠ [] ∧ ∀ c ∈ l, c ≠ 10) :
    splitLines (joinLines ls fin) = ls := by
  unfold splitLines
  induction ls with
  | nil => rfl
  | cons l r ih =>
    obtain ⟨hne, h10⟩ := h l (by simp)
    cases r with
    | nil =>
      cases fin
      · simpa [joinLines] using splitLinesAux_last l [] h10 hne
      · simp only [joinLines, if_true]
        rw [splitLinesAux_line l [] [] h10]
        simp [splitLinesAux]
    | cons l2 r' =>
      have hj : joinLines (l :: l2 :: r') fin = l ++ 10 :: joinLines (l2 :: r') fin := rfl
      rw [hj, splitLinesAux_line l _ [] h10, ih (fun x hx => h x (by simp [hx]))]
      simp

/-! ### the declaration dictionary -/

def entry (d : Decl) : Str × Str × Str := (d.name, joinSp d.words, d.units)

theorem lookup_none (D : List (Str × Str × Str)) (n : Str) (h : ∀ e ∈ D, e.1 ≠ n) : lookup D n = none := by
  induction D with
  | nil => rfl
  | cons e D ih =>
    obtain ⟨k, v⟩ := e
    have hk : k ≠ n := h (k, v) (by simp)
    rw [lookup, if_neg hk]
    exact ih (fun e he => h e (by simp [he]))

theorem lookup_mem (D : List (Str × Str × Str)) (e : Str × Str × Str) (hnd : (D.map (·.1)).Nodup) (he : e ∈ D) :
    lookup D e.1 = some e.2 := by
  induction D with
  | nil => simp at he
  | cons e0 D ih =>
    obtain ⟨k, v⟩ := e0
    rw [List.map_cons, List.nodup_cons] at hnd
    rw [lookup]
    by_cases hk : k = e.1
    · rw [if_pos hk]
      rcases List.mem_cons.mp he with h | h
      · rw [h]
      · exact absurd (List.mem_map.mpr ⟨e, h, hk.symm⟩) hnd.1
    · rw [if_neg hk]
      rcases List.mem_cons.mp he with h | h
      · rw [h] at hk; exact absurd rfl hk
      · exact ih hnd.2 h

/-! ### declaration lines -/

theorem declTokens_tok (d : Decl) (hd : d.wf) : ∀ t ∈ declTokens d, isTok t := by
  obtain ⟨hn, _, hwt, hu, _⟩ := hd
  intro t ht
  simp only [declTokens, List.mem_cons, List.mem_append, List.mem_nil_iff, or_false] at ht
  rcases ht with rfl | ht | rfl
  · exact isName_isTok hn
  · exact hwt t ht
  · exact hu

theorem splitWs_interleave (toks seps : List Str) (ht : ∀ t ∈ toks, isTok t) (hs : ∀ s ∈ seps, isSep s) :
    splitWs (interleave toks seps) = toks := by
  have := splitWs_line toks seps [] [] ht hs (by intro c hc; simp at hc) (by intro c hc; simp at hc)
  simpa using this

theorem scanHeader_decl (d : Decl) (seps : List Str) (hd : d.wf) (hs : ∀ s ∈ seps, isSep s) :
    scanHeader (interleave (declTokens d) seps) = false := by
  cases h : scanHeader (interleave (declTokens d) seps) with
  | false => rfl
  | true =>
    obtain ⟨rest, hr⟩ := scanHeader_tokens _ h
    rw [splitWs_interleave _ _ (declTokens_tok d hd) hs] at hr
    exact absurd (show d.headerLike from ⟨rest, by rw [hr]; rfl⟩) hd.2.2.2.2

theorem loop_decls (brk : Bool) (ds : List (Decl × LineLay)) (D : List (Str × Str × Str)) (rest : List Str)
    (hwf : ∀ d ∈ ds, d.1.wf ∧ d.2.wf) (hnd : (ds.map (fun d => d.1.name)).Nodup)
    (hdis : ∀ d ∈ ds, ∀ e ∈ D, e.1 ≠ d.1.name) :
    loop brk ⟨D, true, [], [], []⟩ (ds.map (fun d => printLine (declTokens d.1) d.2) ++ rest) =
      loop brk ⟨(ds.map (fun d => entry d.1)).reverse ++ D, true, [], [], []⟩ rest := by
  induction ds generalizing D with
  | nil => rfl
  | cons d ds ih =>
    obtain ⟨hdw, hlw⟩ := hwf d (by simp)
    rw [List.map_cons, List.nodup_cons] at hnd
    obtain ⟨g2, hsd, hg2⟩ := scanDecl_print d.1 d.2.seps hdw hlw.2.2
    rw [List.map_cons, List.cons_append, loop]
    simp only [List.length_nil, ne_eq, not_true_eq_false, if_false, if_true,
      prep_printLine (declTokens d.1) d.2 (by simp [declTokens]) (declTokens_tok d.1 hdw) hlw,
      scanHeader_decl d.1 d.2.seps hdw hlw.2.2, Bool.false_eq_true, hsd,
      lookup_none D d.1.name (hdis d (by simp)), Option.isSome_none, hg2]
    rw [show (d.1.name, joinSp d.1.words, d.1.units) = entry d.1 from rfl,
      ih (entry d.1 :: D) (fun x hx => hwf x (by simp [hx])) hnd.2 ?_]
    · simp [entry]
    · intro x hx e he
      rcases List.mem_cons.mp he with h | h
      · rw [h]
        intro heq
        exact hnd.1 (List.mem_map.mpr ⟨x, hx, heq.symm⟩)
      · exact hdis x (by simp [hx]) e h

end TD.C14
