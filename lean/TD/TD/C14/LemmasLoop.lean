/-
C14 — the line loop on printed files: declaration phase, header line, data rows, transposition, conversion.
-/
import TD.C14.LemmasText
import TD.C14.LemmasDT
namespace TD.C14
open TD.C14.Spec

/-! ### readlines -/

theorem splitLinesAux_line (l r cur : Str) (hl : ∀ c ∈ l, c ≠ 10) :
    splitLinesAux (l ++ 10 :: r) cur = (cur.reverse ++ l) :: splitLinesAux r [] := by
  induction l generalizing cur with
  | nil => simp [splitLinesAux]
  | cons a l ih =>
    have ha : a ≠ 10 := hl a (by simp)
    rw [List.cons_append, splitLinesAux, if_neg ha, ih (a :: cur) (fun c hc => hl c (by simp [hc]))]
    simp

theorem splitLinesAux_last (l cur : Str) (hl : ∀ c ∈ l, c ≠ 10) (hne : l ≠ []) :
    splitLinesAux l cur = [cur.reverse ++ l] := by
  induction l generalizing cur with
  | nil => exact absurd rfl hne
  | cons a l ih =>
    have ha : a ≠ 10 := hl a (by simp)
    rw [splitLinesAux, if_neg ha]
    cases l with
    | nil => simp [splitLinesAux]
    | cons b l' =>
      rw [ih (a :: cur) (fun c hc => hl c (by simp [hc])) (by simp)]
      simp

theorem splitLines_joinLines (ls : List Str) (fin : Bool) (h : ∀ l ∈ ls, l ≠ [] ∧ ∀ c ∈ l, c ≠ 10) :
    splitLines (joinLines ls fin) = ls := by
  unfold splitLines
  induction ls with
  | nil => rfl
  | cons l r ih =>
    obtain ⟨hne, h10⟩ := h l (by simp)
    cases r with
    | nil =>
      cases fin
      · simpa [joinLines] using splitLinesAux_last l [] h10 hne
      · simp only [joinLines, if_true]
        rw [splitLinesAux_line l [] [] h10]
        simp [splitLinesAux]
    | cons l2 r' =>
      have hj : joinLines (l :: l2 :: r') fin = l ++ 10 :: joinLines (l2 :: r') fin := rfl
      rw [hj, splitLinesAux_line l _ [] h10, ih (fun x hx => h x (by simp [hx]))]
      simp

/-! ### the declaration dictionary -/

def entry (d : Decl) : Str × Str × Str := (d.name, joinSp d.words, d.units)

theorem lookup_none (D : List (Str × Str × Str)) (n : Str) (h : ∀ e ∈ D, e.1 ≠ n) : lookup D n = none := by
  induction D with
  | nil => rfl
  | cons e D ih =>
    obtain ⟨k, v⟩ := e
    have hk : k ≠ n := h (k, v) (by simp)
    rw [lookup, if_neg hk]
    exact ih (fun e he => h e (by simp [he]))

theorem lookup_mem (D : List (Str × Str × Str)) (e : Str × Str × Str) (hnd : (D.map (·.1)).Nodup) (he : e ∈ D) :
    lookup D e.1 = some e.2 := by
  induction D with
  | nil => simp at he
  | cons e0 D ih =>
    obtain ⟨k, v⟩ := e0
    rw [List.map_cons, List.nodup_cons] at hnd
    rw [lookup]
    by_cases hk : k = e.1
    · rw [if_pos hk]
      rcases List.mem_cons.mp he with h | h
      · rw [h]
      · exact absurd (List.mem_map.mpr ⟨e, h, hk.symm⟩) hnd.1
    · rw [if_neg hk]
      rcases List.mem_cons.mp he with h | h
      · rw [h] at hk; exact absurd rfl hk
      · exact ih hnd.2 h

/-! ### declaration lines -/

theorem declTokens_tok (d : Decl) (hd : d.wf) : ∀ t ∈ declTokens d, isTok t := by
  obtain ⟨hn, _, hwt, hu, _⟩ := hd
  intro t ht
  simp only [declTokens, List.mem_cons, List.mem_append, List.mem_nil_iff, or_false] at ht
  rcases ht with rfl | ht | rfl
  · exact isName_isTok hn
  · exact hwt t ht
  · exact hu

theorem splitWs_interleave (toks seps : List Str) (ht : ∀ t ∈ toks, isTok t) (hs : ∀ s ∈ seps, isSep s) :
    splitWs (interleave toks seps) = toks := by
  have := splitWs_line toks seps [] [] ht hs (by intro c hc; simp at hc) (by intro c hc; simp at hc)
  simpa using this

theorem scanHeader_decl (d : Decl) (seps : List Str) (hd : d.wf) (hs : ∀ s ∈ seps, isSep s) :
    scanHeader (interleave (declTokens d) seps) = false := by
  cases h : scanHeader (interleave (declTokens d) seps) with
  | false => rfl
  | true =>
    obtain ⟨rest, hr⟩ := scanHeader_tokens _ h
    rw [splitWs_interleave _ _ (declTokens_tok d hd) hs] at hr
    exact absurd (show d.headerLike from ⟨rest, by rw [hr]; rfl⟩) hd.2.2.2.2

theorem loop_decls (brk : Bool) (ds : List (Decl × LineLay)) (D : List (Str × Str × Str)) (rest : List Str)
    (hwf : ∀ d ∈ ds, d.1.wf ∧ d.2.wf) (hnd : (ds.map (fun d => d.1.name)).Nodup)
    (hdis : ∀ d ∈ ds, ∀ e ∈ D, e.1 ≠ d.1.name) :
    loop brk ⟨D, true, [], [], []⟩ (ds.map (fun d => printLine (declTokens d.1) d.2) ++ rest) =
      loop brk ⟨(ds.map (fun d => entry d.1)).reverse ++ D, true, [], [], []⟩ rest := by
  induction ds generalizing D with
  | nil => rfl
  | cons d ds ih =>
    obtain ⟨hdw, hlw⟩ := hwf d (by simp)
    rw [List.map_cons, List.nodup_cons] at hnd
    obtain ⟨g2, hsd, hg2⟩ := scanDecl_print d.1 d.2.seps hdw hlw.2.2
    rw [List.map_cons, List.cons_append, loop]
    simp only [List.length_nil, ne_eq, not_true_eq_false, if_false, if_true,
      prep_printLine (declTokens d.1) d.2 (by simp [declTokens]) (declTokens_tok d.1 hdw) hlw,
      scanHeader_decl d.1 d.2.seps hdw hlw.2.2, Bool.false_eq_true, hsd,
      lookup_none D d.1.name (hdis d (by simp)), Option.isSome_none, hg2]
    rw [show (d.1.name, joinSp d.1.words, d.1.units) = entry d.1 from rfl,
      ih (entry d.1 :: D) (fun x hx => hwf x (by simp [hx])) hnd.2 ?_]
    · simp [entry]
    · intro x hx e he
      rcases List.mem_cons.mp he with h | h
      · rw [h]
        intro heq
        exact hnd.1 (List.mem_map.mpr ⟨x, hx, heq.symm⟩)
      · exact hdis x (by simp [hx]) e h

/-! ### header line -/

theorem headerTokens_tok (sel : List Str) (ht : ∀ t ∈ sel, isTok t) : ∀ t ∈ headerTokens sel, isTok t := by
  intro t h
  simp only [headerTokens, List.mem_cons] at h
  rcases h with rfl | rfl | rfl | h
  · exact sUTIM_tok
  · exact sDATE_tok
  · exact sTIME_tok
  · exact ht t h

theorem addChannels_ok (D : List (Str × Str × Str)) (mk : Str → Chan) (ns : List Str) (chans : List Chan)
    (table : List (List Str))
    (hmk : ∀ n ∈ ns, ∃ desc units, lookup D n = some (desc, units) ∧ mk n = ⟨n, desc, units, isObjectDtype n units⟩)
    (hnd : ns.Nodup) (hdis : ∀ n ∈ ns, ∀ c ∈ chans, c.name ≠ n) :
    addChannels D ns chans table = .ok (chans ++ ns.map mk, table ++ List.replicate ns.length []) := by
  induction ns generalizing chans table with
  | nil => simp [addChannels]
  | cons n ns ih =>
    obtain ⟨desc, units, hl, hm⟩ := hmk n (by simp)
    rw [List.nodup_cons] at hnd
    have hany : chans.any (fun c => decide (c.name = n)) = false := by
      rw [List.any_eq_false]
      intro c hc
      simpa using hdis n (by simp) c hc
    rw [addChannels, hl]
    simp only [hany, Bool.false_eq_true, if_false]
    rw [ih _ _ (fun x hx => hmk x (by simp [hx])) hnd.2 ?_]
    · simp [hm, List.replicate_succ]
    · intro x hx c hc
      rcases List.mem_append.mp hc with h | h
      · exact hdis x (by simp [hx]) c h
      · simp only [List.mem_singleton] at h
        rw [h]
        intro heq
        have hnx : n = x := heq
        exact hnd.1 (hnx ▸ hx)

theorem loop_header (brk : Bool) (D : List (Str × Str × Str)) (sel : List Str) (lay : LineLay) (rest : List Str)
    (hne : sel ≠ []) (ht : ∀ t ∈ sel, isTok t) (hl : lay.wf) :
    loop brk ⟨D, true, [], [], []⟩ (printLine (headerTokens sel) lay :: rest) =
      match addChannels D (headerTokens sel) [] [] with
      | .error e => .error e
      | .ok (chans, table) => loop brk ⟨D, false, headerTokens sel, chans, table⟩ rest := by
  rw [loop]
  simp only [List.length_nil, ne_eq, not_true_eq_false, if_false, if_true,
    prep_printLine (headerTokens sel) lay (by simp [headerTokens]) (headerTokens_tok sel ht) hl,
    scanHeader_print sel lay.seps hne ht hl.2.2, splitWs_interleave _ _ (headerTokens_tok sel ht) hl.2.2]
  rfl

/-! ### data rows -/

theorem appendRow_length (table : List (List Str)) (vals : List Str) (h : vals.length = table.length) :
    (appendRow table vals).length = table.length := by
  simp [appendRow, h]

theorem loop_data (D : List (Str × Str × Str)) (defined : List Str) (chans : List Chan) (hlen : defined.length = chans.length)
    (n : Nat) (lines : List Str) (toks : List (List Str)) (table : List (List Str)) (rest : List Str) (hT : table.length = n)
    (h : List.Forall₂ (fun l t => splitWs (prep l) = t ∧ t.length = n) lines toks) :
    loop false ⟨D, false, defined, chans, table⟩ (lines ++ rest) =
      loop false ⟨D, false, defined, chans, toks.foldl appendRow table⟩ rest := by
  induction lines generalizing toks table with
  | nil => cases h; rfl
  | cons l ls ih =>
    cases h with
    | cons h1 h2 =>
      rename_i t ts
      rw [List.cons_append, loop]
      simp only [hlen, ne_eq, not_true_eq_false, if_false, Bool.false_eq_true, h1.1, h1.2, hT]
      rw [List.foldl_cons]
      exact ih ts _ (by rw [appendRow_length table t (by omega)]; exact hT) h2

/-! ### transposition -/

theorem zipWith3 (T : List (List Str)) (r : List Str) (X : List (List Str)) :
    List.zipWith (· ++ ·) (List.zipWith (fun col v => col ++ [v]) T r) X =
      List.zipWith (· ++ ·) T (List.zipWith List.cons r X) := by
  induction T generalizing r X with
  | nil => simp
  | cons a T ih =>
    cases r with
    | nil => simp
    | cons b r =>
      cases X with
      | nil => simp
      | cons x X => simp [ih]

theorem columns_cons (n : Nat) (r : List Str) (rows : List (List Str)) (hr : r.length = n) :
    columns [] n (r :: rows) = List.zipWith List.cons r (columns [] n rows) := by
  induction n generalizing r rows with
  | zero =>
    have : r = [] := List.length_eq_zero_iff.mp hr
    subst this; simp [columns]
  | succ n ih =>
    cases r with
    | nil => simp at hr
    | cons a r =>
      simp only [List.length_cons, Nat.add_right_cancel_iff] at hr
      simp only [columns, List.map_cons, List.headD_cons, List.tail_cons, List.zipWith_cons_cons]
      rw [ih r _ hr]

theorem columns_length {α : Type} (d : α) (n : Nat) (rows : List (List α)) : (columns d n rows).length = n := by
  induction n generalizing rows with
  | zero => rfl
  | succ n ih => simp [columns, ih]

theorem foldl_appendRow (n : Nat) (rows : List (List Str)) (T : List (List Str)) (hT : T.length = n)
    (hr : ∀ r ∈ rows, r.length = n) :
    rows.foldl appendRow T = List.zipWith (· ++ ·) T (columns [] n rows) := by
  induction rows generalizing T with
  | nil =>
    simp only [List.foldl_nil]
    clear hr
    induction n generalizing T with
    | zero => have : T = [] := List.length_eq_zero_iff.mp hT; subst this; simp [columns]
    | succ n ih =>
      cases T with
      | nil => simp at hT
      | cons a T =>
        simp only [List.length_cons, Nat.add_right_cancel_iff] at hT
        simp only [columns, List.map_nil, List.zipWith_cons_cons, List.append_nil]
        rw [← ih T hT]
  | cons r rows ih =>
    have hrl := hr r (by simp)
    rw [List.foldl_cons, ih (appendRow T r) (by rw [appendRow_length T r (by omega)]; exact hT)
      (fun x hx => hr x (by simp [hx])), columns_cons n r rows hrl]
    exact zipWith3 T r _

theorem zipWith_replicate_nil (X : List (List Str)) :
    List.zipWith (· ++ ·) (List.replicate X.length ([] : List Str)) X = X := by
  induction X with
  | nil => rfl
  | cons x X ih => simp [List.replicate_succ, ih]

end TD.C14
