/-
C14 — assembling the pieces: a printed file parses to `expected`.
-/
import TD.C14.LemmasLoop
namespace TD.C14
open TD.C14.Spec

/-! ### printed cells are tokens -/

theorem chars_tok (ds : List Nat) (h : isDigits ds) : ∀ c ∈ chars ds, 33 ≤ c ∧ c ≤ 126 := by
  intro c hc
  have := chars_isDigit ds h c hc
  simp [isDigit] at this; omega

theorem printNat_tok (n : Nat) : isTok (printNat n) :=
  ⟨by rw [printNat, Ne, chars_eq_nil]; exact natDigits_ne_nil n, chars_tok _ (natDigits_lt n)⟩

theorem printInt_tok (n : Int) : isTok (printInt n) := by
  unfold printInt
  split
  · exact ⟨by simp, fun c hc => by
      rcases List.mem_cons.mp hc with h | h
      · omega
      · exact (printNat_tok _).2 c h⟩
  · exact printNat_tok _

theorem monthName_tok (mo : Nat) (h1 : 1 ≤ mo) (h12 : mo ≤ 12) : ∀ c ∈ monthName mo, 33 ≤ c ∧ c ≤ 126 := by
  interval_cases mo <;> decide

theorem printDate_eq (c : CellLay) (d : Date) : printDate c d = chars (List.replicate c.dayZeros 0 ++ natDigits d.d) ++
      ((if c.dash then [45] else []) ++ (monthName d.mo ++ ((if c.dash then [45] else []) ++
        chars (List.replicate c.yrZeros 0 ++ natDigits (d.y % 100))))) := by
  simp [printDate, printNat, chars_append, replicate48]

theorem printDate_tok (c : CellLay) (d : Date) (h1 : 1 ≤ d.mo) (h12 : d.mo ≤ 12) : isTok (printDate c d) := by
  have hD1 : isDigits (List.replicate c.dayZeros 0 ++ natDigits d.d) := isDigits_append (isDigits_replicate _) (natDigits_lt _)
  have hY : isDigits (List.replicate c.yrZeros 0 ++ natDigits (d.y % 100)) := isDigits_append (isDigits_replicate _) (natDigits_lt _)
  have hdash : ∀ x ∈ (if c.dash then [45] else ([] : Str)), 33 ≤ x ∧ x ≤ 126 := by
    intro x hx
    cases hd : c.dash <;> rw [hd] at hx <;> simp at hx
    omega
  rw [printDate_eq]
  refine ⟨?_, ?_⟩
  · intro hnil
    simp only [List.append_eq_nil_iff, chars_eq_nil] at hnil
    exact natDigits_ne_nil _ hnil.1.2
  · intro x hx
    simp only [List.mem_append] at hx
    rcases hx with hx | hx | hx | hx | hx
    · exact chars_tok _ hD1 x hx
    · exact hdash x hx
    · exact monthName_tok d.mo h1 h12 x hx
    · exact hdash x hx
    · exact chars_tok _ hY x hx

theorem two_tok (pad : Bool) (n : Nat) (h : n < 60) : two pad n ≠ [] ∧ ∀ c ∈ two pad n, 33 ≤ c ∧ c ≤ 126 := by
  unfold two
  split
  · refine ⟨by simp, ?_⟩
    intro c hc
    simp only [List.mem_cons, List.mem_nil_iff, or_false] at hc
    rcases hc with rfl | rfl <;> omega
  · refine ⟨by simp, ?_⟩
    intro c hc
    simp only [List.mem_cons, List.mem_nil_iff, or_false] at hc
    subst hc; omega

theorem printTime_tok (c : CellLay) (t : Time) (hh : t.h < 24) (hm : t.mi < 60) (hs : t.s < 60) : isTok (printTime c t) := by
  have h1 := two_tok c.hPad t.h (by omega)
  have h2 := two_tok c.mPad t.mi hm
  have h3 := two_tok c.sPad t.s hs
  have hp : printTime c t = two c.hPad t.h ++ 45 :: (two c.mPad t.mi ++ 45 :: two c.sPad t.s) := by
    simp [printTime]
  rw [hp]
  refine ⟨by simp [h1.1], ?_⟩
  intro x hx
  simp only [List.mem_append, List.mem_cons] at hx
  rcases hx with hx | hx | hx | hx | hx
  · exact h1.2 x hx
  · omega
  · exact h2.2 x hx
  · omega
  · exact h3.2 x hx

theorem signStr_tok (s : Option Bool) : ∀ c ∈ signStr s, 33 ≤ c ∧ c ≤ 126 := by
  intro c hc
  cases s with
  | none => simp [signStr] at hc
  | some v => cases v <;> simp [signStr] at hc <;> omega

theorem printNum_tok (x : Num) (h : x.wf) : isTok (printNum x) := by
  have hh := body_head x h
  obtain ⟨hip, hfp, hne, hexp⟩ := h
  rw [printNum_eq]
  refine ⟨?_, ?_⟩
  · intro hnil
    simp only [List.append_eq_nil_iff, chars_eq_nil] at hnil
    rcases hne with h | h
    · exact h hnil.2.1
    · cases hf : x.frac with
      | none => rw [hf] at h; simp at h
      | some fp => rw [hf] at hnil; simp [fracPart] at hnil
  · intro c hc
    simp only [List.mem_append] at hc
    rcases hc with hc | hc | hc | hc
    · exact signStr_tok _ c hc
    · exact chars_tok _ hip c hc
    · cases hf : x.frac with
      | none => rw [hf] at hc; simp [fracPart] at hc
      | some fp =>
        rw [hf] at hc hfp
        simp only [fracPart, List.mem_cons] at hc
        rcases hc with hc | hc
        · omega
        · exact chars_tok _ hfp c hc
    · cases he : x.exp with
      | none => rw [he] at hc; simp [expPart] at hc
      | some v =>
        obtain ⟨cap, sg, ds⟩ := v
        rw [he] at hc
        obtain ⟨_, hds⟩ := hexp _ he
        simp only [expPart, List.mem_cons, List.mem_append] at hc
        rcases hc with hc | hc | hc
        · cases cap <;> simp at hc <;> omega
        · exact signStr_tok _ c hc
        · exact chars_tok _ hds c hc

theorem rowTokens_tok (k : Nat) (r : Row) (c : CellLay) (hr : r.wf k) : ∀ t ∈ rowTokens r c, isTok t := by
  obtain ⟨_, _, _, _, hvd, _, _, hh, hm, hs, _, hn⟩ := hr
  intro t ht
  simp only [rowTokens, List.mem_cons, List.mem_map] at ht
  rcases ht with rfl | rfl | rfl | ⟨x, hx, rfl⟩
  · exact printInt_tok _
  · exact printDate_tok c r.date hvd.2.2.1 hvd.2.2.2.1
  · exact printTime_tok c r.time hh hm hs
  · exact printNum_tok x (hn x hx)

/-! ### conversion of the transposed table -/

/-- every cell of a row converts, with its channel's conversion, to the given value -/
def rowOK : List Chan → List Str → List Value → Prop
  | [], [], [] => True
  | c :: cs, t :: ts, v :: vs => convertCell c t = .ok v ∧ rowOK cs ts vs
  | _, _, _ => False

theorem convertColumn_heads (c : Chan) (cs : List Chan) (rowsT : List (List Str)) (rowsV : List (List Value))
    (h : List.Forall₂ (rowOK (c :: cs)) rowsT rowsV) :
    convertColumn c (rowsT.map (fun r => r.headD [])) = .ok (rowsV.map (fun r => r.headD (.float .nan))) ∧
      List.Forall₂ (rowOK cs) (rowsT.map List.tail) (rowsV.map List.tail) := by
  induction h with
  | nil => exact ⟨rfl, List.Forall₂.nil⟩
  | @cons rt rv rts rvs h1 _ ih =>
    cases rt with
    | nil => simp [rowOK] at h1
    | cons t ts =>
      cases rv with
      | nil => simp [rowOK] at h1
      | cons v vs =>
        obtain ⟨hc, hr⟩ := h1
        refine ⟨?_, List.Forall₂.cons hr ih.2⟩
        simp only [List.map_cons, List.headD_cons, convertColumn, hc, ih.1]

theorem convertAll_columns (chans : List Chan) (rowsT : List (List Str)) (rowsV : List (List Value))
    (h : List.Forall₂ (rowOK chans) rowsT rowsV) :
    convertAll chans (columns [] chans.length rowsT) = .ok (chans.zip (columns (.float .nan) chans.length rowsV)) := by
  induction chans generalizing rowsT rowsV with
  | nil => simp [columns, convertAll]
  | cons c cs ih =>
    obtain ⟨h1, h2⟩ := convertColumn_heads c cs rowsT rowsV h
    simp only [List.length_cons, columns, convertAll, h1, ih _ _ h2, List.zip_cons_cons]

/-! ### the channels of a well-formed file -/

theorem find_nodup (ds : List (Decl × LineLay)) (d : Decl × LineLay) (hnd : (ds.map (fun x => x.1.name)).Nodup)
    (hd : d ∈ ds) : ds.find? (fun x => decide (x.1.name = d.1.name)) = some d := by
  induction ds with
  | nil => simp at hd
  | cons e ds ih =>
    rw [List.map_cons, List.nodup_cons] at hnd
    rw [List.find?_cons]
    by_cases he : e.1.name = d.1.name
    · simp only [he, decide_true]
      rcases List.mem_cons.mp hd with h | h
      · rw [h]
      · exact absurd (List.mem_map.mpr ⟨d, h, he.symm⟩) hnd.1
    · simp only [he, decide_false]
      rcases List.mem_cons.mp hd with h | h
      · rw [h] at he; exact absurd rfl he
      · exact ih hnd.2 h

theorem convKind_float (n u : Str) (h1 : n ≠ sUTIM) (h2 : n ≠ sDATE) (h3 : n ≠ sTIME) : convKind n u = .float := by
  have e1 : ¬ ([85, 84, 73, 77] = n) := fun h => h1 h.symm
  have e2 : ¬ ([68, 65, 84, 69] = n) := fun h => h2 h.symm
  have e3 : ¬ ([84, 73, 77, 69] = n) := fun h => h3 h.symm
  simp [convKind, TD.Gen.C14.conversionMap, List.find?, e1, e2, e3]

theorem isObject_false (n u : Str) (h1 : n ≠ sUTIM) (h2 : n ≠ sDATE) (h3 : n ≠ sTIME) : isObjectDtype n u = false := by
  have e1 : ¬ ([85, 84, 73, 77] = n) := fun h => h1 h.symm
  have e2 : ¬ ([68, 65, 84, 69] = n) := fun h => h2 h.symm
  have e3 : ¬ ([84, 73, 77, 69] = n) := fun h => h3 h.symm
  simp [isObjectDtype, TD.Gen.C14.typeMap, List.find?, e1, e2, e3]

/-- numbers under float channels -/
theorem rowOK_nums (cs : List Chan) (nums : List Num) (hlen : nums.length = cs.length)
    (hc : ∀ c ∈ cs, c.name ≠ sUTIM ∧ c.name ≠ sDATE ∧ c.name ≠ sTIME) (hn : ∀ x ∈ nums, x.wf) :
    rowOK cs (nums.map printNum) (nums.map (fun x => .float x.value)) := by
  induction cs generalizing nums with
  | nil =>
    have : nums = [] := List.length_eq_zero_iff.mp hlen
    subst this; simp [rowOK]
  | cons c cs ih =>
    cases nums with
    | nil => simp at hlen
    | cons x xs =>
      simp only [List.length_cons, Nat.add_right_cancel_iff] at hlen
      obtain ⟨c1, c2, c3⟩ := hc c (by simp)
      refine ⟨?_, ih xs hlen (fun c' h => hc c' (by simp [h])) (fun y hy => hn y (by simp [hy]))⟩
      simp [convertCell, convKind_float c.name c.units c1 c2 c3, convert, parseFloat_printNum x (hn x (by simp))]

theorem chanOf_name (f : File) (n : Str) : (chanOf f n).name = n := by
  unfold chanOf; split <;> rfl

theorem forall₂_map {α : Type} (rows : List α) (g : α → Str) (t : α → List Str) (Q : Str → List Str → Prop)
    (h : ∀ r ∈ rows, Q (g r) (t r)) : List.Forall₂ Q (rows.map g) (rows.map t) := by
  induction rows with
  | nil => exact List.Forall₂.nil
  | cons r rows ih => exact List.Forall₂.cons (h r (by simp)) (ih (fun x hx => h x (by simp [hx])))

theorem forall₂_map' {α : Type} (rows : List α) (g : α → List Str) (t : α → List Value) (Q : List Str → List Value → Prop)
    (h : ∀ r ∈ rows, Q (g r) (t r)) : List.Forall₂ Q (rows.map g) (rows.map t) := by
  induction rows with
  | nil => exact List.Forall₂.nil
  | cons r rows ih => exact List.Forall₂.cons (h r (by simp)) (ih (fun x hx => h x (by simp [hx])))

/-- the dictionary after the declaration section -/
def dictOf (f : File) : List (Str × Str × Str) := (f.decls.map (fun d => entry d.1)).reverse ++ []

theorem dict_lookup (f : File) (hnd : (names f).Nodup) (d : Decl × LineLay) (hd : d ∈ f.decls) :
    lookup (dictOf f) d.1.name = some (joinSp d.1.words, d.1.units) := by
  have hk : ((dictOf f).map (·.1)).Nodup := by
    unfold dictOf
    rw [List.append_nil, List.map_reverse, List.map_map, List.Nodup, List.pairwise_reverse]
    exact hnd.imp (fun h => fun e => h e.symm)
  have hm : entry d.1 ∈ dictOf f := by
    unfold dictOf
    rw [List.append_nil, List.mem_reverse]
    exact List.mem_map.mpr ⟨d, hd, rfl⟩
  exact lookup_mem (dictOf f) (entry d.1) hk hm

theorem chanOf_decl (f : File) (hnd : (names f).Nodup) (d : Decl × LineLay) (hd : d ∈ f.decls) :
    chanOf f d.1.name = ⟨d.1.name, joinSp d.1.words, d.1.units,
      decide (d.1.name = sUTIM ∨ d.1.name = sDATE ∨ d.1.name = sTIME)⟩ := by
  unfold chanOf
  rw [find_nodup f.decls d hnd hd]

/-- what the header loop needs to know about every header name -/
theorem hdr_mk (f : File) (hwf : f.wf) : ∀ n ∈ headerTokens f.sel, ∃ desc units,
    lookup (dictOf f) n = some (desc, units) ∧ chanOf f n = ⟨n, desc, units, isObjectDtype n units⟩ := by
  obtain ⟨_, hnd, ⟨dU, hdU, hUn, hUu⟩, ⟨dD, hdD, hDn, hDu⟩, ⟨dT, hdT, hTn, hTu⟩, _, _, hsel, _, _⟩ := hwf
  intro n hn
  simp only [headerTokens, List.mem_cons] at hn
  rcases hn with rfl | rfl | rfl | hn
  · refine ⟨joinSp dU.1.words, sSec, ?_, ?_⟩
    · rw [← hUn, ← hUu]; exact dict_lookup f hnd dU hdU
    · rw [← hUn, chanOf_decl f hnd dU hdU, hUn, hUu]; rfl
  · refine ⟨joinSp dD.1.words, sDdmmyy, ?_, ?_⟩
    · rw [← hDn, ← hDu]; exact dict_lookup f hnd dD hdD
    · rw [← hDn, chanOf_decl f hnd dD hdD, hDn, hDu]; rfl
  · refine ⟨joinSp dT.1.words, sHhmmss, ?_, ?_⟩
    · rw [← hTn, ← hTu]; exact dict_lookup f hnd dT hdT
    · rw [← hTn, chanOf_decl f hnd dT hdT, hTn, hTu]; rfl
  · obtain ⟨hin, h1, h2, h3⟩ := hsel n hn
    obtain ⟨d, hd, hdn⟩ := List.mem_map.mp hin
    refine ⟨joinSp d.1.words, d.1.units, ?_, ?_⟩
    · rw [← hdn]; exact dict_lookup f hnd d hd
    · rw [← hdn, chanOf_decl f hnd d hd, hdn, isObject_false n _ h1 h2 h3]
      simp [h1, h2, h3]

theorem chanOf_special (f : File) (hwf : f.wf) :
    (∃ desc, chanOf f sUTIM = ⟨sUTIM, desc, sSec, true⟩) ∧ (∃ desc, chanOf f sDATE = ⟨sDATE, desc, sDdmmyy, true⟩) ∧
    (∃ desc, chanOf f sTIME = ⟨sTIME, desc, sHhmmss, true⟩) := by
  obtain ⟨_, hnd, ⟨dU, hdU, hUn, hUu⟩, ⟨dD, hdD, hDn, hDu⟩, ⟨dT, hdT, hTn, hTu⟩, _⟩ := hwf
  refine ⟨⟨joinSp dU.1.words, ?_⟩, ⟨joinSp dD.1.words, ?_⟩, ⟨joinSp dT.1.words, ?_⟩⟩
  · rw [← hUn, chanOf_decl f hnd dU hdU, hUn, hUu]; rfl
  · rw [← hDn, chanOf_decl f hnd dD hdD, hDn, hDu]; rfl
  · rw [← hTn, chanOf_decl f hnd dT hdT, hTn, hTu]; rfl

theorem hdr_nodup (f : File) (hwf : f.wf) : (headerTokens f.sel).Nodup := by
  obtain ⟨_, _, _, _, _, _, hnd, hsel, _⟩ := hwf
  have hU : sUTIM ∉ f.sel := fun h => (hsel _ h).2.1 rfl
  have hD : sDATE ∉ f.sel := fun h => (hsel _ h).2.2.1 rfl
  have hT : sTIME ∉ f.sel := fun h => (hsel _ h).2.2.2 rfl
  have e1 : sUTIM ≠ sDATE := by decide
  have e2 : sUTIM ≠ sTIME := by decide
  have e3 : sDATE ≠ sTIME := by decide
  simp [headerTokens, List.nodup_cons, hU, hD, hT, e1, e2, e3, hnd]

/-- every data row converts under the file's channels -/
theorem rowOK_print (f : File) (hwf : f.wf) (r : Row) (c : CellLay) (hr : r.wf f.sel.length) :
    rowOK ((headerTokens f.sel).map (chanOf f)) (rowTokens r c) (cellValues r) := by
  obtain ⟨⟨dU, hcU⟩, ⟨dD, hcD⟩, ⟨dT, hcT⟩⟩ := chanOf_special f hwf
  obtain ⟨_, _, _, _, _, _, _, hsel, _⟩ := hwf
  obtain ⟨hv1, hh1, hm1, hs1, hv2, hlo, hhi, hh3, hm3, hs3, hlen, hn⟩ := hr
  simp only [headerTokens, List.map_cons, rowTokens, cellValues, rowOK]
  refine ⟨?_, ?_, ?_, ?_⟩
  · rw [hcU]
    have : convKind sUTIM sSec = .utim := by decide
    simp only [convertCell, this, convert, convUtim_print r.utim hv1 hh1 hm1 hs1, if_true]
  · rw [hcD]
    have : convKind sDATE sDdmmyy = .date := by decide
    simp only [convertCell, this, convert, convDate_print c r.date hv2 hlo hhi, if_true]
  · rw [hcT]
    have : convKind sTIME sHhmmss = .time := by decide
    simp only [convertCell, this, convert, convTime_print c r.time hh3 hm3 hs3, if_true]
  · apply rowOK_nums _ _ (by simp [hlen]) _ hn
    intro ch hch
    obtain ⟨n, hn', rfl⟩ := List.mem_map.mp hch
    rw [chanOf_name]
    exact (hsel n hn').2

/-! ### the whole file -/

theorem printLine_ok (toks : List Str) (lay : LineLay) (hne : toks ≠ []) (ht : ∀ t ∈ toks, isTok t) (hl : lay.wf) :
    printLine toks lay ≠ [] ∧ ∀ c ∈ printLine toks lay, c ≠ 10 := by
  obtain ⟨hlead, htrail, hseps⟩ := hl
  cases toks with
  | nil => exact absurd rfl hne
  | cons t ts =>
    obtain ⟨a, X, hB, _⟩ := interleave_head t ts lay.seps (ht t (by simp))
    refine ⟨by simp [printLine, hB], ?_⟩
    intro c hc
    simp only [printLine, List.mem_append] at hc
    rcases hc with (hc | hc) | hc
    · rcases hlead c hc with h | h | h | h | h <;> omega
    · rcases interleave_chars (t :: ts) lay.seps ht hseps c hc with h | h
      · omega
      · rcases h with h | h | h | h | h <;> omega
    · rcases htrail c hc with h | h | h | h | h <;> omega

theorem sel_tok (f : File) (hwf : f.wf) : ∀ t ∈ f.sel, isTok t := by
  obtain ⟨hd, _, _, _, _, _, _, hsel, _⟩ := hwf
  intro t ht
  obtain ⟨d, hdm, hdn⟩ := List.mem_map.mp (hsel t ht).1
  rw [← hdn]
  exact isName_isTok (hd d hdm).1.1

theorem lines_ok (f : File) (hwf : f.wf) : ∀ l ∈ f.lines, l ≠ [] ∧ ∀ c ∈ l, c ≠ 10 := by
  have hst := sel_tok f hwf
  obtain ⟨hd, _, _, _, _, hne, _, _, hhl, hrows⟩ := hwf
  intro l hl
  simp only [File.lines, List.mem_append, List.mem_cons, List.mem_map] at hl
  rcases hl with ⟨d, hdm, rfl⟩ | rfl | ⟨r, hrm, rfl⟩
  · exact printLine_ok _ _ (by simp [declTokens]) (declTokens_tok d.1 (hd d hdm).1) (hd d hdm).2
  · exact printLine_ok _ _ (by simp [headerTokens]) (headerTokens_tok f.sel hst) hhl
  · exact printLine_ok _ _ (by simp [rowTokens]) (rowTokens_tok _ r.1 r.2.2 (hrows r hrm).1) (hrows r hrm).2

theorem rowTokens_length (r : Row) (c : CellLay) : (rowTokens r c).length = 3 + r.nums.length := by
  simp [rowTokens]; omega

/-- the state after the last line of a printed file -/
def stateOf (f : File) : St :=
  ⟨dictOf f, false, headerTokens f.sel, (headerTokens f.sel).map (chanOf f),
    columns [] (headerTokens f.sel).length (f.rows.map (fun r => rowTokens r.1 r.2.2))⟩

/-- the scanner phase on a printed file followed by any further lines -/
theorem loop_file (f : File) (hwf : f.wf) (rest : List Str) :
    loop false {} (f.lines ++ rest) = loop false (stateOf f) rest := by
  have hst := sel_tok f hwf
  have hmk := hdr_mk f hwf
  have hnd' := hdr_nodup f hwf
  obtain ⟨hd, hnd, _, _, _, hne, _, _, hhl, hrows⟩ := hwf
  have h0 : ({} : St) = ⟨[], true, [], [], []⟩ := rfl
  have hrowsF : List.Forall₂ (fun l t => splitWs (prep l) = t ∧ t.length = (headerTokens f.sel).length)
      (f.rows.map (fun r => printLine (rowTokens r.1 r.2.2) r.2.1)) (f.rows.map (fun r => rowTokens r.1 r.2.2)) := by
    apply forall₂_map
    intro r hr
    obtain ⟨hrw, hlw⟩ := hrows r hr
    have htok := rowTokens_tok _ r.1 r.2.2 hrw
    refine ⟨?_, ?_⟩
    · rw [prep_printLine _ _ (by simp [rowTokens]) htok hlw, splitWs_interleave _ _ htok hlw.2.2]
    · rw [rowTokens_length, hrw.2.2.2.2.2.2.2.2.2.2.1]; simp [headerTokens]; omega
  have hadd := addChannels_ok (dictOf f) (chanOf f) (headerTokens f.sel) [] [] hmk hnd' (by intro n _ c hc; simp at hc)
  simp only [List.nil_append] at hadd
  have hlen : (headerTokens f.sel).length = ((headerTokens f.sel).map (chanOf f)).length := by simp
  have htab : (f.rows.map (fun r => rowTokens r.1 r.2.2)).foldl appendRow (List.replicate (headerTokens f.sel).length []) =
      columns [] (headerTokens f.sel).length (f.rows.map (fun r => rowTokens r.1 r.2.2)) := by
    rw [foldl_appendRow (headerTokens f.sel).length _ _ (by simp)]
    · have := zipWith_replicate_nil (columns [] (headerTokens f.sel).length (f.rows.map (fun r => rowTokens r.1 r.2.2)))
      rw [columns_length] at this
      exact this
    · intro t ht
      obtain ⟨r, hr, rfl⟩ := List.mem_map.mp ht
      rw [rowTokens_length, (hrows r hr).1.2.2.2.2.2.2.2.2.2.2.1]; simp [headerTokens]; omega
  rw [File.lines, h0, List.append_assoc, loop_decls false f.decls [] _ hd hnd (by intro d _ e he; simp at he)]
  show loop false ⟨dictOf f, true, [], [], []⟩ _ = _
  rw [List.cons_append, loop_header false (dictOf f) f.sel f.hdrLay _ hne hst hhl, hadd]
  simp only []
  rw [loop_data (dictOf f) _ _ hlen (headerTokens f.sel).length _ _ _ rest (by simp) hrowsF, htab]
  rfl

/-- parsing a printed file gives the content -/
theorem parse_print (f : File) (hwf : f.wf) : parseFile (print f) = .ok (expected f) := by
  have hloop := loop_file f hwf []
  rw [List.append_nil] at hloop
  have hrowsOK : List.Forall₂ (rowOK ((headerTokens f.sel).map (chanOf f)))
      (f.rows.map (fun r => rowTokens r.1 r.2.2)) (f.rows.map (fun r => cellValues r.1)) := by
    apply forall₂_map'
    intro r hr
    exact rowOK_print f hwf r.1 r.2.2 (hwf.2.2.2.2.2.2.2.2.2 r hr).1
  have hconv := convertAll_columns _ _ _ hrowsOK
  rw [List.length_map] at hconv
  unfold parseFile print
  rw [splitLines_joinLines _ _ (lines_ok f hwf)]
  unfold parseLines
  rw [hloop]
  simp only [loop, stateOf, List.length_map, columns_length]
  rw [if_neg (by simp [headerTokens]), if_neg (by simp), hconv]
  rfl

end TD.C14
