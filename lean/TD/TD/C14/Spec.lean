/-
C14 — independent specification: a content model of a DAT file, a layout-parametric printer, and the result that
parsing a printed file must give (`expected`).  Core Lean only (the driver prints files with it).

Nothing here refers to the parser: calendar arithmetic is the textbook ordinal formula (`ordinal`), numbers are digit
lists with their exact decimal value, descriptions are word lists.
-/
import TD.C14.Model
namespace TD.C14.Spec
open TD.C14

/-! ### content -/

/-- one line of the declaration section: `NAME description words … UNITS` -/
structure Decl where
  name : Str
  words : List Str
  units : Str
  deriving Repr, DecidableEq

/-- a decimal literal: `[+-] digits [. digits] [(e|E) [+-] digits]`; digits are values 0..9 -/
structure Num where
  sign : Option Bool                      -- `some true` = '-', `some false` = '+', `none` = no sign
  ip : List Nat
  frac : Option (List Nat)                -- `some fp` prints ". fp"
  exp : Option (Bool × Option Bool × List Nat)   -- (capital E, sign, digits)
  deriving Repr, DecidableEq

structure DateTime where
  y : Nat
  mo : Nat
  d : Nat
  h : Nat
  mi : Nat
  s : Nat
  deriving Repr, DecidableEq

structure Date where
  y : Nat
  mo : Nat
  d : Nat
  deriving Repr, DecidableEq

structure Time where
  h : Nat
  mi : Nat
  s : Nat
  deriving Repr, DecidableEq

/-- one frame: the three leading columns and one number per selected channel -/
structure Row where
  utim : DateTime
  date : Date
  time : Time
  nums : List Num
  deriving Repr, DecidableEq

/-! ### layout -/

/-- whitespace around and between the tokens of one line; separators beyond the list default to one space -/
structure LineLay where
  lead : Str := []
  seps : List Str := []
  trail : Str := []
  deriving Repr, DecidableEq

/-- spelling of the DATE and TIME cells of one row -/
structure CellLay where
  dash : Bool := false      -- `09-Dec-06` rather than `09Dec06`
  dayZeros : Nat := 0       -- extra leading zeros of the day
  yrZeros : Nat := 0        -- extra leading zeros of the two-digit year
  hPad : Bool := true       -- two-digit hour / minute / second even below 10
  mPad : Bool := true
  sPad : Bool := true
  deriving Repr, DecidableEq

/-- a DAT file: content with a layout attached to every line -/
structure File where
  decls : List (Decl × LineLay)
  sel : List Str                      -- header names after UTIM DATE TIME
  hdrLay : LineLay
  rows : List (Row × LineLay × CellLay)
  finalNewline : Bool := true
  deriving Repr, DecidableEq

/-! ### calendar (textbook) -/

def leap (y : Nat) : Bool := (y % 4 = 0 ∧ y % 100 ≠ 0) ∨ y % 400 = 0

def monthLen (y m : Nat) : Nat :=
  match m with
  | 1 => 31 | 2 => if leap y then 29 else 28 | 3 => 31 | 4 => 30 | 5 => 31 | 6 => 30
  | 7 => 31 | 8 => 31 | 9 => 30 | 10 => 31 | 11 => 30 | 12 => 31 | _ => 0

/-- days in the years 1 … y-1 -/
def daysBeforeYear (y : Nat) : Nat := 365 * (y - 1) + (y - 1) / 4 - (y - 1) / 100 + (y - 1) / 400

/-- days in the months 1 … m-1 of year y -/
def daysBeforeMonth (y m : Nat) : Nat := ((List.range (m - 1)).map (fun k => monthLen y (k + 1))).sum

/-- proleptic Gregorian ordinal, 0001-01-01 = 1 (so 1970-01-01 = 719163) -/
def ordinal (y m d : Nat) : Nat := daysBeforeYear y + daysBeforeMonth y m + d

def validDate (y m d : Nat) : Prop := 1 ≤ y ∧ y ≤ 9999 ∧ 1 ≤ m ∧ m ≤ 12 ∧ 1 ≤ d ∧ d ≤ monthLen y m

instance (y m d : Nat) : Decidable (validDate y m d) := by unfold validDate; infer_instance

/-- seconds since 1970-01-01T00:00:00 -/
def toUnix (t : DateTime) : Int :=
  ((ordinal t.y t.mo t.d : Nat) - 719163 : Int) * 86400 + ((t.h * 3600 + t.mi * 60 + t.s : Nat) : Int)

/-! ### printing tokens -/

def natDigits (n : Nat) : List Nat :=
  if n < 10 then [n] else natDigits (n / 10) ++ [n % 10]
decreasing_by omega

def chars (ds : List Nat) : Str := ds.map (· + 48)

def printNat (n : Nat) : Str := chars (natDigits n)

def printInt (n : Int) : Str := if n < 0 then 45 :: printNat n.natAbs else printNat n.natAbs

def signStr : Option Bool → Str
  | none => []
  | some true => [45]
  | some false => [43]

def printNum (x : Num) : Str :=
  signStr x.sign ++ chars x.ip ++
  (match x.frac with | none => [] | some fp => 46 :: chars fp) ++
  (match x.exp with | none => [] | some (cap, sg, ds) => (if cap then 69 else 101) :: (signStr sg ++ chars ds))

/-- the exact decimal value of the literal -/
def Num.value (x : Num) : PyFloat :=
  let fp := x.frac.getD []
  let e : Int := match x.exp with
    | none => 0
    | some (_, sg, ds) => if sg = some true then -((ofDigits ds : Nat) : Int) else ((ofDigits ds : Nat) : Int)
  .fin (x.sign = some true) (ofDigits (x.ip ++ fp)) (e - (fp.length : Int))

def monthName (m : Nat) : Str := monthNames.getD (m - 1) []

def two (pad : Bool) (n : Nat) : Str := if pad ∨ 10 ≤ n then [48 + n / 10, 48 + n % 10] else [48 + n]

def printDate (c : CellLay) (d : Date) : Str :=
  let dash : Str := if c.dash then [45] else []
  List.replicate c.dayZeros 48 ++ printNat d.d ++ dash ++ monthName d.mo ++ dash ++
    List.replicate c.yrZeros 48 ++ printNat (d.y % 100)

def printTime (c : CellLay) (t : Time) : Str :=
  two c.hPad t.h ++ 45 :: two c.mPad t.mi ++ 45 :: two c.sPad t.s

/-! ### printing lines and the file -/

def interleave : List Str → List Str → Str
  | [], _ => []
  | [t], _ => t
  | t :: ts, s :: ss => t ++ s ++ interleave ts ss
  | t :: ts, [] => t ++ 32 :: interleave ts []

def printLine (toks : List Str) (l : LineLay) : Str := l.lead ++ interleave toks l.seps ++ l.trail

def declTokens (d : Decl) : List Str := d.name :: (d.words ++ [d.units])

def headerTokens (sel : List Str) : List Str := sUTIM :: sDATE :: sTIME :: sel

def rowTokens (r : Row) (c : CellLay) : List Str :=
  printInt (toUnix r.utim) :: printDate c r.date :: printTime c r.time :: r.nums.map printNum

def joinLines : List Str → Bool → Str
  | [], _ => []
  | [l], fin => if fin then l ++ [10] else l
  | l :: r, fin => l ++ 10 :: joinLines r fin

def File.lines (f : File) : List Str :=
  f.decls.map (fun d => printLine (declTokens d.1) d.2) ++
  printLine (headerTokens f.sel) f.hdrLay ::
  f.rows.map (fun r => printLine (rowTokens r.1 r.2.2) r.2.1)

def print (f : File) : Str := joinLines f.lines f.finalNewline

/-! ### what parsing must give -/

def sSec : Str := [115, 101, 99]
def sDdmmyy : Str := [100, 100, 109, 109, 121, 121]
def sHhmmss : Str := [104, 104, 109, 109, 115, 115]

def cellValues (r : Row) : List Value :=
  .datetime r.utim.y r.utim.mo r.utim.d r.utim.h r.utim.mi r.utim.s ::
  .date r.date.y r.date.mo r.date.d ::
  .time r.time.h r.time.mi r.time.s ::
  r.nums.map (fun x => .float x.value)

/-- the channel a header name stands for: description and units come from its declaration; the three leading
columns hold objects, all others float64 -/
def chanOf (f : File) (n : Str) : Chan :=
  match f.decls.find? (fun d => d.1.name = n) with
  | some d => ⟨n, joinSp d.1.words, d.1.units, n = sUTIM ∨ n = sDATE ∨ n = sTIME⟩
  | none => ⟨n, [], [], false⟩

/-- the first `k` columns of a row-major table -/
def columns {α : Type} (dflt : α) : Nat → List (List α) → List (List α)
  | 0, _ => []
  | k + 1, rows => rows.map (fun r => r.headD dflt) :: columns dflt k (rows.map List.tail)

/-- one channel per header name, in header order, each with its column of values (one per data line):
the table of cell values, transposed -/
def expected (f : File) : List (Chan × List Value) :=
  ((headerTokens f.sel).map (chanOf f)).zip
    (columns (.float .nan) (headerTokens f.sel).length (f.rows.map (fun r => cellValues r.1)))

/-! ### well-formedness of content and layout -/

def isTok (t : Str) : Prop := t ≠ [] ∧ ∀ c ∈ t, 33 ≤ c ∧ c ≤ 126
def isBlank (s : Str) : Prop := ∀ c ∈ s, c = 32 ∨ c = 9 ∨ c = 11 ∨ c = 12 ∨ c = 13
def isSep (s : Str) : Prop := s ≠ [] ∧ isBlank s
def isName (n : Str) : Prop := n ≠ [] ∧ ∀ c ∈ n, isUpperDigit c = true
def isDigits (ds : List Nat) : Prop := ∀ d ∈ ds, d < 10

instance (t : Str) : Decidable (isTok t) := by unfold isTok; infer_instance
instance (t : Str) : Decidable (isBlank t) := by unfold isBlank; infer_instance
instance (t : Str) : Decidable (isSep t) := by unfold isSep; infer_instance
instance (t : Str) : Decidable (isName t) := by unfold isName; infer_instance
instance (t : List Nat) : Decidable (isDigits t) := by unfold isDigits; infer_instance

def LineLay.wf (l : LineLay) : Prop := isBlank l.lead ∧ isBlank l.trail ∧ ∀ s ∈ l.seps, isSep s

instance (l : LineLay) : Decidable l.wf := by unfold LineLay.wf; infer_instance

/-- a declaration whose own tokens read `UTIM DATE TIME …` would be taken for the header line -/
def Decl.headerLike (d : Decl) : Prop := [sUTIM, sDATE, sTIME] <+: declTokens d

instance (d : Decl) : Decidable d.headerLike := by unfold Decl.headerLike; infer_instance

def Decl.wf (d : Decl) : Prop :=
  isName d.name ∧ d.words ≠ [] ∧ (∀ w ∈ d.words, isTok w) ∧ isTok d.units ∧ ¬ d.headerLike

def Num.wf (x : Num) : Prop :=
  isDigits x.ip ∧ isDigits (x.frac.getD []) ∧ (x.ip ≠ [] ∨ x.frac.getD [] ≠ []) ∧
  (∀ e, x.exp = some e → e.2.2 ≠ [] ∧ isDigits e.2.2)

def Row.wf (k : Nat) (r : Row) : Prop :=
  validDate r.utim.y r.utim.mo r.utim.d ∧ r.utim.h < 24 ∧ r.utim.mi < 60 ∧ r.utim.s < 60 ∧
  validDate r.date.y r.date.mo r.date.d ∧ 1951 ≤ r.date.y ∧ r.date.y ≤ 2050 ∧
  r.time.h < 24 ∧ r.time.mi < 60 ∧ r.time.s < 60 ∧
  r.nums.length = k ∧ ∀ x ∈ r.nums, x.wf

def names (f : File) : List Str := f.decls.map (fun d => d.1.name)

def File.wf (f : File) : Prop :=
  (∀ d ∈ f.decls, d.1.wf ∧ d.2.wf) ∧
  (names f).Nodup ∧
  (∃ d ∈ f.decls, d.1.name = sUTIM ∧ d.1.units = sSec) ∧
  (∃ d ∈ f.decls, d.1.name = sDATE ∧ d.1.units = sDdmmyy) ∧
  (∃ d ∈ f.decls, d.1.name = sTIME ∧ d.1.units = sHhmmss) ∧
  f.sel ≠ [] ∧ f.sel.Nodup ∧
  (∀ n ∈ f.sel, n ∈ names f ∧ n ≠ sUTIM ∧ n ≠ sDATE ∧ n ≠ sTIME) ∧
  f.hdrLay.wf ∧
  (∀ r ∈ f.rows, r.1.wf f.sel.length ∧ r.2.1.wf)

end TD.C14.Spec
