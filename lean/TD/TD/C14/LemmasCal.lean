/-
C14 — calendar lemmas: the model's ordinal → (y, m, d) inverts the textbook ordinal of the spec.
-/
import TD.C14.Model
import TD.C14.Spec
namespace TD.C14
open TD.C14.Spec

theorem daysBeforeMonth_val (y m : Nat) (hm1 : 1 ≤ m) (hm : m ≤ 12) :
    daysBeforeMonth y m =
      (if m = 1 then 0 else if m = 2 then 31 else
        (if leap y then 1 else 0) +
        (if m = 3 then 59 else if m = 4 then 90 else if m = 5 then 120 else if m = 6 then 151 else if m = 7 then 181
         else if m = 8 then 212 else if m = 9 then 243 else if m = 10 then 273 else if m = 11 then 304 else 334)) := by
  have : m = 1 ∨ m = 2 ∨ m = 3 ∨ m = 4 ∨ m = 5 ∨ m = 6 ∨ m = 7 ∨ m = 8 ∨ m = 9 ∨ m = 10 ∨ m = 11 ∨ m = 12 := by omega
  rcases this with h | h | h | h | h | h | h | h | h | h | h | h <;> subst h <;>
    simp [daysBeforeMonth, List.range_succ, monthLen] <;> split <;> omega

theorem leap_iff (y : Nat) : leap y = true ↔ ((y % 4 = 0 ∧ y % 100 ≠ 0) ∨ y % 400 = 0) := by
  simp [leap]

theorem monthDay_spec (y L m d dbm : Nat) (hm1 : 1 ≤ m) (hm12 : m ≤ 12) (hd1 : 1 ≤ d) (hL : L ≤ 1)
    (hdb : dbm = (if m = 1 then 0 else if m = 2 then 31 else
        L + (if m = 3 then 59 else if m = 4 then 90 else if m = 5 then 120 else if m = 6 then 151 else if m = 7 then 181
         else if m = 8 then 212 else if m = 9 then 243 else if m = 10 then 273 else if m = 11 then 304 else 334)))
    (hd : d ≤ (if m = 2 then 28 + L else if m = 4 ∨ m = 6 ∨ m = 9 ∨ m = 11 then 30 else 31)) :
    monthDay y L (dbm + d - 1) = (y, m, d) := by
  have hm : m = 1 ∨ m = 2 ∨ m = 3 ∨ m = 4 ∨ m = 5 ∨ m = 6 ∨ m = 7 ∨ m = 8 ∨ m = 9 ∨ m = 10 ∨ m = 11 ∨ m = 12 := by omega
  have hL' : L = 0 ∨ L = 1 := by omega
  rcases hL' with rfl | rfl <;>
  rcases hm with h | h | h | h | h | h | h | h | h | h | h | h <;> subst h <;> simp at hd hdb <;> subst hdb <;>
    unfold monthDay <;> (repeat (first | rw [if_pos (by omega)] | rw [if_neg (by omega)])) <;>
    (refine Prod.ext rfl (Prod.ext rfl ?_)) <;> dsimp only <;> omega

set_option maxRecDepth 8000 in
theorem civilOfOrdinal_parts (a b c e doy : Nat) (hb : b < 4) (hc : c < 25) (he : e < 4)
    (hdoy : doy < 365 + (if e = 3 ∧ (c ≠ 24 ∨ b = 3) then 1 else 0)) :
    civilOfOrdinal (146097 * a + 36524 * b + 1461 * c + 365 * e + doy + 1) =
      monthDay (400 * a + 100 * b + 4 * c + e + 1) (if e = 3 ∧ (c ≠ 24 ∨ b = 3) then 1 else 0) doy := by
  unfold civilOfOrdinal
  by_cases hsp : doy = 365
  · -- the last day of a leap year
    subst hsp
    have he3 : e = 3 := by
      by_cases h : e = 3 ∧ (c ≠ 24 ∨ b = 3) <;> simp [h] at hdoy; exact h.1
    subst he3
    have hcb : c ≠ 24 ∨ b = 3 := by
      by_cases h : c ≠ 24 ∨ b = 3
      · exact h
      · simp [h] at hdoy
    have hR : monthDay (400 * a + 100 * b + 4 * c + 3 + 1) (if 3 = 3 ∧ (c ≠ 24 ∨ b = 3) then 1 else 0) 365 =
        (400 * a + 100 * b + 4 * c + 3 + 1, 12, 31) := by
      rw [if_pos ⟨rfl, hcb⟩]; unfold monthDay
      repeat (first | rw [if_pos (by omega)] | rw [if_neg (by omega)])
    rw [hR]
    have hN : 146097 * a + 36524 * b + 1461 * c + 365 * 3 + 365 + 1 - 1 = 146097 * a + (36524 * b + 1461 * c + 1460) := by omega
    rw [hN]
    have hR : 36524 * b + 1461 * c + 1460 < 146097 := by omega
    have h1 : (146097 * a + (36524 * b + 1461 * c + 1460)) / 146097 = a := by
      rw [Nat.mul_add_div (by decide), Nat.div_eq_of_lt hR, Nat.add_zero]
    have h2 : (146097 * a + (36524 * b + 1461 * c + 1460)) % 146097 = 36524 * b + 1461 * c + 1460 := by
      rw [Nat.mul_add_mod, Nat.mod_eq_of_lt hR]
    simp only [h1, h2]
    by_cases hc24 : c = 24
    · have hb3 : b = 3 := by omega
      subst hc24; subst hb3
      simp
      omega
    · have h3 : (36524 * b + 1461 * c + 1460) / 36524 = b := by omega
      have h4 : (36524 * b + 1461 * c + 1460) % 36524 = 1461 * c + 1460 := by omega
      have h5 : (1461 * c + 1460) / 1461 = c := by omega
      have h6 : (1461 * c + 1460) % 1461 = 1460 := by omega
      simp only [h3, h4, h5, h6]
      simp
      omega
  · have hd : doy < 365 := by
      by_cases h : e = 3 ∧ (c ≠ 24 ∨ b = 3) <;> simp [h] at hdoy <;> omega
    have h1 : (146097 * a + 36524 * b + 1461 * c + 365 * e + doy + 1 - 1) / 146097 = a := by omega
    have h2 : (146097 * a + 36524 * b + 1461 * c + 365 * e + doy + 1 - 1) % 146097 = 36524 * b + 1461 * c + 365 * e + doy := by omega
    have h3 : (36524 * b + 1461 * c + 365 * e + doy) / 36524 = b := by omega
    have h4 : (36524 * b + 1461 * c + 365 * e + doy) % 36524 = 1461 * c + 365 * e + doy := by omega
    have h5 : (1461 * c + 365 * e + doy) / 1461 = c := by omega
    have h6 : (1461 * c + 365 * e + doy) % 1461 = 365 * e + doy := by omega
    have h7 : (365 * e + doy) / 365 = e := by omega
    have h8 : (365 * e + doy) % 365 = doy := by omega
    simp only [h1, h2, h3, h4, h5, h6, h7, h8]
    have h9 : ¬ (e = 4 ∨ b = 4) := by omega
    rw [if_neg h9]
    congr 1; omega

theorem civil_ordinal (y m d : Nat) (h : validDate y m d) : civilOfOrdinal (ordinal y m d) = (y, m, d) := by
  obtain ⟨hy1, _, hm1, hm12, hd1, hd⟩ := h
  have hdb := daysBeforeMonth_val y m hm1 hm12
  have hl := leap_iff y
  obtain ⟨a, b, c, e, hb, hc, he, hY⟩ : ∃ a b c e, b < 4 ∧ c < 25 ∧ e < 4 ∧ y - 1 = 400 * a + 100 * b + 4 * c + e :=
    ⟨(y - 1) / 400, (y - 1) % 400 / 100, (y - 1) % 100 / 4, (y - 1) % 4, by omega, by omega, by omega, by omega⟩
  have hLm : (e = 3 ∧ (c ≠ 24 ∨ b = 3)) ↔ leap y = true := by
    rw [hl]; omega
  have hLeq : (if e = 3 ∧ (c ≠ 24 ∨ b = 3) then 1 else 0) = (if leap y = true then 1 else 0) := by
    by_cases h : leap y = true
    · rw [if_pos h, if_pos (hLm.mpr h)]
    · rw [if_neg h, if_neg (fun h' => h (hLm.mp h'))]
  have hmd : d ≤ (if m = 2 then 28 + (if leap y = true then 1 else 0) else if m = 4 ∨ m = 6 ∨ m = 9 ∨ m = 11 then 30 else 31) := by
    have hm : m = 1 ∨ m = 2 ∨ m = 3 ∨ m = 4 ∨ m = 5 ∨ m = 6 ∨ m = 7 ∨ m = 8 ∨ m = 9 ∨ m = 10 ∨ m = 11 ∨ m = 12 := by omega
    by_cases hL : leap y = true <;>
    rcases hm with h | h | h | h | h | h | h | h | h | h | h | h <;> subst h <;>
      simp [monthLen, hL] at hd ⊢ <;> omega
  have hLle : (if leap y = true then 1 else 0) ≤ 1 := by split <;> omega
  have hms := monthDay_spec y (if leap y = true then 1 else 0) m d (daysBeforeMonth y m) hm1 hm12 hd1 hLle hdb hmd
  have hdoylt : daysBeforeMonth y m + d - 1 < 365 + (if leap y = true then 1 else 0) := by
    have hm : m = 1 ∨ m = 2 ∨ m = 3 ∨ m = 4 ∨ m = 5 ∨ m = 6 ∨ m = 7 ∨ m = 8 ∨ m = 9 ∨ m = 10 ∨ m = 11 ∨ m = 12 := by omega
    by_cases hL : leap y = true <;>
    rcases hm with h | h | h | h | h | h | h | h | h | h | h | h <;> subst h <;>
      simp [monthLen, hL] at hd hdb ⊢ <;> omega
  have hN : ordinal y m d = 146097 * a + 36524 * b + 1461 * c + 365 * e + (daysBeforeMonth y m + d - 1) + 1 := by
    unfold ordinal daysBeforeYear; omega
  have hyy : 400 * a + 100 * b + 4 * c + e + 1 = y := by omega
  rw [hN, civilOfOrdinal_parts a b c e _ hb hc he (by rw [hLeq]; exact hdoylt), hLeq, hyy]
  exact hms

theorem ordinal_bounds (y m d : Nat) (h : validDate y m d) : 1 ≤ ordinal y m d ∧ ordinal y m d ≤ 3652059 := by
  obtain ⟨hy1, hy2, hm1, hm12, hd1, hd⟩ := h
  have hdb := daysBeforeMonth_val y m hm1 hm12
  have hl := leap_iff y
  have hdoylt : daysBeforeMonth y m + d ≤ 365 + (if leap y = true then 1 else 0) := by
    have hm : m = 1 ∨ m = 2 ∨ m = 3 ∨ m = 4 ∨ m = 5 ∨ m = 6 ∨ m = 7 ∨ m = 8 ∨ m = 9 ∨ m = 10 ∨ m = 11 ∨ m = 12 := by omega
    by_cases hL : leap y = true <;>
    rcases hm with h | h | h | h | h | h | h | h | h | h | h | h <;> subst h <;>
      simp [monthLen, hL] at hd hdb ⊢ <;> omega
  unfold ordinal daysBeforeYear
  by_cases hL : leap y = true
  · have := hl.mp hL
    rw [if_pos hL] at hdoylt
    omega
  · rw [if_neg hL] at hdoylt
    omega

end TD.C14
