/-
C14 — model of `TotalDepth/DAT/DAT_parser.py` (`_parse_file`, `parse_file`, `can_parse_file` and the three
`_unit_*` conversion functions) AS CODED.  Core Lean only (the driver imports this file).

Text is a list of Unicode code points (`Str := List Nat`), a Python exception is `Except Err`.

Primitives that the code calls and that are *transcribed* here (not verified; compared on every run):
`str.strip/split/translate`, `re` matching of the four regular expressions (hand-written scanners; the regex literals
are read from the source into `TD.Gen.C14` and `Props.gen_tables_as_modelled` pins the literals these scanners were
written for), `float()`, `int()`, `time.gmtime`, `datetime.datetime/date/time` constructors (range checks) and
`datetime.strptime(_, '%H-%M-%S')`.

Domain: code points with Unicode category Nd other than ASCII `0-9` are outside the model (Python's `\d`, `int()`
and `float()` accept them); the generators never produce them.
-/
import TD.Gen.C14Tables
namespace TD.C14

abbrev Str := List Nat

/-- `dat` = `ExceptionDATRead` (any `ExceptionDAT`); `assertion` = a failed `assert`; `typeError` = storing a
non-number into a float64 column. Only `dat` is reachable (`Props.errors_are_dat`). -/
inductive Err where
  | dat | assertion | typeError
  deriving Repr, DecidableEq

/-! ### character classes -/

/-- `Py_UNICODE_ISSPACE`: used by `str.strip()`, `str.split()` and by `\s` / `\S` of `re` on `str` patterns. -/
def isSpace (c : Nat) : Bool :=
  (9 ≤ c && c ≤ 13) || (28 ≤ c && c ≤ 32) || c == 0x85 || c == 0xA0 || c == 0x1680 ||
  (0x2000 ≤ c && c ≤ 0x200A) || c == 0x2028 || c == 0x2029 || c == 0x202F || c == 0x205F || c == 0x3000

/-- `c in string.printable` (for a code point below 256). -/
def isPrintable (c : Nat) : Bool := (32 ≤ c && c ≤ 126) || (9 ≤ c && c ≤ 13)

/-- `[A-Z0-9]` -/
def isUpperDigit (c : Nat) : Bool := (65 ≤ c && c ≤ 90) || (48 ≤ c && c ≤ 57)

/-- ASCII digit (`\d` restricted to the model domain). -/
def isDigit (c : Nat) : Bool := 48 ≤ c && c ≤ 57

/-- `line.translate(ASCII_PRINTABLE_TABLE)`: code points 0..255 that are not in `string.printable` are deleted,
everything from 256 up is kept (the table only has keys 0..255). -/
def translate (l : Str) : Str := l.filter (fun c => 256 ≤ c || isPrintable c)

/-- `str.strip()` -/
def strip (l : Str) : Str := ((l.dropWhile isSpace).reverse.dropWhile isSpace).reverse

/-- `str.split()` (no argument): maximal runs of non-whitespace. `cur` is the current word, reversed. -/
def splitAux : Str → Str → List Str
  | [], cur => if cur = [] then [] else [cur.reverse]
  | c :: r, cur =>
    if isSpace c then (if cur = [] then splitAux r [] else cur.reverse :: splitAux r [])
    else splitAux r (c :: cur)

def splitWs (l : Str) : List Str := splitAux l []

/-- `' '.join(words)` -/
def joinSp : List Str → Str
  | [] => []
  | [w] => w
  | w :: r => w ++ 32 :: joinSp r

/-- `file_object.readlines()` for an `io.StringIO` (lines end at `'\n'` only); the terminating `'\n'` is dropped here
because every line is `strip()`ped first thing. -/
def splitLinesAux : Str → Str → List Str
  | [], cur => if cur = [] then [] else [cur.reverse]
  | c :: r, cur => if c = 10 then cur.reverse :: splitLinesAux r [] else splitLinesAux r (c :: cur)

def splitLines (t : Str) : List Str := splitLinesAux t []

/-- line preparation: `line.strip().translate(ASCII_PRINTABLE_TABLE)` -/
def prep (raw : Str) : Str := translate (strip raw)

/-! ### the two line regular expressions, as scanners

Lines never contain `'\n'` (they come from `readlines`), so `.` is "any character" and `$` is "end of line". -/

def stripPrefix : Str → Str → Option Str
  | [], l => some l
  | _ :: _, [] => none
  | p :: ps, c :: r => if p = c then stripPrefix ps r else none

/-- at least one whitespace character, greedy (the next thing to match is never whitespace) -/
def skipSpaces1 (l : Str) : Option Str :=
  match l with
  | [] => none
  | c :: r => if isSpace c then some (r.dropWhile isSpace) else none

def sUTIM : Str := [85, 84, 73, 77]
def sDATE : Str := [68, 65, 84, 69]
def sTIME : Str := [84, 73, 77, 69]

/-- `RE_DATA_HEADER_DEFINITION = ^UTIM\s+DATE\s+TIME\s+.+$` -/
def scanHeader (line : Str) : Bool :=
  match stripPrefix sUTIM line with
  | none => false
  | some r1 =>
  match skipSpaces1 r1 with
  | none => false
  | some r2 =>
  match stripPrefix sDATE r2 with
  | none => false
  | some r3 =>
  match skipSpaces1 r3 with
  | none => false
  | some r4 =>
  match stripPrefix sTIME r4 with
  | some (c :: _ :: _) => isSpace c      -- `\s+.+` : one whitespace, then at least one more character of any kind
  | _ => false

/-- `RE_CHANNEL_DEFINITION = ^([A-Z0-9]+)\s(.+?)\s(\S+)$` → groups (1, 2, 3).
Group 1 is the maximal `[A-Z0-9]` prefix (what follows must be whitespace), group 3 the maximal non-whitespace suffix
(what precedes must be whitespace), group 2 whatever lies between the two delimiting whitespace characters, non-empty. -/
def scanDecl (line : Str) : Option (Str × Str × Str) :=
  let g1 := line.takeWhile isUpperDigit
  if g1 = [] then none else
  match line.dropWhile isUpperDigit with
  | [] => none
  | c :: r2 =>
    if !isSpace c then none else
    let rv := r2.reverse
    let g3 := (rv.takeWhile (fun c => !isSpace c)).reverse
    if g3 = [] then none else
    match rv.dropWhile (fun c => !isSpace c) with
    | [] => none                       -- no whitespace before group 3
    | _ :: g2r => if g2r = [] then none else some (g1, g2r.reverse, g3)

/-! ### numbers: `int()` and `float()` on a whitespace-free token -/

def digitVal (c : Nat) : Nat := c - 48

def ofDigits (ds : List Nat) : Nat := ds.foldl (fun a d => 10 * a + d) 0

/-- the digit/underscore scan of `PyLong_FromString` (base 10): returns the digits (underscores removed).
`prev`: 0 = start, 1 = digit, 2 = underscore. -/
def intScan : Str → Nat → List Nat → Option (List Nat)
  | [], prev, acc => if prev = 1 then some acc.reverse else none
  | c :: r, prev, acc =>
    if isDigit c then intScan r 1 (digitVal c :: acc)
    else if c = 95 then (if prev = 1 then intScan r 2 acc else none)
    else none

/-- optional leading sign: (is negative, rest) -/
def splitSign (s : Str) : Bool × Str :=
  match s with
  | 45 :: r => (true, r)
  | 43 :: r => (false, r)
  | _ => (false, s)

/-- `int(token)`; `none` = `ValueError`. More than 4300 digits is a `ValueError` too (`sys.int_max_str_digits`). -/
def parseInt (s : Str) : Option Int :=
  match intScan (splitSign s).2 0 [] with
  | none => none
  | some ds => if ds.length > 4300 then none else
    let v : Int := (ofDigits ds : Nat)
    some (if (splitSign s).1 then -v else v)

/-- A Python float that `float(token)` denotes, kept as the exact decimal `(-1)^neg · mant · 10^exp`;
the rounding to binary64 (`strtod`, correctly rounded) is applied by the harness when comparing. -/
inductive PyFloat where
  | nan
  | inf (neg : Bool)
  | fin (neg : Bool) (mant : Nat) (exp : Int)
  deriving Repr, DecidableEq

/-- `_Py_string_to_number_with_underscores`: an underscore must sit between two digits. `prev`: 0 other, 1 digit, 2 `_`. -/
def dropUnderscores : Str → Nat → Str → Option Str
  | [], prev, acc => if prev = 2 then none else some acc.reverse
  | c :: r, prev, acc =>
    if c = 95 then (if prev = 1 then dropUnderscores r 2 acc else none)
    else if prev = 2 && !isDigit c then none
    else dropUnderscores r (if isDigit c then 1 else 0) (c :: acc)

def lower (c : Nat) : Nat := if 65 ≤ c ∧ c ≤ 90 then c + 32 else c

def sInf : Str := [105, 110, 102]
def sInfinity : Str := [105, 110, 102, 105, 110, 105, 116, 121]
def sNan : Str := [110, 97, 110]

/-- optional exponent `[eE][+-]?\d+`, must reach the end of the token -/
def parseExp (r : Str) : Option Int :=
  match r with
  | [] => some 0
  | c :: r1 =>
    if c = 101 ∨ c = 69 then
      let r2 := (splitSign r1).2
      if r2 = [] then none
      else if r2.all isDigit then
        let v : Int := (ofDigits (r2.map digitVal) : Nat)
        some (if (splitSign r1).1 then -v else v)
      else none
    else none

/-- the fraction digits after an optional `.` -/
def fracOf (r1 : Str) : Str :=
  match r1 with
  | 46 :: t => t.takeWhile isDigit
  | _ => []

/-- what follows the optional `. digits` -/
def afterFrac (r1 : Str) : Str :=
  match r1 with
  | 46 :: t => t.dropWhile isDigit
  | _ => r1

/-- `digits [. digits] [exponent]` with at least one digit in the mantissa -/
def parseDecBody (neg : Bool) (body : Str) : Option PyFloat :=
  let ip := body.takeWhile isDigit
  let r1 := body.dropWhile isDigit
  let fp := fracOf r1
  let r2 := afterFrac r1
  if ip = [] ∧ fp = [] then none else
  match parseExp r2 with
  | none => none
  | some e => some (.fin neg (ofDigits ((ip ++ fp).map digitVal)) (e - (fp.length : Int)))

/-- `float(token)`; `none` = `ValueError`. -/
def parseFloat (s0 : Str) : Option PyFloat :=
  match (if s0.contains 95 then dropUnderscores s0 0 [] else some s0) with
  | none => none
  | some s =>
  let neg := (splitSign s).1
  let body := (splitSign s).2
  let lb := body.map lower
  if lb = sInf ∨ lb = sInfinity then some (.inf neg)
  else if lb = sNan then some .nan
  else parseDecBody neg body

/-! ### dates and times -/

def isLeap (y : Nat) : Bool := y % 4 == 0 && (y % 100 != 0 || y % 400 == 0)

def daysInMonth (y m : Nat) : Nat :=
  if m = 2 then (if isLeap y then 29 else 28)
  else if m = 4 ∨ m = 6 ∨ m = 9 ∨ m = 11 then 30 else 31

/-- the argument check of `datetime.date(y, m, d)` -/
def dateOk (y m d : Nat) : Bool := 1 ≤ y && y ≤ 9999 && 1 ≤ m && m ≤ 12 && 1 ≤ d && d ≤ daysInMonth y m

/-- day-of-year `n` (0-based) of a year with leap flag `L` → (year, month, day), by comparing against the cumulative
month lengths. -/
def monthDay (year L n : Nat) : Nat × Nat × Nat :=
  if n < 31 then (year, 1, n + 1)
  else if n < 59 + L then (year, 2, n - 31 + 1)
  else if n < 90 + L then (year, 3, n - (59 + L) + 1)
  else if n < 120 + L then (year, 4, n - (90 + L) + 1)
  else if n < 151 + L then (year, 5, n - (120 + L) + 1)
  else if n < 181 + L then (year, 6, n - (151 + L) + 1)
  else if n < 212 + L then (year, 7, n - (181 + L) + 1)
  else if n < 243 + L then (year, 8, n - (212 + L) + 1)
  else if n < 273 + L then (year, 9, n - (243 + L) + 1)
  else if n < 304 + L then (year, 10, n - (273 + L) + 1)
  else if n < 334 + L then (year, 11, n - (304 + L) + 1)
  else (year, 12, n - (334 + L) + 1)

/-- proleptic Gregorian ordinal (1 = 0001-01-01) → (year, month, day): CPython `ord_to_ymd` (400/100/4/1-year cycles). -/
def civilOfOrdinal (ord : Nat) : Nat × Nat × Nat :=
  let n0 := ord - 1
  let n400 := n0 / 146097
  let r400 := n0 % 146097
  let n100 := r400 / 36524
  let r100 := r400 % 36524
  let n4 := r100 / 1461
  let r4 := r100 % 1461
  let n1 := r4 / 365
  let n := r4 % 365
  let year := n400 * 400 + 1 + n100 * 100 + n4 * 4 + n1
  if n1 = 4 ∨ n100 = 4 then (year - 1, 12, 31)
  else monthDay year (if n1 = 3 ∧ (n4 ≠ 24 ∨ n100 = 3) then 1 else 0) n

inductive Value where
  | float (f : PyFloat)
  | datetime (y mo d h mi s : Nat)
  | date (y mo d : Nat)
  | time (h mi s : Nat)
  deriving Repr, DecidableEq

/-- `_unit_unix_time_to_datetime_datetime`: `int(value)`, `time.gmtime`, `datetime.datetime(*tm[:6])`; every failure
(`ValueError` of `int`, `OverflowError`/`OSError` of `gmtime`, `ValueError` year outside 1..9999) is re-raised as
`ExceptionDATRead`.  -62135596800 = 0001-01-01T00:00:00, 253402300799 = 9999-12-31T23:59:59. -/
def convUtim (tok : Str) : Except Err Value :=
  match parseInt tok with
  | none => .error .dat
  | some n =>
    if n < -62135596800 ∨ n > 253402300799 then .error .dat else
    let t : Nat := (n + 62135596800).toNat
    let (y, m, d) := civilOfOrdinal (t / 86400 + 1)
    let s := t % 86400
    .ok (.datetime y m d (s / 3600) (s % 3600 / 60) (s % 60))

def monthNames : List Str :=
  [[74, 97, 110], [70, 101, 98], [77, 97, 114], [65, 112, 114], [77, 97, 121], [74, 117, 110],
   [74, 117, 108], [65, 117, 103], [83, 101, 112], [79, 99, 116], [78, 111, 118], [68, 101, 99]]

/-- `(Jan|Feb|…|Dec)` at the head of `l`: 1-based month number and the rest. -/
def scanMonth (l : Str) : Option (Nat × Str) :=
  match l with
  | a :: b :: c :: r =>
    match monthNames.findIdx? (· = [a, b, c]) with
    | some i => some (i + 1, r)
    | none => none
  | _ => none

/-- `RE_DATE_STYLE_A = ^(\d+)(Jan|…)(\d+)$` (`dash = false`) and `RE_DATE_STYLE_B = ^(\d+)-(Jan|…)-(\d+)$`. -/
def scanDate (dash : Bool) (v : Str) : Option (Nat × Nat × Nat) :=
  let d1 := v.takeWhile isDigit
  if d1 = [] then none else
  let r1 := v.dropWhile isDigit
  match (if dash then stripPrefix [45] r1 else some r1) with
  | none => none
  | some r2 =>
  match scanMonth r2 with
  | none => none
  | some (mon, r3) =>
  match (if dash then stripPrefix [45] r3 else some r3) with
  | none => none
  | some r4 =>
    if r4 = [] then none
    else if r4.all isDigit then some (ofDigits (d1.map digitVal), mon, ofDigits (r4.map digitVal))
    else none

/-- `_unit_ddmmyy_to_datetime_date`, including the two-digit-year pivot `yr > 50`. -/
def convDate (tok : Str) : Except Err Value :=
  match scanDate (tok.contains 45) tok with
  | none => .error .dat
  | some (day, mon, yr) =>
    let year := if yr > 50 then yr + 1900 else yr + 2000
    -- `datetime.date(yr, mon, day)`: OverflowError (an argument above 2^31-1) and ValueError (range) are both re-raised
    -- as ExceptionDATRead; `dateOk` is false in either case
    if dateOk year mon day then .ok (.date year mon day) else .error .dat

/-- `%H` = `(2[0-3]|[0-1]\d|\d)`: all ways to match at the head of `l`, in the order the regex engine tries them. -/
def reH (l : Str) : List (Nat × Str) :=
  (match l with
   | a :: b :: r => if a = 50 ∧ 48 ≤ b ∧ b ≤ 51 then [(20 + (b - 48), r)] else []
   | _ => []) ++
  (match l with
   | a :: b :: r => if (a = 48 ∨ a = 49) ∧ isDigit b then [((a - 48) * 10 + (b - 48), r)] else []
   | _ => []) ++
  (match l with
   | a :: r => if isDigit a then [(a - 48, r)] else []
   | _ => [])

/-- `%M` = `([0-5]\d|\d)` -/
def reM (l : Str) : List (Nat × Str) :=
  (match l with
   | a :: b :: r => if 48 ≤ a ∧ a ≤ 53 ∧ isDigit b then [((a - 48) * 10 + (b - 48), r)] else []
   | _ => []) ++
  (match l with
   | a :: r => if isDigit a then [(a - 48, r)] else []
   | _ => [])

/-- `%S` = `(6[0-1]|[0-5]\d|\d)` -/
def reS (l : Str) : List (Nat × Str) :=
  (match l with
   | a :: b :: r => if a = 54 ∧ (b = 48 ∨ b = 49) then [(60 + (b - 48), r)] else []
   | _ => []) ++ reM l

/-- `datetime.datetime.strptime(value, '%H-%M-%S')`: first complete match found by backtracking; then
"unconverted data remains" unless the match reaches the end; then the `datetime` constructor's range check
(`second` may be 60 or 61 for the regex but not for `datetime`). -/
def strptimeHMS (v : Str) : Option (Nat × Nat × Nat) :=
  let found := (reH v).findSome? fun (h, r1) =>
    match r1 with
    | 45 :: r2 => (reM r2).findSome? fun (m, r3) =>
      match r3 with
      | 45 :: r4 => (reS r4).head?.map fun (s, r5) => (h, m, s, r5)
      | _ => none
    | _ => none
  match found with
  | some (h, m, s, []) => if h < 24 ∧ m < 60 ∧ s < 60 then some (h, m, s) else none
  | _ => none

/-- `_unit_hhmmyy_to_datetime_time` -/
def convTime (tok : Str) : Except Err Value :=
  match strptimeHMS tok with
  | some (h, m, s) => .ok (.time h m s)
  | none => .error .dat

/-! ### conversion chosen by (name, units) — keys from the generated tables -/

inductive Conv where
  | float | utim | date | time
  deriving Repr, DecidableEq

def convOfFn (fn : String) : Conv :=
  if fn = "_unit_unix_time_to_datetime_datetime" then .utim
  else if fn = "_unit_ddmmyy_to_datetime_date" then .date
  else if fn = "_unit_hhmmyy_to_datetime_time" then .time
  else .float

/-- `_ret_conversion_function` -/
def convKind (name units : Str) : Conv :=
  match TD.Gen.C14.conversionMap.find? (fun e => e.1 = name ∧ e.2.1 = units) with
  | some e => convOfFn e.2.2
  | none => .float

/-- `_numpy_dtype`: `true` = `object`, `false` = `np.float64`. -/
def isObjectDtype (name units : Str) : Bool :=
  match TD.Gen.C14.typeMap.find? (fun e => e.1 = name ∧ e.2.1 = units) with
  | some e => e.2.2 == "object"
  | none => false

/-- `conversion_function(value)` inside `try … except ValueError → ExceptionDATRead` -/
def convert (k : Conv) (tok : Str) : Except Err Value :=
  match k with
  | .float => match parseFloat tok with
    | some f => .ok (.float f)
    | none => .error .dat
  | .utim => convUtim tok
  | .date => convDate tok
  | .time => convTime tok

/-! ### the line loop -/

structure Chan where
  name : Str
  desc : Str
  units : Str
  obj : Bool          -- dtype is `object`
  deriving Repr, DecidableEq

/-- `channels_declared` is a dict that is only ever looked up by key: newest binding first. -/
def lookup (d : List (Str × Str × Str)) (n : Str) : Option (Str × Str) :=
  match d with
  | [] => none
  | (k, v) :: r => if k = n then some v else lookup r n

structure St where
  declared : List (Str × Str × Str) := []
  inDecl : Bool := true
  defined : List Str := []             -- channels_defined
  chans : List Chan := []              -- frame_array.channels
  table : List (List Str) := []        -- data_table (columns)

/-- `for channel_name in channels_defined:` — undeclared name → DAT error; `FrameArray.append` refuses a duplicate
identity (`ExceptionFrameArray`, re-raised as `ExceptionDATRead`). -/
def addChannels (declared : List (Str × Str × Str)) :
    List Str → List Chan → List (List Str) → Except Err (List Chan × List (List Str))
  | [], chans, table => .ok (chans, table)
  | n :: r, chans, table =>
    match lookup declared n with
    | none => .error .dat
    | some (desc, units) =>
      if chans.any (fun c => c.name = n) then .error .dat
      else addChannels declared r (chans ++ [⟨n, desc, units, isObjectDtype n units⟩]) (table ++ [[]])

/-- `for i, v in enumerate(values): data_table[i].append(v)` -/
def appendRow (table : List (List Str)) (values : List Str) : List (List Str) :=
  List.zipWith (fun col v => col ++ [v]) table values

/-- `for line_number, line in enumerate(file_object.readlines()):` -/
def loop (brk : Bool) : St → List Str → Except Err St
  | st, [] => .ok st
  | st, raw :: rest =>
    if st.defined.length ≠ st.chans.length then .error .assertion else
    let line := prep raw
    if st.inDecl then
      if scanHeader line then
        let defined := splitWs line
        match addChannels st.declared defined st.chans st.table with
        | .error e => .error e
        | .ok (chans, table) => loop brk { st with defined := defined, chans := chans, table := table, inDecl := false } rest
      else
        match scanDecl line with
        | some (n, d, u) =>
          if (lookup st.declared n).isSome then .error .dat      -- duplicate declaration
          else loop brk { st with declared := (n, joinSp (splitWs d), u) :: st.declared } rest
        | none => .error .dat
    else
      let values := splitWs line
      if values.length ≠ st.table.length then .error .dat else
      let st' := { st with table := appendRow st.table values }
      if brk then .ok st' else loop brk st' rest

/-- `channel[(j, 0)] = conversion_function(value)` for one cell -/
def convertCell (c : Chan) (tok : Str) : Except Err Value :=
  match convert (convKind c.name c.units) tok with
  | .error e => .error e
  | .ok v => match v with
    | .float _ => .ok v
    | _ => if c.obj then .ok v else .error .typeError     -- a date/time object cannot go into a float64 array

/-- one column: `for j, value in enumerate(column):` -/
def convertColumn (c : Chan) : List Str → Except Err (List Value)
  | [] => .ok []
  | tok :: rest =>
    match convertCell c tok with
    | .error e => .error e
    | .ok v => match convertColumn c rest with
      | .error e => .error e
      | .ok vs => .ok (v :: vs)

def convertAll : List Chan → List (List Str) → Except Err (List (Chan × List Value))
  | c :: cs, col :: cols =>
    match convertColumn c col with
    | .error e => .error e
    | .ok vs => match convertAll cs cols with
      | .error e => .error e
      | .ok r => .ok ((c, vs) :: r)
  | _, _ => .ok []

/-- `_parse_file` on the lines of the file. -/
def parseLines (brk : Bool) (lines : List Str) : Except Err (List (Chan × List Value)) :=
  match loop brk {} lines with
  | .error e => .error e
  | .ok st =>
    if st.chans.length = 0 then .error .dat
    else if st.chans.length ≠ st.table.length then .error .assertion
    else convertAll st.chans st.table

/-- `DAT_parser.parse_file(io.StringIO(text))` -/
def parseFile (text : Str) : Except Err (List (Chan × List Value)) := parseLines false (splitLines text)

/-- `DAT_parser.can_parse_file(io.StringIO(text))`: `.ok b` = returns `b`; `.error e` = the non-DAT exception escapes. -/
def canParseFile (text : Str) : Except Err Bool :=
  match parseLines true (splitLines text) with
  | .ok r => .ok (match r with
    | [] => false
    | (_, xs) :: _ => xs.length == 1)
  | .error .dat => .ok false
  | .error e => .error e

end TD.C14
