/-
C14 — DATE and TIME token lemmas: the printed spellings are read back by the model's conversions.
-/
import Mathlib.Tactic.IntervalCases
import TD.C14.LemmasNum
namespace TD.C14
open TD.C14.Spec

/-! ### TIME -/

theorem reH_two (pad : Bool) (h : Nat) (hh : h < 24) (rest : Str) :
    ∃ tl, reH (two pad h ++ 45 :: rest) = (h, 45 :: rest) :: tl := by
  cases pad <;> interval_cases h <;> exact ⟨_, rfl⟩

theorem reM_two (pad : Bool) (m : Nat) (hm : m < 60) (rest : Str) :
    ∃ tl, reM (two pad m ++ 45 :: rest) = (m, 45 :: rest) :: tl := by
  cases pad <;> interval_cases m <;> exact ⟨_, rfl⟩

theorem reS_two (pad : Bool) (s : Nat) (hs : s < 60) :
    (reS (two pad s)).head? = some (s, []) := by
  cases pad <;> interval_cases s <;> rfl

theorem strptime_print (c : CellLay) (t : Time) (hh : t.h < 24) (hm : t.mi < 60) (hs : t.s < 60) :
    strptimeHMS (printTime c t) = some (t.h, t.mi, t.s) := by
  obtain ⟨tl1, h1⟩ := reH_two c.hPad t.h hh (two c.mPad t.mi ++ 45 :: two c.sPad t.s)
  obtain ⟨tl2, h2⟩ := reM_two c.mPad t.mi hm (two c.sPad t.s)
  have h3 := reS_two c.sPad t.s hs
  have hp : printTime c t = two c.hPad t.h ++ 45 :: (two c.mPad t.mi ++ 45 :: two c.sPad t.s) := by
    simp [printTime]
  unfold strptimeHMS
  rw [hp, h1]
  simp only [List.findSome?_cons, h2, h3, Option.map_some]
  simp [hh, hm, hs]

theorem convTime_print (c : CellLay) (t : Time) (hh : t.h < 24) (hm : t.mi < 60) (hs : t.s < 60) :
    convTime (printTime c t) = .ok (.time t.h t.mi t.s) := by
  unfold convTime
  rw [strptime_print c t hh hm hs]

/-! ### DATE -/

theorem scanMonth_monthName (mo : Nat) (h1 : 1 ≤ mo) (h12 : mo ≤ 12) (r : Str) :
    scanMonth (monthName mo ++ r) = some (mo, r) := by
  interval_cases mo <;> rfl

theorem monthName_head (mo : Nat) (h1 : 1 ≤ mo) (h12 : mo ≤ 12) (r : Str) :
    ∃ a t, monthName mo ++ r = a :: t ∧ 65 ≤ a := by
  interval_cases mo <;> exact ⟨_, _, rfl, by decide⟩

theorem monthName_mem (mo : Nat) (h1 : 1 ≤ mo) (h12 : mo ≤ 12) : ∀ c ∈ monthName mo, 65 ≤ c := by
  interval_cases mo <;> decide

theorem isLeap_eq (y : Nat) : isLeap y = leap y := by
  unfold isLeap leap
  by_cases h4 : y % 4 = 0 <;> by_cases h100 : y % 100 = 0 <;> by_cases h400 : y % 400 = 0 <;> simp [h4, h100, h400] <;> omega

theorem dateOk_of_valid (y m d : Nat) (h : validDate y m d) : dateOk y m d = true := by
  obtain ⟨hy1, hy2, hm1, hm12, hd1, hd⟩ := h
  have hdm : daysInMonth y m = monthLen y m := by
    unfold daysInMonth monthLen
    rw [isLeap_eq]
    interval_cases m <;> simp
  simp [dateOk, hdm, hy1, hy2, hm1, hm12, hd1, hd]

/-- `stripPrefix [45]` on the optional dash -/
theorem stripDash (dash : Bool) (r : Str) :
    (if dash then stripPrefix [45] ((if dash then [45] else []) ++ r) else some ((if dash then [45] else []) ++ r)) = some r := by
  cases dash <;> simp [stripPrefix]

theorem scanDate_print (c : CellLay) (d : Date) (hm1 : 1 ≤ d.mo) (hm12 : d.mo ≤ 12) :
    scanDate c.dash (printDate c d) = some (d.d, d.mo, d.y % 100) := by
  have hD1 : isDigits (List.replicate c.dayZeros 0 ++ natDigits d.d) := isDigits_append (isDigits_replicate _) (natDigits_lt _)
  have hY : isDigits (List.replicate c.yrZeros 0 ++ natDigits (d.y % 100)) := isDigits_append (isDigits_replicate _) (natDigits_lt _)
  have hp : printDate c d = chars (List.replicate c.dayZeros 0 ++ natDigits d.d) ++
      ((if c.dash then [45] else []) ++ (monthName d.mo ++ ((if c.dash then [45] else []) ++
        chars (List.replicate c.yrZeros 0 ++ natDigits (d.y % 100))))) := by
    simp [printDate, printNat, chars_append, replicate48]
  have hrest : ∀ a r, ((if c.dash then [45] else []) ++ (monthName d.mo ++ ((if c.dash then [45] else []) ++
        chars (List.replicate c.yrZeros 0 ++ natDigits (d.y % 100))))) = a :: r → isDigit a = false := by
    intro a r heq
    obtain ⟨b, t, hb, hb65⟩ := monthName_head d.mo hm1 hm12 ((if c.dash then [45] else []) ++
        chars (List.replicate c.yrZeros 0 ++ natDigits (d.y % 100)))
    rw [hb] at heq
    cases hdash : c.dash <;> rw [hdash] at heq <;> simp at heq <;> simp [isDigit] <;> omega
  obtain ⟨ht, hdw⟩ := takeWhile_run (p := isDigit) _ _ (chars_isDigit _ hD1) hrest
  have hne1 : chars (List.replicate c.dayZeros 0 ++ natDigits d.d) ≠ [] := by
    rw [Ne, chars_eq_nil]; simp [natDigits_ne_nil]
  have hne2 : chars (List.replicate c.yrZeros 0 ++ natDigits (d.y % 100)) ≠ [] := by
    rw [Ne, chars_eq_nil]; simp [natDigits_ne_nil]
  unfold scanDate
  rw [hp]
  simp only [ht, hdw, if_neg hne1, stripDash, scanMonth_monthName d.mo hm1 hm12, if_neg hne2, chars_all _ hY, if_true,
    chars_digitVal, ofDigits_replicate_zero, ofDigits_natDigits]

theorem contains_dash (c : CellLay) (d : Date) (hm1 : 1 ≤ d.mo) (hm12 : d.mo ≤ 12) :
    (printDate c d).contains 45 = c.dash := by
  have hD1 : isDigits (List.replicate c.dayZeros 0 ++ natDigits d.d) := isDigits_append (isDigits_replicate _) (natDigits_lt _)
  have hY : isDigits (List.replicate c.yrZeros 0 ++ natDigits (d.y % 100)) := isDigits_append (isDigits_replicate _) (natDigits_lt _)
  have hp : printDate c d = chars (List.replicate c.dayZeros 0 ++ natDigits d.d) ++
      ((if c.dash then [45] else []) ++ (monthName d.mo ++ ((if c.dash then [45] else []) ++
        chars (List.replicate c.yrZeros 0 ++ natDigits (d.y % 100))))) := by
    simp [printDate, printNat, chars_append, replicate48]
  rw [hp]
  cases hdash : c.dash
  · apply not_contains
    intro x hx
    simp only [Bool.false_eq_true, if_false, List.nil_append, List.mem_append] at hx
    rcases hx with hx | hx | hx
    · exact chars_ne _ hD1 45 (by omega) x hx
    · have := monthName_mem d.mo hm1 hm12 x hx; omega
    · exact chars_ne _ hY 45 (by omega) x hx
  · simp

theorem convDate_print (c : CellLay) (d : Date) (hv : validDate d.y d.mo d.d) (hlo : 1951 ≤ d.y) (hhi : d.y ≤ 2050) :
    convDate (printDate c d) = .ok (.date d.y d.mo d.d) := by
  have hm1 := hv.2.2.1
  have hm12 := hv.2.2.2.1
  unfold convDate
  rw [contains_dash c d hm1 hm12, scanDate_print c d hm1 hm12]
  simp only []
  have hy : (if d.y % 100 > 50 then d.y % 100 + 1900 else d.y % 100 + 2000) = d.y := by
    split <;> omega
  rw [hy, dateOk_of_valid _ _ _ hv]
  rfl

end TD.C14
