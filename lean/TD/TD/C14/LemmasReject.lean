/-
C14 — rejection: every failure of the model parser is a DAT error; width mismatch, undeclared channel, bad number.
-/
import TD.C14.LemmasFile
namespace TD.C14
open TD.C14.Spec

/-! ### conversions only raise DAT errors -/

theorem convert_err (k : Conv) (tok : Str) (e : Err) (h : convert k tok = .error e) : e = .dat := by
  cases k <;> simp only [convert, convUtim, convDate, convTime] at h <;>
    (repeat' split at h) <;> (cases h; try rfl)

theorem convert_float_val (tok : Str) (v : Value) (h : convert .float tok = .ok v) : ∃ x, v = .float x := by
  simp only [convert] at h
  split at h
  · simp at h; exact ⟨_, h.symm⟩
  · simp at h

/-- conversion keys are dtype keys: a channel that is not converted with `float` holds objects -/
theorem typed_tables (n u : Str) : convKind n u = .float ∨ isObjectDtype n u = true := by
  by_cases h1 : ([85, 84, 73, 77] = n ∧ [115, 101, 99] = u)
  · right; obtain ⟨rfl, rfl⟩ := h1; decide
  by_cases h2 : ([68, 65, 84, 69] = n ∧ [100, 100, 109, 109, 121, 121] = u)
  · right; obtain ⟨rfl, rfl⟩ := h2; decide
  by_cases h3 : ([84, 73, 77, 69] = n ∧ [104, 104, 109, 109, 115, 115] = u)
  · right; obtain ⟨rfl, rfl⟩ := h3; decide
  left
  have e1 : (decide ([85, 84, 73, 77] = n) && decide ([115, 101, 99] = u)) = false := by simpa using h1
  have e2 : (decide ([68, 65, 84, 69] = n) && decide ([100, 100, 109, 109, 121, 121] = u)) = false := by simpa using h2
  have e3 : (decide ([84, 73, 77, 69] = n) && decide ([104, 104, 109, 109, 115, 115] = u)) = false := by simpa using h3
  simp [convKind, TD.Gen.C14.conversionMap, List.find?, e1, e2, e3]

def Chan.typed (c : Chan) : Prop := convKind c.name c.units = .float ∨ c.obj = true

theorem convertCell_err (c : Chan) (hc : c.typed) (tok : Str) (e : Err) (h : convertCell c tok = .error e) : e = .dat := by
  unfold convertCell at h
  split at h
  · next e' he => simp at h; rw [← h]; exact convert_err _ _ _ he
  · next v hv =>
    split at h
    · simp at h
    · rcases hc with hk | ho
      · rw [hk] at hv
        obtain ⟨x, rfl⟩ := convert_float_val _ _ hv
        simp at *
      · simp [ho] at h

theorem convertColumn_err (c : Chan) (hc : c.typed) (col : List Str) (e : Err) (h : convertColumn c col = .error e) :
    e = .dat := by
  induction col generalizing e with
  | nil => simp [convertColumn] at h
  | cons t ts ih =>
    simp only [convertColumn] at h
    split at h
    · next e' he => simp at h; rw [← h]; exact convertCell_err c hc t e' he
    · split at h
      · next e' he => simp at h; rw [← h]; exact ih e' he
      · simp at h

theorem convertAll_err (cs : List Chan) (hc : ∀ c ∈ cs, c.typed) (cols : List (List Str)) (e : Err)
    (h : convertAll cs cols = .error e) : e = .dat := by
  induction cs generalizing cols e with
  | nil => simp [convertAll] at h
  | cons c cs ih =>
    cases cols with
    | nil => simp [convertAll] at h
    | cons col cols =>
      simp only [convertAll] at h
      split at h
      · next e' he => simp at h; rw [← h]; exact convertColumn_err c (hc c (by simp)) col e' he
      · split at h
        · next e' he => simp at h; rw [← h]; exact ih (fun x hx => hc x (by simp [hx])) cols e' he
        · simp at h

/-! ### the loop keeps its invariants -/

def Inv (st : St) : Prop :=
  st.defined.length = st.chans.length ∧ st.chans.length = st.table.length ∧
  (st.inDecl = true → st.chans = []) ∧ ∀ c ∈ st.chans, c.typed

theorem addChannels_res (D : List (Str × Str × Str)) (ns : List Str) (chans : List Chan) (table : List (List Str))
    (ht : ∀ c ∈ chans, c.typed) :
    (∀ e, addChannels D ns chans table = .error e → e = .dat) ∧
    (∀ cs tb, addChannels D ns chans table = .ok (cs, tb) →
      cs.length = chans.length + ns.length ∧ tb.length = table.length + ns.length ∧ ∀ c ∈ cs, c.typed) := by
  induction ns generalizing chans table with
  | nil =>
    refine ⟨by intro e h; simp [addChannels] at h, ?_⟩
    intro cs tb h
    simp only [addChannels, Except.ok.injEq, Prod.mk.injEq] at h
    obtain ⟨rfl, rfl⟩ := h
    exact ⟨by simp, by simp, ht⟩
  | cons n ns ih =>
    simp only [addChannels]
    split
    · exact ⟨by intro e h; simp at h; exact h.symm, by intro cs tb h; simp at h⟩
    · next desc units hl =>
      split
      · exact ⟨by intro e h; simp at h; exact h.symm, by intro cs tb h; simp at h⟩
      · have ht' : ∀ c ∈ chans ++ [⟨n, desc, units, isObjectDtype n units⟩], c.typed := by
          intro c hc
          rcases List.mem_append.mp hc with h | h
          · exact ht c h
          · simp only [List.mem_singleton] at h
            rw [h]; exact typed_tables n units
        obtain ⟨h1, h2⟩ := ih (chans ++ [⟨n, desc, units, isObjectDtype n units⟩]) (table ++ [[]]) ht'
        refine ⟨h1, ?_⟩
        intro cs tb h
        obtain ⟨a, b, c⟩ := h2 cs tb h
        simp only [List.length_append, List.length_cons, List.length_nil] at a b ⊢
        exact ⟨by omega, by omega, c⟩

theorem loop_inv (brk : Bool) (lines : List Str) (st : St) (hi : Inv st) :
    (∀ e, loop brk st lines = .error e → e = .dat) ∧ (∀ st', loop brk st lines = .ok st' → Inv st') := by
  induction lines generalizing st with
  | nil =>
    refine ⟨by intro e h; simp [loop] at h, ?_⟩
    intro st' h
    simp only [loop, Except.ok.injEq] at h
    rw [← h]; exact hi
  | cons raw rest ih =>
    obtain ⟨h1, h2, h3, h4⟩ := hi
    rw [loop]
    rw [if_neg (by simpa using h1)]
    simp only []
    split
    · next hin =>
      have hc0 := h3 hin
      split
      · -- header line
        obtain ⟨ha1, ha2⟩ := addChannels_res st.declared (splitWs (prep raw)) st.chans st.table h4
        split
        · next e he => exact ⟨by intro e' h; simp at h; rw [← h]; exact ha1 e he, by intro st' h; simp at h⟩
        · next chans table hok =>
          obtain ⟨b1, b2, b3⟩ := ha2 chans table hok
          apply ih
          refine ⟨?_, ?_, by simp, b3⟩
          · simp only []; rw [b1, hc0]; simp
          · simp only []; rw [b1, b2, ← h2, hc0]
      · split
        · split
          · exact ⟨by intro e h; simp at h; exact h.symm, by intro st' h; simp at h⟩
          · apply ih
            exact ⟨h1, h2, fun _ => hc0, h4⟩
        · exact ⟨by intro e h; simp at h; exact h.symm, by intro st' h; simp at h⟩
    · next hin =>
      split
      · exact ⟨by intro e h; simp at h; exact h.symm, by intro st' h; simp at h⟩
      · next hlen =>
        have hlen' : (splitWs (prep raw)).length = st.table.length := by simpa using hlen
        have hnew : Inv { st with table := appendRow st.table (splitWs (prep raw)) } :=
          ⟨h1, by simp only []; rw [appendRow_length _ _ hlen']; exact h2, by simp only []; intro h; exact absurd h hin, h4⟩
        split
        · refine ⟨by intro e h; simp at h, ?_⟩
          intro st' h
          simp only [Except.ok.injEq] at h
          rw [← h]; exact hnew
        · exact ih _ hnew

/-- **Every failure of the model parser is a DAT error** (no assertion failure, no TypeError). -/
theorem parseLines_err (brk : Bool) (lines : List Str) (e : Err) (h : parseLines brk lines = .error e) : e = .dat := by
  have hinv : Inv {} := ⟨rfl, rfl, fun _ => rfl, by intro c hc; simp at hc⟩
  obtain ⟨h1, h2⟩ := loop_inv brk lines {} hinv
  unfold parseLines at h
  split at h
  · next e' he => simp at h; rw [← h]; exact h1 e' he
  · next st hst =>
    obtain ⟨_, i2, _, i4⟩ := h2 st hst
    split at h
    · simp at h; exact h.symm
    · split at h
      · next hne => exact absurd i2 hne
      · exact convertAll_err _ i4 _ e h

end TD.C14
