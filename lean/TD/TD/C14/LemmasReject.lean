/-
C14 — rejection: every failure of the model parser is a DAT error; width mismatch, undeclared channel, bad number.
-/
import TD.C14.LemmasFile
namespace TD.C14
open TD.C14.Spec

/-! ### conversions only raise DAT errors -/

theorem convert_err (k : Conv) (tok : Str) (e : Err) (h : convert k tok = .error e) : e = .dat := by
  cases k <;> simp only [convert, convUtim, convDate, convTime] at h <;>
    (repeat' split at h) <;> (cases h; try rfl)

theorem convert_float_val (tok : Str) (v : Value) (h : convert .float tok = .ok v) : ∃ x, v = .float x := by
  simp only [convert] at h
  split at h
  · simp at h; exact ⟨_, h.symm⟩
  · simp at h

/-- conversion keys are dtype keys: a channel that is not converted with `float` holds objects -/
theorem typed_tables (n u : Str) : convKind n u = .float ∨ isObjectDtype n u = true := by
  by_cases h1 : ([85, 84, 73, 77] = n ∧ [115, 101, 99] = u)
  · right; obtain ⟨rfl, rfl⟩ := h1; decide
  by_cases h2 : ([68, 65, 84, 69] = n ∧ [100, 100, 109, 109, 121, 121] = u)
  · right; obtain ⟨rfl, rfl⟩ := h2; decide
  by_cases h3 : ([84, 73, 77, 69] = n ∧ [104, 104, 109, 109, 115, 115] = u)
  · right; obtain ⟨rfl, rfl⟩ := h3; decide
  left
  have e1 : (decide ([85, 84, 73, 77] = n) && decide ([115, 101, 99] = u)) = false := by simpa using h1
  have e2 : (decide ([68, 65, 84, 69] = n) && decide ([100, 100, 109, 109, 121, 121] = u)) = false := by simpa using h2
  have e3 : (decide ([84, 73, 77, 69] = n) && decide ([104, 104, 109, 109, 115, 115] = u)) = false := by simpa using h3
  simp [convKind, TD.Gen.C14.conversionMap, List.find?, e1, e2, e3]

def Chan.typed (c : Chan) : Prop := convKind c.name c.units = .float ∨ c.obj = true

theorem convertCell_err (c : Chan) (hc : c.typed) (tok : Str) (e : Err) (h : convertCell c tok = .error e) : e = .dat := by
  unfold convertCell at h
  split at h
  · next e' he => simp at h; rw [← h]; exact convert_err _ _ _ he
  · next v hv =>
    split at h
    · simp at h
    · rcases hc with hk | ho
      · rw [hk] at hv
        obtain ⟨x, rfl⟩ := convert_float_val _ _ hv
        simp at *
      · simp [ho] at h

theorem convertColumn_err (c : Chan) (hc : c.typed) (col : List Str) (e : Err) (h : convertColumn c col = .error e) :
    e = .dat := by
  induction col generalizing e with
  | nil => simp [convertColumn] at h
  | cons t ts ih =>
    simp only [convertColumn] at h
    split at h
    · next e' he => simp at h; rw [← h]; exact convertCell_err c hc t e' he
    · split at h
      · next e' he => simp at h; rw [← h]; exact ih e' he
      · simp at h

theorem convertAll_err (cs : List Chan) (hc : ∀ c ∈ cs, c.typed) (cols : List (List Str)) (e : Err)
    (h : convertAll cs cols = .error e) : e = .dat := by
  induction cs generalizing cols e with
  | nil => simp [convertAll] at h
  | cons c cs ih =>
    cases cols with
    | nil => simp [convertAll] at h
    | cons col cols =>
      simp only [convertAll] at h
      split at h
      · next e' he => simp at h; rw [← h]; exact convertColumn_err c (hc c (by simp)) col e' he
      · split at h
        · next e' he => simp at h; rw [← h]; exact ih (fun x hx => hc x (by simp [hx])) cols e' he
        · simp at h

/-! ### the loop keeps its invariants -/

def Inv (st : St) : Prop :=
  st.defined.length = st.chans.length ∧ st.chans.length = st.table.length ∧
  (st.inDecl = true → st.chans = []) ∧ ∀ c ∈ st.chans, c.typed

theorem addChannels_res (D : List (Str × Str × Str)) (ns : List Str) (chans : List Chan) (table : List (List Str))
    (ht : ∀ c ∈ chans, c.typed) :
    (∀ e, addChannels D ns chans table = .error e → e = .dat) ∧
    (∀ cs tb, addChannels D ns chans table = .ok (cs, tb) →
      cs.length = chans.length + ns.length ∧ tb.length = table.length + ns.length ∧ ∀ c ∈ cs, c.typed) := by
  induction ns generalizing chans table with
  | nil =>
    refine ⟨by intro e h; simp [addChannels] at h, ?_⟩
    intro cs tb h
    simp only [addChannels, Except.ok.injEq, Prod.mk.injEq] at h
    obtain ⟨rfl, rfl⟩ := h
    exact ⟨by simp, by simp, ht⟩
  | cons n ns ih =>
    simp only [addChannels]
    split
    · exact ⟨by intro e h; simp at h; exact h.symm, by intro cs tb h; simp at h⟩
    · next desc units hl =>
      split
      · exact ⟨by intro e h; simp at h; exact h.symm, by intro cs tb h; simp at h⟩
      · have ht' : ∀ c ∈ chans ++ [⟨n, desc, units, isObjectDtype n units⟩], c.typed := by
          intro c hc
          rcases List.mem_append.mp hc with h | h
          · exact ht c h
          · simp only [List.mem_singleton] at h
            rw [h]; exact typed_tables n units
        obtain ⟨h1, h2⟩ := ih (chans ++ [⟨n, desc, units, isObjectDtype n units⟩]) (table ++ [[]]) ht'
        refine ⟨h1, ?_⟩
        intro cs tb h
        obtain ⟨a, b, c⟩ := h2 cs tb h
        simp only [List.length_append, List.length_cons, List.length_nil] at a b ⊢
        exact ⟨by omega, by omega, c⟩

theorem loop_inv (brk : Bool) (lines : List Str) (st : St) (hi : Inv st) :
    (∀ e, loop brk st lines = .error e → e = .dat) ∧ (∀ st', loop brk st lines = .ok st' → Inv st') := by
  induction lines generalizing st with
  | nil =>
    refine ⟨by intro e h; simp [loop] at h, ?_⟩
    intro st' h
    simp only [loop, Except.ok.injEq] at h
    rw [← h]; exact hi
  | cons raw rest ih =>
    obtain ⟨h1, h2, h3, h4⟩ := hi
    rw [loop]
    rw [if_neg (by simpa using h1)]
    simp only []
    split
    · next hin =>
      have hc0 := h3 hin
      split
      · -- header line
        obtain ⟨ha1, ha2⟩ := addChannels_res st.declared (splitWs (prep raw)) st.chans st.table h4
        split
        · next e he => exact ⟨by intro e' h; simp at h; rw [← h]; exact ha1 e he, by intro st' h; simp at h⟩
        · next chans table hok =>
          obtain ⟨b1, b2, b3⟩ := ha2 chans table hok
          apply ih
          refine ⟨?_, ?_, by simp, b3⟩
          · simp only []; rw [b1, hc0]; simp
          · simp only []; rw [b1, b2, ← h2, hc0]
      · split
        · split
          · exact ⟨by intro e h; simp at h; exact h.symm, by intro st' h; simp at h⟩
          · apply ih
            exact ⟨h1, h2, fun _ => hc0, h4⟩
        · exact ⟨by intro e h; simp at h; exact h.symm, by intro st' h; simp at h⟩
    · next hin =>
      split
      · exact ⟨by intro e h; simp at h; exact h.symm, by intro st' h; simp at h⟩
      · next hlen =>
        have hlen' : (splitWs (prep raw)).length = st.table.length := by simpa using hlen
        have hnew : Inv { st with table := appendRow st.table (splitWs (prep raw)) } :=
          ⟨h1, by simp only []; rw [appendRow_length _ _ hlen']; exact h2, by simp only []; intro h; exact absurd h hin, h4⟩
        split
        · refine ⟨by intro e h; simp at h, ?_⟩
          intro st' h
          simp only [Except.ok.injEq] at h
          rw [← h]; exact hnew
        · exact ih _ hnew

/-- **Every failure of the model parser is a DAT error** (no assertion failure, no TypeError). -/
theorem parseLines_err (brk : Bool) (lines : List Str) (e : Err) (h : parseLines brk lines = .error e) : e = .dat := by
  have hinv : Inv {} := ⟨rfl, rfl, fun _ => rfl, by intro c hc; simp at hc⟩
  obtain ⟨h1, h2⟩ := loop_inv brk lines {} hinv
  unfold parseLines at h
  split at h
  · next e' he => simp at h; rw [← h]; exact h1 e' he
  · next st hst =>
    obtain ⟨_, i2, _, i4⟩ := h2 st hst
    split at h
    · simp at h; exact h.symm
    · split at h
      · next hne => exact absurd i2 hne
      · exact convertAll_err _ i4 _ e h

/-! ### readlines, allowing empty lines -/

theorem splitLines_joinLines' (ls : List Str) (fin : Bool) (h10 : ∀ l ∈ ls, ∀ c ∈ l, c ≠ 10)
    (hlast : fin = true ∨ ∀ l, ls.getLast? = some l → l ≠ []) : splitLines (joinLines ls fin) = ls := by
  unfold splitLines
  induction ls with
  | nil => rfl
  | cons l r ih =>
    have hl := h10 l (by simp)
    cases r with
    | nil =>
      cases fin
      · have hne : l ≠ [] := by
          rcases hlast with h | h
          · simp at h
          · exact h l rfl
        simpa [joinLines] using splitLinesAux_last l [] hl hne
      · simp only [joinLines, if_true]
        rw [splitLinesAux_line l [] [] hl]
        simp [splitLinesAux]
    | cons l2 r' =>
      have hj : joinLines (l :: l2 :: r') fin = l ++ 10 :: joinLines (l2 :: r') fin := rfl
      rw [hj, splitLinesAux_line l _ [] hl, ih (fun x hx => h10 x (by simp [hx])) ?_]
      · simp
      · rcases hlast with h | h
        · exact Or.inl h
        · right; intro x hx; exact h x (by simpa [List.getLast?_cons_cons] using hx)

/-! ### a data line of the wrong width -/

theorem row_width_lines (f : File) (hwf : f.wf) (bad : Str) (tail : List Str)
    (hbad : (splitWs (prep bad)).length ≠ 3 + f.sel.length) :
    parseLines false (f.lines ++ bad :: tail) = .error .dat := by
  have hbad' : (splitWs (prep bad)).length ≠ (columns ([] : Str) (headerTokens f.sel).length
      (f.rows.map (fun r => rowTokens r.1 r.2.2))).length := by
    rw [columns_length]; simp [headerTokens]; omega
  unfold parseLines
  rw [loop_file f hwf, loop]
  simp [stateOf, hbad']

/-! ### a header naming an undeclared channel -/

theorem addChannels_undeclared (D : List (Str × Str × Str)) (ns : List Str) (chans : List Chan) (table : List (List Str))
    (h : ∃ n ∈ ns, lookup D n = none) : addChannels D ns chans table = .error .dat := by
  induction ns generalizing chans table with
  | nil => obtain ⟨n, hn, _⟩ := h; simp at hn
  | cons n0 ns ih =>
    simp only [addChannels]
    split
    · rfl
    · next desc units hl =>
      split
      · rfl
      · apply ih
        obtain ⟨n, hn, hnone⟩ := h
        rcases List.mem_cons.mp hn with rfl | hn'
        · rw [hl] at hnone; simp at hnone
        · exact ⟨n, hn', hnone⟩

theorem undeclared_lines (brk : Bool) (decls : List (Decl × LineLay)) (sel : List Str) (lay : LineLay) (tail : List Str)
    (hd : ∀ d ∈ decls, d.1.wf ∧ d.2.wf) (hnd : (decls.map (fun d => d.1.name)).Nodup)
    (hne : sel ≠ []) (ht : ∀ t ∈ sel, isTok t) (hl : lay.wf)
    (hun : ∃ n ∈ headerTokens sel, n ∉ decls.map (fun d => d.1.name)) :
    parseLines brk (decls.map (fun d => printLine (declTokens d.1) d.2) ++ printLine (headerTokens sel) lay :: tail)
      = .error .dat := by
  have h0 : ({} : St) = ⟨[], true, [], [], []⟩ := rfl
  obtain ⟨n, hn, hnot⟩ := hun
  have hnone : lookup ((decls.map (fun d => entry d.1)).reverse ++ []) n = none := by
    apply lookup_none
    intro e he
    rw [List.append_nil, List.mem_reverse] at he
    obtain ⟨d, hdm, rfl⟩ := List.mem_map.mp he
    intro heq
    exact hnot (List.mem_map.mpr ⟨d, hdm, heq⟩)
  unfold parseLines
  rw [h0, loop_decls brk decls [] _ hd hnd (by intro d _ e he; simp at he),
    loop_header brk _ sel lay _ hne ht hl, addChannels_undeclared _ _ _ _ ⟨n, hn, hnone⟩]

/-! ### a token that is not a number under a float channel -/

theorem convertColumn_ok_cells (c : Chan) (col : List Str) (vs : List Value) (h : convertColumn c col = .ok vs) :
    ∀ tok ∈ col, ∃ v, convertCell c tok = .ok v := by
  induction col generalizing vs with
  | nil => intro tok ht; simp at ht
  | cons t ts ih =>
    simp only [convertColumn] at h
    split at h
    · simp at h
    · next v hv =>
      split at h
      · simp at h
      · next vs' hvs =>
        intro tok ht
        rcases List.mem_cons.mp ht with rfl | ht'
        · exact ⟨v, hv⟩
        · exact ih vs' hvs tok ht'

theorem convertAll_ok_cells (cs : List Chan) (cols : List (List Str)) (res : List (Chan × List Value))
    (h : convertAll cs cols = .ok res) : ∀ p ∈ cs.zip cols, ∀ tok ∈ p.2, ∃ v, convertCell p.1 tok = .ok v := by
  induction cs generalizing cols res with
  | nil => intro p hp; simp at hp
  | cons c cs ih =>
    cases cols with
    | nil => intro p hp; simp at hp
    | cons col cols =>
      simp only [convertAll] at h
      split at h
      · simp at h
      · next vs hvs =>
        split at h
        · simp at h
        · next r hr =>
          intro p hp
          rw [List.zip_cons_cons] at hp
          rcases List.mem_cons.mp hp with rfl | hp'
          · exact convertColumn_ok_cells c col vs hvs
          · exact ih cols r hr p hp'

theorem bad_number_lines (brk : Bool) (lines : List Str) (st : St) (hloop : loop brk {} lines = .ok st)
    (c : Chan) (col : List Str) (tok : Str) (hmem : (c, col) ∈ st.chans.zip st.table)
    (hk : convKind c.name c.units = .float) (htok : tok ∈ col) (hbad : parseFloat tok = none) :
    parseLines brk lines = .error .dat := by
  cases hres : parseLines brk lines with
  | error e => rw [parseLines_err brk lines e hres]
  | ok res =>
    exfalso
    unfold parseLines at hres
    rw [hloop] at hres
    simp only [] at hres
    split at hres
    · simp at hres
    · split at hres
      · simp at hres
      · obtain ⟨v, hv⟩ := convertAll_ok_cells _ _ _ hres (c, col) hmem tok htok
        simp [convertCell, hk, convert, hbad] at hv

end TD.C14
