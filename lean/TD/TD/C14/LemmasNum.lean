/-
C14 — number lemmas: printed integers / decimal literals are read back exactly by the model's `int()` / `float()`.
-/
import TD.C14.Model
import TD.C14.Spec
import TD.C14.LemmasCal
namespace TD.C14
open TD.C14.Spec

/-! ### generic list helpers -/

theorem takeWhile_run {p : Nat → Bool} (run rest : Str) (h1 : ∀ a ∈ run, p a = true)
    (h2 : ∀ a r, rest = a :: r → p a = false) :
    (run ++ rest).takeWhile p = run ∧ (run ++ rest).dropWhile p = rest := by
  rw [List.takeWhile_append_of_pos h1, List.dropWhile_append_of_pos h1]
  cases rest with
  | nil => simp
  | cons a r =>
    have := h2 a r rfl
    simp [this]

theorem not_contains (l : Str) (x : Nat) (h : ∀ c ∈ l, c ≠ x) : l.contains x = false := by
  induction l with
  | nil => rfl
  | cons a r ih =>
    have h1 : a ≠ x := h a (by simp)
    have h2 := ih (fun c hc => h c (by simp [hc]))
    rw [List.contains_cons, h2]
    simp
    exact fun h => h1 h.symm

/-! ### digits -/

theorem ofDigits_snoc (l : List Nat) (d : Nat) : ofDigits (l ++ [d]) = 10 * ofDigits l + d := by
  simp [ofDigits, List.foldl_append]

theorem ofDigits_natDigits (n : Nat) : ofDigits (natDigits n) = n := by
  induction n using Nat.strongRecOn with
  | _ n ih =>
    unfold natDigits
    split
    · simp [ofDigits]
    · rw [ofDigits_snoc, ih (n / 10) (by omega)]; omega

theorem natDigits_lt (n : Nat) : ∀ d ∈ natDigits n, d < 10 := by
  induction n using Nat.strongRecOn with
  | _ n ih =>
    unfold natDigits
    split
    · simp; omega
    · intro d hd
      rw [List.mem_append] at hd
      rcases hd with hd | hd
      · exact ih (n / 10) (by omega) d hd
      · simp at hd; omega

theorem natDigits_ne_nil (n : Nat) : natDigits n ≠ [] := by
  unfold natDigits
  split <;> simp

theorem natDigits_length (k n : Nat) (h : n < 10 ^ (k + 1)) : (natDigits n).length ≤ k + 1 := by
  induction k generalizing n with
  | zero =>
    unfold natDigits
    have : n < 10 := by simpa using h
    simp [this]
  | succ k ih =>
    unfold natDigits
    split
    · simp
    · have : n / 10 < 10 ^ (k + 1) := by
        rw [Nat.div_lt_iff_lt_mul (by decide)]
        rw [Nat.pow_succ] at h; exact h
      have := ih (n / 10) this
      simp; omega

theorem ofDigits_replicate_zero (z : Nat) (l : List Nat) : ofDigits (List.replicate z 0 ++ l) = ofDigits l := by
  induction z with
  | zero => simp
  | succ z ih =>
    rw [List.replicate_succ, List.cons_append]
    unfold ofDigits at ih ⊢
    simpa using ih

theorem chars_isDigit (ds : List Nat) (h : isDigits ds) : ∀ c ∈ chars ds, isDigit c = true := by
  intro c hc
  simp [chars] at hc
  obtain ⟨d, hd, rfl⟩ := hc
  have := h d hd
  simp [isDigit]; omega

theorem chars_digitVal (ds : List Nat) : (chars ds).map digitVal = ds := by
  simp [chars, digitVal, Function.comp_def]

theorem chars_append (a b : List Nat) : chars (a ++ b) = chars a ++ chars b := by simp [chars]

theorem chars_ne (ds : List Nat) (h : isDigits ds) (x : Nat) (hx : x < 48 ∨ 57 < x) : ∀ c ∈ chars ds, c ≠ x := by
  intro c hc
  have := chars_isDigit ds h c hc
  simp [isDigit] at this; omega

theorem chars_all (ds : List Nat) (h : isDigits ds) : (chars ds).all isDigit = true := by
  rw [List.all_eq_true]; exact chars_isDigit ds h

theorem chars_eq_nil (ds : List Nat) : chars ds = [] ↔ ds = [] := by simp [chars]

theorem replicate48 (z : Nat) : List.replicate z 48 = chars (List.replicate z 0) := by simp [chars]

theorem isDigits_replicate (z : Nat) : isDigits (List.replicate z 0) := by
  intro d hd; simp [List.mem_replicate] at hd; omega

theorem isDigits_append {a b : List Nat} (ha : isDigits a) (hb : isDigits b) : isDigits (a ++ b) := by
  intro d hd; rw [List.mem_append] at hd; rcases hd with h | h; exact ha d h; exact hb d h

/-! ### int() -/

theorem intScan_chars (ds : List Nat) (h : isDigits ds) (prev : Nat) (acc : List Nat)
    (hne : ds ≠ [] ∨ prev = 1) : intScan (chars ds) prev acc = some (acc.reverse ++ ds) := by
  induction ds generalizing prev acc with
  | nil =>
    have : prev = 1 := by simpa using hne
    simp [chars, intScan, this]
  | cons d r ih =>
    have hd : d < 10 := h d (by simp)
    have hr : isDigits r := fun x hx => h x (by simp [hx])
    have h1 : isDigit (d + 48) = true := by simp [isDigit]; omega
    have := ih hr 1 (digitVal (d + 48) :: acc) (Or.inr rfl)
    simp only [chars, List.map_cons] at this ⊢
    rw [intScan, if_pos h1, this]
    simp [digitVal]

theorem splitSign_digit (l : Str) (h : ∀ a r, l = a :: r → a ≠ 45 ∧ a ≠ 43) : splitSign l = (false, l) := by
  unfold splitSign
  split
  · exact absurd rfl (h _ _ rfl).1
  · exact absurd rfl (h _ _ rfl).2
  · rfl

theorem chars_head (ds : List Nat) (h : isDigits ds) : ∀ a r, chars ds = a :: r → 48 ≤ a ∧ a ≤ 57 := by
  intro a r heq
  have := chars_isDigit ds h a (by rw [heq]; simp)
  simp [isDigit] at this; omega

theorem printNat_isDigits (n : Nat) : isDigits (natDigits n) := natDigits_lt n

theorem parseInt_chars (ds : List Nat) (hd : isDigits ds) (hne : ds ≠ []) (hlen : ds.length ≤ 4300) :
    parseInt (chars ds) = some ((ofDigits ds : Nat) : Int) := by
  have hs : splitSign (chars ds) = (false, chars ds) := by
    apply splitSign_digit
    intro a r heq
    have := chars_head _ hd a r heq
    omega
  have hscan := intScan_chars ds hd 0 [] (Or.inl hne)
  simp only [List.reverse_nil, List.nil_append] at hscan
  unfold parseInt
  rw [hs]
  simp only [hscan]
  rw [if_neg (by omega)]
  simp

theorem parseInt_neg_chars (ds : List Nat) (hd : isDigits ds) (hne : ds ≠ []) (hlen : ds.length ≤ 4300) :
    parseInt (45 :: chars ds) = some (-((ofDigits ds : Nat) : Int)) := by
  have hs : splitSign (45 :: chars ds) = (true, chars ds) := rfl
  have hscan := intScan_chars ds hd 0 [] (Or.inl hne)
  simp only [List.reverse_nil, List.nil_append] at hscan
  unfold parseInt
  rw [hs]
  simp only [hscan]
  rw [if_neg (by omega)]
  simp

theorem parseInt_printInt (n : Int) (h : n.natAbs < 10 ^ 12) : parseInt (printInt n) = some n := by
  have hd := printNat_isDigits n.natAbs
  have hlen : (natDigits n.natAbs).length ≤ 4300 := by
    have := natDigits_length 11 _ h
    omega
  unfold printInt printNat
  by_cases hn : n < 0
  · rw [if_pos hn, parseInt_neg_chars _ hd (natDigits_ne_nil _) hlen, ofDigits_natDigits]
    congr 1; omega
  · rw [if_neg hn, parseInt_chars _ hd (natDigits_ne_nil _) hlen, ofDigits_natDigits]
    congr 1; omega

/-! ### UTIM -/

set_option maxRecDepth 8000 in
theorem convUtim_print (t : DateTime) (hv : validDate t.y t.mo t.d) (hh : t.h < 24) (hm : t.mi < 60) (hs : t.s < 60) :
    convUtim (printInt (toUnix t)) = .ok (.datetime t.y t.mo t.d t.h t.mi t.s) := by
  have hciv := civil_ordinal t.y t.mo t.d hv
  obtain ⟨ho1, ho2⟩ := ordinal_bounds t.y t.mo t.d hv
  unfold toUnix at *
  generalize ordinal t.y t.mo t.d = o at *
  have habs : (((o : Nat) - 719163 : Int) * 86400 + ((t.h * 3600 + t.mi * 60 + t.s : Nat) : Int)).natAbs < 10 ^ 12 := by omega
  unfold convUtim
  rw [parseInt_printInt _ habs]
  simp only []
  rw [if_neg (by omega)]
  have ht : (((o : Nat) - 719163 : Int) * 86400 + ((t.h * 3600 + t.mi * 60 + t.s : Nat) : Int) + 62135596800).toNat
      = (o - 1) * 86400 + (t.h * 3600 + t.mi * 60 + t.s) := by omega
  rw [ht]
  have h1 : ((o - 1) * 86400 + (t.h * 3600 + t.mi * 60 + t.s)) / 86400 + 1 = o := by omega
  have h2 : ((o - 1) * 86400 + (t.h * 3600 + t.mi * 60 + t.s)) % 86400 = t.h * 3600 + t.mi * 60 + t.s := by omega
  rw [h1, h2, hciv]
  have h3 : (t.h * 3600 + t.mi * 60 + t.s) / 3600 = t.h := by omega
  have h4 : (t.h * 3600 + t.mi * 60 + t.s) % 3600 / 60 = t.mi := by omega
  have h5 : (t.h * 3600 + t.mi * 60 + t.s) % 60 = t.s := by omega
  simp only [h3, h4, h5]

/-! ### float() -/

theorem splitSign_signStr (sg : Option Bool) (b : Str) (hb : ∀ a r, b = a :: r → a ≠ 45 ∧ a ≠ 43) :
    splitSign (signStr sg ++ b) = (decide (sg = some true), b) := by
  cases sg with
  | none => simpa [signStr] using splitSign_digit b hb
  | some v => cases v <;> simp [signStr, splitSign]

def expPart (e : Option (Bool × Option Bool × List Nat)) : Str :=
  match e with
  | none => []
  | some (cap, sg, ds) => (if cap then 69 else 101) :: (signStr sg ++ chars ds)

def expVal (e : Option (Bool × Option Bool × List Nat)) : Int :=
  match e with
  | none => 0
  | some (_, sg, ds) => if sg = some true then -((ofDigits ds : Nat) : Int) else ((ofDigits ds : Nat) : Int)

theorem parseExp_expPart (e : Option (Bool × Option Bool × List Nat))
    (h : ∀ v, e = some v → v.2.2 ≠ [] ∧ isDigits v.2.2) : parseExp (expPart e) = some (expVal e) := by
  cases e with
  | none => rfl
  | some v =>
    obtain ⟨cap, sg, ds⟩ := v
    obtain ⟨hne, hd⟩ := h _ rfl
    simp only at hne hd
    have hs : splitSign (signStr sg ++ chars ds) = (decide (sg = some true), chars ds) := by
      apply splitSign_signStr
      intro a r heq
      have := chars_head ds hd a r heq
      omega
    have hc : (if cap then 69 else 101) = 101 ∨ (if cap then 69 else 101) = 69 := by cases cap <;> simp
    simp only [expPart, parseExp, expVal]
    rw [if_pos hc, hs]
    simp only []
    rw [if_neg (by rw [chars_eq_nil]; exact hne), if_pos (chars_all ds hd), chars_digitVal]
    by_cases hsg : sg = some true <;> simp [hsg]

theorem expPart_head (e : Option (Bool × Option Bool × List Nat)) : ∀ a r, expPart e = a :: r → a = 69 ∨ a = 101 := by
  intro a r h
  cases e with
  | none => simp [expPart] at h
  | some v =>
    obtain ⟨cap, sg, ds⟩ := v
    simp only [expPart, List.cons.injEq] at h
    cases cap <;> simp at h <;> omega

def fracPart (f : Option (List Nat)) : Str :=
  match f with
  | none => []
  | some fp => 46 :: chars fp

theorem printNum_eq (x : Num) : printNum x = signStr x.sign ++ (chars x.ip ++ (fracPart x.frac ++ expPart x.exp)) := by
  unfold printNum fracPart expPart
  cases x.frac <;> cases x.exp <;> simp

theorem parseDecBody_nodot (neg : Bool) (ip : List Nat) (e : Option (Bool × Option Bool × List Nat))
    (hip : isDigits ip) (hne : ip ≠ []) (hexp : ∀ v, e = some v → v.2.2 ≠ [] ∧ isDigits v.2.2) :
    parseDecBody neg (chars ip ++ expPart e) = some (.fin neg (ofDigits ip) (expVal e - 0)) := by
  have hrest : ∀ a r, expPart e = a :: r → isDigit a = false := by
    intro a r heq
    have := expPart_head _ a r heq
    simp [isDigit]; omega
  obtain ⟨ht, hdw⟩ := takeWhile_run (p := isDigit) (chars ip) _ (chars_isDigit _ hip) hrest
  have hm : ∀ t, expPart e ≠ 46 :: t := by
    intro t heq
    have := expPart_head _ _ _ heq
    omega
  have h1 : fracOf (expPart e) = [] := by
    unfold fracOf
    split
    · exact absurd ‹_› (hm _)
    · rfl
  have h2 : afterFrac (expPart e) = expPart e := by
    unfold afterFrac
    split
    · exact absurd ‹_› (hm _)
    · rfl
  have h3 : ¬ (chars ip = [] ∧ True) := by
    rw [chars_eq_nil]; simp; exact hne
  unfold parseDecBody
  simp only [ht, hdw, h1, h2, parseExp_expPart _ hexp, List.append_nil, chars_digitVal, List.length_nil]
  rw [if_neg h3]
  rfl

theorem parseDecBody_dot (neg : Bool) (ip fp : List Nat) (e : Option (Bool × Option Bool × List Nat))
    (hip : isDigits ip) (hfp : isDigits fp) (hne : ip ≠ [] ∨ fp ≠ [])
    (hexp : ∀ v, e = some v → v.2.2 ≠ [] ∧ isDigits v.2.2) :
    parseDecBody neg (chars ip ++ 46 :: (chars fp ++ expPart e)) =
      some (.fin neg (ofDigits (ip ++ fp)) (expVal e - (fp.length : Int))) := by
  have hrest : ∀ a r, 46 :: (chars fp ++ expPart e) = a :: r → isDigit a = false := by
    intro a r heq
    simp only [List.cons.injEq] at heq
    simp [isDigit]; omega
  obtain ⟨ht, hdw⟩ := takeWhile_run (p := isDigit) (chars ip) _ (chars_isDigit _ hip) hrest
  have hrest2 : ∀ a r, expPart e = a :: r → isDigit a = false := by
    intro a r heq
    have := expPart_head _ a r heq
    simp [isDigit]; omega
  obtain ⟨ht2, hdw2⟩ := takeWhile_run (p := isDigit) (chars fp) _ (chars_isDigit _ hfp) hrest2
  have h3 : ¬ (chars ip = [] ∧ chars fp = []) := by
    rw [chars_eq_nil, chars_eq_nil]; intro h; rcases hne with h1 | h1; exact h1 h.1; exact h1 h.2
  have hlen : (chars fp).length = fp.length := by simp [chars]
  unfold parseDecBody
  simp only [ht, hdw, fracOf, afterFrac, ht2, hdw2, parseExp_expPart _ hexp, if_neg h3, ← chars_append, chars_digitVal, hlen]

theorem parseDecBody_print (neg : Bool) (x : Num) (h : x.wf) :
    parseDecBody neg (chars x.ip ++ (fracPart x.frac ++ expPart x.exp)) =
      some (.fin neg (ofDigits (x.ip ++ x.frac.getD [])) (expVal x.exp - ((x.frac.getD []).length : Int))) := by
  obtain ⟨hip, hfp, hne, hexp⟩ := h
  cases hf : x.frac with
  | none =>
    rw [hf] at hne
    have hne' : x.ip ≠ [] := by simpa using hne
    simpa [fracPart] using parseDecBody_nodot neg x.ip x.exp hip hne' hexp
  | some fp =>
    rw [hf] at hne hfp
    simpa [fracPart] using parseDecBody_dot neg x.ip fp x.exp hip hfp hne hexp

theorem body_head (x : Num) (h : x.wf) : ∀ a r, chars x.ip ++ (fracPart x.frac ++ expPart x.exp) = a :: r →
    a = 46 ∨ (48 ≤ a ∧ a ≤ 57) := by
  obtain ⟨hip, hfp, hne, _⟩ := h
  intro a r heq
  cases hi : x.ip with
  | cons d t =>
    rw [hi] at heq hip
    have hd : d < 10 := hip d (by simp)
    simp [chars] at heq
    omega
  | nil =>
    rw [hi] at heq hne
    cases hf : x.frac with
    | none => rw [hf] at hne; simp at hne
    | some fp =>
      rw [hf] at heq
      simp [chars, fracPart] at heq
      omega

theorem parseFloat_printNum (x : Num) (h : x.wf) : parseFloat (printNum x) = some x.value := by
  have hh := body_head x h
  obtain ⟨hip, hfp, hne, hexp⟩ := h
  have hval : x.value = .fin (decide (x.sign = some true)) (ofDigits (x.ip ++ x.frac.getD []))
      (expVal x.exp - ((x.frac.getD []).length : Int)) := by
    unfold Num.value expVal
    cases x.exp <;> rfl
  rw [hval, printNum_eq]
  have hnc : (signStr x.sign ++ (chars x.ip ++ (fracPart x.frac ++ expPart x.exp))).contains 95 = false := by
    apply not_contains
    intro c hc
    simp only [List.mem_append] at hc
    rcases hc with hc | hc | hc | hc
    · cases hs : x.sign with
      | none => rw [hs] at hc; simp [signStr] at hc
      | some v => rw [hs] at hc; cases v <;> simp [signStr] at hc <;> omega
    · exact chars_ne _ hip 95 (by omega) c hc
    · cases hf : x.frac with
      | none => rw [hf] at hc; simp [fracPart] at hc
      | some fp =>
        rw [hf] at hc hfp
        simp only [fracPart, List.mem_cons] at hc
        rcases hc with hc | hc
        · omega
        · exact chars_ne _ hfp 95 (by omega) c hc
    · cases he : x.exp with
      | none => rw [he] at hc; simp [expPart] at hc
      | some v =>
        obtain ⟨cap, sg, ds⟩ := v
        rw [he] at hc
        obtain ⟨_, hds⟩ := hexp _ he
        simp only [expPart, List.mem_cons, List.mem_append] at hc
        rcases hc with hc | hc | hc
        · cases cap <;> simp at hc <;> omega
        · cases sg with
          | none => simp [signStr] at hc
          | some v => cases v <;> simp [signStr] at hc <;> omega
        · exact chars_ne _ hds 95 (by omega) c hc
  have hs : splitSign (signStr x.sign ++ (chars x.ip ++ (fracPart x.frac ++ expPart x.exp))) =
      (decide (x.sign = some true), chars x.ip ++ (fracPart x.frac ++ expPart x.exp)) := by
    apply splitSign_signStr
    intro a r heq
    have := hh a r heq
    omega
  unfold parseFloat
  rw [hnc]
  simp only [Bool.false_eq_true, if_false, hs]
  -- not one of the special words: the body starts with a digit or '.'
  generalize hb : chars x.ip ++ (fracPart x.frac ++ expPart x.exp) = body at *
  have hlow : ¬ (body.map lower = sInf ∨ body.map lower = sInfinity) ∧ ¬ (body.map lower = sNan) := by
    cases body with
    | nil => simp [sInf, sInfinity, sNan]
    | cons a r =>
      have ha := hh a r rfl
      have hl : lower a = a := by unfold lower; rw [if_neg (by omega)]
      simp only [List.map_cons, hl, sInf, sInfinity, sNan, List.cons.injEq]
      omega
  rw [if_neg hlow.1, if_neg hlow.2, ← hb]
  exact parseDecBody_print _ x ⟨hip, hfp, hne, hexp⟩

end TD.C14
