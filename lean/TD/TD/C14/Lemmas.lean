/-
C14 — helper lemmas, split over several files to keep each build short:

  LemmasCal     calendar: `civilOfOrdinal (ordinal y m d) = (y, m, d)`
  LemmasNum     digits, `int()`, `float()`, UTIM round trip
  LemmasDT      DATE and TIME tokens
  LemmasText    strip / translate / split, the two line scanners on printed lines
  LemmasLoop    the line loop: declaration phase, header, data rows, transposition
  LemmasFile    a printed file parses to `expected`
  LemmasReject  every failure is a DAT error; width mismatch, undeclared channel, bad number
-/
import TD.C14.LemmasReject
