/-
C19 — model of the curve-scale mathematics of TotalDepth/util/plot (core Lean only, exact rationals).

Transcribed, branch for branch, from
  * `PRESCfg.py`  `LineTransBase.__init__/offScale/isOffScaleLeft/isOffScaleRight`,
                  `LineTransLin.__init__/L2P/wrapPos`, `LineTransLog10.__init__/L2P/wrapPos`
  * `Plot.py`     `Plot._retInterpolateWrapPoints`, `Plot._filterCrossLineList`

Python `float` is modelled by the exact rational `Rat` (the rounding of the real code is handled by the error-bounded
comparison of the harness, see harness/props/c19.py).  `math.log10` is NOT modelled: it enters as an abstract
function `lg : Rat → Rat` (the executable driver is handed the two logarithm values the Python code computed).
-/
namespace TD.C19

inductive Err
  | ctor          -- ExceptionLineTransBase: leftP >= rightP
  | zeroDiv       -- ZeroDivisionError
  | mathDomain    -- ValueError: math domain error (log10 of a non-positive number)
  | logMath       -- ExceptionLineTransBaseMath: value <= 0 on a log scale
  | assertion     -- AssertionError
  | index         -- IndexError
  deriving Repr, DecidableEq

/-- `BACKUP_*` tuples: `(left, right)`. -/
abbrev Backup := Int × Int

def BACKUP_NONE : Backup := (1, -1)
def BACKUP_ALL : Backup := (0, 0)
def BACKUP_ONCE : Backup := (-1, 1)
def BACKUP_TWICE : Backup := (-2, 2)
def BACKUP_LEFT : Backup := (0, -1)
def BACKUP_RIGHT : Backup := (1, 0)

/-- `LineTransBase.offScale(w)`:
```
if w < 0 and self._bu[0] and w < self._bu[0]: return -1
if w > 0 and self._bu[1] and w > self._bu[1]: return 1
return 0
``` -/
def offScale (bu : Backup) (w : Int) : Int :=
  if w < 0 ∧ bu.1 ≠ 0 ∧ w < bu.1 then -1
  else if w > 0 ∧ bu.2 ≠ 0 ∧ w > bu.2 then 1
  else 0

def isOffScaleLeft (bu : Backup) (w : Int) : Bool := offScale bu w == -1
def isOffScaleRight (bu : Backup) (w : Int) : Bool := offScale bu w == 1

/-- The two lines shared by both `wrapPos` methods:
```
w = math.floor(p)
f = self._lP + (p - w) * self._pWidth
return w, f
``` -/
def wrapCore (lP pWidth p : Rat) : Int × Rat :=
  let w := p.floor
  (w, lP + (p - (w : Rat)) * pWidth)

/-- State of a `LineTransLin` / `LineTransLog10` object after its constructor. -/
structure LineTrans where
  lP : Rat
  rP : Rat
  lL : Rat
  rL : Rat
  bu : Backup
  den : Rat
  pWidth : Rat
  scale : Rat
  offset : Rat
  deriving Repr, DecidableEq

/-- `LineTransLin.__init__` (incl. the base class check `leftP >= rightP`). -/
def mkLin (lP rP lL rL : Rat) (bu : Backup := BACKUP_ALL) : Except Err LineTrans :=
  if lP ≥ rP then .error .ctor else
  let den := rL - lL
  let pWidth := rP - lP
  if den = 0 then .error .zeroDiv else
  let scale := pWidth / den
  let offset := lP - scale * lL
  .ok { lP, rP, lL, rL, bu, den, pWidth, scale, offset }

/-- `LineTransLin.L2P`. -/
def l2pLin (t : LineTrans) (v : Rat) : Rat := t.offset + t.scale * v

/-- `LineTransLin.wrapPos`.
```
p = (val - self._lL) / self._den
if not math.isfinite(p): raise ExceptionLineTransBaseMath(...)
```
The `isfinite` guard is a pure floating-point branch: over exact rationals `p` is always finite, so the branch is
unreachable in the model (the harness counts the float cases that take it as `fp_overflow_not_in_model`). -/
def wrapPosLin (t : LineTrans) (v : Rat) : Int × Rat :=
  let p := (v - t.lL) / t.den
  wrapCore t.lP t.pWidth p

/-- `LineTransLog10.__init__`; `lg` stands for `math.log10`. -/
def mkLog (lg : Rat → Rat) (lP rP lL rL : Rat) (bu : Backup := BACKUP_ALL) : Except Err LineTrans :=
  if lP ≥ rP then .error .ctor else
  if lL = 0 then .error .zeroDiv else
  if rL / lL ≤ 0 then .error .mathDomain else
  let den := lg (rL / lL)
  let pWidth := rP - lP
  if den = 0 then .error .zeroDiv else
  let scale := pWidth / den
  if lL ≤ 0 then .error .mathDomain else
  let offset := lP - scale * lg lL
  .ok { lP, rP, lL, rL, bu, den, pWidth, scale, offset }

/-- `LineTransLog10.L2P` (`math.log10` raises for a non-positive argument). -/
def l2pLog (lg : Rat → Rat) (t : LineTrans) (v : Rat) : Except Err Rat :=
  if v ≤ 0 then .error .mathDomain else .ok (t.offset + t.scale * lg v)

/-- `LineTransLog10.wrapPos`.  As for the linear scale, the `try: p = log10(val / lL) / den  except (ValueError,
OverflowError): p = inf` / `if not math.isfinite(p): raise ExceptionLineTransBaseMath` guard only fires when a float
intermediate over/underflows; with exact rationals and `v > 0`, `lL > 0` it is unreachable. -/
def wrapPosLog (lg : Rat → Rat) (t : LineTrans) (v : Rat) : Except Err (Int × Rat) :=
  if v ≤ 0 then .error .logMath else
  let p := lg (v / t.lL) / t.den
  .ok (wrapCore t.lP t.pWidth p)

/-! ## `Plot._retInterpolateWrapPoints` -/

/-- which track edge an interpolated point lies on (`theTwd.leftP` / `theTwd.rightP`) -/
inductive Edge
  | left | right
  deriving Repr, DecidableEq

structure Pt where
  x : Rat
  e : Edge
  deriving Repr, DecidableEq

/-- The `while abs(wrapDiff) > wrapIncrement:` loop.  Returns `(wrapDiff, x, crossLines)`. -/
def crossLoop (fuel : Nat) (inc : Int) (xInc : Rat) (d : Int) (x : Rat) (acc : List Pt) : Int × Rat × List Pt :=
  match fuel with
  | 0 => (d, x, acc)
  | fuel + 1 =>
    if (d.natAbs : Int) > inc then
      if d > 0 then
        crossLoop fuel inc xInc (d - inc) (x + 2 * xInc) (acc ++ [⟨x, .left⟩, ⟨x + 2 * xInc, .right⟩])
      else
        crossLoop fuel inc xInc (d + inc) (x + 2 * xInc) (acc ++ [⟨x, .right⟩, ⟨x + 2 * xInc, .left⟩])
    else (d, x, acc)

/-- `wrapIncrement`: `abs(wrapDiff) // 4 * MAX` when `abs(wrapDiff) > 2 * MAX`, else 1
(`//` and `*` associate to the left). -/
def wrapIncrement (M : Nat) (d : Int) : Int :=
  if (d.natAbs : Int) > 2 * M then ((d.natAbs / 4 * M : Nat) : Int) else 1

structure Interp where
  polyEnd : Option Pt
  /-- crossing lines BEFORE `_filterCrossLineList` -/
  cross : List Pt
  /-- `[(x, edge), (xNow, pNow)]` or `[]`; only the first point is kept, the second is `(xNow, pNow)` verbatim -/
  polyNew : Option Pt
  deriving Repr, DecidableEq

/-- `_retInterpolateWrapPoints` up to (not including) the final `_filterCrossLineList`.
`M` is `MAX_BACKUP_TRACK_CROSSING_LINES`. -/
def interpolate (M : Nat) (bu : Backup) (xPrev xNow : Rat) (wrapPrev wrapNow : Int) : Except Err Interp :=
  if wrapPrev = wrapNow then .error .assertion else
  if (isOffScaleLeft bu wrapPrev && isOffScaleLeft bu wrapNow)
      || (isOffScaleRight bu wrapPrev && isOffScaleRight bu wrapNow) then
    .ok { polyEnd := none, cross := [], polyNew := none }
  else
    let wrapDiff := wrapNow - wrapPrev
    let xInc := (xNow - xPrev) / ((2 * wrapDiff.natAbs : Nat) : Rat)
    let x := xPrev + xInc
    let polyEnd : Option Pt :=
      if offScale bu wrapPrev = 0 then
        (if wrapDiff > 0 then some ⟨x, .right⟩ else some ⟨x, .left⟩)
      else none
    let inc := wrapIncrement M wrapDiff
    let (d', x', cross) := crossLoop wrapDiff.natAbs inc xInc wrapDiff x []
    let polyNew : Option Pt :=
      if offScale bu wrapNow = 0 then
        (if d' > 0 then some ⟨x', .left⟩ else some ⟨x', .right⟩)
      else none
    .ok { polyEnd, cross, polyNew }

/-! ## `Plot._filterCrossLineList` -/

/-- Python `int(x)` on a float: truncation towards zero. -/
def pyInt (q : Rat) : Int := if 0 ≤ q then q.floor else -((-q).floor)

/-- ```
while i < (len(cLineS) / 2) - int(s + 0.5):
    r.append(cLineS[2*i]); r.append(cLineS[2*i+1])
    f += s
    i = int(f+0.5)
```
on pair indices; returns the indices appended in the loop and the final `i`. -/
def filterLoop (fuel : Nat) (s thr : Rat) (i : Int) (f : Rat) (acc : List Int) : List Int × Int :=
  match fuel with
  | 0 => (acc, i)
  | fuel + 1 =>
    if (i : Rat) < thr then
      let f' := f + s
      filterLoop fuel s thr (pyInt (f' + 1/2)) f' (acc ++ [i])
    else (acc, i)

/-- The pair indices `_filterCrossLineList` selects from a list of `n` pairs when `n > M`. -/
def filterIdx (M n : Nat) : List Int :=
  let s : Rat := (n : Rat) / (M : Rat)
  let thr : Rat := (n : Rat) - ((pyInt (s + 1/2) : Int) : Rat)
  let r := filterLoop (n + 1) s thr 0 0 []
  r.1 ++ [r.2]

def getPair {α} (l : List α) (i : Int) : Except Err (List α) :=
  if i < 0 then .error .index   -- (never happens: indices are non-negative; Python would wrap around)
  else match l[2 * i.toNat]?, l[2 * i.toNat + 1]? with
    | some a, some b => .ok [a, b]
    | _, _ => .error .index

/-- `_filterCrossLineList(cLineS)`. -/
def filterCross {α} (M : Nat) (l : List α) : Except Err (List α) :=
  if l.length % 2 ≠ 0 then .error .assertion else
  if l.length / 2 ≤ M then .ok l else
  (filterIdx M (l.length / 2)).foldlM (fun acc i => do let p ← getPair l i; pure (acc ++ p)) []

/-- `_retInterpolateWrapPoints` complete: `(polyEnd, filtered crossLines, polyNew)`. -/
def retInterpolateWrapPoints (M : Nat) (bu : Backup) (xPrev xNow : Rat) (wrapPrev wrapNow : Int) :
    Except Err Interp := do
  let r ← interpolate M bu xPrev xNow wrapPrev wrapNow
  let c ← filterCross M r.cross
  pure { r with cross := c }

/-! ## Which films of a log pass are plotted
`PlotLogs.PlotLogPasses._plotUsingLISLogicalRecords` / `_plotLISUsingLgFormats` / `_plotLASUsingLgFormats` and
`Plot.hasDataToPlotLIS`.  Film ids and channel mnemonics are abstract numbers. -/

/-- one PRES row as far as the selection is concerned: destination film and OUTP channel -/
structure PresRow where
  dest : Nat
  outp : Nat
  deriving Repr, DecidableEq

/-- `PresCfg.outpChIDs(dest)`: the OUTP channels of the curves sent to that film -/
def outpChIDs (pres : List PresRow) (film : Nat) : List Nat :=
  (pres.filter (fun r => r.dest == film)).map (fun r => r.outp)

/-- `Plot.hasDataToPlotLIS(theLogPass, theFilmId)`:
```
if theLogPass.totalFrames == 0: return False
if not self._presCfg.hasCurvesForDest(theFilmId): return False
for anO in self._retOutputChIDs(theFilmId):
    if theLogPass.hasOutpMnem(anO): return True
return False
``` -/
def hasDataToPlot (totalFrames : Nat) (pres : List PresRow) (chans : List Nat) (film : Nat) : Bool :=
  if totalFrames = 0 then false
  else if !(pres.any (fun r => r.dest == film)) then false
  else (outpChIDs pres film).any (fun o => chans.contains o)

/-- the per-film loop: `for aFilmId in myPlot.filmIdS(): if hasData(aFilmId): plot … else: log` (no early exit) -/
def plotLoop {α} (has : α → Bool) : List α → List α
  | [] => []
  | f :: fs => if has f then f :: plotLoop has fs else plotLoop has fs

/-! ### LAS: `LASBase.has_output_mnemonic` / `Plot.hasDataToPlotLAS` -/

/-- `LASBase.hasOutpMnem` = `_find_curve_or_alt_curve(m) != -1`: the curve section holds the mnemonic itself or, when the
mnemonic is a key of `LASConstants.LGFORMAT_LAS`, one of its listed alternates (`alts m`, `[]` when not a key). -/
def hasOutpMnemLAS (alts : Nat → List Nat) (curves : List Nat) (m : Nat) : Bool :=
  if curves.contains m then true else (alts m).any (fun a => curves.contains a)

/-- `Plot.hasDataToPlotLAS(theLasFile, theFilmId)`:
```
if theLasFile.number_of_frames() == 0: return False
if not self._presCfg.hasCurvesForDest(theFilmId): return False
for anO in self._retOutputChIDs(theFilmId):
    if theLasFile.hasOutpMnem(anO): return True
return False
```
`outs` are the output channels of the format (`hasCurvesForDest` is `outs ≠ []`). -/
def hasDataToPlotLAS (alts : Nat → List Nat) (frames : Nat) (outs curves : List Nat) : Bool :=
  if frames = 0 then false
  else if outs.isEmpty then false
  else outs.any (fun o => hasOutpMnemLAS alts curves o)

end TD.C19
