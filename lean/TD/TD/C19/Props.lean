import TD.C19.Lemmas
import TD.C19.FilterGen

/-!
# C19 — plotted curves stay inside their track and wrap consistently (scale mathematics)

Property theorems only.  The model (`TD.C19.Model`) transcribes `PRESCfg.LineTransLin/LineTransLog10` and
`Plot._retInterpolateWrapPoints/_filterCrossLineList` over exact rationals; it is tied to the Python source by the
error-bounded correspondence run of `./check C19`.  `lg` stands for `math.log10` and is completely abstract.

The SVG producer (`Plot.plotLogPassLIS/LAS`) is NOT covered by these theorems; it is exercised by the harness only.
-/
namespace TD.C19

/-- `q` lies strictly between `a` and `b` (either order: logs run up or down) -/
def between (a b q : ℚ) : Prop := (a < q ∧ q < b) ∨ (b < q ∧ q < a)

/-! ## Linear scale -/

/-- **Linear scale, in track** — for any left ≠ right scale edge and `leftP < rightP` the constructor succeeds and every
value is mapped to a position with `leftP ≤ pos < rightP` (left edge inclusive, right edge exclusive: that is what
`lP + (p − ⌊p⌋)·W` gives). -/
theorem wrap_in_track (lP rP lL rL v : ℚ) (bu : Backup) (hL : lL ≠ rL) (hP : lP < rP) :
    ∃ t, mkLin lP rP lL rL bu = .ok t ∧ lP ≤ (wrapPosLin t v).2 ∧ (wrapPosLin t v).2 < rP := by
  have hden : ¬ (rL - lL = 0) := fun h => hL (by linarith)
  have hctor : ¬ (lP ≥ rP) := not_le.2 hP
  refine ⟨_, by simp only [mkLin, hctor, hden, if_false]; rfl, ?_, ?_⟩
  · simp only [wrapPosLin, wrapCore_eq_gWrap]
    exact gWrap_lower _ _ _ (by linarith)
  · simp only [wrapPosLin, wrapCore_eq_gWrap]
    have := gWrap_upper lP (rP - lP) ((v - lL) / (rL - lL)) (by linarith)
    linarith

example : mkLin 0 (12/5) (-80) 20 BACKUP_ONCE = .ok ⟨0, 12/5, -80, 20, BACKUP_ONCE, 100, 12/5, 3/125, 48/25⟩ ∧
    wrapPosLin ⟨0, 12/5, -80, 20, BACKUP_ONCE, 100, 12/5, 3/125, 48/25⟩ 45 = (1, 3/5) := by decide +kernel

/-- **Linear scale, wrap identity** — position plus wrap count times track width is the unwrapped scale position `L2P v`. -/
theorem wrap_identity (lP rP lL rL v : ℚ) (bu : Backup) (t : LineTrans) (h : mkLin lP rP lL rL bu = .ok t) :
    (wrapPosLin t v).2 + ((wrapPosLin t v).1 : ℚ) * (rP - lP) = l2pLin t v := by
  obtain ⟨_, _, rfl⟩ := mkLin_ok h
  simp only [wrapPosLin, l2pLin, wrapCore_eq_gWrap, gWrap_identity]
  ring

/-- **Linear scale, uniqueness** — the pair computed by the code is the *only* `(wrap, pos)` with `pos` inside the track
that satisfies the identity: so the two statements above pin `wrapPos` down completely. -/
theorem wrap_unique (lP rP lL rL v : ℚ) (bu : Backup) (t : LineTrans) (h : mkLin lP rP lL rL bu = .ok t)
    (w : ℤ) (pos : ℚ) (hlo : lP ≤ pos) (hhi : pos < rP) (hid : pos + (w : ℚ) * (rP - lP) = l2pLin t v) :
    wrapPosLin t v = (w, pos) := by
  obtain ⟨hP, _, rfl⟩ := mkLin_ok h
  simp only [wrapPosLin, wrapCore_eq_gWrap]
  symm
  apply gWrap_unique lP (rP - lP) _ (by linarith) w pos hlo (by linarith)
  rw [hid]; simp only [l2pLin]; ring

example : mkLin 0 1 0 10 BACKUP_ALL = .ok ⟨0, 1, 0, 10, BACKUP_ALL, 10, 1, 1/10, 0⟩ := by decide +kernel

/-! ## Logarithmic scale (any function `lg` in place of `log10`) -/

/-- **Log scale, in track + identity** — both edges positive, `lg (rL/lL) ≠ 0` (true for `log10` whenever `lL ≠ rL`), value
positive: the constructor and `wrapPos` succeed, `leftP ≤ pos < rightP`, and
`pos + w·W = lP + lg(v/lL)/lg(rL/lL)·W`.  No property of `lg` is used. -/
theorem wrap_log (lg : ℚ → ℚ) (lP rP lL rL v : ℚ) (bu : Backup) (hP : lP < rP) (hl : 0 < lL) (hr : 0 < rL)
    (hden : lg (rL / lL) ≠ 0) (hv : 0 < v) :
    ∃ t w pos, mkLog lg lP rP lL rL bu = .ok t ∧ wrapPosLog lg t v = .ok (w, pos) ∧
      lP ≤ pos ∧ pos < rP ∧ pos + (w : ℚ) * (rP - lP) = lP + lg (v / lL) / lg (rL / lL) * (rP - lP) := by
  have h1 : ¬ (lP ≥ rP) := not_le.2 hP
  have h2 : ¬ (lL = 0) := hl.ne'
  have h3 : ¬ (rL / lL ≤ 0) := not_le.2 (div_pos hr hl)
  have h4 : ¬ (lL ≤ 0) := not_le.2 hl
  have h5 : ¬ (v ≤ 0) := not_le.2 hv
  refine ⟨{ lP, rP, lL, rL, bu, den := lg (rL / lL), pWidth := rP - lP, scale := (rP - lP) / lg (rL / lL),
            offset := lP - (rP - lP) / lg (rL / lL) * lg lL },
    (gWrap lP (rP - lP) (lg (v / lL) / lg (rL / lL))).1, (gWrap lP (rP - lP) (lg (v / lL) / lg (rL / lL))).2,
    by simp only [mkLog, h1, h2, h3, h4, hden, if_false],
    by simp only [wrapPosLog, h5, if_false, wrapCore_eq_gWrap], ?_, ?_, ?_⟩
  · exact gWrap_lower _ _ _ (by linarith)
  · have := gWrap_upper lP (rP - lP) (lg (v / lL) / lg (rL / lL)) (by linarith)
    linarith
  · exact gWrap_identity _ _ _

example : (fun x : ℚ => x - 1) (10 / 1) ≠ 0 := by norm_num

/-- **Log scale, identity against `L2P`** — if in addition `lg` satisfies the one functional equation
`lg (v/lL) = lg v − lg lL` at the point in question (as `log10` does), the unwrapped position is `L2P v`. -/
theorem wrap_log_l2p (lg : ℚ → ℚ) (lP rP lL rL v : ℚ) (bu : Backup) (t : LineTrans) (w : ℤ) (pos : ℚ)
    (h : mkLog lg lP rP lL rL bu = .ok t) (hw : wrapPosLog lg t v = .ok (w, pos))
    (hlg : lg (v / lL) = lg v - lg lL) :
    l2pLog lg t v = .ok (pos + (w : ℚ) * (rP - lP)) := by
  obtain ⟨_, _, _, _, rfl⟩ := mkLog_ok h
  unfold wrapPosLog at hw
  split at hw; · cases hw
  rename_i hv
  simp only [Except.ok.injEq, wrapCore_eq_gWrap] at hw
  have h1 := congrArg Prod.fst hw
  have h2 := congrArg Prod.snd hw
  simp only at h1 h2
  simp only [l2pLog, hv, if_false, Except.ok.injEq]
  rw [← h1, ← h2, gWrap_identity, hlg]
  ring

/-- **Log scale, non-positive value** — a value `≤ 0` is refused with `ExceptionLineTransBaseMath` (which
`Plot._plotSingleOutput` catches: no point is produced). -/
theorem wrap_log_nonpositive (lg : ℚ → ℚ) (t : LineTrans) (v : ℚ) (hv : v ≤ 0) :
    wrapPosLog lg t v = .error .logMath := by
  simp [wrapPosLog, hv]

example : wrapPosLog (fun x => x) ⟨0, 1, 1, 10, BACKUP_ALL, 10, 1, 1/10, 0⟩ (-3) = .error .logMath := by decide +kernel

/-! ## Back-up modes -/

/-- `offScale` only returns −1, 0 or 1, and the sign follows the sign of the wrap count. -/
theorem offScale_range (bu : Backup) (w : ℤ) :
    (offScale bu w = -1 ∧ w < 0) ∨ offScale bu w = 0 ∨ (offScale bu w = 1 ∧ 0 < w) := by
  unfold offScale; split
  · left; exact ⟨rfl, by omega⟩
  · split
    · right; right; exact ⟨rfl, by omega⟩
    · right; left; rfl

/-- WRAP (`BACKUP_ALL`): never off scale. -/
theorem offScale_all (w : ℤ) : offScale BACKUP_ALL w = 0 := by simp [offScale, BACKUP_ALL]

/-- no back-up (`BACKUP_NONE`, modes `NB`/`GRAD`): on scale exactly when the wrap count is 0. -/
theorem offScale_none (w : ℤ) : offScale BACKUP_NONE w = 0 ↔ w = 0 := by
  unfold offScale BACKUP_NONE; simp only; split
  · constructor <;> intro h <;> omega
  · split
    · constructor <;> intro h <;> omega
    · constructor
      · intro _; omega
      · intro _; rfl

/-- one back-up (`BACKUP_ONCE`, mode `SHIF`): on scale exactly when `−1 ≤ w ≤ 1`. -/
theorem offScale_once (w : ℤ) : offScale BACKUP_ONCE w = 0 ↔ (-1 ≤ w ∧ w ≤ 1) := by
  unfold offScale BACKUP_ONCE; simp only; split
  · constructor <;> intro h <;> omega
  · split
    · constructor <;> intro h <;> omega
    · constructor
      · intro _; omega
      · intro _; rfl

example : offScale BACKUP_ONCE (-2) = -1 ∧ offScale BACKUP_ONCE 1 = 0 ∧ offScale BACKUP_NONE 1 = 1 := by decide

/-! ## Interpolated wrap points -/

/-- abscissa `xPrev + (2j+1)·xInc` with `2j+1 < 2|d|` lies strictly between the two frame positions -/
theorem between_of_odd (xPrev xNow : ℚ) (hx : xPrev ≠ xNow) (D : ℕ) (j : ℕ) (hj : 2 * j + 1 < 2 * D) :
    between xPrev xNow (xPrev + (xNow - xPrev) / ((2 * D : ℕ) : ℚ) + 2 * (j : ℚ) * ((xNow - xPrev) / ((2 * D : ℕ) : ℚ))) := by
  have hD : (0 : ℚ) < ((2 * D : ℕ) : ℚ) := by exact_mod_cast (by omega : 0 < 2 * D)
  set Dq : ℚ := ((2 * D : ℕ) : ℚ) with hDq
  have ht0 : (0 : ℚ) < (2 * (j : ℚ) + 1) / Dq := by positivity
  have ht1 : (2 * (j : ℚ) + 1) / Dq < 1 := by
    rw [div_lt_one hD]; rw [hDq]; exact_mod_cast hj
  have hq : xPrev + (xNow - xPrev) / Dq + 2 * (j : ℚ) * ((xNow - xPrev) / Dq)
      = xPrev + (2 * (j : ℚ) + 1) / Dq * (xNow - xPrev) := by field_simp; ring
  rw [hq]
  rcases lt_or_gt_of_ne hx with h | h
  · left
    have hΔ : 0 < xNow - xPrev := by linarith
    have := mul_pos ht0 hΔ
    have := mul_lt_mul_of_pos_right ht1 hΔ
    constructor <;> linarith
  · right
    have hΔ : 0 < xPrev - xNow := by linarith
    have := mul_pos ht0 hΔ
    have := mul_lt_mul_of_pos_right ht1 hΔ
    constructor <;> nlinarith

/-- **Interpolated crossing points** (`_retInterpolateWrapPoints` before the final filter, any
`MAX_BACKUP_TRACK_CROSSING_LINES ≥ 2`, any back-up mode, logging up or down): the call succeeds; every generated point
(the end of the old polyline, every crossing-line end, the start of the new polyline) has its abscissa STRICTLY between
the two frame positions and lies on a track edge (`Pt.e`); the crossing lines are exactly `n` full-width lines
`left→right` (wrap count increasing) or `right→left` (decreasing) with `n < |wrapDiff|`. -/
theorem interp_points_on_edges (M : ℕ) (hM : 2 ≤ M) (bu : Backup) (xPrev xNow : ℚ) (wp wn : ℤ)
    (hx : xPrev ≠ xNow) (hw : wp ≠ wn) :
    ∃ r, interpolate M bu xPrev xNow wp wn = .ok r ∧
      (∀ q, r.polyEnd = some q → between xPrev xNow q.x ∧ q.e = (if wn - wp > 0 then Edge.right else Edge.left)) ∧
      (∀ q, r.polyNew = some q → between xPrev xNow q.x ∧ q.e = (if wn - wp > 0 then Edge.left else Edge.right)) ∧
      (∀ q ∈ r.cross, between xPrev xNow q.x) ∧
      (∃ n : ℕ, n < (wn - wp).natAbs ∧
        r.cross = crossSpec (decide (0 < wn - wp))
          (xPrev + (xNow - xPrev) / ((2 * (wn - wp).natAbs : ℕ) : ℚ)) ((xNow - xPrev) / ((2 * (wn - wp).natAbs : ℕ) : ℚ)) n) := by
  unfold interpolate
  simp only [hw, if_false]
  split
  · exact ⟨_, rfl, by simp, by simp, by simp, ⟨0, by omega, rfl⟩⟩
  · set d := wn - wp with hd
    have hd0 : d ≠ 0 := by omega
    set xInc : ℚ := (xNow - xPrev) / ((2 * d.natAbs : ℕ) : ℚ) with hxInc
    obtain ⟨n, hn, heq, hsign⟩ := crossLoop_spec (wrapIncrement M d) (wrapIncrement_pos M hM d) xInc
      d.natAbs d (xPrev + xInc) [] (le_refl _)
    have hinc := wrapIncrement_pos M hM d
    have hnlt : n < d.natAbs := by
      rcases hn with hn | hn
      · subst hn; omega
      · have : (n : ℤ) ≤ (n : ℤ) * wrapIncrement M d := by nlinarith
        omega
    have hbet : ∀ j : ℕ, j ≤ n → between xPrev xNow (xPrev + xInc + 2 * (j : ℚ) * xInc) := by
      intro j hj
      exact between_of_odd xPrev xNow hx d.natAbs j (by omega)
    rw [heq]
    refine ⟨_, rfl, ?_, ?_, ?_, ⟨n, hnlt, by simp⟩⟩
    · intro q hq
      simp only at hq
      split at hq
      · have h0 := hbet 0 (by omega)
        simp only [Nat.cast_zero, mul_zero, zero_mul, add_zero] at h0
        split at hq <;> (cases hq; rename_i hgt; exact ⟨h0, by simp [hgt]⟩)
      · cases hq
    · intro q hq
      simp only at hq
      split at hq
      · by_cases hpos : 0 < d
        · have h' := hsign hpos
          simp only [hpos, if_true] at hq
          simp only [h', if_true, Option.some.injEq] at hq
          subst hq
          exact ⟨hbet n (le_refl _), by simp [hpos]⟩
        · simp only [hpos, if_false] at hq
          have h' : ¬ (d + n * wrapIncrement M d > 0) := by
            have : (0 : ℤ) ≤ n * wrapIncrement M d := by positivity
            rcases hn with hn | hn
            · subst hn; simp; omega
            · omega
          simp only [h', if_false, Option.some.injEq] at hq
          subst hq
          exact ⟨hbet n (le_refl _), by simp [hpos]⟩
      · cases hq
    · intro q hq
      simp only [List.nil_append] at hq
      obtain ⟨j, hj, hxq⟩ := mem_crossSpec hq
      rw [hxq]; exact hbet j hj

example : interpolate 4 BACKUP_ALL 100 99 0 3 =
    .ok ⟨some ⟨599/6, .right⟩, [⟨599/6, .left⟩, ⟨199/2, .right⟩, ⟨199/2, .left⟩, ⟨595/6, .right⟩], some ⟨595/6, .left⟩⟩ := by
  decide +kernel

/-- **Number of crossing lines, as coded (`MAX_BACKUP_TRACK_CROSSING_LINES = 4`)**: never more than 7 before filtering
(so `_filterCrossLineList` is only ever handed at most 7 pairs by this caller). -/
theorem interp_cross_count_M4 (bu : Backup) (xPrev xNow : ℚ) (wp wn : ℤ) (r : Interp)
    (h : interpolate 4 bu xPrev xNow wp wn = .ok r) : r.cross.length % 2 = 0 ∧ r.cross.length / 2 ≤ 7 := by
  unfold interpolate at h
  split at h; · cases h
  split at h
  · cases h; simp
  · dsimp only at h
    set d := wn - wp with hd
    set xInc : ℚ := (xNow - xPrev) / ((2 * d.natAbs : ℕ) : ℚ) with hxInc
    have hinc := wrapIncrement_pos 4 (by omega) d
    obtain ⟨n, hn, heq, _⟩ := crossLoop_spec (wrapIncrement 4 d) hinc xInc
      d.natAbs d (xPrev + xInc) [] (le_refl _)
    rw [heq] at h
    simp only [Except.ok.injEq] at h
    subst h
    simp only [List.nil_append, length_crossSpec]
    refine ⟨by omega, ?_⟩
    have : n ≤ 7 := by
      rcases hn with hn | hn
      · omega
      · unfold wrapIncrement at hn hinc
        split at hn
        · rename_i hbig
          -- inc = |d|/4*4 ≥ |d| - 3 and |d| ≥ 9: two increments already exceed |d|
          have h4 : ((d.natAbs / 4 * 4 : ℕ) : ℤ) ≥ d.natAbs - 3 := by omega
          by_contra hc
          have h2 : (2 : ℤ) ≤ n := by omega
          have : (2 : ℤ) * ((d.natAbs / 4 * 4 : ℕ) : ℤ) ≤ n * ((d.natAbs / 4 * 4 : ℕ) : ℤ) :=
            Int.mul_le_mul_of_nonneg_right h2 (by positivity)
          omega
        · omega
    omega

/-! ## Filtering of the crossing lines -/

/-- closes `xs.Sublist ys` for explicit lists with syntactically matching elements -/
macro "sublist_tac" : tactic =>
  `(tactic| repeat (first | exact List.nil_sublist _ | apply List.Sublist.cons_cons | apply List.Sublist.cons))

/-- Not more pairs than the maximum: returned unchanged. -/
theorem filter_short_id {α} (M : ℕ) (l : List α) (he : l.length % 2 = 0) (h : l.length / 2 ≤ M) :
    filterCross M l = .ok l := by
  simp [filterCross, he, h]

theorem filterIdx_4_5 : filterIdx 4 5 = [0, 1, 3, 4] := by decide +kernel
theorem filterIdx_4_6 : filterIdx 4 6 = [0, 2, 3, 5] := by decide +kernel
/-- With 7 crossing lines (a jump of 8 wraps) the LAST line is dropped: the docstring's "with the first and last
members of the supplied list" does not hold for this reachable input (not part of property C19). -/
theorem filterIdx_4_7 : filterIdx 4 7 = [0, 2, 4, 5] := by decide +kernel

/-- **`_filterCrossLineList` as coded (MAX = 4) on every list the interpolation can hand it** (even length, at most 7
pairs; contents arbitrary): it never raises, returns a sub-list of its input (so everything proved about the
crossing points carries over), of at most `2·4` points, and keeps the first pair.

This is the concrete special case (kept because `ret_interpolate_points_M4` uses it and it exhibits the selected
pairs); the full statement for every `MAX ≥ 1` and every even-length list is `filter_keeps_first` below. -/
theorem filter_keeps_first_partial {α} (l : List α) (he : l.length % 2 = 0) (hn : l.length / 2 ≤ 7) :
    ∃ r, filterCross 4 l = .ok r ∧ r.Sublist l ∧ r.length ≤ 8 ∧ r.take 2 = l.take 2 := by
  by_cases hs : l.length / 2 ≤ 4
  · exact ⟨l, filter_short_id 4 l he hs, List.Sublist.refl l, by omega, rfl⟩
  · rcases l with _ | ⟨a0, _ | ⟨a1, _ | ⟨a2, _ | ⟨a3, _ | ⟨a4, _ | ⟨a5, _ | ⟨a6, _ | ⟨a7, _ | ⟨a8, _ | ⟨a9, l⟩⟩⟩⟩⟩⟩⟩⟩⟩⟩
    all_goals try (simp at hs; done)
    rcases l with _ | ⟨a10, _ | ⟨a11, _ | ⟨a12, _ | ⟨a13, l⟩⟩⟩⟩
    · refine ⟨[a0, a1, a2, a3, a6, a7, a8, a9], ?_, ?_, by simp, rfl⟩
      · simp [filterCross, filterIdx_4_5, getPair, List.foldlM]; rfl
      · sublist_tac
    · simp at he
    · refine ⟨[a0, a1, a4, a5, a6, a7, a10, a11], ?_, ?_, by simp, rfl⟩
      · simp [filterCross, filterIdx_4_6, getPair, List.foldlM]; rfl
      · sublist_tac
    · simp at he
    · rcases l with _ | ⟨a14, l⟩
      · refine ⟨[a0, a1, a4, a5, a8, a9, a10, a11], ?_, ?_, by simp, rfl⟩
        · simp [filterCross, filterIdx_4_7, getPair, List.foldlM]; rfl
        · sublist_tac
      · simp only [List.length_cons] at hn he
        omega

example : filterCross 4 (List.range 14) = .ok [0, 1, 4, 5, 8, 9, 10, 11] := by decide +kernel

/-- **`_filterCrossLineList`, general** — for EVERY `MAX_BACKUP_TRACK_CROSSING_LINES ≥ 1` and EVERY even-length list
(any contents): the call never raises (no `IndexError`), the result is a sub-list of the input with at most `2·MAX`
points, it begins with the first pair, and a list of at most `MAX` pairs is returned unchanged.
(The docstring's claim that the LAST pair is kept too is false, see `filterIdx_4_7`.) -/
theorem filter_keeps_first {α} (M : ℕ) (hM : 1 ≤ M) (l : List α) (he : l.length % 2 = 0) :
    ∃ r, filterCross M l = .ok r ∧ r.Sublist l ∧ r.length ≤ 2 * M ∧ r.take 2 = l.take 2 ∧
      (l.length / 2 ≤ M → r = l) := by
  by_cases hs : l.length / 2 ≤ M
  · exact ⟨l, filter_short_id M l he hs, List.Sublist.refl l, by omega, rfl, fun _ => rfl⟩
  · have hn : M < l.length / 2 := by omega
    obtain ⟨j, hj, hidx, hlast⟩ := filterIdx_eq M (l.length / 2) hM hn
    set s : ℚ := ((l.length / 2 : ℕ) : ℚ) / M with hsdef
    have hMq : (0 : ℚ) < M := by exact_mod_cast hM
    have hs1 : 1 ≤ s := by
      rw [hsdef, le_div_iff₀ hMq]
      have : (M : ℚ) < ((l.length / 2 : ℕ) : ℚ) := by exact_mod_cast hn
      linarith
    have hs0 : 0 ≤ s := by linarith
    have hmem : ∀ i ∈ (List.range (j + 1)).map (gsel s), 0 ≤ i ∧ 2 * i.toNat + 1 < l.length := by
      intro i hi
      simp only [List.mem_map, List.mem_range] at hi
      obtain ⟨t, ht, rfl⟩ := hi
      have h0 := gsel_nonneg hs0 t
      have h1 : gsel s t ≤ gsel s j := gsel_mono hs0 (by omega)
      refine ⟨h0, ?_⟩
      omega
    refine ⟨[] ++ (((List.range (j + 1)).map (gsel s)).map Int.toNat).flatMap (pairAt l), ?_, ?_, ?_, ?_, fun h => absurd h hs⟩
    · rw [filterCross_fold M l he hs, hidx, foldlM_getPair l _ [] hmem]
    · simp only [List.nil_append]
      have := pairs_sublist l (((List.range (j + 1)).map (gsel s)).map Int.toNat) 0 (fun _ _ => Nat.zero_le _) ?_
      · simpa using this
      · rw [List.map_map, List.pairwise_map]
        refine List.pairwise_lt_range.imp ?_
        intro a b hab
        have := gsel_strictMono hs1 hab
        have := gsel_nonneg hs0 a
        simp only [Function.comp]; omega
    · simp only [List.nil_append]
      have := length_pairs_le l (((List.range (j + 1)).map (gsel s)).map Int.toNat)
      simp only [List.length_map, List.length_range] at this
      omega
    · simp only [List.nil_append, List.range_succ_eq_map, List.map_cons, List.flatMap_cons, gsel_zero, Int.toNat_zero]
      have h2 : (pairAt l 0).length = 2 := by unfold pairAt; simp; omega
      rw [List.take_left' h2]; simp [pairAt]

example : filterCross 3 (List.range 16) = .ok [0, 1, 6, 7, 10, 11] := by decide +kernel

/-- **`_retInterpolateWrapPoints` complete, as coded (MAX = 4)**: it never raises for distinct wrap counts and distinct
frame positions; at most 8 crossing-line points are returned and every returned point lies strictly between the two
frame positions. -/
theorem ret_interpolate_points_M4 (bu : Backup) (xPrev xNow : ℚ) (wp wn : ℤ) (hx : xPrev ≠ xNow) (hw : wp ≠ wn) :
    ∃ r, retInterpolateWrapPoints 4 bu xPrev xNow wp wn = .ok r ∧ r.cross.length ≤ 8 ∧
      (∀ q, r.polyEnd = some q → between xPrev xNow q.x) ∧
      (∀ q, r.polyNew = some q → between xPrev xNow q.x) ∧
      (∀ q ∈ r.cross, between xPrev xNow q.x) := by
  obtain ⟨r0, h0, hE, hN, hC, _⟩ := interp_points_on_edges 4 (by omega) bu xPrev xNow wp wn hx hw
  obtain ⟨he, hn⟩ := interp_cross_count_M4 bu xPrev xNow wp wn r0 h0
  obtain ⟨c, hc, hsub, hlen, _⟩ := filter_keeps_first_partial r0.cross he hn
  refine ⟨{ r0 with cross := c }, ?_, hlen, fun q hq => (hE q hq).1, fun q hq => (hN q hq).1,
    fun q hq => hC q (hsub.subset hq)⟩
  simp [retInterpolateWrapPoints, h0, hc, bind, Except.bind, pure, Except.pure]

/-! ## Which films are plotted -/

/-- the loop is a filter: nothing that happens for one film influences another -/
theorem plotLoop_eq_filter {α} (has : α → Bool) (films : List α) : plotLoop has films = films.filter has := by
  induction films with
  | nil => rfl
  | cons f fs ih => simp only [plotLoop, List.filter_cons, ih]

/-- **Exactly the films that have data are plotted**, whatever else is in the FILM table. -/
theorem plots_mem_iff {α} (has : α → Bool) (films : List α) (f : α) :
    f ∈ plotLoop has films ↔ f ∈ films ∧ has f = true := by
  rw [plotLoop_eq_filter, List.mem_filter]

/-- **Order independence**: permuting the FILM table permutes the plots; in particular a film without data in any
position (first, middle, last) never hides a later film. -/
theorem plots_order_independent {α} (has : α → Bool) {films₁ films₂ : List α} (h : films₁.Perm films₂) :
    (plotLoop has films₁).Perm (plotLoop has films₂) := by
  rw [plotLoop_eq_filter, plotLoop_eq_filter]; exact h.filter has

/-- the number of plots is the number of films with data -/
theorem plots_count {α} (has : α → Bool) (films : List α) :
    (plotLoop has films).length = films.countP has := by
  rw [plotLoop_eq_filter, List.countP_eq_length_filter]

/-- `hasDataToPlotLIS` says: the pass has frames and some PRES row sends a channel of the pass to this film. -/
theorem hasDataToPlot_iff (n : ℕ) (pres : List PresRow) (chans : List ℕ) (film : ℕ) :
    hasDataToPlot n pres chans film = true ↔ n ≠ 0 ∧ ∃ r ∈ pres, r.dest = film ∧ r.outp ∈ chans := by
  unfold hasDataToPlot outpChIDs
  by_cases hn : n = 0
  · simp [hn]
  · simp only [hn, if_false, ne_eq, not_false_eq_true, true_and]
    by_cases hany : pres.any (fun r => r.dest == film) = true
    · simp only [hany, Bool.not_true, Bool.false_eq_true, if_false, List.any_eq_true, List.mem_map, List.mem_filter,
        beq_iff_eq, List.contains_iff_mem]
      constructor
      · rintro ⟨o, ⟨r, ⟨hr, hd⟩, rfl⟩, ho⟩; exact ⟨r, hr, hd, ho⟩
      · rintro ⟨r, hr, hd, ho⟩; exact ⟨r.outp, ⟨r, ⟨hr, hd⟩, rfl⟩, ho⟩
    · simp only [hany, Bool.not_false, if_true, Bool.false_eq_true, false_iff]
      rintro ⟨r, hr, hd, _⟩
      apply hany
      simp only [List.any_eq_true, beq_iff_eq]
      exact ⟨r, hr, hd⟩

example : plotLoop (hasDataToPlot 81 [⟨1, 10⟩, ⟨2, 20⟩, ⟨2, 20⟩] [20]) [1, 2] = [2] := by decide

/-- a LAS file "has" a format channel iff it holds the mnemonic itself or one of its listed alternates -/
theorem hasOutpMnemLAS_iff (alts : ℕ → List ℕ) (curves : List ℕ) (m : ℕ) :
    hasOutpMnemLAS alts curves m = true ↔ m ∈ curves ∨ ∃ a ∈ alts m, a ∈ curves := by
  unfold hasOutpMnemLAS
  by_cases h : m ∈ curves
  · simp [h]
  · simp [h, List.any_eq_true]

/-- **`hasDataToPlotLAS`**: a LAS file is plotted with a format iff it has frames and SOME curve is an output name of the
format or a listed alternate (`LGFORMAT_LAS`) of one — alternates count even when no curve carries a literal name. -/
theorem hasDataToPlotLAS_iff (alts : ℕ → List ℕ) (frames : ℕ) (outs curves : List ℕ) :
    hasDataToPlotLAS alts frames outs curves = true ↔
      frames ≠ 0 ∧ ∃ o ∈ outs, o ∈ curves ∨ ∃ a ∈ alts o, a ∈ curves := by
  unfold hasDataToPlotLAS
  by_cases hn : frames = 0
  · simp [hn]
  · cases outs with
    | nil => simp [hn]
    | cons o os =>
      simp only [hn, if_false, List.isEmpty_cons, Bool.false_eq_true, ne_eq, not_false_eq_true, true_and,
        List.any_eq_true, hasOutpMnemLAS_iff]

example : hasDataToPlotLAS (fun m => if m = 1 then [7] else []) 5 [1, 2] [7, 9] = true ∧
    hasDataToPlotLAS (fun m => if m = 1 then [7] else []) 5 [1, 2] [8, 9] = false := by decide

end TD.C19
