import TD.C19.Lemmas
import Mathlib.Data.List.Sublists
import Mathlib.Tactic.Ring
import Mathlib.Tactic.Linarith

/-!
The general argument for `Plot._filterCrossLineList` (every `MAX ≥ 1`, every list): the loop visits the indices
`g k = ⌊k·s + 1/2⌋`, `s = n/MAX > 1`; they increase strictly, the loop leaves at `k ≤ MAX − 1` because
`g (MAX−1) = ⌊n − s + 1/2⌋ ≥ n − ⌊s + 1/2⌋`, and `g (MAX−1) ≤ n − 1`.
-/
namespace TD.C19

theorem pyInt_of_nonneg {q : ℚ} (h : 0 ≤ q) : pyInt q = ⌊q⌋ := by
  unfold pyInt; rw [if_pos h]; rfl

/-- the pair index visited at step `k` -/
def gsel (s : ℚ) (k : ℕ) : ℤ := ⌊(k : ℚ) * s + 1 / 2⌋

theorem gsel_zero (s : ℚ) : gsel s 0 = 0 := by
  unfold gsel; simp; norm_num

theorem gsel_nonneg {s : ℚ} (hs : 0 ≤ s) (k : ℕ) : 0 ≤ gsel s k := by
  unfold gsel; apply Int.floor_nonneg.2; positivity

theorem gsel_succ {s : ℚ} (hs : 1 ≤ s) (k : ℕ) : gsel s k + 1 ≤ gsel s (k + 1) := by
  unfold gsel
  rw [← Int.floor_add_one]
  apply Int.floor_le_floor
  push_cast; nlinarith

theorem gsel_mono {s : ℚ} (hs : 0 ≤ s) {a b : ℕ} (h : a ≤ b) : gsel s a ≤ gsel s b := by
  unfold gsel
  apply Int.floor_le_floor
  have : (a : ℚ) ≤ b := by exact_mod_cast h
  nlinarith

theorem gsel_strictMono {s : ℚ} (hs : 1 ≤ s) : ∀ {a b : ℕ}, a < b → gsel s a < gsel s b := by
  intro a b h
  induction b with
  | zero => omega
  | succ b ih =>
    have := gsel_succ hs b
    rcases Nat.lt_succ_iff_lt_or_eq.1 h with h' | h'
    · have := ih h'; omega
    · subst h'; omega

/-- loop specification: starting at step `k` the loop appends `g k, …, g (k+j−1)` and stops at `g (k+j)` -/
theorem filterLoop_spec (s thr : ℚ) (hs : 0 ≤ s) : ∀ (fuel k : ℕ) (acc : List ℤ),
    ∃ j ≤ fuel, filterLoop fuel s thr (gsel s k) ((k : ℚ) * s) acc
        = (acc ++ (List.range j).map (fun t => gsel s (k + t)), gsel s (k + j)) ∧
      (∀ t < j, ((gsel s (k + t) : ℤ) : ℚ) < thr) ∧ (j = fuel ∨ ¬ ((gsel s (k + j) : ℤ) : ℚ) < thr) := by
  intro fuel
  induction fuel with
  | zero => intro k acc; exact ⟨0, le_refl _, by simp [filterLoop], by simp, Or.inl rfl⟩
  | succ fuel ih =>
    intro k acc
    unfold filterLoop
    by_cases h : ((gsel s k : ℤ) : ℚ) < thr
    · simp only [h, if_true]
      have e1 : (k : ℚ) * s + s = ((k + 1 : ℕ) : ℚ) * s := by push_cast; ring
      have e2 : pyInt ((k : ℚ) * s + s + 1 / 2) = gsel s (k + 1) := by
        rw [pyInt_of_nonneg (by positivity)]; unfold gsel; rw [e1]
      rw [e2, e1]
      obtain ⟨j, hj, heq, hlt, hstop⟩ := ih (k + 1) (acc ++ [gsel s k])
      refine ⟨j + 1, by omega, ?_, ?_, ?_⟩
      · rw [heq]
        refine Prod.ext ?_ ?_
        · simp only [List.append_assoc, List.range_succ_eq_map, List.map_cons, List.map_map]
          congr 1
          simp only [List.cons_append, List.nil_append, Nat.add_zero]
          congr 1
          apply List.map_congr_left
          intro t _; simp only [Function.comp]; congr 1; omega
        · simp only; congr 1; omega
      · intro t ht
        rcases t with _ | t
        · simpa using h
        · have := hlt t (by omega)
          have e : k + (t + 1) = k + 1 + t := by omega
          rw [e]; exact this
      · rcases hstop with hstop | hstop
        · left; omega
        · right
          have e : k + (j + 1) = k + 1 + j := by omega
          rw [e]; exact hstop
    · simp only [h, if_false]
      exact ⟨0, by omega, by simp, by simp, Or.inr (by simpa using h)⟩

/-- **The indices `_filterCrossLineList` selects**, for every `MAX ≥ 1` and every number of pairs `n > MAX`:
`g 0 … g j` with `j ≤ MAX − 1`. -/
theorem filterIdx_eq (M n : ℕ) (hM : 1 ≤ M) (hn : M < n) :
    ∃ j, j + 1 ≤ M ∧ filterIdx M n = (List.range (j + 1)).map (gsel ((n : ℚ) / M)) ∧
      gsel ((n : ℚ) / M) j < n := by
  have hMq : (0 : ℚ) < M := by exact_mod_cast hM
  have hnq : (M : ℚ) < n := by exact_mod_cast hn
  set s : ℚ := (n : ℚ) / M with hs
  have hs1 : 1 < s := by rw [hs, lt_div_iff₀ hMq]; linarith
  have hs0 : 0 ≤ s := by linarith
  set thr : ℚ := (n : ℚ) - ((pyInt (s + 1 / 2) : ℤ) : ℚ) with hthr
  obtain ⟨j, hj, heq, hlt, hstop⟩ := filterLoop_spec s thr hs0 (n + 1) 0 []
  -- the value at step M-1
  have hMs : ((M - 1 : ℕ) : ℚ) * s = n - s := by
    have : ((M - 1 : ℕ) : ℚ) = (M : ℚ) - 1 := by
      rw [Nat.cast_sub hM]; simp
    rw [this, hs]; field_simp
  have hpy : pyInt (s + 1 / 2) = ⌊s + 1 / 2⌋ := pyInt_of_nonneg (by linarith)
  -- the loop leaves at step M-1 at the latest
  have hexit : ¬ ((gsel s (M - 1) : ℤ) : ℚ) < thr := by
    rw [not_lt, hthr, hpy]
    have h1 : ((n : ℤ) - ⌊s + 1 / 2⌋) ≤ gsel s (M - 1) := by
      unfold gsel; rw [hMs]
      apply Int.le_floor.2
      have := Int.sub_one_lt_floor (s + 1 / 2)
      push_cast; linarith
    have : (((n : ℤ) - ⌊s + 1 / 2⌋ : ℤ) : ℚ) ≤ ((gsel s (M - 1) : ℤ) : ℚ) := by exact_mod_cast h1
    push_cast at this; linarith
  have hjM : j ≤ M - 1 := by
    by_contra hc
    have := hlt (M - 1) (by omega)
    simp only [Nat.zero_add] at this
    exact hexit this
  have hlast : gsel s (M - 1) < n := by
    unfold gsel; rw [hMs]
    apply Int.floor_lt.2
    push_cast; linarith
  refine ⟨j, by omega, ?_, ?_⟩
  · unfold filterIdx
    have h0 : filterLoop (n + 1) s thr 0 0 [] = filterLoop (n + 1) s thr (gsel s 0) (((0 : ℕ) : ℚ) * s) [] := by
      rw [gsel_zero]; simp
    simp only []
    rw [show ((n : ℚ) / (M : ℚ)) = s from rfl, show ((n : ℚ) - ((pyInt (s + 1 / 2) : ℤ) : ℚ)) = thr from rfl, h0, heq]
    simp only [List.nil_append, Nat.zero_add, List.range_succ, List.map_append, List.map_cons, List.map_nil]
  · exact lt_of_le_of_lt (gsel_mono hs0 hjM) hlast

/-! ### picking whole pairs out of a list -/

/-- the pair number `k` of a list (fewer than two elements when the list is too short) -/
def pairAt {α} (l : List α) (k : ℕ) : List α := (l.drop (2 * k)).take 2

theorem getPair_eq {α} (l : List α) (i : ℤ) (h0 : 0 ≤ i) (h : 2 * i.toNat + 1 < l.length) :
    getPair l i = .ok (pairAt l i.toNat) := by
  unfold getPair pairAt
  have h1 : ¬ i < 0 := by omega
  have ha : 2 * i.toNat < l.length := by omega
  have hd : l.drop (2 * i.toNat) = l[2 * i.toNat] :: l[2 * i.toNat + 1] :: l.drop (2 * i.toNat + 1 + 1) := by
    rw [List.drop_eq_getElem_cons ha, List.drop_eq_getElem_cons h]
  simp only [h1, if_false, List.getElem?_eq_getElem ha, List.getElem?_eq_getElem h]
  rw [hd]; rfl

theorem pairs_sublist {α} (l : List α) : ∀ (ks : List ℕ) (d : ℕ), (∀ k ∈ ks, d ≤ k) → ks.Pairwise (· < ·) →
    (ks.flatMap (pairAt l)).Sublist (l.drop (2 * d)) := by
  intro ks
  induction ks with
  | nil => intro d _ _; simp
  | cons k ks ih =>
    intro d hd hp
    rw [List.pairwise_cons] at hp
    have hk : d ≤ k := hd k (by simp)
    have ih' := ih (k + 1) (fun x hx => by have := hp.1 x hx; omega) hp.2
    simp only [List.flatMap_cons]
    have h1 : (pairAt l k ++ ks.flatMap (pairAt l)).Sublist (l.drop (2 * k)) := by
      have : l.drop (2 * k) = (l.drop (2 * k)).take 2 ++ (l.drop (2 * k)).drop 2 := (List.take_append_drop 2 _).symm
      rw [this]
      apply List.Sublist.append (List.Sublist.refl _)
      rw [List.drop_drop]
      rw [show 2 * k + 2 = 2 * (k + 1) by ring]
      exact ih'
    have h2 : (l.drop (2 * k)).Sublist (l.drop (2 * d)) := by
      have : l.drop (2 * k) = (l.drop (2 * d)).drop (2 * k - 2 * d) := by
        rw [List.drop_drop]; congr 1; omega
      rw [this]; exact List.drop_sublist _ _
    exact h1.trans h2

theorem length_pairs_le {α} (l : List α) (ks : List ℕ) : (ks.flatMap (pairAt l)).length ≤ 2 * ks.length := by
  induction ks with
  | nil => simp
  | cons k ks ih =>
    simp only [List.flatMap_cons, List.length_append, List.length_cons]
    have : (pairAt l k).length ≤ 2 := by unfold pairAt; simp
    omega

/-- one step of the fold in `filterCross` -/
def stepPair {α} (l : List α) (acc : List α) (i : ℤ) : Except Err (List α) := do
  let p ← getPair l i
  pure (acc ++ p)

theorem stepPair_eq {α} (l : List α) (acc : List α) (i : ℤ) (h0 : 0 ≤ i) (h : 2 * i.toNat + 1 < l.length) :
    stepPair l acc i = .ok (acc ++ pairAt l i.toNat) := by
  unfold stepPair; rw [getPair_eq l i h0 h]; rfl

theorem foldlM_getPair {α} (l : List α) : ∀ (is : List ℤ) (acc : List α),
    (∀ i ∈ is, 0 ≤ i ∧ 2 * i.toNat + 1 < l.length) →
    is.foldlM (stepPair l) acc
      = (Except.ok (acc ++ (is.map Int.toNat).flatMap (pairAt l)) : Except Err (List α)) := by
  intro is
  induction is with
  | nil => intro acc _; simp [List.foldlM, pure, Except.pure]
  | cons i is ih =>
    intro acc h
    have hi := h i (by simp)
    rw [List.foldlM_cons, stepPair_eq l acc i hi.1 hi.2]
    show List.foldlM (stepPair l) (acc ++ pairAt l i.toNat) is = _
    rw [ih _ (fun x hx => h x (by simp [hx]))]
    simp [List.append_assoc]

theorem filterCross_fold {α} (M : ℕ) (l : List α) (he : l.length % 2 = 0) (hn : ¬ l.length / 2 ≤ M) :
    filterCross M l = (filterIdx M (l.length / 2)).foldlM (stepPair l) [] := by
  unfold filterCross
  simp only [he, ne_eq, not_true_eq_false, if_false, hn]
  rfl

end TD.C19
