import TD.Common.Proto
import TD.C10.Model
import TD.C10.Spec
import TD.C10.File
open TD TD.C10 TD.Proto

/-!
Line protocol of the C10 model driver (one reply line per request):

* `sel <idents> <S>`        idents / S: comma separated tokens (`-` = none); a token is a tag (`s` str, `i` int,
                            `b` bytes) followed by the hex of its `str()` form; `_stringify` turns every tag into `s`.
                            reply `curve=<i,..> head=<i,..> rows=<i,..> spec=<i,..>`
* `fmt <num> <den> <width> <decimals> <c> <negz>`   reply: hex of the field (with the separator when c > 0)
* `int <n> <width> <c>`                             reply: hex of the field
* `head <width> <c:hex,...>`                        reply: hex of the `~A` line
* `row <width> <c:hex,...>`                         reply: hex of the data row
* `red <method> <num/den,...>`                      reply: `num/den` or `none`
* `split <hex>`                                     reply: comma separated hex tokens
* `parse <hex>`                                     reply: `num/den` or `none`
* `file <width> <decimals> <method> <nframes> <S hex,..> <comments hex,..> <chan;chan;..>`
                            chan = `identhex:unitshex:descrhex:isInt:frame|frame|..`, frame = `num/den,..`; hex `_` = empty
                            reply: hex of the whole text of write_curve_and_array_section_to_las
-/

def toks (s : String) : List String := if s = "-" then [] else s.splitOn ","

def stringifyTok (t : String) : String :=
  match t.toList with
  | [] => t
  | _ :: r => String.ofList ('s' :: r)

def chars (bs : List Nat) : List Char := bs.map Char.ofNat
def hexOf (cs : List Char) : String := hex (cs.map Char.toNat)

def showRat (q : Rat) : String := s!"{q.num}/{q.den}"

def parseRat (s : String) : Option Rat :=
  match s.splitOn "/" with
  | [n, d] => match n.toInt?, d.toNat? with
    | some n, some d => if d = 0 then none else some (mkRat n d)
    | _, _ => none
  | _ => none

def parseCols (s : String) : Option (List Col) :=
  (toks s).mapM fun t =>
    match t.splitOn ":" with
    | [c, h] => match c.toNat?, unhex h with
      | some c, some bs => some (c, chars bs)
      | _, _ => none
    | _ => none

def parseRed : String → Option Reduction
  | "first" => some .first | "mean" => some .mean | "median" => some .median
  | "min" => some .min | "max" => some .max | _ => none

def hexStr (h : String) : Option (List Char) := if h = "_" then some [] else (unhex h).map chars

def parseFrames (s : String) : Option (List (List Rat)) :=
  (if s = "-" then [] else s.splitOn "|").mapM (fun fr => (toks fr).mapM parseRat)

def parseChanF (s : String) : Option ChanF :=
  match s.splitOn ":" with
  | [i, u, de, isInt, frs] =>
    match hexStr i, hexStr u, hexStr de, parseFrames frs with
    | some i, some u, some de, some frs => some ⟨⟨i, isInt == "1", frs⟩, u, de⟩
    | _, _, _, _ => none
  | _ => none

def step (line : String) : String :=
  match line.splitOn " " with
  | ["sel", ids, s] =>
    let idents := toks ids
    let S := toks s
    let r := writeSel stringifyTok idents S
    s!"curve={joinNats r.curve} head={joinNats r.head} rows={joinNats r.rows} spec={joinNats (specSel idents S)}"
  | ["fmt", n, d, w, dec, c, nz] =>
    match n.toInt?, d.toNat?, w.toNat?, dec.toNat?, c.toNat? with
    | some n, some d, some w, some dec, some c =>
      if d = 0 then "bad-op" else
      hexOf (rowLine w [(c, fmtFixed (nz == "1") (mkRat n d) dec)])
    | _, _, _, _, _ => "bad-op"
  | ["int", n, w, c] =>
    match n.toInt?, w.toNat?, c.toNat? with
    | some n, some w, some c => hexOf (rowLine w [(c, intText n)])
    | _, _, _ => "bad-op"
  | ["head", w, cols] =>
    match w.toNat?, parseCols cols with
    | some w, some cols => hexOf (headLine w cols)
    | _, _ => "bad-op"
  | ["row", w, cols] =>
    match w.toNat?, parseCols cols with
    | some w, some cols => hexOf (rowLine w cols)
    | _, _ => "bad-op"
  | ["red", m, vals] =>
    match parseRed m, (toks vals).mapM parseRat with
    | some m, some xs => match reduce m xs with
      | some q => showRat q
      | none => "none"
    | _, _ => "bad-op"
  | ["file", w, d, m, n, sS, cm, chs] =>
    match w.toNat?, d.toNat?, parseRed m, n.toNat?, (toks sS).mapM hexStr, (toks cm).mapM hexStr,
        (chs.splitOn ";").mapM parseChanF with
    | some w, some d, some m, some n, some S, some cmts, some chans => hexOf (fileText chans S m w d n cmts)
    | _, _, _, _, _, _, _ => "bad-op"
  | ["split", h] =>
    match unhex h with
    | some bs => ",".intercalate ((splitWs (chars bs)).map hexOf)
    | none => "bad-op"
  | ["parse", h] =>
    match unhex h with
    | some bs => match parseDec (chars bs) with
      | some q => showRat q
      | none => "none"
    | none => "bad-op"
  | _ => "bad-op"

def main : IO Unit := run step
