import TD.Common.Proto
import TD.C18.Model
open TD TD.C18 TD.Proto

/-- code points, comma separated; "-" is the empty string -/
def parseCps (s : String) : Option Str :=
  if s = "-" then some [] else
  (s.splitOn ",").mapM (fun t => match t.toNat? with
    | some n => if n < 0x110000 && !(0xD800 ≤ n && n ≤ 0xDFFF) then some (Char.ofNat n) else none
    | none => none)

def showCps (s : Str) : String :=
  if s.isEmpty then "-" else ",".intercalate (s.map (fun c => toString c.toNat))

def showErr : Err → String
  | .endElement => "err EndElement"
  | .assertion => "err Assertion"
  | .xmlError => "err Xml"

/-- merge adjacent character events into text events -/
def showEvents (evs : List Event) : String :=
  let rec go : List Event → Str → List String → List String
    | [], txt, acc => (if txt.isEmpty then acc else ("t:" ++ showCps txt.reverse) :: acc).reverse
    | .chr c :: r, txt, acc => go r (c :: txt) acc
    | e :: r, txt, acc =>
      let acc := if txt.isEmpty then acc else ("t:" ++ showCps txt.reverse) :: acc
      let s := match e with
        | .start n as => ":".intercalate (("s:" ++ showCps n) :: (sortAttrs as).flatMap (fun kv => [showCps kv.1, showCps kv.2]))
        | .stop n => "e:" ++ showCps n
        | .comment t => "m:" ++ showCps t
        | .pi t d => "p:" ++ showCps t ++ ":" ++ showCps d
        | .doctype _ => ""
        | .chr _ => ""
      go r [] (if s.isEmpty then acc else s :: acc)
  "|".intercalate (go evs [] [])

def parseAttrs : List String → Option (List (Str × Str))
  | [] => some []
  | [_] => none
  | k :: v :: r => do
    let k ← parseCps k
    let v ← parseCps v
    let rest ← parseAttrs r
    pure ((k, v) :: rest)

def parseOp (tok : String) : Option Op :=
  match tok.splitOn ":" with
  | "s" :: name :: attrs => do
    let n ← parseCps name
    let a ← parseAttrs attrs
    pure (.start n a)
  | ["c", s] => (parseCps s).map .chars
  | ["l", s] => (parseCps s).map .literal
  | ["m", s] => (parseCps s).map .comment
  | ["p", s] => (parseCps s).map .pi
  | ["e", s] => (parseCps s).map .stop
  | ["b", s] => (parseCps s).map .charsBr
  | ["x"] => some .spacePreserve
  | _ => none

def showParse (doc : Str) : String :=
  match parse doc with
  | some evs => s!"wf=1 ev={showEvents evs}"
  | none => "wf=0 ev="

def showOptCps : Option Str → String
  | some s => showCps s
  | none => "N"

def parseInts (s : String) : Option (List Int) :=
  if s = "-" then some [] else (s.splitOn ",").mapM String.toInt?

def step (line : String) : String :=
  match line.splitOn " " with
  | ["xmlenc", s] =>
    match parseCps s with
    | some s =>
      let e := encodeL s
      s!"e={showCps e} x={if s.all xmlChar then 1 else 0} t={showOptCps (decodeText e)} a={showOptCps (decodeAttr e)}"
    | none => "bad-op"
  | "xmlrun" :: kind :: enc :: ops =>
    match (if kind = "X" then some Kind.xml else if kind = "H" then some Kind.xhtml else none), parseCps enc, ops.mapM parseOp with
    | some k, some enc, some ops =>
      match document k enc ops with
      | .ok doc => s!"ok {showCps doc} {showParse doc}"
      | .error e => showErr e
    | _, _, _ => "bad-op"
  | ["xmlwf", s] =>
    match parseCps s with
    | some s => showParse s
    | none => "bad-op"
  | ["rle", hex, xs] =>
    match parseInts xs with
    | some xs =>
      let hex := hex = "1"
      let items := rleCreate xs
      let attrs := items.map (rleAttrs hex)
      let showItem (it : RItem) := s!"{it.datum}:{it.stride}:{it.repeat_}"
      let showAttr (a : List (Str × Str)) := "/".intercalate (a.map (fun kv => String.ofList kv.2))
      let doc := document .xml "utf-8".toList (rleOps hex "R".toList items)
      let docS := match doc with
        | .ok d => s!"{showCps d} {showParse d}"
        | .error e => showErr e
      s!"items={";".intercalate (items.map showItem)} attrs={";".intercalate (attrs.map showAttr)} expand={match expand attrs with | some l => joinInts l | none => "N"} doc={docS}"
    | none => "bad-op"
  | _ => "bad-op"

def main : IO Unit := run step
