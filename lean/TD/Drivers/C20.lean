import TD.Common.Proto
import TD.C20.Model
import TD.C20.LisTest
open TD TD.C20 TD.Proto

def lisOf : String → Option LisRes
  | "-" => some .none
  | "LIS" => some .lis
  | "LISt" => some .list
  | "LIStr" => some .listr
  | _ => none

def showCode (s : String) : String := if s.isEmpty then "-" else s

/-- `ftype <hex> <dat: 0|1> <lis: -|LIS|LISt|LIStr>` : identify with the deep tests' results supplied by the caller.
    `sub <hex>` : every modelled sub-test (in table order, deep tests shown as `?`). -/
def step (line : String) : String :=
  match line.splitOn " " with
  | ["ftype", h, d, l] =>
    match unhex h, lisOf l with
    | some bs, some lr => showCode (identify (fun _ => lr) (fun _ => d == "1") bs)
    | _, _ => "bad-op"
  | ["lis", h] =>
    match unhex h with
    | some bs => if lisTestInScope bs then showCode (lisTest bs).code else "?"
    | none => "bad-op"
  | ["sub", h] =>
    match unhex h with
    | some bs =>
      ",".intercalate (Gen.tests.map (fun t =>
        match t.2.1 with
        | .lis => "?"
        | .dat => if bs.all (fun c => decide (c < 128)) then "?" else "-"
        | k => showCode (runTest (fun _ => .none) (fun _ => false) k bs)))
    | none => "bad-op"
  | _ => "bad-op"

def main : IO Unit := run step
