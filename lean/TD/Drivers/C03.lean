import TD.Common.Proto
import TD.C03.Model
import TD.C03.Spec
open TD TD.C03 TD.Proto

/-! Line-protocol driver for C03.

Requests (tokens separated by one space):
* `eflr <hex>`                      → `ok <table-out>` | `err <Err>`           (model reader)
* `enc <table-in> <choices>`        → `<hex>`                                   (spec encoder)
* `wf <table-in>`                   → `1` | `0`
* `lfiles <n> {<enc> <eflr> <type> <hex>}` → `ok <files-out>` | `err <Err>`    (model index)
* `encfiles <n> {item}`             → `<n> {<enc> <eflr> <type> <hex>}`        (spec layout)

table-in  := <stype> <sname> <ncols> {<inv> attr} <nrows> {<o> <c> <ident> <ncells> {attr}}
attr      := <label> <count> <rc> <units> (N | V<k> {val})
val       := i<int> | w<code>.<nat> | b<hex> | d<y>,<tz>,<mo>,<d>,<h>,<mi>,<s>,<ms> | o<o>,<c>,<hex> | r<hex>,<o>,<c>,<hex>
table-out := the same with `w<nat>` replaced by the number Python computes: f<+|-><m>e<e> | fnan | f<+|->inf
choices   := <setRole> <omitName> <ncols> {flags} <nrows> {<k> {flags}}      flags = 7 chars 0/1: L C R U V absent stop
-/

abbrev P := StateT (List String) Option

def tok : P String := do
  match (← get) with
  | [] => failure
  | t :: ts => set ts; pure t

def pNat : P Nat := do let t ← tok; match t.toNat? with | some n => pure n | none => failure
def pHex : P Bytes := do let t ← tok; match unhex t with | some b => pure b | none => failure
def pBool : P Bool := do let t ← tok; pure (t = "1")

def pRep {α} (p : P α) : Nat → P (List α)
  | 0 => pure []
  | n + 1 => do let a ← p; let r ← pRep p n; pure (a :: r)

def natsOf (s : String) : Option (List String) := some (s.splitOn ",")

def pVal : P Value := do
  let t ← tok
  let body := (t.drop 1).toString
  match t.front with
  | 'i' => match body.toInt? with | some v => pure (.int v) | none => failure
  | 'w' => match (body.splitOn ".").map String.toNat? with
    | [some c, some v] => pure (.word c v)
    | _ => failure
  | 'b' => match unhex body with | some b => pure (.bytes b) | none => failure
  | 'd' => match (body.splitOn ",").map String.toNat? with
    | [some y, some tz, some mo, some d, some h, some mi, some s, some ms] => pure (.dtime y tz mo d h mi s ms)
    | _ => failure
  | 'o' => match body.splitOn "," with
    | [o, c, i] => match o.toNat?, c.toNat?, unhex i with
      | some o, some c, some i => pure (.obname o c i)
      | _, _, _ => failure
    | _ => failure
  | 'r' => match body.splitOn "," with
    | [t, o, c, i] => match unhex t, o.toNat?, c.toNat?, unhex i with
      | some t, some o, some c, some i => pure (.objref t o c i)
      | _, _, _, _ => failure
    | _ => failure
  | _ => failure

def pAttr : P Attr := do
  let label ← pHex; let count ← pNat; let rc ← pNat; let units ← pHex
  let t ← tok
  if t = "N" then pure ⟨label, count, rc, units, none⟩ else
  match ((t.drop 1).toString).toNat? with
  | some k => do let vs ← pRep pVal k; pure ⟨label, count, rc, units, some vs⟩
  | none => failure

def pTable : P Table := do
  let stype ← pHex; let sname ← pHex
  let nc ← pNat
  let cols ← pRep (do let inv ← pBool; let a ← pAttr; pure (⟨inv, a⟩ : Column)) nc
  let nr ← pNat
  let rows ← pRep (do
    let o ← pNat; let c ← pNat; let i ← pHex; let k ← pNat
    let cells ← pRep pAttr k
    pure (⟨⟨o, c, i⟩, cells⟩ : Row)) nr
  pure ⟨stype, sname, cols, rows⟩

def pFlags : P AttrChoice := do
  let t ← tok
  match t.toList.map (fun ch => decide (ch = '1')) with
  | [l, c, r, u, v, a, s] => pure ⟨l, c, r, u, v, a, s⟩
  | _ => failure

def pChoices : P Choices := do
  let sr ← pNat; let on ← pBool
  let nc ← pNat; let cols ← pRep pFlags nc
  let nr ← pNat; let rows ← pRep (do let k ← pNat; pRep pFlags k) nr
  pure ⟨sr, on, cols, rows⟩

def pRec : P Rec := do
  let e ← pBool; let x ← pBool; let ty ← pNat; let b ← pHex
  pure ⟨e, x, ty, b⟩

def pItem : P (Item × ItemLayout) := do
  let k ← tok
  let ty ← pNat
  let nj ← pNat
  let junk ← pRep (do let x ← pBool; let jt ← pNat; let b ← pHex; pure (⟨true, x, jt, b⟩ : Rec)) nj
  if k = "E" then do
    let t ← pTable; let ch ← pChoices
    pure (.eflr ty t, ⟨junk, ch⟩)
  else do
    let o ← pNat; let c ← pNat; let i ← pHex; let f ← pNat; let d ← pHex
    pure (.iflr ty ⟨o, c, i⟩ f d, ⟨junk, {}⟩)

/-! output -/

def showErr : Err → String
  | .index => "err IndexError"
  | .compDesc => "err ExceptionComponentDescriptorInit"
  | .eflrSet => "err ExceptionEFLRSet"
  | .eflrTemplate => "err ExceptionEFLRTemplate"
  | .eflrTemplateDup => "err ExceptionEFLRTemplateDuplicateLabel"
  | .eflrObject => "err ExceptionEFLRObject"
  | .eflrObjectDup => "err ExceptionEFLRObjectDuplicateLabel"
  | .repCode => "err ExceptionRepCode"
  | .lfCtor => "err ExceptionLogicalFileCtor"
  | .lfAdd => "err ExceptionLogicalFileAdd"
  | .lfMissing => "err ExceptionLogicalFileMissingData"
  | .liCtor => "err ExceptionLogicalIndexCtor"

def showF : FVal → String
  | .nan => "fnan"
  | .inf neg => if neg then "f-inf" else "f+inf"
  | .fin neg m e => s!"f{if neg then "-" else "+"}{m}e{e}"

def showVal (_rc : Nat) : Value → String
  | .int v => s!"i{v}"
  | .word c w => showF (floatVal c w)
  | .bytes b => s!"b{hex b}"
  | .dtime y tz mo d h mi s ms => s!"d{y},{tz},{mo},{d},{h},{mi},{s},{ms}"
  | .obname o c i => s!"o{o},{c},{hex i}"
  | .objref t o c i => s!"r{hex t},{o},{c},{hex i}"

def showAttr (a : Attr) : String :=
  s!"{hex a.label} {a.count} {a.rc} {hex a.units} " ++
  match a.value with
  | none => "N"
  | some vs => " ".intercalate (s!"V{vs.length}" :: vs.map (showVal a.rc))

def showTable (t : Table) : String :=
  " ".intercalate ([hex t.stype, hex t.sname, toString t.cols.length] ++
    t.cols.map (fun c => (if c.inv then "1 " else "0 ") ++ showAttr c.attr) ++ [toString t.rows.length] ++
    t.rows.map (fun r => " ".intercalate ([toString r.name.o, toString r.name.c, hex r.name.i, toString r.cells.length]
      ++ r.cells.map showAttr)))

def showRec (r : Rec) : String :=
  s!"{if r.encrypted then 1 else 0} {if r.isEflr then 1 else 0} {r.lrType} {hex r.payload}"

def showLFile (lf : LFile) : String :=
  " ".intercalate (["F", toString lf.eflrs.length] ++ lf.eflrs.map (fun e => s!"{e.1} {e.2.1} {showTable e.2.2}") ++
    [if lf.hasChannel then "1" else "0", if lf.hasFrame then "1" else "0", toString lf.iflrs.length] ++
    lf.iflrs.map (fun e => s!"{e.1} {e.2.1.o} {e.2.1.c} {hex e.2.1.i} {e.2.2}"))

def step (line : String) : String :=
  match line.splitOn " " with
  | ["eflr", h] =>
    match unhex h with
    | some bs => match readEflr bs with
      | .ok t => "ok " ++ showTable t
      | .error e => showErr e
    | none => "bad-op"
  | "enc" :: rest =>
    match (do let t ← pTable; let c ← pChoices; pure (t, c)).run rest with
    | some ((t, c), []) => hex (encodeEflr t c)
    | _ => "bad-op"
  | "wf" :: rest =>
    match pTable.run rest with
    | some (t, []) => if decide t.wf then "1" else "0"
    | _ => "bad-op"
  | "lfiles" :: rest =>
    match (do let n ← pNat; pRep pRec n).run rest with
    | some (recs, []) => match indexRecs (recs.zipIdx.map (fun p => (p.2, p.1))) with
      | .ok fs => " ".intercalate (["ok", toString fs.length] ++ fs.map showLFile)
      | .error e => showErr e
    | _ => "bad-op"
  | "encfiles" :: rest =>
    match (do let n ← pNat; let tr ← pNat; let its ← pRep pItem n
              let trailer ← pRep (do let x ← pBool; let jt ← pNat; let b ← pHex; pure (⟨true, x, jt, b⟩ : Rec)) tr
              pure (its, trailer)).run rest with
    | some ((its, trailer), []) =>
      let recs := encodeLogicalFiles [its.map Prod.fst] (its.map Prod.snd) trailer
      " ".intercalate (toString recs.length :: recs.map showRec)
    | _ => "bad-op"
  | _ => "bad-op"

def main : IO Unit := run step
