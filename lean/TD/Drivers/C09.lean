import TD.Common.Proto
import TD.C09.Model
import TD.C09.Spec
open TD TD.C09 TD.Proto

/-! Line-protocol driver for C09.

Requests (tokens separated by one blank; strings are lowercase hex of the ASCII bytes, `-` = empty):
  parse <hex text>                      → JSON of `parse text`
  print <content tokens> <layout tokens> → `<hex text> wf=<0|1> thm=<0|1>`  (thm: parse (print c ℓ) = ok (toFile c))
  expect <content tokens>               → JSON of `toFile c`
  val <hex>                             → JSON of `stringToValue`
  sline <hex>                           → JSON of `lineToSectLine (strip s)`
  split <hex>                           → JSON list of hex tokens (`str.split()`)
  lines <hex>                           → JSON list of hex lines delivered by `generate_lines`
-/

def strOfHex (h : String) : Option Str := (unhex h).map (·.map Char.ofNat)
def hexOfStr (s : Str) : String := hex (s.map Char.toNat)

def jStr (s : Str) : String := "\"" ++ (if s.isEmpty then "" else hexOfStr s) ++ "\""

def jValue : Value → String
  | .int i => s!"[\"i\",{i}]"
  | .float m e => s!"[\"f\",{m},{e}]"
  | .bool b => if b then "[\"b\",1]" else "[\"b\",0]"
  | .text s => s!"[\"t\",{jStr s}]"

def jList (l : List String) : String := "[" ++ ",".intercalate l ++ "]"

def jSectLine (l : SectLine) : String := jList ["\"L\"", jValue l.mnem, jValue l.unit, jValue l.valu, jValue l.desc]

def jMember : Member → String
  | .line l => jSectLine l
  | .raw s => jList ["\"R\"", jStr s]

def jSection (s : Section) : String := jList [jStr [s.typ], jList (s.members.map jMember)]

def jCell : Cell → String
  | .num m e => s!"[{m},{e}]"
  | .null => "null"

def jArray : Option ArrayData → String
  | none => "null"
  | some a => "{\"names\":" ++ jList (a.names.map (fun n => jList [jValue n.1, jValue n.2])) ++
      s!",\"null\":[{a.null.1},{a.null.2}]" ++
      ",\"frames\":" ++ jList (a.frames.map (fun r => jList (r.map jCell))) ++
      ",\"mask\":" ++ jList ((maskOf a).map (fun r => jList (r.map (fun b => if b then "1" else "0")))) ++ "}"

def jFile (f : LasFile) : String :=
  "{\"ok\":{\"sections\":" ++ jList (f.sections.map jSection) ++ ",\"array\":" ++ jArray f.array ++ "}}"

def errClass : Err → String
  | .noDot | .noColon | .decompose | .vRules | .dupChannel => "ExceptionLASReadSection"
  | .versionFirst | .nonVersionFirst | .dupSection | .noCurve | .userNoV | .userAfterA | .sectAfterArray
  | .columns | .dupX => "ExceptionLASRead"
  | .wrapIndex | .wrapOverflow | .bufferLen => "ExceptionLASReadSectionArray"
  | .unsupported => "unsupported"

def jErr (e : Err) : String := "{\"err\":\"" ++ errClass e ++ "\",\"kind\":\"" ++ (reprStr e) ++ "\"}"

def jResult : Except Err LasFile → String
  | .ok f => jFile f
  | .error e => jErr e

/-! token reader -/
abbrev P (α : Type) := List String → Option (α × List String)

def pNat : P Nat := fun ts => match ts with | t :: r => t.toNat?.map (·, r) | [] => none
def pInt : P Int := fun ts => match ts with | t :: r => t.toInt?.map (·, r) | [] => none
def pStr : P Str := fun ts => match ts with | t :: r => (strOfHex t).map (·, r) | [] => none
def pBools : P (List Bool) := fun ts => match ts with
  | t :: r => if t = "-" then some ([], r) else some (t.toList.map (· == '1'), r)
  | [] => none

def pRep {α : Type} (p : P α) : Nat → P (List α)
  | 0 => fun ts => some ([], ts)
  | n + 1 => fun ts => match p ts with
    | some (a, r) => match pRep p n r with
      | some (l, r') => some (a :: l, r')
      | none => none
    | none => none

def pList {α : Type} (p : P α) : P (List α) := fun ts => match pNat ts with
  | some (n, r) => pRep p n r
  | none => none

def pValue : P Value := fun ts => match ts with
  | "i" :: r => (pInt r).map (fun (i, r) => (.int i, r))
  | "f" :: r => match pInt r with
    | some (m, r) => (pInt r).map (fun (e, r) => (.float m e, r))
    | none => none
  | "b" :: r => (pNat r).map (fun (b, r) => (.bool (b != 0), r))
  | "t" :: r => (pStr r).map (fun (s, r) => (.text s, r))
  | _ => none

def pHLine : P HLine := fun ts => do
  let (m, r) ← pStr ts
  let (u, r) ← pStr r
  let (v, r) ← pValue r
  let (d, r) ← pStr r
  pure (⟨m, u, v, d⟩, r)

def pChar : P Char := fun ts => match pStr ts with
  | some ([c], r) => some (c, r)
  | _ => none

def pSect : P CSect := fun ts => match ts with
  | "H" :: r => do
    let (t, r) ← pChar r
    let (ls, r) ← pList pHLine r
    pure (.hdr t ls, r)
  | "T" :: r => do
    let (t, r) ← pChar r
    let (ls, r) ← pList pStr r
    pure (.txt t ls, r)
  | _ => none

def pCell : P DCell := fun ts => match ts with
  | "n" :: r => match pInt r with
    | some (m, r) => (pInt r).map (fun (e, r) => (.num m e, r))
    | none => none
  | "x" :: r => (pStr r).map (fun (s, r) => (.bad s, r))
  | "l" :: r => match pStr r with
    | some (s, r) => match pInt r with
      | some (m, r) => (pInt r).map (fun (e, r) => (.lit s m e, r))
      | none => none
    | none => none
  | _ => none

def pContent : P LasContent := fun ts => do
  let (v, r) ← pList pHLine ts
  let (s, r) ← pList pSect r
  let (f, r) ← pList (pList pCell) r
  pure (⟨v, s, f⟩, r)

def pJunkLine : P JunkLine := fun ts => match ts with
  | "b" :: r => some (.blank, r)
  | "c" :: r => match pNat r with
    | some (n, r) => (pStr r).map (fun (s, r) => (.comment n s, r))
    | none => none
  | _ => none

def pHPad : P HPad := fun ts => do
  let (j, r) ← pList pJunkLine ts
  let (lead, r) ← pNat r
  let (a, r) ← pNat r
  let (b, r) ← pNat r
  let (c, r) ← pNat r
  let (d, r) ← pNat r
  let (e, r) ← pNat r
  let (k, r) ← pNat r
  pure (⟨j, lead, a, b, c, d, e, k⟩, r)

def pSectLay : P SectLay := fun ts => do
  let (j, r) ← pList pJunkLine ts
  let (lead, r) ← pNat r
  let (t, r) ← pStr r
  let (ls, r) ← pList pHPad r
  pure (⟨j, lead, t, ls⟩, r)

def pRowLay : P RowLay := fun ts => do
  let (j, r) ← pList pJunkLine ts
  let (lead, r) ← pBools r
  let (seps, r) ← pList pBools r
  let (trail, r) ← pBools r
  let (k, r) ← pNat r
  let (pl, r) ← pNat r
  pure (⟨j, lead, seps, trail, k, pl⟩, r)

def pLayout : P LasLayout := fun ts => do
  let (v, r) ← pSectLay ts
  let (s, r) ← pList pSectLay r
  let (a, r) ← pSectLay r
  let (rows, r) ← pList pRowLay r
  let (tail, r) ← pList pJunkLine r
  pure (⟨v, s, a, rows, tail⟩, r)

def b01 (b : Bool) : String := if b then "1" else "0"

def jSectLineResult : Except Err SectLine → String
  | .ok l => "{\"ok\":" ++ jSectLine l ++ "}"
  | .error e => jErr e

def step (line : String) : String :=
  match line.splitOn " " with
  | ["parse", h] =>
    match strOfHex h with
    | some s => jResult (parse s)
    | none => "bad-op"
  | "print" :: ts =>
    match pContent ts with
    | some (c, r) =>
      match pLayout r with
      | some (l, []) =>
        let text := print c l
        hexOfStr text ++ " wf=" ++ b01 (wfContent c) ++ " thm=" ++ b01 (match parse text with | .ok f => f == toFile c | .error _ => false)
      | _ => "bad-op"
    | none => "bad-op"
  | "expect" :: ts =>
    match pContent ts with
    | some (c, []) => jFile (toFile c)
    | _ => "bad-op"
  | ["val", h] =>
    match strOfHex h with
    | some s => jValue (stringToValue s)
    | none => "bad-op"
  | ["sline", h] =>
    match strOfHex h with
    | some s => jSectLineResult (lineToSectLine (strip s))
    | none => "bad-op"
  | ["split", h] =>
    match strOfHex h with
    | some s => jList ((splitWs s).map jStr)
    | none => "bad-op"
  | ["lines", h] =>
    match strOfHex h with
    | some s => jList ((genLines s).map jStr)
    | none => "bad-op"
  | _ => "bad-op"

def main : IO Unit := run step
