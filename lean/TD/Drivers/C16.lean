import TD.Common.Proto
import TD.C16.Model
open TD TD.C16 TD.Proto

/-
Requests (ints as csv, `-` = empty list):
  rle <xs> <indices> <queries>
     → items=d:s:r;… n=<num_values> first=<v|N> last=<v|N> vals=<csv> at=<v|I,…> le=<v|V,…>
  frle <xs>            floats given as integer multiples of 1/1024 (exactly representable, so float arithmetic is exact)
     → items=d:s:r;… n=<num_values> vals=<csv>      (all in units of 1/1024)
  t01 <p:n:x;…> <frames>
     → items=d:s:r:nf:xd/xs/xr+…;… total=<n> tell=<pos:off|I|Z|A,…>
-/

def showErr : Err → String
  | .valueError => "V"
  | .indexError => "I"
  | .zeroDivision => "Z"
  | .assertion => "A"

def csvInts (s : String) : Option (List Int) :=
  if s = "-" then some [] else (s.splitOn ",").mapM String.toInt?

def showExc (r : Except Err Int) : String :=
  match r with
  | .ok v => toString v
  | .error e => showErr e

def orDash (s : String) : String := if s.isEmpty then "-" else s

def showItem (it : Item) : String := s!"{it.datum}:{it.stride}:{it.rep}"

def showItem01 (it : Item01) : String :=
  s!"{showItem it.base}:{it.numFrames}:" ++ "+".intercalate (it.xaxis.map (fun x => s!"{x.datum}/{x.stride}/{x.rep}"))

def parseRec (s : String) : Option (Int × Int × Int) :=
  match s.splitOn ":" with
  | [p, n, x] => match p.toInt?, n.toInt?, x.toInt? with
    | some p, some n, some x => some (p, n, x)
    | _, _, _ => none
  | _ => none

/-- `math.isclose(a, b, rel_tol=2**-52)` (abs_tol = 0) on exact rationals. -/
def isclose (a b : Rat) : Bool :=
  let eps : Rat := 1 / 4503599627370496
  let diff := if a - b < 0 then b - a else a - b
  let absr (x : Rat) : Rat := if x < 0 then -x else x
  a == b || decide (diff ≤ absr (eps * b)) || decide (diff ≤ absr (eps * a))

def showUnits (q : Rat) : String :=
  let r := q * 1024
  if r.den = 1 then toString r.num else s!"{r.num}/{r.den}"

def step (line : String) : String :=
  match line.splitOn " " with
  | ["rle", xs, idx, qs] =>
    match csvInts xs, csvInts idx, csvInts qs with
    | some xs, some idx, some qs =>
      let items := create xs
      let its := orDash (";".intercalate (items.map showItem))
      let at_ := orDash (",".intercalate (idx.map (fun i => showExc (rleValue items i))))
      let le := orDash (",".intercalate (qs.map (fun q => showExc (rleLargestLe items q))))
      s!"items={its} n={numValues items} first={showOptInt (rleFirst items)} last={showOptInt (rleLast items)} vals={orDash (joinInts (rleValues items))} at={at_} le={le}"
    | _, _, _ => "bad-op"
  | ["frle", xs] =>
    match csvInts xs with
    | some xs =>
      let items := F.create isclose (xs.map (fun (n : Int) => (n : Rat) / 1024))
      let its := orDash (";".intercalate (items.map (fun it => s!"{showUnits it.datum}:{showUnits it.stride}:{it.rep}")))
      s!"items={its} n={F.numValues items} vals={orDash (",".intercalate ((F.rleValues items).map showUnits))}"
    | none => "bad-op"
  | ["t01", recs, frames] =>
    match (if recs = "-" then some [] else (recs.splitOn ";").mapM parseRec), csvInts frames with
    | some recs, some frames =>
      let items := create01 recs
      let its := orDash (";".intercalate (items.map showItem01))
      let tl := orDash (",".intercalate (frames.map (fun f =>
        match tell01 items f with
        | .ok (p, o) => s!"{p}:{o}"
        | .error e => showErr e)))
      s!"items={its} total={totalFrames01 items} tell={tl}"
    | _, _ => "bad-op"
  | _ => "bad-op"

def main : IO Unit := run step
