import TD.Common.Proto
import TD.C06.Model
import TD.C06.Spec
open TD TD.C06 TD.Proto

/-!
Line protocol of the C06 model driver.

`case R <tell>:<hex> … L <lp>;<sl>;<chans> …`
   index the logical records (hex = whole logical record, header included), then apply the loads in order to the
   `<lp>`-th log pass.  `<sl>` = `N` or `start,stop,step` (0 = None for start/step); `<chans>` = `N`, `-` or `a,b,…`.
   reply: `I <entries>` then one ` | L …` section per load.
`plan <indr> <sizes,…> <start> <stop> <step> <chans>`   → the `genEvents` tuples.
`encdfsr …` / `encrec …`                                 → the Spec encoder (see Spec.lean).
-/

def showErr (e : Err) : String := "err " ++ (match e with
  | .negLen => "negLen" | .fracFrames => "fracFrames" | .overrun => "overrun" | .indexError => "indexError"
  | .logPass => "logPass" | .logPassCtor => "logPassCtor" | .zeroDiv => "zeroDiv" | .frameSet => "frameSet"
  | .fileRead => "fileRead" | .repCode => "repCode" | .lr => "lr" | .dsb => "dsb" | .cbInit => "cbInit"
  | .assertion => "assertion" | .typeError => "typeError" | .unsupported => "unsupported")

def showKind : Kind → String
  | .table => "TB" | .none_ => "NO" | .unknownFmt => "UF" | .fileHead => "FH" | .fileTail => "FT"
  | .tapeHead => "TH" | .tapeTail => "TT" | .reelHead => "RH" | .reelTail => "RT" | .logPass => "LP"

def showEbVal : EbVal → String
  | .none => "n"
  | .int v => s!"i{v}"
  | .bytes b => "b" ++ hex b
  | .other rc w => s!"o{rc}.{w}"

def showFrac : Option (Int × Nat) → String
  | none => "N"
  | some (n, d) => s!"{n}/{d}"

def showOI : Option Int → String
  | none => "N"
  | some v => toString v

def showON : Option Nat → String
  | none => "N"
  | some v => toString v

def showItem (it : Item01) : String :=
  s!"{it.pos.datum},{it.pos.stride},{it.pos.rep},{it.numFrames}"

def showEntry (e : Entry) : String :=
  let base := s!"{e.tell}:{e.lrType}:{showKind e.kind}"
  match e.kind, e.name, e.logPass with
  | .table, some v, _ => base ++ ":" ++ showEbVal v
  | .logPass, _, some lp =>
    base ++ s!":n={rle01Total lp.rle}:x0={showOI (rle01XFirst lp.rle)}:xl={showFrac (rle01XLastFrame lp.rle)}"
      ++ s!":sp={showFrac (rle01Spacing lp.rle)}:rle={";".intercalate (lp.rle.map showItem)}"
      ++ s!":plan={lp.plan.indr},{joinNats lp.plan.sizes}"
  | _, _, _ => base

def showOp : Op → String
  | .seek t => s!"S{t}"
  | .read _ o n => s!"R{o}+{n}"
  | .skip n => s!"K{n}"

def showRow (r : List (Option Nat)) : String :=
  ",".intercalate (r.map (fun c => match c with | some w => toString w | none => "U"))

def showLoad (fs : FrameSet) (ops : List Op) : String :=
  s!"L ok n={fs.nFrames} ch={joinNats fs.chIdx} M={";".intercalate (fs.frames.map showRow)}"
    ++ s!" X={",".intercalate (fs.xvec.map (fun c => match c with | some w => toString w | none => "U"))}"
    ++ s!" ops={",".intercalate (ops.map showOp)}"

def parseNats (s : String) : Option (List Nat) :=
  if s = "-" then some [] else (s.splitOn ",").mapM (·.toNat?)

def parseRec (s : String) : Option (Nat × List Nat) :=
  match s.splitOn ":" with
  | [t, h] => match t.toNat?, unhex h with
    | some t, some b => some (t, b)
    | _, _ => none
  | _ => none

structure LoadReq where
  lp : Nat
  sl : Option Sl
  chans : Option (List Nat)

def parseLoad (s : String) : Option LoadReq :=
  match s.splitOn ";" with
  | [a, b, c] =>
    match a.toNat? with
    | none => none
    | some lp =>
      let sl : Option (Option Sl) := if b = "N" then some none else
        match parseNats b with
        | some [x, y, z] => some (some ⟨x, y, z⟩)
        | _ => none
      let ch : Option (Option (List Nat)) := if c = "N" then some none else (parseNats c).map some
      match sl, ch with
      | some sl, some ch => some ⟨lp, sl, ch⟩
      | _, _ => none
  | _ => none

/-- positions (in the entry list) of the log passes -/
def lpPositions (es : List Entry) : List Nat :=
  (List.range es.length).filter (fun i => match es[i]? with | some e => e.logPass.isSome | none => false)

def runLoads (st : Store) : List LoadReq → List Entry → List String → List String
  | [], _, acc => acc.reverse
  | q :: qs, es, acc =>
    match (lpPositions es)[q.lp]? with
    | none => runLoads st qs es ("L nolp" :: acc)
    | some i =>
      match (es[i]?).bind (·.logPass) with
      | none => runLoads st qs es ("L nolp" :: acc)
      | some lp =>
        match setFrameSet lp st q.sl q.chans with
        | (lp', .error e) => runLoads st qs (updEntry es i lp') (("L " ++ showErr e) :: acc)
        | (lp', .ok ops) =>
          let out := match lp'.frameSet with | some fs => showLoad fs ops | none => "L none"
          runLoads st qs (updEntry es i lp') (out :: acc)

def splitAtTok (tok : String) (l : List String) : List String × List String :=
  (l.takeWhile (· ≠ tok), (l.dropWhile (· ≠ tok)).drop 1)

def showEv (e : Ev) : String :=
  let ty := match e.ty with | .read => "read" | .skip => "skip" | .extrap => "extrapolate" | .seekLr => "seekLr"
  s!"{ty}/{e.siz}/{showON e.fr}/{showON e.cf}/{showON e.ct}"

def step (line : String) : String :=
  match line.splitOn " " with
  | "case" :: "R" :: rest =>
    let (recToks, loadToks) := splitAtTok "L" rest
    match recToks.mapM parseRec, loadToks.mapM parseLoad with
    | some recs, some loads =>
      match fileIndex recs with
      | .error e => "I " ++ showErr e
      | .ok es =>
        let idx := "I " ++ " ".intercalate (es.map showEntry)
        " | ".intercalate (idx :: runLoads recs loads es [])
    | _, _ => "bad-op"
  | ["plan", indr, sizes, a, b, c, chans] =>
    match indr.toNat?, parseNats sizes, a.toNat?, b.toNat?, c.toNat?, parseNats chans with
    | some indr, some sizes, some a, some b, some c, some chans =>
      match genEvents ⟨indr, sizes⟩ a b c chans with
      | .error e => showErr e
      | .ok evs => "ok " ++ " ".intercalate (evs.map showEv)
    | _, _, _, _, _, _ => "bad-op"
  | "encdfsr" :: rest => Spec.encDfsrCmd rest
  | "encrec" :: rest => Spec.encRecCmd rest
  | _ => "bad-op"

def main : IO Unit := run step
