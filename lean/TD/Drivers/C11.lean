import TD.Common.Proto
import TD.C11.Model
import TD.C15.Model
open TD TD.C15 TD.C11 TD.Proto

/-
Requests (`N` = None):
  conv_slice  <start> <stop> <step> <n>   rows written by the LIS / BIT converters for a Slice  (xs[first : last+1 : step])
      → ok rows=<csv|->            | err ValueError
  conv_sample <s> <n>                      … for a Sample(s)
      → ok rows=<csv|->
  bit_slice   <start> <stop> <step> <n>   what the BIT converter does (count gate, IndexError on empty sliced arrays)
      → ok rows=<csv|-> | ok indexerror | err ValueError
  lis_slice   <start> <stop> <step> <n> <fpr csv>   what the LIS converter does (frames per data record given)
      → ok rows=<csv|-> | ok planerror  | err ValueError
  rp66_slice  <start> <stop> <step> <n>   rows written by the RP66V1 converter + indices whose X is printed as STRT / STOP
      → ok rows=<csv|-> strt=<i> stop=<i>
  rp66_sample <s> <n>
      → ok rows=<csv|-> strt=<i> stop=<i>
-/

def showErr : Err → String
  | .valueError => "err ValueError"
  | .typeError => "err TypeError"

def orDash (s : String) : String := if s.isEmpty then "-" else s

def step (line : String) : String :=
  match line.splitOn " " with
  | ["conv_slice", a, b, c, n] =>
    match optInt a, optInt b, optInt c, n.toNat? with
    | some a, some b, some c, some n =>
      match convRowsSlice a b c n with
      | .ok l => s!"ok rows={orDash (joinInts l)}"
      | .error e => showErr e
    | _, _, _, _ => "bad-op"
  | ["bit_slice", a, b, c, n] =>
    match optInt a, optInt b, optInt c, n.toNat? with
    | some a, some b, some c, some n =>
      match bitOutSlice a b c n with
      | .ok (.rows l) => s!"ok rows={orDash (joinInts l)}"
      | .ok .indexError => "ok indexerror"
      | .error e => showErr e
    | _, _, _, _ => "bad-op"
  | ["lis_slice", a, b, c, n, fpr] =>
    match optInt a, optInt b, optInt c, n.toNat?, (if fpr = "-" then some [] else (fpr.splitOn ",").mapM String.toNat?) with
    | some a, some b, some c, some n, some fpr =>
      match lisOutSlice fpr a b c n with
      | .ok (.rows l) => s!"ok rows={orDash (joinInts l)}"
      | .ok .planError => "ok planerror"
      | .error e => showErr e
    | _, _, _, _, _ => "bad-op"
  | ["conv_sample", s, n] =>
    match s.toNat?, n.toNat? with
    | some s, some n =>
      if s < 1 then "err ValueError" else
      match convRowsSample n s with
      | .ok l => s!"ok rows={orDash (joinInts l)}"
      | .error e => showErr e
    | _, _ => "bad-op"
  | ["rp66_slice", a, b, c, n] =>
    match optInt a, optInt b, optInt c, n.toNat? with
    | some a, some b, some c, some n =>
      match rp66RowsSlice a b c n, sliceFirst a b c n, rp66StopIndexSlice a b c n with
      | .ok l, .ok f, .ok st => s!"ok rows={orDash (joinInts l)} strt={f} stop={st}"
      | .error e, _, _ => showErr e
      | _, _, _ => "bad-state"
    | _, _, _, _ => "bad-op"
  | ["rp66_sample", s, n] =>
    match s.toNat?, n.toNat? with
    | some s, some n =>
      if s < 1 then "err ValueError" else
      s!"ok rows={orDash (joinNats (rp66RowsSample n s))} strt={sampleFirst n s} stop={rp66StopIndexSample n s}"
    | _, _ => "bad-op"
  | _ => "bad-op"

def main : IO Unit := run step
