import TD.Common.Proto
import TD.C01.Model
import TD.C01.Spec
import TD.C01.Wire
open TD TD.C01 TD.Proto

/-!
Line protocol of the C01 driver.

* `enc <sul> <recs>` → `ok <layout conformant 0|1> <label conformant 0|1> <hex of encode sul recs layout>`
    sul  = `seq:seqFillHex:verHex:maxLen:maxFillHex:identHex`
    recs = `-` or `rec;rec;…`, rec = `E|I,type,payloadHex,seg/seg/…`,
    seg  = `n:pad:fill:chk:trl:enc:pkt:vr` (chk = `N` or 4 hex digits, trl/enc/pkt = 0|1, vr = `N` or the length)
* `iter <hex>` → `<ok|err:Class> <recs>` with recs = `-` or `E|I,type,payloadHex;…`  (model of iter_logical_records)
* `sul <hex>`  → `ok seq verHex structHex maxLen identHex` | `err`                     (model of StorageUnitLabel)
-/

namespace TD.C01.Drv

def step (line : String) : String :=
  match line.splitOn " " with
  | ["enc", sul, recs] =>
    match parseSul sul, parseRecs recs with
    | some s, some (rs, ℓ) => s!"ok {b01 (ℓ.conformant rs)} {b01 s.conformant} {hex (encode s rs ℓ)}"
    | _, _ => "bad-op"
  | ["iter", h] =>
    match unhex h with
    | some b =>
      let (rs, st) := iterLR b
      let stS := match st with
        | none => "ok"
        | some e => "err:" ++ errName e
      s!"{stS} {showRecs rs}"
    | none => "bad-op"
  | ["sul", h] =>
    match unhex h with
    | some b =>
      match sulParse b with
      | some s => s!"ok {s.seq} {hex s.version} {hex s.structure_} {s.maxLen} {hex s.ident}"
      | none => "err"
    | none => "bad-op"
  | _ => "bad-op"

end TD.C01.Drv

def main : IO Unit := run TD.C01.Drv.step
