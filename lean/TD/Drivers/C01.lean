import TD.Common.Proto
import TD.C01.Model
import TD.C01.Spec
import TD.C01.Wire
import TD.C01.ObjModel
open TD TD.C01 TD.Proto

/-!
Line protocol of the C01 driver.

* `enc <sul> <recs>` → `ok <layout conformant 0|1> <label conformant 0|1> <hex of encode sul recs layout>`
    sul  = `seq:seqFillHex:verHex:maxLen:maxFillHex:identHex`
    recs = `-` or `rec;rec;…`, rec = `E|I,type,payloadHex,seg/seg/…`,
    seg  = `n:pad:fill:chk:trl:enc:pkt:vr` (chk = `N` or 4 hex digits, trl/enc/pkt = 0|1, vr = `N` or the length)
* `iter <hex>` → `<ok|err:Class> <recs>` with recs = `-` or `E|I,type,payloadHex;…`  (model of iter_logical_records)
* `rdr <hex> <ops>` → `o1|o2|…`: a history on ONE reader object (model `runR`); ops separated by `;`:
    `L*` / `L<k>` iter_logical_records complete / abandoned after k items → `<ok|err:Class> <recs>`,
    `V*` / `V<k>` iter_visible_records → `<ok|err:Class> pos,len;…`,
    `H<vrPos>,<vrLen>,<*|k>` iter_LRSHs_for_visible_record → `<ok|err:Class> pos,len,attr,type;…`,
    `O` any other method (leaves the reader in a junk state) → `-`
* `sul <hex>`  → `ok seq verHex structHex maxLen identHex` | `err`                     (model of StorageUnitLabel)
-/

namespace TD.C01.Drv

def parseK (s : String) : Option (Option Nat) := if s = "*" then some none else s.toNat?.map some

def parseROp (s : String) : Option ROp :=
  if s = "O" then some (.other ⟨12345, ⟨999, 7⟩, ⟨3, 1, 255, 9⟩⟩)
  else if s.startsWith "L" then (parseK (s.drop 1).toString).map .recs
  else if s.startsWith "V" then (parseK (s.drop 1).toString).map .vrs
  else if s.startsWith "H" then
    match (s.drop 1).toString.splitOn "," with
    | [a, b, k] => do
      let a ← a.toNat?
      let b ← b.toNat?
      let k ← parseK k
      pure (.lrshs a b k)
    | _ => none
  else none

def stE (e : Option Err) : String :=
  match e with
  | none => "ok"
  | some e => "err:" ++ errName e

def showROut : ROut → String
  | .recs l e => s!"{stE e} {showRecs l}"
  | .vrs l e => s!"{stE e} " ++ (if l.isEmpty then "-" else ";".intercalate (l.map fun v => s!"{v.pos},{v.len}"))
  | .lrshs l e => s!"{stE e} " ++ (if l.isEmpty then "-" else ";".intercalate (l.map fun h => s!"{h.pos},{h.len},{h.attr},{h.type}"))
  | .none => "-"

def step (line : String) : String :=
  match line.splitOn " " with
  | ["enc", sul, recs] =>
    match parseSul sul, parseRecs recs with
    | some s, some (rs, ℓ) => s!"ok {b01 (ℓ.conformant rs)} {b01 s.conformant} {hex (encode s rs ℓ)}"
    | _, _ => "bad-op"
  | ["iter", h] =>
    match unhex h with
    | some b =>
      let (rs, st) := iterLR b
      let stS := match st with
        | none => "ok"
        | some e => "err:" ++ errName e
      s!"{stS} {showRecs rs}"
    | none => "bad-op"
  | ["rdr", h, ops] =>
    match unhex h, (ops.splitOn ";").mapM parseROp with
    | some b, some os =>
      "|".intercalate ((runR (fun _ st _ => { st with cur := st.cur + 17 }) b ⟨1, ⟨2, 3⟩, ⟨84, 5, 6, 7⟩⟩ os).map showROut)
    | _, _ => "bad-op"
  | ["sul", h] =>
    match unhex h with
    | some b =>
      match sulParse b with
      | some s => s!"ok {s.seq} {hex s.version} {hex s.structure_} {s.maxLen} {hex s.ident}"
      | none => "err"
    | none => "bad-op"
  | _ => "bad-op"

end TD.C01.Drv

def main : IO Unit := run TD.C01.Drv.step
