import TD.Common.Proto
import TD.C12.Model
open TD TD.C12 TD.Proto

/-! line protocol of the C12 model

  outpath rp  <hex path_out> <lf> <hex ident>   -> ok <hex> | err UnicodeDecodeError
  outpath lis <hex path_out> <i>                 -> ok <hex>
  outpath bit <hex path_out> <f>                 -> ok <hex>
  path basename|dirname|stem <hex>               -> ok <hex>
  join <hex a> <hex b>                           -> ok <hex>
  walk <hex dirIn> <hex dirOut> <hex name>       -> ok <hex in> <hex out>
  walkpath <hex dirIn> <hex dirOut> <hex,hex,..> -> ok <hex in> <hex out>   (recursive dirWalk, path components)
  order seq  <hex,hex,...>                       -> ok <hex,hex,...>
  order pool <size:hex,size:hex,...>             -> ok <hex,hex,...>
  sched <k> <tasks> <events>                     -> valid=<0|1> res=<..> tree=<..> sres=<..> stree=<..>
      tasks  = task;task;...      task = <path>:<bytes>:<result>:<out>=<text>,<out>=<text>...   (tokens: no separators)
      events = s<i>,w<i>.<j>,f<i>,...
-/

def toStr (bs : List Nat) : Str := bs.map Char.ofNat
def ofStr (s : Str) : List Nat := s.map Char.toNat
def hx (s : Str) : String := hex (ofStr s)

structure BTask where
  path : String
  bytes : String
  res : String
  outs : List (String × String)

def parseTask (s : String) : Option BTask :=
  match s.splitOn ":" with
  | [p, b, r, o] =>
    let outs := if o = "" || o = "-" then some [] else
      (o.splitOn ",").mapM (fun kv => match kv.splitOn "=" with
        | [k, v] => some (k, v)
        | _ => none)
    outs.map (fun os => ⟨p, b, r, os⟩)
  | _ => none

def parseEv (s : String) : Option Ev :=
  match s.toList with
  | 's' :: r => (String.ofList r).toNat?.map Ev.start
  | 'f' :: r => (String.ofList r).toNat?.map Ev.finish
  | 'w' :: r => match (String.ofList r).splitOn "." with
    | [a, b] => match a.toNat?, b.toNat? with
      | some i, some j => some (Ev.write i j)
      | _, _ => none
    | _ => none
  | _ => none

def showMap (m : List (String × String)) : String :=
  if m.isEmpty then "-" else ",".intercalate (m.map (fun kv => kv.1 ++ "=" ++ kv.2))

def hexList (s : String) : Option (List (List Nat)) :=
  if s = "-" || s = "" then some [] else (s.splitOn ",").mapM unhex

def step (line : String) : String :=
  match line.splitOn " " with
  | ["outpath", "rp", p, lf, id] =>
    match unhex p, lf.toNat?, unhex id with
    | some p, some lf, some id =>
      match lasFileName (toStr p) lf id with
      | .ok s => "ok " ++ hx s
      | .error _ => "err UnicodeDecodeError"
    | _, _, _ => "bad-op"
  | ["outpath", "lis", p, i] =>
    match unhex p, i.toNat? with
    | some p, some i => "ok " ++ hx (lisOut (toStr p) i)
    | _, _ => "bad-op"
  | ["outpath", "bit", p, i] =>
    match unhex p, i.toNat? with
    | some p, some i => "ok " ++ hx (bitOut (toStr p) i)
    | _, _ => "bad-op"
  | ["path", f, p] =>
    match unhex p with
    | some p =>
      let s := toStr p
      if f = "basename" then "ok " ++ hx (basename s)
      else if f = "dirname" then "ok " ++ hx (dirname s)
      else if f = "stem" then "ok " ++ hx (stemOfName s)
      else "bad-op"
    | none => "bad-op"
  | ["join", a, b] =>
    match unhex a, unhex b with
    | some a, some b => "ok " ++ hx (join (toStr a) (toStr b))
    | _, _ => "bad-op"
  | ["walk", a, b, n] =>
    match unhex a, unhex b, unhex n with
    | some a, some b, some n =>
      let r := walkPair (toStr a) (toStr b) (toStr n)
      "ok " ++ hx r.1 ++ " " ++ hx r.2
    | _, _, _ => "bad-op"
  | ["walkpath", a, b, cs] =>
    match unhex a, unhex b, hexList cs with
    | some a, some b, some cs =>
      let r := walkPath (toStr a) (toStr b) (cs.map toStr)
      "ok " ++ hx r.1 ++ " " ++ hx r.2
    | _, _, _ => "bad-op"
  | ["order", "seq", l] =>
    match hexList l with
    | some ns => "ok " ++ ",".intercalate ((orderSeq (ns.map toStr)).map hx)
    | none => "bad-op"
  | ["order", "pool", l] =>
    let items := if l = "-" then some [] else (l.splitOn ",").mapM (fun it => match it.splitOn ":" with
      | [sz, h] => match sz.toNat?, unhex h with
        | some sz, some h => some (sz, toStr h)
        | _, _ => none
      | _ => none)
    match items with
    | some its => "ok " ++ ",".intercalate ((orderPool its).map hx)
    | none => "bad-op"
  | ["sched", k, ts, evs] =>
    let tasks := if ts = "-" then some [] else (ts.splitOn ";").mapM parseTask
    let events := if evs = "-" then some [] else (evs.splitOn ",").mapM parseEv
    match k.toNat?, tasks, events with
    | some k, some tasks, some σ =>
      let table : List ((String × String) × (String × List (String × String))) :=
        tasks.map (fun t => ((t.path, t.bytes), (t.res, t.outs)))
      let conv : String × String → String × List (String × String) := fun pb => (aget table pb).getD ("", [])
      let tl : List (String × String) := tasks.map (fun t => (t.path, t.bytes))
      let v := validSched k (nOutsOf conv tl) σ
      let s : State String String String String := runSched conv σ tl
      let q : State String String String String := sequential conv tl
      s!"valid={if v then 1 else 0} res={showMap s.results} tree={showMap s.tree} sres={showMap q.results} stree={showMap q.tree}"
    | _, _, _ => "bad-op"
  | _ => "bad-op"

def main : IO Unit := run step
