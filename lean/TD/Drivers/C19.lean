import TD.Common.Proto
import TD.C19.Model
open TD TD.C19 TD.Proto

/-- parse `n/d` (d > 0) or `n` -/
def parseRat (s : String) : Option Rat :=
  match s.splitOn "/" with
  | [n] => n.toInt?.map (fun n => (n : Rat))
  | [n, d] => match n.toInt?, d.toNat? with
    | some n, some d => if d = 0 then none else some (mkRat n d)
    | _, _ => none
  | _ => none

def showRat (q : Rat) : String := s!"{q.num}/{q.den}"

def showErr : Err → String
  | .ctor => "err ctor"
  | .zeroDiv => "err ZeroDivisionError"
  | .mathDomain => "err ValueError"
  | .logMath => "err LineTransBaseMath"
  | .assertion => "err AssertionError"
  | .index => "err IndexError"

def showEdge : Edge → String
  | .left => "L"
  | .right => "R"

def showPt (p : Pt) : String := s!"{showRat p.x}@{showEdge p.e}"

def showOptPt : Option Pt → String
  | none => "N"
  | some p => showPt p

def showPts (l : List Pt) : String := if l.isEmpty then "-" else ",".intercalate (l.map showPt)

def step (line : String) : String :=
  match line.splitOn " " with
  | ["wraplin", lP, rP, lL, rL, v] =>
    match parseRat lP, parseRat rP, parseRat lL, parseRat rL, parseRat v with
    | some lP, some rP, some lL, some rL, some v =>
      match mkLin lP rP lL rL with
      | .error e => showErr e
      | .ok t =>
        let (w, pos) := wrapPosLin t v
        s!"ok {w} {showRat pos} {showRat (l2pLin t v)}"
    | _, _, _, _, _ => "bad-op"
  -- log scale: `a = log10(v / lL)` and `d = log10(rL / lL)` are supplied (the logarithm is abstract in the model)
  | ["wraplog", lP, rP, lL, rL, v, a, d, ll, lv] =>
    match parseRat lP, parseRat rP, parseRat lL, parseRat rL, parseRat v, parseRat a, parseRat d, parseRat ll, parseRat lv with
    | some lP, some rP, some lL, some rL, some v, some a, some d, some ll, some lv =>
      -- finite table standing for log10 on the three arguments the code evaluates it at
      let lg : Rat → Rat := fun x => if x = rL / lL then d else if x = v / lL then a else if x = lL then ll else if x = v then lv else 0
      match mkLog lg lP rP lL rL with
      | .error e => showErr e
      | .ok t =>
        match wrapPosLog lg t v, l2pLog lg t v with
        | .ok (w, pos), .ok l => s!"ok {w} {showRat pos} {showRat l}"
        | .error e, _ => showErr e
        | _, .error e => showErr e
    | _, _, _, _, _, _, _, _, _ => "bad-op"
  | ["offscale", b0, b1, w] =>
    match b0.toInt?, b1.toInt?, w.toInt? with
    | some b0, some b1, some w => s!"{offScale (b0, b1) w} {isOffScaleLeft (b0, b1) w} {isOffScaleRight (b0, b1) w}"
    | _, _, _ => "bad-op"
  | ["interp", m, b0, b1, xp, xn, wp, wn] =>
    match m.toNat?, b0.toInt?, b1.toInt?, parseRat xp, parseRat xn, wp.toInt?, wn.toInt? with
    | some m, some b0, some b1, some xp, some xn, some wp, some wn =>
      match retInterpolateWrapPoints m (b0, b1) xp xn wp wn with
      | .error e => showErr e
      | .ok r => s!"ok {showOptPt r.polyEnd} {showPts r.cross} {showOptPt r.polyNew}"
    | _, _, _, _, _, _, _ => "bad-op"
  | ["filter", m, n] =>
    match m.toNat?, n.toNat? with
    | some m, some n =>
      match filterCross m (List.range (2 * n)) with
      | .error e => showErr e
      | .ok l => "ok " ++ (if l.isEmpty then "-" else joinNats l)
    | _, _ => "bad-op"
  -- plotsel <totalFrames> <films csv|-> <pres d:o,d:o|-> <chans csv|->
  | ["plotsel", n, films, pres, chans] =>
    let nats (t : String) : Option (List Nat) := if t = "-" then some [] else (t.splitOn ",").mapM (·.toNat?)
    let rows (t : String) : Option (List PresRow) :=
      if t = "-" then some [] else (t.splitOn ",").mapM (fun x => match x.splitOn ":" with
        | [d, o] => match d.toNat?, o.toNat? with
          | some d, some o => some ⟨d, o⟩
          | _, _ => none
        | _ => none)
    match n.toNat?, nats films, rows pres, nats chans with
    | some n, some fs, some ps, some cs =>
      let r := plotLoop (hasDataToPlot n ps cs) fs
      "ok " ++ (if r.isEmpty then "-" else joinNats r)
    | _, _, _, _ => "bad-op"
  -- plotsellas <frames> <outs csv|-> <curves csv|-> <alternates o:a,o:a|->
  | ["plotsellas", n, outs, curves, alts] =>
    let nats (t : String) : Option (List Nat) := if t = "-" then some [] else (t.splitOn ",").mapM (·.toNat?)
    let pairs (t : String) : Option (List (Nat × Nat)) :=
      if t = "-" then some [] else (t.splitOn ",").mapM (fun x => match x.splitOn ":" with
        | [d, o] => match d.toNat?, o.toNat? with
          | some d, some o => some (d, o)
          | _, _ => none
        | _ => none)
    match n.toNat?, nats outs, nats curves, pairs alts with
    | some n, some os, some cs, some ps =>
      let alt : Nat → List Nat := fun m => (ps.filter (fun p => p.1 == m)).map (fun p => p.2)
      s!"ok {hasDataToPlotLAS alt n os cs}"
    | _, _, _, _ => "bad-op"
  | _ => "bad-op"

def main : IO Unit := run step
