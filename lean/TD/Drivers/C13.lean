import TD.Common.Proto
import TD.C13.Model
import TD.C13.Spec
open TD TD.C13 TD.Proto

/-
Line protocol of drv_c13

  flt <hex of 4k bytes>       -> k entries "g=<fl> h=<fl> i=<fl>" joined by ','   (gen_floats, bytes_to_float, ISINGL)
  decat <pos> <hex of a file> -> same as dec, through a handle positioned at <pos> before the call (model: readHandle)
  dec <hex of a file>         -> "ok <pass>|<pass>..." or "err <class>"           (model of create_bit_frame_array_from_file)
  enc <pass> <pass> ...       -> hex of the file written by the spec encoder
      pass = head;desc;ua;ub;uc;null;names;filler;range;tail;fib;nch;chandata   (hex fields, chandata channel-major)
  fl = sign, numerator '/' denominator of the magnitude in lowest terms, e.g. "+1/4", "-0/1"
-/

def showFl (f : Fl) : String :=
  (if f.neg then "-" else "+") ++ toString f.mag.num ++ "/" ++ toString f.mag.den

def showFls (l : List Fl) : String := ",".intercalate (l.map showFl)

def showErr : Err → String
  | .tif => "err TIF"
  | .valueError => "err ValueError"
  | .structError => "err struct.error"
  | .firstBlock => "err FirstBlock"
  | .unicode => "err UnicodeDecodeError"
  | .index => "err IndexError"
  | .duplicate => "err ExceptionFrameArray"

def showPass (p : LogPassOut) : String :=
  let fa := match p.frameArray with
    | none => "none"
    | some (x, chans) => showFls x ++ ";" ++ "/".intercalate (chans.map showFls)
  s!"{p.ident};{hex p.desc};{",".intercalate (p.names.map hex)};{showFls p.range};{hex p.tail};{p.frameCount};{fa}"

def groups4 : List Nat → List (List Nat)
  | a :: b :: c :: d :: r => [a, b, c, d] :: groups4 r
  | _ => []

def toWords (bs : List Nat) : List Spec.Word :=
  (groups4 bs).map (fun g => ⟨g.getD 0 0, g.getD 1 0, g.getD 2 0, g.getD 3 0⟩)

def chunksOf (n : Nat) : Nat → List Spec.Word → List (List Spec.Word)
  | 0, _ => []
  | k + 1, ws => ws.take n :: chunksOf n k (ws.drop n)

def parsePass (s : String) : Option Spec.PassC :=
  match s.splitOn ";" with
  | [head, desc, ua, ub, uc, null, names, filler, range, tail, fib, nch, data] =>
    match unhex head, unhex desc, unhex ua, unhex ub, unhex uc, unhex null, unhex names, unhex filler, unhex range,
          unhex tail, fib.toNat?, nch.toNat?, unhex data with
    | some head, some desc, some ua, some ub, some uc, some null, some names, some filler, some range, some tail,
      some fib, some nch, some data =>
      let ws := toWords data
      let n := if nch = 0 then 0 else ws.length / nch
      let chans := chunksOf n nch ws
      some { head, desc, ua, ub, uc, null, names := groups4 names, filler, range := toWords range, tail,
             blocks := Spec.mkBlocks (max fib 1) (n + 1) chans }
    | _, _, _, _, _, _, _, _, _, _, _, _, _ => none
  | _ => none

def step (line : String) : String :=
  match line.splitOn " " with
  | ["flt", h] =>
    match unhex h with
    | some bs =>
      ",".intercalate ((groups4 bs).map (fun g =>
        let b0 := g.getD 0 0; let b1 := g.getD 1 0; let b2 := g.getD 2 0; let b3 := g.getD 3 0
        s!"g={showFl (genFloat b0 b1 b2 b3)} h={showFl (bytesToFloat b0 b1 b2 b3)} i={showFl (isingl b0 b1 b2 b3)}"))
    | none => "bad-op"
  | ["dec", h] =>
    match unhex h with
    | some bs =>
      match readBIT bs with
      | .ok ps => "ok " ++ "|".intercalate (ps.map showPass)
      | .error e => showErr e
    | none => "bad-op"
  | ["decat", pos, h] =>
    match pos.toNat?, unhex h with
    | some pos, some bs =>
      match readHandle ⟨bs, pos⟩ with
      | .ok ps => "ok " ++ "|".intercalate (ps.map showPass)
      | .error e => showErr e
    | _, _ => "bad-op"
  | "enc" :: ps =>
    match ps.mapM parsePass with
    | some ps => hex (Spec.encode ps)
    | none => "bad-op"
  | _ => "bad-op"

def main : IO Unit := run step
