import TD.Common.Proto
import TD.C15.Model
open TD TD.C15 TD.Proto

def showErr : Err → String
  | .valueError => "err ValueError"
  | .typeError => "err TypeError"

def showSel : Selector → String
  | .slice a b c => s!"slice {showOptInt a} {showOptInt b} {showOptInt c}"
  | .sample n => s!"sample {n}"

def step (line : String) : String :=
  match line.splitOn " " with
  | ["slice", a, b, c, n] =>
    match optInt a, optInt b, optInt c, n.toNat? with
    | some a, some b, some c, some n =>
      match sliceAdjust a b c n, sliceIndices a b c n, sliceCount a b c n, sliceFirst a b c n, sliceStep a b c n, sliceLast a b c n with
      | .ok (s, e, st), .ok l, .ok cnt, .ok f, .ok stp, .ok lst =>
        s!"ok adj={s},{e},{st} count={cnt} first={f} step={stp} last={lst} idx={joinInts l}"
      | .error e, _, _, _, _, _ => showErr e
      | _, _, _, _, _, _ => "bad-state"
    | _, _, _, _ => "bad-op"
  | ["sample", s, n] =>
    match s.toNat?, n.toNat? with
    | some s, some n =>
      if s < 1 then "err ValueError" else
      s!"ok count={sampleCount n s} first={sampleFirst n s} step={sampleStep n s} idx={joinNats (sampleIndices n s)}"
    | _, _ => "bad-op"
  | ["parse", h] =>
    match unhex h with
    | some bs =>
      match parseSelector (bs.map Char.ofNat) with
      | .ok sel => "ok " ++ showSel sel
      | .error e => showErr e
    | none => "bad-op"
  | _ => "bad-op"

def main : IO Unit := run step
