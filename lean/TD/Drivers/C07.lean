import TD.Common.Proto
import TD.C07.Model
open TD TD.C07 TD.Proto

/-- canonical dyadic for printing: odd mantissa, or `0 0` -/
partial def canonDy (m e : Int) : Int × Int :=
  if m = 0 then (0, 0)
  else if m % 2 = 0 then canonDy (m / 2) (e + 1)
  else (m, e)

def showFV : FV → String
  | .fin d => let (m, e) := canonDy d.m d.e; s!"f {m} {e}"
  | .negZero => "nz"
  | .inf false => "inf"
  | .inf true => "-inf"
  | .nan => "nan"

def showErr : Err → String
  | .indexError => "err IndexError"
  | .overflowError => "err OverflowError"
  | .structError => "err struct"
  | .unknownRepCode => "err Unknown"
  | .noLength => "err NoLength"
  | .repCode => "err RepCode"

def showVal : Val → String
  | .int v => s!"i {v}"
  | .flt v => showFV v
  | .bytes b => s!"b {hex b}"

def showEV (r : Except Err Val) : String :=
  match r with
  | .ok v => showVal v
  | .error e => showErr e

def showRd {α : Type} (sh : α → String) (r : Except Err (α × Nat)) : String :=
  match r with
  | .ok (v, j) => s!"{sh v} @{j}"
  | .error e => showErr e

def showOb (o : ObName) : String := s!"O={o.o} C={o.c} I={hex o.i}"

def showDT (d : DateTime) : String :=
  s!"y={d.year} tz={d.tz} mo={d.month} d={d.day} h={d.hour} mi={d.minute} s={d.second} ms={d.millisecond}"

def showOptNat : Option Nat → String
  | some n => s!"{n}"
  | none => "N"

def rp (name : String) (bs : List Nat) (i : Nat) : String :=
  match name with
  | "FSINGL" => showRd showFV (FSINGL bs i)
  | "FDOUBL" => showRd showFV (FDOUBL bs i)
  | "ISINGL" => showRd showFV (ISINGL bs i)
  | "VSINGL" => showRd showFV (VSINGL bs i)
  | "SSHORT" => showRd (fun (v : Int) => s!"i {v}") (SSHORT bs i)
  | "SNORM" => showRd (fun (v : Int) => s!"i {v}") (SNORM bs i)
  | "SLONG" => showRd (fun (v : Int) => s!"i {v}") (SLONG bs i)
  | "USHORT" => showRd (fun (v : Nat) => s!"i {v}") (USHORT bs i)
  | "UNORM" => showRd (fun (v : Nat) => s!"i {v}") (UNORM bs i)
  | "ULONG" => showRd (fun (v : Nat) => s!"i {v}") (ULONG bs i)
  | "UVARI" => showRd (fun (v : Nat) => s!"i {v}") (UVARI bs i)
  | "ORIGIN" => showRd (fun (v : Nat) => s!"i {v}") (ORIGIN bs i)
  | "STATUS" => showRd (fun (v : Nat) => s!"i {v}") (STATUS bs i)
  | "IDENT" => showRd (fun (v : List Nat) => s!"b {hex v}") (IDENT bs i)
  | "ASCII" => showRd (fun (v : List Nat) => s!"b {hex v}") (ASCII bs i)
  | "UNITS" => showRd (fun (v : List Nat) => s!"b {hex v}") (UNITS bs i)
  | "DTIME" => showRd showDT (DTIME bs i)
  | "OBNAME" => showRd showOb (OBNAME bs i)
  | "OBJREF" => showRd (fun (v : List Nat × ObName) => s!"T={hex v.1} {showOb v.2}") (OBJREF bs i)
  | _ => "bad-op"

def lenHelper (name : String) (bs : List Nat) (i : Int) : String :=
  let sh := fun (r : Except Err Nat) => match r with | .ok n => s!"{n}" | .error e => showErr e
  match name with
  | "UVARI" => sh (UVARI_len bs i)
  | "IDENT" => sh (IDENT_len bs i)
  | "ORIGIN" => sh (ORIGIN_len bs i)
  | "OBNAME" => sh (OBNAME_len bs i)
  | _ => "bad-op"

def step (line : String) : String :=
  match line.splitOn " " with
  | ["p", rc, w] =>
    match rc.toNat?, w.toInt? with
    | some rc, some w => showEV (pFrom rc w)
    | _, _ => "bad-op"
  | ["c", rc, w] =>
    match rc.toNat?, w.toInt? with
    | some rc, some w => showEV (cFrom rc w)
    | _, _ => "bad-op"
  | ["r", rc, w] =>
    match rc.toNat?, w.toInt? with
    | some rc, some w => showEV (rcFrom rc w)
    | _, _ => "bad-op"
  | ["f68c", w] =>
    match w.toInt? with
    | some w => showFV (from68c w)
    | _ => "bad-op"
  | ["rb", rc, h] =>
    match rc.toNat?, unhex h with
    | some rc, some bs => showEV (readBytes rc bs)
    | _, _ => "bad-op"
  | ["to68", m, e] =>
    match m.toInt?, e.toInt? with
    | some m, some e => s!"{to68 m e}"
    | _, _ => "bad-op"
  | ["rt68", m, e] =>   -- from68 (to68 v)
    match m.toInt?, e.toInt? with
    | some m, some e => showFV (from68 (to68 m e))
    | _, _ => "bad-op"
  | ["wb68", m, e] =>
    match m.toInt?, e.toInt? with
    | some m, some e => hex (writeBytes68 m e)
    | _, _ => "bad-op"
  | ["size", rc] =>
    match rc.toNat? with
    | some rc => showOptNat (lisSize rc)
    | _ => "bad-op"
  | ["fixed", rc] =>
    match rc.toNat? with
    | some rc => showOptNat (fixedLength rc)
    | _ => "bad-op"
  | ["rp", name, h, i] =>
    match unhex h, i.toNat? with
    | some bs, some i => rp name bs i
    | _, _ => "bad-op"
  | ["len", name, h, i] =>
    match unhex h, i.toInt? with
    | some bs, some i => lenHelper name bs i
    | _, _ => "bad-op"
  | ["f2b", m, e] =>
    match m.toInt?, e.toInt? with
    | some m, some e => hex (floatToBytes m e)
    | _, _ => "bad-op"
  | ["ibm", h] =>
    match unhex h with
    | some bs => (match ibmBytes bs with | .ok v => showFV v | .error e => showErr e)
    | none => "bad-op"
  | _ => "bad-op"

def main : IO Unit := run step
