import TD.Common.Proto
import TD.C05.Model
open TD TD.C05 TD.Proto

/-
Line protocol (bytes lowercase hex, `-` empty):
  w <tif 0|1> <prMax> <rec 0|1> <fileNum N|int> <chk 0|1> <rec,rec,..>   writer model -> ok <file> <tells> | err write
  wo <tif 0|1> ...             writer model without close() -> ok <file> <tells>
  eo <k> <tif 0|1|2> ...       spec encoder with only the first k (0,1,2) TIF EOF markers -> ok <file>
  e <tif 0|1|2> <prMax> <rec> <fileNum> <chk> <rec,rec,..>               spec encoder  -> ok <file> <tells> <size>
  h <file> <op,op,..>          reader model history (ops: r<n> s<n> n k<offset> t) -> replies joined by ','
  a <tif> <prMax> <rec> <fileNum> <chk> <rec,rec,..> <op,op,..>          abstract semantics (k<index>) -> replies
  best <file> <pr_limit>       best_physical_record_pad_settings -> <pad_modulo>,<pad_non_null>|None <six counts>
  hb <file> <pr_limit> <ops>   history on the reader of file_read_with_best_physical_record_pad_settings
  strip <file>                 strip_tif model -> ok <out> <stripped> <written> | err <kind>
-/

def parseRecs (s : String) : Option (List Bytes) :=
  if s = "." then some [] else (s.splitOn ",").mapM unhex

def parseLayout (t p r fnum c : String) : Option Layout :=
  match t.toNat?, p.toNat?, r.toNat?, optInt fnum, c.toNat? with
  | some t, some p, some r, some fnum, some c =>
    some { prMax := p, hasRec := r = 1, fileNum := fnum, hasChk := c = 1,
           tif := if t = 0 then .off else if t = 1 then .le else .be }
  | _, _, _, _, _ => none

def parseInt? (s : String) : Option Int := s.toInt?

def parseCOp (s : String) : Option COp :=
  match s.toList with
  | 'r' :: r => (parseInt? (String.ofList r)).map COp.read
  | 's' :: r => (parseInt? (String.ofList r)).map COp.skip
  | ['n'] => some .next
  | ['t'] => some .tell
  | 'k' :: r => ((String.ofList r).toNat?).map COp.seek
  | _ => none

def parseOp (s : String) : Option Op :=
  match s.toList with
  | 'r' :: r => (parseInt? (String.ofList r)).map Op.read
  | 's' :: r => (parseInt? (String.ofList r)).map Op.skip
  | ['n'] => some .next
  | ['t'] => some .tell
  | 'k' :: r => ((String.ofList r).toNat?).map Op.seek
  | _ => none

def showReply : Reply → String
  | .bytes b => "b" ++ hex b
  | .none => "N"
  | .count n => s!"c{n}"
  | .pos p => s!"p{p}"
  | .eofError => "E"
  | .failed => "F"
  | .halted => "H"

def showReplies (l : List Reply) : String := ",".intercalate (l.map showReply)

def handle (line : String) : String :=
  match line.splitOn " " with
  | ["w", t, p, r, fnum, c, recs] =>
    match parseLayout t p r fnum c, parseRecs recs with
    | some L, some rs =>
      match writeFile (L.tif != .off) L.prMax L.hasRec L.fileNum L.hasChk rs with
      | .ok (b, ts) => s!"ok {hex b} {joinNats ts}"
      | .error _ => "err write"
    | _, _ => "bad-op"
  | ["wo", t, p, r, fnum, c, recs] =>
    match parseLayout t p r fnum c, parseRecs recs with
    | some L, some rs =>
      match writeFileOpen (L.tif != .off) L.prMax L.hasRec L.fileNum L.hasChk rs with
      | .ok (b, ts) => s!"ok {hex b} {joinNats ts}"
      | .error _ => "err write"
    | _, _ => "bad-op"
  | ["eo", k, t, p, r, fnum, c, recs] =>
    match k.toNat?, parseLayout t p r fnum c, parseRecs recs with
    | some k, some L, some rs => s!"ok {hex (encodeN L rs k)}"
    | _, _, _ => "bad-op"
  | ["e", t, p, r, fnum, c, recs] =>
    match parseLayout t p r fnum c, parseRecs recs with
    | some L, some rs =>
      s!"ok {hex (encode L rs)} {joinNats ((List.range rs.length).map (tellOf L rs))} {fileSize L rs}"
    | _, _ => "bad-op"
  | ["h", file, ops] =>
    match unhex file, (ops.splitOn ",").mapM parseCOp with
    | some f, some ops => showReplies (TD.C05.run Cfg.plain f (some (Rd.new f)) ops)
    | _, _ => "bad-op"
  | ["best", file, limit] =>
    match unhex file, limit.toNat? with
    | some f, some limit =>
      let counts := joinNats ((scanAll true f limit).map (·.2))
      match bestPad f limit with
      | some (m, nn) => s!"{m},{if nn then 1 else 0} {counts}"
      | none => s!"None {counts}"
    | _, _ => "bad-op"
  | ["hb", file, limit, ops] =>
    match unhex file, limit.toNat?, (ops.splitOn ",").mapM parseCOp with
    | some f, some limit, some ops =>
      match bestReaderCfg f limit with
      | some cfg => showReplies (TD.C05.run cfg f (some (Rd.new f)) ops)
      | none => "None"
    | _, _, _ => "bad-op"
  | ["a", t, p, r, fnum, c, recs, ops] =>
    match parseLayout t p r fnum c, parseRecs recs, (ops.splitOn ",").mapM parseOp with
    | some L, some rs, some ops => showReplies (absRun L rs AState.init ops)
    | _, _, _ => "bad-op"
  | ["strip", file] =>
    match unhex file with
    | some f =>
      match stripTif f with
      | .ok (o, n, w) => s!"ok {hex o} {n} {w}"
      | .error .structError => "err struct"
      | .error .notTifStart => "err read"
      | .error .negative => "err read"
      | .error .fuel => "err fuel"
    | none => "bad-op"
  | _ => "bad-op"

def main : IO Unit := TD.Proto.run handle
