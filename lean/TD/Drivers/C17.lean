import TD.Common.Proto
import TD.C17.Model
open TD TD.C17 TD.Proto

/-! Line-protocol driver for C17.  Numbers: binary64 as the decimal value of their 64 bits, rationals as `n/d`.
Strings as hex of their bytes (`-` empty): UTF-8 for OSDD codes, raw bytes (latin-1 chars) for LIS names. -/

def showErr : Err → String
  | .unitsDimension => "err ExceptionUnitsDimension"
  | .lisUnknownUnit => "err ExceptionUnitsUnknownUnit"
  | .lisNoUnitInCategory => "err ExceptionUnitsNoUnitInCategory"
  | .keyError => "err KeyError"

def hexUtf8 (s : String) : String := hex (s.toUTF8.toList.map (·.toNat))
def hexLatin (s : String) : String := hex (s.toList.map (·.toNat))
def latinOfHex (h : String) : Option String := (unhex h).map (fun bs => String.ofList (bs.map Char.ofNat))

def fbits (x : Float) : String := toString x.toBits.toNat
def parseF (s : String) : Option Float := s.toNat?.map (fun n => Float.ofBits n.toUInt64)
def parseFs (s : String) : Option (List Float) := if s = "-" then some [] else (s.splitOn ",").mapM parseF
def showFs (l : List Float) : String := if l.isEmpty then "-" else ",".intercalate (l.map fbits)

def showQ (q : Rat) : String := s!"{q.num}/{q.den}"
def parseQ (s : String) : Option Rat :=
  match s.splitOn "/" with
  | [n, d] => match n.toInt?, d.toNat? with
    | some n, some d => if d = 0 then none else some (mkRat n d)
    | _, _ => none
  | _ => none
def parseQs (s : String) : Option (List Rat) := if s = "-" then some [] else (s.splitOn ",").mapM parseQ
def showQs (l : List Rat) : String := if l.isEmpty then "-" else ",".intercalate (l.map showQ)

def optF (s : String) : Option (Option Float) := if s = "N" then some none else (parseF s).map some
def optQ (s : String) : Option (Option Rat) := if s = "N" then some none else (parseQ s).map some

def osddRows : Array TD.Gen.C17Osdd.Row := TD.Gen.C17Osdd.rows.toArray
def lisFlat : Array (String × TD.Gen.C17Lis.Row) :=
  (TD.Gen.C17Lis.cats.flatMap (fun c => c.units.map (fun r => (c.cat, r)))).toArray

def pairF (i j : String) : Option (Unit Float × Unit Float) :=
  match i.toNat?, j.toNat? with
  | some i, some j => match osddTableF[i]?, osddTableF[j]? with
    | some a, some b => some (a, b)
    | _, _ => none
  | _, _ => none

def pairQ (i j : String) : Option (Unit Rat × Unit Rat) :=
  match i.toNat?, j.toNat? with
  | some i, some j => match osddTableQ[i]?, osddTableQ[j]? with
    | some a, some b => some (a, b)
    | _, _ => none
  | _, _ => none

def showEV (f : α → String) : Except Err (EngVal α) → String
  | .ok e => s!"ok {f e.value} {hexLatin e.uom}"
  | .error e => showErr e

/-- one operation of an EngVal history: `ia:<bits>` `is:` `im:` `id:` (reals), `iaE:<uom>:<bits>` `isE:` `imE:` `idE:` (EngVal operand),
`cv:<uom>`, `sv:<bits>`, `su:<uom>`, `ob` -/
def parseOp (s : String) : Option (EngOp Float) :=
  match s.splitOn ":" with
  | ["ia", b] => (parseF b).map .iaddReal
  | ["is", b] => (parseF b).map .isubReal
  | ["im", b] => (parseF b).map .imulReal
  | ["id", b] => (parseF b).map .idivReal
  | ["iaE", u, b] => (latinOfHex u).bind fun u => (parseF b).map fun v => .iaddEng ⟨v, u⟩
  | ["isE", u, b] => (latinOfHex u).bind fun u => (parseF b).map fun v => .isubEng ⟨v, u⟩
  | ["imE", u, b] => (latinOfHex u).bind fun u => (parseF b).map fun v => .imulEng ⟨v, u⟩
  | ["idE", u, b] => (latinOfHex u).bind fun u => (parseF b).map fun v => .idivEng ⟨v, u⟩
  | ["cv", u] => (latinOfHex u).map .convert
  | ["sv", b] => (parseF b).map .setValue
  | ["su", u] => (latinOfHex u).map .setUom
  | ["ob"] => some .observe
  | _ => none

def step (line : String) : String :=
  match line.splitOn " " with
  | ["ocount"] => s!"{TD.Gen.C17Osdd.rowCount} {osddRows.size}"
  | ["orow", i] =>
    match i.toNat?.bind (osddRows[·]?) with
    | some r => s!"{hexUtf8 r.key} {hexUtf8 r.code} {hexUtf8 r.dim} {r.sn}/{r.sd} {r.on}/{r.od} {fbits (floatOfRatio r.sn r.sd)} {fbits (floatOfRatio r.on r.od)}"
    | none => "bad-op"
  | ["oconv", i, j, v] =>
    match pairF i j, parseF v with
    | some (a, b), some v => match convert v a b with
      | .ok r => "ok " ++ fbits r
      | .error e => showErr e
    | _, _ => "bad-op"
  | ["ofun", i, j, v] =>
    match pairF i j, parseF v with
    | some (a, b), some v => match convertFunction a b with
      | .ok f => "ok " ++ fbits (f v)
      | .error e => showErr e
    | _, _ => "bad-op"
  | ["oarr", i, j, vs] =>
    match pairF i j, parseFs vs with
    | some (a, b), some vs => match convertArray vs a b with
      | .ok r => "ok " ++ showFs r
      | .error e => showErr e
    | _, _ => "bad-op"
  | ["oinp", i, j, vs] =>
    match pairF i j, parseFs vs with
    | some (a, b), some vs => match convertArrayInplace vs a b with
      | .ok r => "ok " ++ showFs r ++ " after " ++ showFs (arrayAfterInplace vs a b)
      | .error e => showErr e ++ " after " ++ showFs (arrayAfterInplace vs a b)
    | _, _ => "bad-op"
  | ["oq", i, j, v] =>
    match pairQ i j, parseQ v with
    | some (a, b), some v => match convert v a b with
      | .ok r => "ok " ++ showQ r
      | .error e => showErr e
    | _, _ => "bad-op"
  | ["oqarr", i, j, vs] =>
    match pairQ i j, parseQs vs with
    | some (a, b), some vs => match convertArray vs a b, convertArrayInplace vs a b with
      | .ok r, .ok r' => "ok " ++ showQs r ++ " " ++ showQs r'
      | .error e, _ => showErr e
      | _, .error e => showErr e
    | _, _ => "bad-op"
  | ["lcount"] => s!"{TD.Gen.C17Lis.unitCount} {lisFlat.size} {TD.Gen.C17Lis.cats.length}"
  | ["lrow", i] =>
    match i.toNat?.bind (lisFlat[·]?) with
    | some (c, r) =>
      let off := if r.hasOffs then s!"{r.on}/{r.od} {fbits (floatOfRatio r.on r.od)}" else "N N"
      s!"{hexLatin c} {hexLatin r.name} {r.mn}/{r.md} {fbits (floatOfRatio r.mn r.md)} {off}"
    | none => "bad-op"
  | ["lcat", u] =>
    match latinOfHex u with
    | some u => match lisCategory lisTableF u with
      | .ok c => "ok " ++ hexLatin c
      | .error e => showErr e
    | none => "bad-op"
  | ["lconv", u1, u2, v] =>
    match latinOfHex u1, latinOfHex u2, optF v with
    | some u1, some u2, some v => match lisConvert lisTableF v u1 u2 with
      | .ok r => "ok " ++ fbits r
      | .error e => showErr e
    | _, _, _ => "bad-op"
  | ["lq", u1, u2, v] =>
    match latinOfHex u1, latinOfHex u2, optQ v with
    | some u1, some u2, some v => match lisConvert lisTable v u1 u2 with
      | .ok r => "ok " ++ showQ r
      | .error e => showErr e
    | _, _, _ => "bad-op"
  | ["eget", u1, u2, v] =>
    match latinOfHex u1, latinOfHex u2, parseF v with
    | some u1, some u2, some v => match EngVal.getInUnits lisTableF ⟨v, u1⟩ u2 with
      | .ok r => "ok " ++ fbits r
      | .error e => showErr e
    | _, _, _ => "bad-op"
  | ["econv", u1, u2, v] =>
    match latinOfHex u1, latinOfHex u2, parseF v with
    | some u1, some u2, some v => showEV fbits (EngVal.convert lisTableF ⟨v, u1⟩ u2)
    | _, _, _ => "bad-op"
  | ["enew", u1, u2, v] =>
    match latinOfHex u1, latinOfHex u2, parseF v with
    | some u1, some u2, some v => showEV fbits (EngVal.newEngValInUnits lisTableF ⟨v, u1⟩ u2)
    | _, _, _ => "bad-op"
  | ["ehist", u0, v0, ops] =>
    match latinOfHex u0, parseF v0, (ops.splitOn ";").mapM parseOp with
    | some u0, some v0, some ops =>
      ";".intercalate ((EngVal.trace lisTableF ⟨v0, u0⟩ ops).map (fun e => s!"{fbits e.value}:{hexLatin e.uom}"))
    | _, _, _ => "bad-op"
  | _ => "bad-op"

def main : IO Unit := run step
