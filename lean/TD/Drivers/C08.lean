import TD.Common.Proto
import TD.C08.Model
open TD TD.C08 TD.Proto

/-! Line-protocol driver for C08 (see harness/props/c08.py for the request grammar). -/

def showErr : Err → String
  | .fileRead => "ExceptionFileRead" | .cbInit => "ExceptionCbEngValInit" | .tableInit => "ExceptionLrTableInit"
  | .tableCompose => "ExceptionLrTableCompose" | .cbWrite => "ExceptionCbWrite" | .repCode => "ExceptionRepCode"
  | .structErr => "struct.error" | .typeErr => "TypeError" | .valueErr => "ValueError"
  | .assertion => "AssertionError" | .entryBlock => "ExceptionEntryBlock" | .lr => "ExceptionLr"
  | .dsb => "ExceptionDatumSpecBlock" | .zeroDiv => "ZeroDivisionError" | .notModelled => "NotModelled"

def showVal : Option Val → String
  | none => "N"
  | some (.bytes b) => "b" ++ hex b
  | some (.int i) => "i" ++ toString i
  | some (.float d) => "f" ++ toString d.m ++ "p" ++ toString d.e

def showCb (c : Cb) : String :=
  s!"{c.type}.{c.rc}.{c.size}.{c.cat}.{hex c.mnem}.{hex c.units}.{showVal c.val}"

def joinOr (sep : String) (l : List String) : String := if l.isEmpty then "_" else sep.intercalate l

def showTS (st : TS) : String :=
  let t := match st.tcb with | none => "N" | some c => showCb c
  let rows := joinOr "/" (st.rows.map (fun r => joinOr "," (r.map showCb)))
  let ri := joinOr "," (st.rowIdx.map (fun p => showVal p.1 ++ "=" ++ toString p.2))
  let mi := joinOr "," (st.mnemIdx.map (fun p => hex p.1 ++ "=" ++ toString p.2))
  let cs := joinOr "," (st.cols.map (fun p => hex p.1 ++ "=" ++ toString p.2))
  s!"T={t} R={rows} I={ri} M={mi} C={cs}"

def showEB (e : EB) : String := s!"{e.type}.{e.size}.{e.rc}.{showVal e.val}"
def showEBS (E : List EB) : String := joinOr "," (E.map showEB)

def showDsb (d : Dsb) : String :=
  s!"{hex d.mnem}.{hex d.servId}.{hex d.servOrd}.{hex d.units}.{d.apiLog}.{d.apiCurve}.{d.apiClass}.{d.apiMod}.{d.fileNo}.{d.size}.{d.samples}.{d.rc}.{d.bursts}.{d.subCh}"

def parseVal (s : String) : Option Val :=
  match s.toList with
  | 'b' :: r => (unhex (String.ofList r)).map Val.bytes
  | 'i' :: r => (String.ofList r).toInt?.map Val.int
  | 'f' :: r =>
    match (String.ofList r).splitOn "p" with
    | [a, b] => match a.toInt?, b.toInt? with
      | some m, some e => some (.float (Dy.norm ⟨m, e⟩))
      | _, _ => none
    | _ => none
  | _ => none

def parseOptVal (s : String) : Option (Option Val) := if s = "N" then some none else (parseVal s).map some

def allSome {α : Type} : List (Option α) → Option (List α)
  | [] => some []
  | none :: _ => none
  | some a :: r => (allSome r).map (a :: ·)

def splitList (sep : String) (s : String) : List String := if s = "_" then [] else s.splitOn sep

def parseCell (s : String) : Option Cell :=
  match s.splitOn "@" with
  | [v] => (parseVal v).map (fun v => ⟨v, none⟩)
  | [v, u] => match parseVal v, unhex u with
    | some v, some u => some ⟨v, some u⟩
    | _, _ => none
  | _ => none

def parseRow (s : String) : Option (List Cell) := if s = "~" then some [] else allSome ((s.splitOn ",").map parseCell)

def parseEB (s : String) : Option EB :=
  match s.splitOn "." with
  | [t, sz, rc, v] => match t.toNat?, sz.toNat?, rc.toNat?, parseOptVal v with
    | some t, some sz, some rc, some v => some ⟨t, sz, rc, v⟩
    | _, _, _, _ => none
  | _ => none

def parseChan (s : String) : Option ChanSpec :=
  match s.splitOn "." with
  | [n, si, so, u, api, fn, cl, sa, rc] =>
    match unhex n, unhex si, unhex so, unhex u, api.toInt?, fn.toInt?, cl.toInt?, sa.toInt?, rc.toInt? with
    | some n, some si, some so, some u, some api, some fn, some cl, some sa, some rc => some ⟨n, si, so, u, api, fn, cl, sa, rc⟩
    | _, _, _, _, _, _, _, _, _ => none
  | _ => none

/-- apply `setEntryBlock` in order; `ExceptionEntryBlock` is ignored as `readFromFile` does -/
def applyEBs : List EB → List EB → Except Err (List EB)
  | [], E => .ok E
  | eb :: r, E => match setEB eb E with
    | .ok E' => applyEBs r E'
    | .error .entryBlock => applyEBs r E
    | .error e => .error e

def step (line : String) : String :=
  match line.splitOn " " with
  | ["table", h] =>
    match unhex h with
    | none => "bad-op"
    | some bs => match tableRead bs with
      | .ok st => "ok " ++ showTS st
      | .error e => "err " ++ showErr e
  | ["tablew", t, name, mnems, rows] =>
    match t.toNat?, parseVal name, allSome ((splitList "," mnems).map unhex), allSome ((splitList ";" rows).map parseRow) with
    | some t, some name, some mnems, some rows =>
      match tableWrite ⟨t, name, mnems, rows⟩ with
      | .error e => "errw " ++ showErr e
      | .ok st => match tableLrBytes t st with
        | .error e => "errb " ++ showErr e ++ " " ++ showTS st
        | .ok b => "ok " ++ hex b ++ " " ++ showTS st
    | _, _, _, _ => "bad-op"
  | ["dfsr", h] =>
    match unhex h with
    | none => "bad-op"
    | some bs => match dfsrRead bs with
      | .ok (E, ds) => "ok E=" ++ showEBS E ++ " D=" ++ joinOr "," (ds.map showDsb)
      | .error e => "err " ++ showErr e
  | ["dfsrw", blocks, chans] =>
    match allSome ((splitList "," blocks).map parseEB), allSome ((splitList "," chans).map parseChan) with
    | some bl, some ch =>
      match ebsDefault with
      | .error e => "errs " ++ showErr e
      | .ok E0 => match applyEBs bl E0 with
        | .error e => "errs " ++ showErr e
        | .ok E => match dfsrLrBytes E ch with
          | .error e => "errb " ++ showErr e ++ " E=" ++ showEBS E
          | .ok b => "ok " ++ hex b ++ " E=" ++ showEBS E
    | _, _ => "bad-op"
  | ["rt68", m, e] =>
    match m.toInt?, e.toInt? with
    | some m, some e =>
      let w := to68 (Dy.norm ⟨m, e⟩)
      let d := from68 w
      s!"ok {w} {d.m} {d.e}"
    | _, _ => "bad-op"
  | ["label", mnems, lab] =>
    -- `TableRow._getByLable(lab)` on a row whose cells carry these mnemonics: index of the cell or N (KeyError)
    match allSome ((splitList "," mnems).map unhex), unhex lab with
    | some ms, some lab =>
      let row : List Cb := (ms.zipIdx).map (fun p => ⟨if p.2 = 0 then 0 else 69, 65, 0, p.2, p.1, spaces4, none⟩)
      match getByLabel row lab with
      | some c => s!"ok {c.cat}"
      | none => "ok N"
    | _, _ => "bad-op"
  | ["mnem", h] =>
    match unhex h with
    | some b => "ok " ++ hex (mnemNorm b)
    | none => "bad-op"
  | _ => "bad-op"

def main : IO Unit := run step
