import TD.Common.Proto
import TD.C03.Model
import TD.C03.Spec
import TD.C04.Model
import TD.C04.Spec
open TD TD.Proto TD.C04
open TD.C03 (Bytes Value ObName Rec floatVal FVal encodeEflr)

/-! Line-protocol driver for C04.

lp        := <ndefs> {<identhex> <rc> <ndims> {<dim>}}  <nft> {<o> <c> <identhex> <nch> {<identhex>}}
             (CHANNEL set objects in definition order; FRAME objects listing their channels by name)
frames    := <n> {<ft> <frameNo> (N | V {per channel: <k> {val}})}        val := i<int> | w<code>.<word>
recs      := <n> {<enc> <eflr> <type> <hex>}
sel       := A | S <a> <b> <c> | M <n>          (all / slice (N = None) / sample)
chans     := A | C <k> {<identhex>}

* `encfile <lp> <frames>` → `<n> {<enc> <eflr> <type> <hex>}` : FILE-HEADER, ORIGIN, CHANNEL, FRAME tables (C03 spec
  encoder) followed by the frame records
* `index <lp> <recs>` → `ok <nft> {<o> <c> <identhex> <n> {<pos> <frameNo> <x…>}}` | `err …`
* `populate <lp> <ftIdx> <recs> <ncalls> {sel chans}` → per call `| ok <numFrames> {ch: <rows> {row}}` or `| err …`
  threading the channel storage from one call to the next (starting from the state the index leaves)
-/

abbrev P := StateT (List String) Option
def tok : P String := do
  match (← get) with
  | [] => failure
  | t :: ts => set ts; pure t
def pNat : P Nat := do let t ← tok; match t.toNat? with | some n => pure n | none => failure
def pHex : P Bytes := do let t ← tok; match unhex t with | some b => pure b | none => failure
def pBool : P Bool := do let t ← tok; pure (t = "1")
def pRep {α} (p : P α) : Nat → P (List α)
  | 0 => pure []
  | n + 1 => do let a ← p; let r ← pRep p n; pure (a :: r)

def pVal : P Value := do
  let t ← tok
  let body := (t.drop 1).toString
  match t.front with
  | 'i' => match body.toInt? with | some v => pure (.int v) | none => failure
  | 'w' => match (body.splitOn ".").map String.toNat? with
    | [some c, some v] => pure (.word c v)
    | _ => failure
  | _ => failure

/-- CHANNEL set objects in definition order, FRAME objects each listing channel identifiers; the log pass is built by
the model (`buildLogPass`: channels picked by name in the Frame's order).  A Frame listing an undefined channel does
not parse (the harness generates none). -/
def pLpDefs : P (List Chan × List FrameType) := do
  let nd ← pNat
  let defs ← pRep (do let id ← pHex; let rc ← pNat; let nd ← pNat; let dims ← pRep pNat nd; pure (⟨id, rc, dims⟩ : Chan)) nd
  let n ← pNat
  let frames ← pRep (do
    let o ← pNat; let c ← pNat; let i ← pHex; let k ← pNat
    let ids ← pRep pHex k
    pure ((⟨o, c, i⟩ : ObName), ids)) n
  match buildLogPass defs frames with
  | .ok lp => pure (defs, lp)
  | .error _ => failure

def pLp : P (List FrameType) := do let r ← pLpDefs; pure r.2

def pFrames (lp : List FrameType) : P (List FrameA) := do
  let n ← pNat
  pRep (do
    let ft ← pNat; let fno ← pNat; let t ← tok
    if t = "N" then pure ⟨ft, fno, none⟩ else
    let nch := (lp[ft]?.map (fun f => f.chans.length)).getD 0
    let vals ← pRep (do let k ← pNat; pRep pVal k) nch
    pure ⟨ft, fno, some vals⟩) n

def pRecs : P (List Rec) := do
  let n ← pNat
  pRep (do let e ← pBool; let x ← pBool; let ty ← pNat; let b ← pHex; pure (⟨e, x, ty, b⟩ : Rec)) n

def pOptInt : P (Option Int) := do let t ← tok; match optInt t with | some v => pure v | none => failure

def pSel : P (Option TD.C15.Selector) := do
  let t ← tok
  if t = "A" then pure none
  else if t = "S" then do let a ← pOptInt; let b ← pOptInt; let c ← pOptInt; pure (some (.slice a b c))
  else do let n ← pNat; pure (some (.sample n))

def pChans : P (Option (List Bytes)) := do
  let t ← tok
  if t = "A" then pure none else do let k ← pNat; let l ← pRep pHex k; pure (some l)

def showErr : Err → String
  | .index => "err IndexError"
  | .key => "err KeyError"
  | .value => "err ValueError"
  | .repCode => "err ExceptionRepCode"
  | .frameChannel => "err ExceptionFrameChannel"
  | .frameArray => "err ExceptionFrameArray"
  | .frameArrayInit => "err ExceptionFrameArrayInit"
  | .other _ => "err other"

def showF : FVal → String
  | .nan => "fnan"
  | .inf neg => if neg then "f-inf" else "f+inf"
  | .fin neg m e => s!"f{if neg then "-" else "+"}{m}e{e}"

def showVal : Value → String
  | .int v => s!"i{v}"
  | .word c w => showF (floatVal c w)
  | _ => "?"

def showRow : Option (List Value) → String
  | none => "U"
  | some vs => ",".intercalate (vs.map showVal)

def showArrays (arrs : List Arr) : String :=
  " ".intercalate (arrs.map (fun a => s!"ch {a.length}" ++ String.join (a.map (fun r => " " ++ showRow r))))

def showRec (r : Rec) : String :=
  s!"{if r.encrypted then 1 else 0} {if r.isEflr then 1 else 0} {r.lrType} {hex r.payload}"

def fhTable : TD.C03.Table := ⟨TD.C03.sFILE_HEADER, [], [], []⟩
def orTable : TD.C03.Table := ⟨TD.C03.sORIGIN, [], [], []⟩

def runCalls (ft : FrameType) (recs : List Rec) (posmap : List (ObName × List IflrRef)) :
    List (Option TD.C15.Selector × Option (List Bytes)) → List Arr → List String
  | [], _ => []
  | (sel, ch) :: rest, arrs =>
    match populate ft recs posmap arrs sel ch with
    | .error e => ("| " ++ showErr e) :: runCalls ft recs posmap rest arrs
    | .ok (arrs', n) => s!"| ok {n} {showArrays arrs'}" :: runCalls ft recs posmap rest arrs'

def step (line : String) : String :=
  match line.splitOn " " with
  | "encfile" :: rest =>
    match (do let dl ← pLpDefs; let fr ← pFrames dl.2; pure (dl.1, dl.2, fr)).run rest with
    | some ((defs, lp, fr), []) =>
      let recs : List Rec := [⟨false, true, 0, encodeEflr fhTable {}⟩, ⟨false, true, 1, encodeEflr orTable {}⟩,
        ⟨false, true, 3, encodeEflr (channelTable defs) {}⟩, ⟨false, true, 4, encodeEflr (frameTable lp) {}⟩] ++
        fr.map (frameRec lp)
      " ".intercalate (toString recs.length :: recs.map showRec)
    | _ => "bad-op"
  | "index" :: rest =>
    match (do let lp ← pLp; let r ← pRecs; pure (lp, r)).run rest with
    | some ((lp, recs), []) =>
      match indexIflrs lp 0 recs [] with
      | .error e => showErr e
      | .ok m => " ".intercalate (["ok", toString m.length] ++ m.map (fun e =>
          " ".intercalate ([toString e.1.o, toString e.1.c, hex e.1.i, toString e.2.length] ++
            e.2.map (fun r => s!"{r.pos} {r.frameNo} {",".intercalate (r.x.map showVal)}"))))
    | _ => "bad-op"
  | "populate" :: rest =>
    match (do
        let lp ← pLp; let k ← pNat; let r ← pRecs; let nc ← pNat
        let calls ← pRep (do let s ← pSel; let c ← pChans; pure (s, c)) nc
        pure (lp, k, r, calls)).run rest with
    | some ((lp, k, recs, calls), []) =>
      match lp[k]?, indexIflrs lp 0 recs [] with
      | some ft, .ok m => " ".intercalate ("ok" :: runCalls ft recs m calls (initialArrays ft m))
      | _, .error e => showErr e
      | none, _ => "bad-op"
    | _ => "bad-op"
  | _ => "bad-op"

def main : IO Unit := run step
