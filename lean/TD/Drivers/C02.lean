import TD.Common.Proto
import TD.C01.Model
import TD.C01.Spec
import TD.C01.Wire
import TD.C02.Model
import TD.C02.Spec
open TD TD.C01 TD.C02 TD.Proto

/-!
Line protocol of the C02 driver.

* `positions <hex>` → `<ok|err:Class> <entries>`, entries = `-` or `vrPos,lrshPos,attr,type,ldLen;…`
    (model of LogicalRecordIndex._enter: FileRead._enter + iter_logical_record_positions)
* `hist <hex> <reqs>` → `r1|r2|…`, reqs = `vrPos,lrshPos,off,len;…`, each r = `ok <payloadHex> <p+n,p+n,…>` (the reads
    made, in order: position+bytes returned) or `err:Class`  (model of a history of get_file_logical_data calls on
    one reader object)
* `spec <sul> <recs>` (arguments as for C01 `enc`) → `ok <hex of the file> <specPositions as for positions> <spans>`,
    spans = per record `lo-hi` : the byte interval of the visible records holding the record (specification side)
-/

namespace TD.C02.Drv
open TD.C01.Drv

def showPos (p : PosDesc) : String := s!"{p.vrPos},{p.lrshPos},{p.attr},{p.type},{p.ldLen}"

def showPoss (l : List PosDesc) : String := if l.isEmpty then "-" else ";".intercalate (l.map showPos)

def showPossS (l : List PosSpec) : String :=
  if l.isEmpty then "-" else ";".intercalate (l.map fun p => s!"{p.vrPos},{p.lrshPos},{p.attr},{p.type},{p.ldLen}")

def parseReq (s : String) : Option Req :=
  match s.splitOn "," with
  | [a, b, c, d] => do
    let a ← a.toNat?
    let b ← b.toNat?
    let c ← c.toInt?
    let d ← d.toInt?
    pure ⟨a, b, c, d⟩
  | _ => none

def showFetched : Except Err Fetched → String
  | .error e => "err:" ++ errName e
  | .ok f => s!"ok {hex f.out} " ++ (if f.touched.isEmpty then "-" else ",".intercalate (f.touched.map fun (p, n) => s!"{p}+{n}"))

def step (line : String) : String :=
  match line.splitOn " " with
  | ["positions", h] =>
    match unhex h with
    | some b =>
      let (l, st) := iterPositionsSt b
      let stS := match st with
        | none => "ok"
        | some e => "err:" ++ errName e
      s!"{stS} {showPoss l}"
    | none => "bad-op"
  | ["hist", h, reqs] =>
    match unhex h, (reqs.splitOn ";").mapM parseReq with
    | some b, some qs => "|".intercalate ((runHist b default qs).map showFetched)
    | _, _ => "bad-op"
  | ["spec", sul, recs] =>
    match parseSul sul, parseRecs recs with
    | some s, some (rs, ℓ) =>
      let spans := (specSpans rs ℓ).map fun (lo, hi) => s!"{lo}-{hi}"
      s!"ok {hex (encode s rs ℓ)} {showPossS (specPositionsS rs ℓ)} {if spans.isEmpty then "-" else ",".intercalate spans}"
    | _, _ => "bad-op"
  | _ => "bad-op"

end TD.C02.Drv

def main : IO Unit := run TD.C02.Drv.step
