import TD.Common.Proto
import TD.C01.Model
import TD.C01.Spec
import TD.C01.Wire
import TD.C02.Model
import TD.C02.ObjModel
import TD.C02.Spec
open TD TD.C01 TD.C02 TD.Proto

/-!
Line protocol of the C02 driver.

* `positions <hex>` → `<ok|err:Class> <entries>`, entries = `-` or `vrPos,lrshPos,attr,type,ldLen;…`
    (model of LogicalRecordIndex._enter: FileRead._enter + iter_logical_record_positions)
* `hist <hex> <reqs>` → `r1|r2|…`, reqs = `vrPos,lrshPos,off,len;…`, each r = `ok <payloadHex> <p+n,p+n,…>` (the reads
    made, in order: position+bytes returned) or `err:Class`  (model of a history of get_file_logical_data calls on
    one reader object)
* `obj <hex> <ops>` → `o1|o2|…`, ops = `A:E;B:F2,0,-1;A:X;A:S;A:I;A:P;…` on two index objects A, B sharing one file object
    (E enter, X exit, F fetch i,off,len, S re-scan on the same FileRead, I sequential iteration on it, P pickle round
    trip); outputs: E → `ok <entries>`, X/P → `ok`, F → as in `hist`, S → `<ok|err:Class> <entries>`,
    I → `<ok|err:Class> <recs as C01 iter>`, any failure → `err:Class`
* `spec <sul> <recs>` (arguments as for C01 `enc`) → `ok <hex of the file> <specPositions as for positions> <spans>`,
    spans = per record `lo-hi` : the byte interval of the visible records holding the record (specification side)
-/

namespace TD.C02.Drv
open TD.C01.Drv

def showPos (p : PosDesc) : String := s!"{p.vrPos},{p.lrshPos},{p.attr},{p.type},{p.ldLen}"

def showPoss (l : List PosDesc) : String := if l.isEmpty then "-" else ";".intercalate (l.map showPos)

def showPossS (l : List PosSpec) : String :=
  if l.isEmpty then "-" else ";".intercalate (l.map fun p => s!"{p.vrPos},{p.lrshPos},{p.attr},{p.type},{p.ldLen}")

def parseReq (s : String) : Option Req :=
  match s.splitOn "," with
  | [a, b, c, d] => do
    let a ← a.toNat?
    let b ← b.toNat?
    let c ← c.toInt?
    let d ← d.toInt?
    pure ⟨a, b, c, d⟩
  | _ => none

def showFetched : Except Err Fetched → String
  | .error e => "err:" ++ errName e
  | .ok f => s!"ok {hex f.out} " ++ (if f.touched.isEmpty then "-" else ",".intercalate (f.touched.map fun (p, n) => s!"{p}+{n}"))

def parseOp (s : String) : Option (Bool × Op) :=
  match s.splitOn ":" with
  | [o, body] => do
    let j ← (if o = "A" then some false else if o = "B" then some true else none)
    let op ← (if body = "E" then some Op.enter else if body = "X" then some Op.exit
      else if body = "S" then some Op.rescan else if body = "I" then some Op.iter else if body = "P" then some Op.pickle
      else if body.startsWith "F" then
        match (body.drop 1).toString.splitOn "," with
        | [i, off, len] => do
          let i ← i.toNat?
          let off ← off.toInt?
          let len ← len.toInt?
          pure (Op.fetch i off len)
        | _ => none
      else none)
    pure (j, op)
  | _ => none

def stS (st : Option Err) : String :=
  match st with
  | none => "ok"
  | some e => "err:" ++ errName e

def showOut : Out → String
  | .entered l => s!"ok {showPoss l}"
  | .done => "ok"
  | .fetched f => showFetched (.ok f)
  | .scanned l e => s!"{stS e} {showPoss l}"
  | .iterated l e => s!"{stS e} {showRecs l}"
  | .error e => "err:" ++ errName e

def step (line : String) : String :=
  match line.splitOn " " with
  | ["positions", h] =>
    match unhex h with
    | some b =>
      let (l, st) := iterPositionsSt b
      let stS := match st with
        | none => "ok"
        | some e => "err:" ++ errName e
      s!"{stS} {showPoss l}"
    | none => "bad-op"
  | ["hist", h, reqs] =>
    match unhex h, (reqs.splitOn ";").mapM parseReq with
    | some b, some qs => "|".intercalate ((runHist b default qs).map showFetched)
    | _, _ => "bad-op"
  | ["obj", h, ops] =>
    match unhex h, (ops.splitOn ";").mapM parseOp with
    | some b, some os =>
      "|".intercalate ((runObj2 (fun _ rs => rs) b 0 ⟨[], default, false⟩ ⟨[], default, false⟩ os).map showOut)
    | _, _ => "bad-op"
  | ["spec", sul, recs] =>
    match parseSul sul, parseRecs recs with
    | some s, some (rs, ℓ) =>
      let spans := (specSpans rs ℓ).map fun (lo, hi) => s!"{lo}-{hi}"
      s!"ok {hex (encode s rs ℓ)} {showPossS (specPositionsS rs ℓ)} {if spans.isEmpty then "-" else ",".intercalate spans}"
    | _, _ => "bad-op"
  | _ => "bad-op"

end TD.C02.Drv

def main : IO Unit := run TD.C02.Drv.step
