import TD.Common.Proto
import TD.C14.Model
import TD.C14.Spec
open TD TD.C14 TD.C14.Spec TD.Proto

/-! Line protocol for C14. Strings travel as code points in hex joined by '.', "-" = empty string.

  dat <text>            parse_file            -> "ok <chan>…" | "err dat|assertion|typeError"
  can <text>            can_parse_file        -> "true" | "false" | "raise …"
  tok f|u|d|t <token>   one conversion        -> value | "err dat"
  hdr <line>            RE_DATA_HEADER_DEFINITION.match(line) is not None -> "0" | "1"
  decl <line>           RE_CHANNEL_DEFINITION.match(line).groups()         -> "g1:g2:g3" | "none"
  cls <cp>              character classes     -> "<isSpace><keptByTranslate><isUpperDigit>"
  print <file…>         spec printer          -> text
  expect <file…>        spec expected result  -> same format as dat
-/

def hexNat (s : String) : Option Nat :=
  if s.isEmpty then none else
  s.toList.foldl (fun acc c => match acc, hexVal c with
    | some a, some d => some (a * 16 + d)
    | _, _ => none) (some 0)

def decStr (s : String) : Option Str :=
  if s = "-" then some [] else (s.splitOn ".").mapM hexNat

def hexOf (n : Nat) : String := String.ofList (Nat.toDigits 16 n)

def encStr (s : Str) : String :=
  if s.isEmpty then "-" else ".".intercalate (s.map hexOf)

def showErr : Err → String
  | .dat => "err dat"
  | .assertion => "raise AssertionError"
  | .typeError => "raise TypeError"

def showFloat : PyFloat → String
  | .nan => "fnan"
  | .inf neg => if neg then "finf-" else "finf+"
  | .fin neg m e => s!"f{if neg then "-" else "+"}{m}e{e}"

def showValue : Value → String
  | .float f => showFloat f
  | .datetime y mo d h mi s => s!"T{y}.{mo}.{d}.{h}.{mi}.{s}"
  | .date y mo d => s!"D{y}.{mo}.{d}"
  | .time h mi s => s!"t{h}.{mi}.{s}"

def showChan (c : Chan × List Value) : String :=
  let vals := if c.2.isEmpty then "-" else ",".intercalate (c.2.map showValue)
  s!"{encStr c.1.name}:{encStr c.1.desc}:{encStr c.1.units}:{if c.1.obj then "O" else "F"}:{vals}"

def showResult (r : List (Chan × List Value)) : String :=
  " ".intercalate ("ok" :: r.map showChan)

/-! reader for the `print` / `expect` argument stream -/
abbrev P := StateT (List String) Option

def tokP : P String := fun s => match s with
  | [] => none
  | t :: r => some (t, r)

def natP : P Nat := do
  let t ← tokP
  match t.toNat? with
  | some n => pure n
  | none => failure

def boolP : P Bool := do
  let n ← natP
  pure (n != 0)

def strP : P Str := do
  let t ← tokP
  match decStr t with
  | some s => pure s
  | none => failure

def manyP {α} (p : P α) : Nat → P (List α)
  | 0 => pure []
  | n + 1 => do
    let a ← p
    let r ← manyP p n
    pure (a :: r)

def listP {α} (p : P α) : P (List α) := do
  let n ← natP
  manyP p n

/-- digits written as a decimal string, "-" = none -/
def digitsP : P (List Nat) := do
  let t ← tokP
  if t = "-" then pure [] else pure (t.toList.map (fun c => c.toNat - 48))

def signP : P (Option Bool) := do
  let t ← tokP
  pure (if t = "-" then some true else if t = "+" then some false else none)

def layP : P LineLay := do
  let lead ← strP
  let seps ← listP strP
  let trail ← strP
  pure { lead := lead, seps := seps, trail := trail }

def numP : P Num := do
  let sign ← signP
  let ip ← digitsP
  let ft ← tokP
  let frac : Option (List Nat) := if ft = "N" then none else if ft = "-" then some [] else some (ft.toList.map (fun c => c.toNat - 48))
  let et ← tokP
  if et = "N" then pure { sign := sign, ip := ip, frac := frac, exp := none }
  else do
    let sg ← signP
    let ds ← digitsP
    pure { sign := sign, ip := ip, frac := frac, exp := some (et = "E", sg, ds) }

def declP : P (Decl × LineLay) := do
  let name ← strP
  let words ← listP strP
  let units ← strP
  let lay ← layP
  pure ({ name := name, words := words, units := units }, lay)

def cellLayP : P CellLay := do
  let dash ← boolP
  let dz ← natP
  let yz ← natP
  let hp ← boolP
  let mp ← boolP
  let sp ← boolP
  pure { dash := dash, dayZeros := dz, yrZeros := yz, hPad := hp, mPad := mp, sPad := sp }

def rowP : P (Row × LineLay × CellLay) := do
  let y ← natP; let mo ← natP; let d ← natP; let h ← natP; let mi ← natP; let s ← natP
  let y2 ← natP; let mo2 ← natP; let d2 ← natP
  let h3 ← natP; let mi3 ← natP; let s3 ← natP
  let nums ← listP numP
  let lay ← layP
  let cl ← cellLayP
  pure ({ utim := ⟨y, mo, d, h, mi, s⟩, date := ⟨y2, mo2, d2⟩, time := ⟨h3, mi3, s3⟩, nums := nums }, lay, cl)

def fileP : P File := do
  let fin ← boolP
  let decls ← listP declP
  let sel ← listP strP
  let hl ← layP
  let rows ← listP rowP
  pure { decls := decls, sel := sel, hdrLay := hl, rows := rows, finalNewline := fin }

def readFile (args : List String) : Option File :=
  match fileP.run args with
  | some (f, []) => some f
  | _ => none

def showConv (r : Except Err Value) : String :=
  match r with
  | .ok v => showValue v
  | .error e => showErr e

def b01 (b : Bool) : String := if b then "1" else "0"

def step (line : String) : String :=
  match line.splitOn " " with
  | ["dat", t] =>
    match decStr t with
    | some s => match parseFile s with
      | .ok r => showResult r
      | .error e => showErr e
    | none => "bad-op"
  | ["can", t] =>
    match decStr t with
    | some s => match canParseFile s with
      | .ok b => if b then "true" else "false"
      | .error e => showErr e
    | none => "bad-op"
  | ["tok", k, t] =>
    match decStr t with
    | some s =>
      if k = "f" then showConv (convert .float s)
      else if k = "u" then showConv (convert .utim s)
      else if k = "d" then showConv (convert .date s)
      else if k = "t" then showConv (convert .time s)
      else "bad-op"
    | none => "bad-op"
  | ["hdr", t] =>
    match decStr t with
    | some s => b01 (scanHeader s)
    | none => "bad-op"
  | ["decl", t] =>
    match decStr t with
    | some s => match scanDecl s with
      | some (a, b, c) => s!"{encStr a}:{encStr b}:{encStr c}"
      | none => "none"
    | none => "bad-op"
  | ["cls", c] =>
    match hexNat c with
    | some n => b01 (isSpace n) ++ b01 (translate [n] != []) ++ b01 (isUpperDigit n)
    | none => "bad-op"
  | "print" :: args =>
    match readFile args with
    | some f => encStr (print f)
    | none => "bad-op"
  | "expect" :: args =>
    match readFile args with
    | some f => showResult (expected f)
    | none => "bad-op"
  | _ => "bad-op"

def main : IO Unit := run step
