"""C12 — batch conversion isolates bad files and is independent of job scheduling
(LAS/core/WriteLAS.py convert_dir_or_file_to_las[_multiprocessing], RP66V1/LIS/BIT ToLAS.py single_*_to_las, util/DirWalk.py).

Proof part: lean/TD/TD/C12 (abstract scheduler, output naming).  Exercise part (this file): directories of valid and
damaged files converted by the real code sequentially, on real process pools and file by file.
"""
import hashlib, json, os, random, shutil, signal, struct, time

CLAIM = {
 'text': ('Lean 4 theorems about an abstract batch (conv: pure total function file -> result + output files; schedule = any '
          'interleaving of start/write/finish events on k workers): schedule_independent / schedules_agree / '
          'order_independent (same results dict and output tree for every valid schedule and task order when no two '
          'tasks write the same path), isolation / one_result_per_file / result_depends_only_on_file / outputs_as_alone, '
          'and injectivity of the three output naming rules as coded (lis_/bit_out_path_injective; rp_out_path_injective '
          'under the explicit NoStemCollision hypothesis, with f14_same_output_path / f14_schedule_dependent as the proved '
          'negation witnesses for finding F14).  Level is PARTIAL: the two hypotheses (nothing escapes single_*_to_las; '
          'outputs disjoint) and everything the abstract scheduler cannot exhibit (OS scheduling, pool start-up, pickling) '
          'are only exercised: generated directories of valid + damaged files run by the real converters sequentially, with '
          'jobs in {1,2,5,16} (thorough: 1..16) and file by file in fresh processes, result dicts and output trees compared '
          'byte for byte minus the CREA. line.'),
 'note': ('Trusted: Lean kernel; model<->code correspondence of the naming/posixpath/dirWalk-order functions and of runSched '
          'vs a Python dict simulation and vs recorded real pool schedules on the cases of the run.  Assumed: conversions are '
          'deterministic functions of (path, bytes, options); the OS schedules seen on the run are a sample, not all.  '
          'F14 (RP66V1 output-name collision) is an open known finding; LIS channel subsets (F19, C11) are not used.'),
 'technique': 'Lean 4 proof (abstract scheduler, write commutation) + model-implementation correspondence + fault-injection exercise of the real multiprocessing path',
 'design_ref': 'DESIGN.md section 6 C12',
}

RULE = ('A case is one (directory recipe, mode) pair: a directory of 4-24 files for one converter (RP66V1/LIS/BIT) mixing '
        'copies of the smallest bundled example files with damaged files (truncation at header/record boundaries and random '
        'offsets, bit flips, header overwrite, zeroed ranges, empty, foreign: text/PDF-like/random bytes/other well-log '
        'formats), names chosen so that damaged files fall at every position of the alphabetical (sequential) and the '
        'size (pool) order; modes: sequential, jobs in {1,2,5,16} (thorough 1..16), file-by-file in fresh processes. '
        'Non-trivial when the directory has >=2 valid and >=1 damaged file; distinct by (format, damaged positions, '
        'damage kinds, mode).  Plus correspondence cases: random path strings for the naming rules, random directory '
        'listings for the two dirWalk orders, random abstract batches/schedules, recorded real pool schedules.')
ASSUMPTIONS = [
    'single_*_to_las is a deterministic function of (input path, bytes, options): no dependence on time (other than the CREA. line), environment or previous calls',
    'channel subsets: most directories use the empty channel set; the `channels` directories use non-empty subsets in which every log pass keeps at least one requested channel (open finding C06-indirect-x-empty-channel-list — implied X from uninitialised memory when a subset selects nothing — is deliberately not touched)',
    'the process schedules produced by the OS during the run are a sample of all schedules; the theorem covers all schedules of the abstract model only',
    'posix paths; file names are Latin-1/ASCII',
]
TRUSTED = ['modelled, not verified: multiprocessing.Pool (task hand-out, pickling, result collection) is represented by the abstract event schedule; os.path functions transcribed in Lean and compared on every generated path',
           'exercise harness: each batch runs in a forked child of the harness with stderr silenced, logging disabled and a time limit; the child calls the unmodified WriteLAS batch functions']

JOBS_QUICK = (1, 2, 5, 16)
MODE_TIMEOUT = 240.0
SINGLE_TIMEOUT = 60.0

FMT = {
    'rp': {'module': 'TotalDepth.RP66V1.ToLAS', 'func': 'single_rp66v1_file_to_las', 'type': 'RP66V1',
           'valid': ['RP66V1/data/MINIMAL_FILE.dlis', 'RP66V1/data/BASIC_FILE_WITH_TWO_VISIBLE_RECORDS_NO_IFLRS.dlis',
                     'RP66V1/data/BASIC_FILE.dlis'],
           'exts': ['.dlis', '.DLIS', '.dls', '.rp66']},
    'lis': {'module': 'TotalDepth.LIS.ToLAS', 'func': 'single_lis_file_to_las', 'type': 'LIS',
            'valid': ['LIS/data/DILLSON-1_WELL_LOGS_FILE-013.LIS', 'LIS/data/DILLSON-1_WELL_LOGS_FILE-049.LIS'],
            'exts': ['.lis', '.LIS', '.tap']},
    'bit': {'module': 'TotalDepth.BIT.ToLAS', 'func': 'single_bit_path_to_las_path', 'type': 'BIT',
            'valid': ['BIT/data/29_10-_3Z_dwl_DWL_WIRE_1644659.bit'],
            'exts': ['.bit', '.BIT', '.dat']},
}
FOREIGN_FILES = ['LAS/data/BASIC_FILE_0_50.las', 'DAT/data/example.dat', 'RP66V1/data/MINIMAL_FILE.dlis',
                 'LIS/data/DILLSON-1_WELL_LOGS_FILE-013.LIS', 'BIT/data/29_10-_3Z_dwl_DWL_WIRE_1644659.bit',
                 'RP66V1/XML/MINIMAL_FILE.dlis.xml']


# ---------------------------------------------------------------- locations

def _repo():
    import core
    return core.REPO


def _example_dir():
    d = os.path.join(_repo(), 'example_data')
    if os.path.isdir(d):
        return d
    return '/repo/example_data'    # a scratch copy made for a mutation experiment holds src/ only; the data are read-only inputs


_CACHE = {}


def _example(rel):
    if rel not in _CACHE:
        with open(os.path.join(_example_dir(), rel), 'rb') as fh:
            _CACHE[rel] = fh.read()
    return _CACHE[rel]


# ---------------------------------------------------------------- damage

def boundaries(fmt, data):
    """Offsets of header / record boundaries of a valid file of the given format."""
    out = {0, 1, 2, 3, 4, 8, 11, 12, 16}
    n = len(data)
    if fmt == 'rp':
        out |= {20, 24, 60, 66, 79, 80, 81, 82, 84, 85, 86, 88}
        pos = 80
        k = 0
        while pos + 4 <= n and k < 40:
            ln = struct.unpack('>H', data[pos:pos + 2])[0]
            out |= {pos, pos + 2, pos + 4, pos + 6, pos + 8}
            if ln < 4:
                break
            pos += ln
            k += 1
        out.add(min(pos, n))
    elif fmt == 'lis':
        pos = 0
        k = 0
        while pos + 4 <= n and k < 60:
            ln = struct.unpack('>H', data[pos:pos + 2])[0]
            out |= {pos, pos + 2, pos + 4, pos + 6}
            if ln < 4:
                break
            pos += ln
            k += 1
        out.add(min(pos, n))
    elif fmt == 'bit':
        out |= {0x114, 0x118, 0x11c, 0x120, 0x124, 0x12c}
        pos = 0
        k = 0
        while pos + 12 <= n and k < 60:
            nxt = struct.unpack('<I', data[pos + 8:pos + 12])[0]
            out |= {pos, pos + 4, pos + 8, pos + 12, pos + 16}
            if nxt <= pos:
                break
            pos = nxt
            k += 1
    out |= {n - 1, n - 2, n - 4}
    return sorted(o for o in out if 0 <= o < n)


def foreign_bytes(what, seed, size):
    r = random.Random(seed)
    if what == 'text':
        words = ['well', 'log', 'depth', 'GR', 'CALI', '12.5', 'API', '\n', '\t', 'run', 'LAS', '~V', '#', ':', '.']
        s = ' '.join(r.choice(words) for _ in range(size // 4 + 1))
        return s.encode('ascii')[:size]
    if what == 'pdf':
        body = bytes(r.getrandbits(8) for _ in range(max(size - 40, 0)))
        return b'%PDF-1.4\n%\xe2\xe3\xcf\xd3\n1 0 obj\n<< /Type /Catalog >>\n' + body + b'\n%%EOF\n'
    if what == 'random':
        return bytes(r.getrandbits(8) for _ in range(size))
    if what == 'zeros':
        return bytes(size)
    if what == 'ebcdic':      # SEG-Y like text header (F17 class, fixed in /repo)
        card = lambda i: ('C%2d ' % i).encode('cp500') + bytes(r.choice(b'\x40\xc1\xc2\xc3\xf0\xf1') for _ in range(76))
        return b''.join(card(i + 1) for i in range(40)) + bytes(r.getrandbits(8) for _ in range(size))
    if what == 'tif':         # plausible TIF marker (BIT / TIF-wrapped formats are recognised by it) then noise
        nxt = r.choice([0x120, 0x120, 0x5c, 12, 0, 0xffff, 0x10000])
        return struct.pack('<III', 0, 0, nxt) + bytes(r.getrandbits(8) for _ in range(size))
    if what == 'sul':         # a well-formed RP66V1 storage unit label followed by noise
        return (b'   1V1.00RECORD 8192' + b'Default Storage Set'.ljust(60)) + bytes(r.getrandbits(8) for _ in range(size))
    if what == 'laslike':
        return (b'~Version Information Section\nVERS.   %s : x\nWRAP. NO : y\n~A\n' % r.choice([b'2.0', b'1.2', b'3.0', b'9'])) + \
            bytes(r.choice(b' 0123456789.-\n') for _ in range(size))
    if what == 'lislike':     # physical record headers with arbitrary lengths/attributes, LIS-like logical record types
        out = b''
        while len(out) < size:
            ln = r.choice([4, 6, 62, 128, 1024, r.randrange(0, 65536)])
            out += struct.pack('>HH', ln, r.choice([0, 0, 1, 2, 0x8600, r.randrange(65536)])) + bytes([r.choice([128, 129, 130, 132, 64, 34, 0, r.randrange(256)]), 0]) + \
                bytes(r.getrandbits(8) for _ in range(min(max(ln - 6, 0), 300)))
        return out[:size]
    raise ValueError(what)


def apply_damage(data, dmg):
    """Deterministic: the recipe alone fixes the bytes."""
    if dmg is None:
        return data
    k = dmg['kind']
    if k == 'trunc':
        return data[:dmg['at']]
    if k == 'empty':
        return b''
    if k == 'flip':
        b = bytearray(data)
        for off, bit in dmg['bits']:
            if off < len(b):
                b[off] ^= (1 << bit)
        return bytes(b)
    if k == 'header':
        b = bytearray(data)
        patch = bytes.fromhex(dmg['bytes'])
        b[dmg['off']:dmg['off'] + len(patch)] = patch
        return bytes(b)
    if k == 'zero':
        b = bytearray(data)
        b[dmg['off']:dmg['off'] + dmg['len']] = bytes(min(dmg['len'], max(len(b) - dmg['off'], 0)))
        return bytes(b)
    if k == 'subst':          # replace the first occurrence of a byte string by another of the same length (a still-readable variant)
        old, new = bytes.fromhex(dmg['find']), bytes.fromhex(dmg['repl'])
        nth = dmg.get('nth', 0)
        if nth == 'all':
            return data.replace(old, new)
        i = -1
        for _ in range(nth + 1):
            i = data.find(old, i + 1)
            if i < 0:
                return data
        return data[:i] + new + data[i + len(old):]
    if k == 'foreign':
        return foreign_bytes(dmg['what'], dmg['seed'], dmg['size'])
    if k == 'other':          # a valid file of another format
        return _example(dmg['src'])
    raise ValueError(k)


def gen_damage(rng, fmt, src):
    data = _example(src)
    n = len(data)
    x = rng.random()
    if x < 0.18:
        return {'kind': 'trunc', 'at': rng.choice(boundaries(fmt, data)), 'where': 'boundary'}
    if x < 0.28:
        return {'kind': 'trunc', 'at': rng.randrange(0, n), 'where': 'random'}
    if x < 0.50:
        cnt = rng.choice([1, 1, 2, 3, 8])
        hi = rng.choice([n, n, 2000, 400, 0x130, 100])
        return {'kind': 'flip', 'bits': [[rng.randrange(0, min(hi, n)), rng.randrange(8)] for _ in range(cnt)]}
    if x < 0.72:
        if rng.random() < 0.4:
            off = rng.choice([0, 0, 1, 2, 4, 8, 12, 20, 60, 66, 76, 80, 82, 84, 0x114, 0x118]) % max(n - 8, 1)
        else:
            off = rng.randrange(0, min(n, rng.choice([0x140, 0x140, 1000])))     # anywhere in the leading header blocks
        ln = rng.choice([1, 2, 4, 8])
        return {'kind': 'header', 'off': off, 'bytes': bytes(rng.getrandbits(8) for _ in range(ln)).hex()}
    if x < 0.78:
        off = rng.choice([0, 4, 80, rng.randrange(0, n)])
        return {'kind': 'zero', 'off': off, 'len': rng.choice([2, 4, 16, 256])}
    if x < 0.82:
        return {'kind': 'empty'}
    if x < 0.94:
        return {'kind': 'foreign', 'what': rng.choice(['text', 'pdf', 'random', 'random', 'zeros', 'ebcdic', 'tif', 'sul', 'laslike', 'lislike', 'lislike']),
                'seed': rng.randrange(1 << 30), 'size': rng.choice([1, 7, 12, 13, 79, 80, 81, 128, 300, 3200, 5000, 40000])}
    others = [f for f in FOREIGN_FILES if f not in FMT[fmt]['valid'] and not f.startswith(FMT[fmt]['valid'][0].split('/')[0] + '/data')]
    return {'kind': 'other', 'src': rng.choice(others)}


def gen_recipe(rng, fmt, nfiles=None, f14=False, tag=''):
    """A directory recipe: list of files (name, source example, damage) + conversion options."""
    spec = FMT[fmt]
    n = nfiles or rng.randint(4, 24)
    nd = rng.randint(1, max(1, n - 2))
    force = rng.choice(['first', 'last', 'both', None])
    dam_pos = set(rng.sample(range(n), nd))
    if force in ('first', 'both'):
        dam_pos.add(0)
    if force in ('last', 'both'):
        dam_pos.add(n - 1)
    while len(dam_pos) > n - 2:          # keep at least two valid files
        dam_pos.discard(rng.choice(sorted(dam_pos)))
    files = []
    for pos in range(n):
        src = rng.choice(spec['valid'])
        stem = '%s%02d-%s' % (rng.choice('Ffg'), pos, ''.join(rng.choice('abcxyzABC019') for _ in range(3)))
        # names sort by the two digits only when the first letter is equal: mix cases so that both orders get exercised
        name = stem + rng.choice(spec['exts'])
        files.append({'name': name, 'src': src, 'damage': gen_damage(rng, fmt, src) if pos in dam_pos else None})
    und = [f for f in files if f['damage'] is None]
    if len(und) >= 2 and len({f['src'] for f in und}) == len(und):
        und[1]['src'] = und[0]['src']          # always at least two files of equal size (ties in the big-first walk)
    recurse = rng.random() < 0.3
    if recurse:
        for f in files:
            f['name'] = rng.choice(['', '', 'A/', 'B/', 'A/C/', 'b/']) + f['name']
    if f14:
        # two inputs whose names differ only in the extension: RP66V1 gives them one output path (finding F14);
        # the LIS and BIT naming rules keep the extension, so there the pair must stay apart
        a, b = spec['valid'][0], spec['valid'][-1 if fmt != 'rp' else 1]
        e = spec['exts'][0]
        files.append({'name': 'b' + e, 'src': a, 'damage': None})
        files.append({'name': 'b' + e.upper(), 'src': b, 'damage': None})
    return {'fmt': fmt, 'files': files, 'opt': gen_opt(rng, fmt), 'tag': tag, 'recurse': recurse}


# ---------------------------------------------------------------- special directories: prefix-related names, recursive trees

# damages seen to make a conversion raise AFTER identification succeeded ("late" failures); only candidates — every run
# screens them (and random ones) by converting the damaged file on its own and keeps those that really fail
LATE_FAIL_SEEDS = {
    'lis': [('LIS/data/DILLSON-1_WELL_LOGS_FILE-049.LIS', [[574, 0], [545, 2]]),
            ('LIS/data/DILLSON-1_WELL_LOGS_FILE-049.LIS', [[4808, 4], [4046, 4]]),
            ('LIS/data/DILLSON-1_WELL_LOGS_FILE-049.LIS', [[1565, 2], [2809, 4]]),
            ('LIS/data/DILLSON-1_WELL_LOGS_FILE-013.LIS', [[536, 7]])],
    'rp': [],
    'bit': [('BIT/data/29_10-_3Z_dwl_DWL_WIRE_1644659.bit', [[198, 7], [74, 1]]),
            ('BIT/data/29_10-_3Z_dwl_DWL_WIRE_1644659.bit', [[214, 7], [217, 1], [93, 2], [77, 0]]),
            ('BIT/data/29_10-_3Z_dwl_DWL_WIRE_1644659.bit', [[178, 4], [290, 6], [79, 0], [193, 7]])],
}
VARIANT_TOKENS = {'rp': [b'Halliburton', b'AUSTRALIA', b'9262611', b'R3.2.0'],
                  'lis': [b'VALU    CHEC', b'VALU    WEST', b'VALU    COUN', b'VALU    21 2', b'VALU    BOTH', b'VALU    STAT', b'88/11/15'],
                  'bit': [b'SHELL EXPRO', b'MANSFIELD', b'T  2 9 / 1 0', b'CONDSN  SP']}


def gen_candidates(rng, fmt, want, count):
    """(src, damage) candidates: want='fail' -> likely to raise late in the conversion; want='variant' -> likely still convertible"""
    import re
    spec = FMT[fmt]
    out = []
    if want == 'fail':
        for src, bits in LATE_FAIL_SEEDS[fmt]:
            out.append((src, {'kind': 'flip', 'bits': bits}))
        while len(out) < count:
            src = rng.choice(spec['valid'][::-1][:2])       # prefer the larger examples: the bad file then sorts last by size
            n = len(_example(src))
            lo, hi = {'lis': (400, 6000), 'bit': (0x40, 0x130), 'rp': (80, n)}[fmt]
            x = rng.random()
            if x < 0.7:
                d = {'kind': 'flip', 'bits': [[rng.randrange(lo, min(hi, n)), rng.randrange(8)] for _ in range(rng.choice([1, 2, 4]))]}
            elif x < 0.85:
                d = {'kind': 'header', 'off': rng.randrange(lo, min(hi, n)), 'bytes': bytes(rng.getrandbits(8) for _ in range(rng.choice([1, 2, 4]))).hex()}
            else:
                d = {'kind': 'trunc', 'at': rng.randrange(max(n // 3, 100), n), 'where': 'deep'}
            out.append((src, d))
    else:
        known = []
        for src in spec['valid']:
            data = _example(src)
            for tok in VARIANT_TOKENS[fmt]:
                for nth in range(min(data.count(tok), 3)):      # the same text occurs in several records (ORIGIN, PARAMETER, ...)
                    new = tok[:-1] + bytes([tok[-1] ^ 1])
                    known.append((src, {'kind': 'subst', 'find': tok.hex(), 'repl': new.hex(), 'nth': nth}))
        rng.shuffle(known)
        out += known[:max(count // 2, 4)]
        while len(out) < count:
            src = rng.choice(spec['valid'])
            data = _example(src)
            runs = list(re.finditer(rb'[A-Za-z0-9][A-Za-z0-9 /.]{4,}[A-Za-z0-9]', data[:40000]))
            if runs and rng.random() < 0.8:
                m = rng.choice(runs)
                off = m.start() + min(len(m.group(0)), 12) - 1          # last character of the (first 12 bytes of the) text
                out.append((src, {'kind': 'header', 'off': off, 'bytes': bytes([data[off] ^ 1]).hex(), 'variant': True}))
            else:
                n = len(data)
                out.append((src, {'kind': 'flip', 'bits': [[rng.randrange(n // 2, n), rng.randrange(8)]]}))
    return out[:max(count, len(out))]


def tree_signature(root):
    """{output file name: {LAS section: hash}} without the CREA. line — to tell WHICH section a variant changes"""
    sig = {}
    for key in read_tree(root):
        sec, cur = {}, '?'
        with open(os.path.join(root, key), 'rb') as fh:
            for i, ln in enumerate(fh.read().split(b'\n')):
                if i < 12 and ln.startswith(b'CREA.'):
                    continue
                if ln.startswith(b'~'):
                    cur = ln.split()[0].decode('latin-1')
                sec.setdefault(cur, hashlib.sha1()).update(ln + b'\n')
        sig[key] = {k: v.hexdigest() for k, v in sec.items()}
    return sig


def sig_diff(a, b):
    """names of the sections in which two signatures differ (a file present on one side only counts as '*')"""
    out = set()
    for key in set(a) | set(b):
        if key not in a or key not in b:
            out.add('*')
        else:
            out |= {s_ for s_ in set(a[key]) | set(b[key]) if a[key].get(s_) != b[key].get(s_)}
    return out


def screen(fmt, cands, opt, base):
    """Convert every candidate on its own (fresh process each, every candidate under the SAME file name so that the
    outputs are comparable); returns [(src, damage, class, n_outputs, signature)]."""
    shutil.rmtree(base, ignore_errors=True)
    specs = []
    nm = 'cand' + FMT[fmt]['exts'][0]
    for i, (src, d) in enumerate(cands):
        din = os.path.join(base, 'i%02d' % i)
        os.makedirs(din)
        with open(os.path.join(din, nm), 'wb') as fh:
            fh.write(apply_damage(_example(src), d))
        specs.append({'fmt': fmt, 'opt': opt, 'mode': 'single', 'file': os.path.join(din, nm), 'din': din,
                      'fout': os.path.join(base, 'o%02d' % i, nm)})
    res = run_children(specs, parallel=12)
    out = []
    for i, ((src, d), st) in enumerate(zip(cands, res)):
        cls = classify(res_tuple(st[1][0])) if st[0] == 'ok' and st[1] else st[0]
        sig = tree_signature(os.path.join(base, 'o%02d' % i))
        out.append((src, d, cls, len(sig), sig))
    shutil.rmtree(base, ignore_errors=True)
    return out


def _subst(tok, nth=0):
    return {'kind': 'subst', 'find': tok.hex(), 'repl': (tok[:-1] + bytes([tok[-1] ^ 1])).hex(), 'nth': nth}


def fixed_recipes():
    """The deterministic corpus (no rng), run first on every run: for each format a recursive tree in which ONE basename
    occurs in several sub-directories with contents that are all fully convertible, produce every section, and differ in a
    header / parameter value.  Anything remembered per basename by a process (a cache, a module-level table) shows up as a
    difference from the file-alone conversion in the sequential and jobs=1 runs."""
    B = 'RP66V1/data/BASIC_FILE.dlis'; T = 'RP66V1/data/BASIC_FILE_WITH_TWO_VISIBLE_RECORDS_NO_IFLRS.dlis'
    L13 = 'LIS/data/DILLSON-1_WELL_LOGS_FILE-013.LIS'; L49 = 'LIS/data/DILLSON-1_WELL_LOGS_FILE-049.LIS'
    BT = 'BIT/data/29_10-_3Z_dwl_DWL_WIRE_1644659.bit'
    def tree(fmt, name, items, extra):
        files = [{'name': d + name, 'src': src, 'damage': dmg, 'variant': dmg is not None} for d, src, dmg in items]
        files += [{'name': n_, 'src': src, 'damage': dmg, 'variant': dmg is not None} for n_, src, dmg in extra]
        return {'fmt': fmt, 'files': files, 'opt': ['sample', 16], 'tag': 'fixed-' + fmt, 'recurse': True, 'shape': 'fixed'}
    return [
        tree('rp', 'MAIN_LOG.dlis',
             [('RUN_1/', B, _subst(b'Halliburton', 1)),      # PARAMETER SVCO value
              ('RUN_2/', B, None),
              ('RUN_3/', B, _subst(b'AUSTRALIA', 0)),        # PARAMETER COUN value
              ('RUN_4/', B, _subst(b'Halliburton', 0)),      # ORIGIN (well information)
              ('RUN_4/SUB/', B, _subst(b'R3.2.0', 0))],
             [('RUN_1/HDR.dlis', T, None), ('RUN_2/HDR.dlis', T, _subst(b'AUSTRALIA', 0)), ('HDR.dlis', 'RP66V1/data/MINIMAL_FILE.dlis', None)]),
        tree('lis', 'MAIN_LOG.lis',
             [('RUN_1/', L13, _subst(b'VALU    CHEC')),      # CONS value (parameter section)
              ('RUN_2/', L13, None),
              ('RUN_3/', L13, _subst(b'VALU    WEST')),      # CONS value shown in the well section
              ('RUN_3/SUB/', L13, _subst(b'VALU    BOTH'))],
             [('RUN_1/AUX.lis', L49, None), ('RUN_2/AUX.lis', L49, _subst(b'VALU    COUN')), ('AUX.lis', L49, _subst(b'VALU    21 2'))]),
        tree('bit', 'MAIN_LOG.bit',
             [('RUN_1/', BT, _subst(b'SHELL EXPRO')),        # header text (block A)
              ('RUN_2/', BT, None),
              ('RUN_3/', BT, _subst(b'T  2 9 / 1 0')),       # block B
              ('RUN_3/SUB/', BT, _subst(b'CONDSN  SP'))],    # channel names
             []),
    ]


# channels recorded by the bundled examples (only names used by the channel-subset recipes)
L37 = 'LIS/data/DILLSON-1_WELL_LOGS_FILE-037.LIS'
RP206 = 'RP66V1/data/206_05a-_3_DWL_DWL_WIRE_258276498.DLIS'
CHANNELS_OF = {
    'LIS/data/DILLSON-1_WELL_LOGS_FILE-013.LIS': ['SP', 'GR', 'ILD', 'SFLU', 'TENS', 'CALI'],
    L37: ['NPHI', 'LITH', 'LL', 'TENS', 'CALI'],
    'LIS/data/DILLSON-1_WELL_LOGS_FILE-049.LIS': ['DEVI', 'HAZI', 'RB'],
    'RP66V1/data/BASIC_FILE.dlis': ['GR', 'TENS', 'ETIM', 'DHTN'],
    RP206: ['TDEP', 'ETIM', 'LMVL', 'TENS_SL'],
    'BIT/data/29_10-_3Z_dwl_DWL_WIRE_1644659.bit': ['SP  ', 'GR  ', 'CAL ', 'TEN ', 'RT  '],
}


def fixed_channel_recipes():
    """Deterministic directories converted with a NON-EMPTY channel subset and a frame slice over files that do not all
    record the same channels, named so that a file lacking a requested channel sorts before one that has it.  The
    sequential driver passes one `channels` set object to every file: nothing a file does with it may reach the next.
    (Every log pass keeps at least one requested channel: the open finding C06-indirect-x-empty-channel-list — implied X
    column from uninitialised memory when a subset selects no channel — is deliberately not touched.)"""
    L13 = 'LIS/data/DILLSON-1_WELL_LOGS_FILE-013.LIS'; L49 = 'LIS/data/DILLSON-1_WELL_LOGS_FILE-049.LIS'
    B = 'RP66V1/data/BASIC_FILE.dlis'; BT = 'BIT/data/29_10-_3Z_dwl_DWL_WIRE_1644659.bit'
    f = lambda name, src, dmg=None: {'name': name, 'src': src, 'damage': dmg}
    mk = lambda fmt, files, channels, opt: {'fmt': fmt, 'files': files, 'opt': opt, 'tag': 'fixed-channels-' + fmt, 'recurse': False,
                                            'shape': 'channels', 'channels': sorted(channels)}
    return [
        mk('lis', [f('A_TRUNCATED.LIS', L13, {'kind': 'trunc', 'at': len(_example(L13)) // 3, 'where': 'deep'}),
                   f('NOTES.txt', L13, {'kind': 'foreign', 'what': 'text', 'seed': 1, 'size': 300}),
                   f('a_037.lis', L37), f('b_049.lis', L49), f('c_013.lis', L13), f('d_037.lis', L37), f('e_013.lis', L13)],
           ['DEVI', 'GR', 'NPHI', 'SP'], ['slice', 0, 40, 2]),
        mk('lis', [f('a_049.lis', L49), f('b_013.lis', L13), f('c_037.lis', L37)], ['DEVI', 'ILD', 'LITH', 'TENS', 'ZZZZ'], ['sample', 12]),
        mk('rp', [f('a_min.dlis', 'RP66V1/data/MINIMAL_FILE.dlis'), f('b_206.DLIS', RP206), f('c_basic.dlis', B),
                  f('d_hdr.dlis', 'RP66V1/data/BASIC_FILE_WITH_TWO_VISIBLE_RECORDS_NO_IFLRS.dlis'), f('e_basic.dlis', B)],
           ['ETIM', 'GR', 'TDEP', 'ZZZZ'], ['sample', 8]),
        mk('bit', [f('a_nosp.bit', BT, {'kind': 'subst', 'find': b'SP  GR  '.hex(), 'repl': b'SQ  GR  '.hex(), 'nth': 0}),
                   f('b.bit', BT), f('c_trunc.bit', BT, {'kind': 'trunc', 'at': 60000, 'where': 'deep'})],
           ['CAL ', 'GR  ', 'SP  '], ['slice', 0, 60, 3]),
    ]


def gen_channel_recipe(ctx, fmt, tag=''):
    """Random directory with a channel subset: every source used contributes at least one requested channel (see above),
    plus channels only some files have and an unknown name; damaged files keep their channel list (truncation, foreign)."""
    rng = ctx.rng
    srcs = {'lis': list(FMT['lis']['valid']) + [L37], 'rp': ['RP66V1/data/BASIC_FILE.dlis', RP206] + FMT['rp']['valid'][:2],
            'bit': FMT['bit']['valid']}[fmt]
    n = rng.randint(3, 7)
    files, used = [], []
    for i in range(n):
        src = rng.choice(srcs)
        if src == RP206 and RP206 in used:
            src = 'RP66V1/data/BASIC_FILE.dlis'          # the large example at most once
        used.append(src)
        dmg = None
        x = rng.random()
        if x < 0.15:
            dmg = {'kind': 'trunc', 'at': rng.randrange(len(_example(src)) // 3, len(_example(src))), 'where': 'deep'}
        elif x < 0.3:
            dmg = {'kind': 'foreign', 'what': rng.choice(['text', 'random', 'pdf']), 'seed': rng.randrange(1 << 30), 'size': rng.choice([12, 300, 5000])}
        elif x < 0.35:
            dmg = {'kind': 'empty'}
        files.append({'name': '%s%d-%s%s' % (rng.choice('abc'), i, ''.join(rng.choice('xyz019') for _ in range(3)), rng.choice(FMT[fmt]['exts'][:2])),
                      'src': src, 'damage': dmg})
    chans = set()
    for src in set(used):
        own = CHANNELS_OF.get(src)
        if own:
            chans |= set(rng.sample(own, rng.randint(1, min(3, len(own)))))
    if rng.random() < 0.5:
        chans.add('ZZZZ')
    opt = rng.choice([['slice', 0, 40, 2], ['slice', 3, 90, 5], ['sample', 8], ['sample', 20]])
    return {'fmt': fmt, 'files': files, 'opt': opt, 'tag': tag, 'recurse': False, 'shape': 'channels', 'channels': sorted(chans)}


FIXED_MODES = ['seq', 'j1', 'j2']


def check_fixed_not_vacuous(ctx, recipe, run):
    """Every variant of the fixed corpus must convert and its stand-alone OUTPUT must differ from the original's."""
    import core
    by_base = {}
    for f in recipe['files']:
        by_base.setdefault((os.path.basename(f['name']), f['src']), []).append(f)
    differing = 0
    for (bn, src), fs in by_base.items():
        origs = [f for f in fs if f['damage'] is None]
        if not origs:
            continue
        strip = lambda nm: sorted((os.path.basename(k), v[0]) for k, v in run['single_tree'][nm].items())
        o = strip(origs[0]['name'])
        for f in fs:
            if f['damage'] is None:
                continue
            st = run['single'][f['name']]
            ok = st[0] == 'ok' and st[1] and classify(res_tuple(st[1][0])) == 'ok'
            if ok and strip(f['name']) != o:
                differing += 1
                ctx.nontriv(('fixed_pair', recipe['fmt'], f['name']))
            else:
                ctx.note('fixed corpus: variant %s of %s %s' % (f['name'], src, 'does not convert' if not ok else 'gives the same output as the original'))
                ctx.count('fixed_variants_vacuous')
    ctx.count('fixed_variants_output_differs', differing)
    if differing == 0:
        raise core.InfraError('fixed corpus of %s is vacuous: no variant output differs from the original output' % recipe['fmt'])


def gen_opt(rng, fmt):
    opt = rng.choice([['slice', None, None, None], ['slice', 0, None, 4], ['slice', 2, 200, 3], ['sample', 16], ['sample', 64]])
    if fmt != 'rp' and opt == ['slice', None, None, None] and rng.random() < 0.7:
        opt = ['sample', 48]
    return opt


def gen_prefix_recipe(ctx, fmt, base, tag=''):
    """Names that are prefixes of one another (`x.lis`, `x.lis_2`, `x.lis_0`, `x_0.lis`, `x`, `x_b`): the outputs of a
    neighbour start with the output prefix of another file.  The prefix files are damaged so that their conversion
    FAILS LATE (screened), i.e. after outputs of the neighbours may already exist."""
    rng = ctx.rng
    spec = FMT[fmt]
    opt = gen_opt(rng, fmt)
    scr = screen(fmt, gen_candidates(rng, fmt, 'fail', 14), opt, os.path.join(base, 'screen'))
    fails = sorted([c for c in scr if c[2] == 'failed'], key=lambda c: -c[3])
    ctx.count('late_fail_candidates', len(scr)); ctx.count('late_fail_found', len(fails))
    e = spec['exts'][0]
    R = rng.choice(['x', 'DILLSON-1', 'a', 'Run.1'])
    if fmt == 'rp':     # the RP66V1 rule drops the extension: relate the stems (equal stems would be the F14 class)
        family = [R + e, R + '_0' + e, R + '_0_' + e, R + '_b' + e, R + '_0_50' + e, R + '_0_0' + e]
    else:
        family = [R + e, R + e + '_2', R + e + '_0', R + '_0' + e, R, R + '_b', R + e + '_0.las', R + e + '_RUN2']
    bad = {family[0]}
    if fmt != 'rp' and rng.random() < 0.5:
        bad.add(R)
    if rng.random() < 0.3:
        bad.add(rng.choice(family[1:]))
    files = []
    for nm in family:
        if nm in bad and fails:
            src, d, _c, _n, _sig = fails[rng.randrange(min(len(fails), 4))]
            files.append({'name': nm, 'src': src, 'damage': d})
        elif nm in bad:
            src = rng.choice(spec['valid'])
            files.append({'name': nm, 'src': src, 'damage': gen_damage(rng, fmt, src)})
            ctx.count('prefix_dir_without_screened_failure')
        else:
            files.append({'name': nm, 'src': rng.choice(spec['valid']), 'damage': None})
    for i in range(rng.randint(0, 3)):
        src = rng.choice(spec['valid'])
        files.append({'name': 'z%d-%s%s' % (i, ''.join(rng.choice('abc019') for _ in range(3)), rng.choice(spec['exts'])), 'src': src,
                      'damage': gen_damage(rng, fmt, src) if rng.random() < 0.5 else None})
    rng.shuffle(files)
    return {'fmt': fmt, 'files': files, 'opt': opt, 'tag': tag, 'recurse': False, 'shape': 'prefix'}


def gen_recursive_recipe(ctx, fmt, base, tag=''):
    """A tree (`recurse=True`) holding files of the SAME NAME with different content in different sub-directories:
    different examples, still-convertible variants (screened), and damaged ones."""
    rng = ctx.rng
    spec = FMT[fmt]
    opt = gen_opt(rng, fmt)
    cands = [(s_, None) for s_ in spec['valid']] + gen_candidates(rng, fmt, 'variant', 12)
    scr = screen(fmt, cands, opt, os.path.join(base, 'screen'))
    orig = {c[0]: c[4] for c in scr if c[1] is None}
    # a variant counts only if it still converts AND its output differs from the original's output (else it exercises nothing)
    variants = [c + (sig_diff(c[4], orig.get(c[0], {})),) for c in scr if c[1] is not None and c[2] == 'ok']
    variants = [c for c in variants if c[5]]
    # prefer the example with the richest output (most sections: well, parameter, curve, array) and parameter/well changes
    rich = lambda src: sum(len(v) for v in orig.get(src, {}).values())
    variants.sort(key=lambda c: (-rich(c[0]), 0 if '~Parameter' in c[5] else 1))
    ctx.count('variant_candidates', len(scr) - len(orig)); ctx.count('variants_output_changing', len(variants))
    e = rng.choice(spec['exts'][:2])
    dirs = ['', 'RUN_1/', 'RUN_2/', 'RUN_2/SUB/', 'run_1/']
    rng.shuffle(dirs)
    contents = []
    if variants:
        v = variants[0] if rng.random() < 0.7 else rng.choice(variants)
        pair = [(v[0], None), (v[0], v[1])]      # the original and an output-changing variant under ONE basename
        rng.shuffle(pair)
        contents += pair
        ctx.count('recursive_dirs_with_output_changing_pair')
        ctx.nontriv(('same_basename_pair', fmt, v[0], tuple(sorted(v[5]))))
    else:
        ctx.count('recursive_dirs_without_output_changing_variant')
    rest = [(s_, None) for s_ in spec['valid']] + [(c[0], c[1]) for c in variants[1:4]]
    rng.shuffle(rest)
    contents += rest
    files = []
    for i, d in enumerate(dirs[:rng.randint(3, 5)]):
        src, dmg = contents[i % len(contents)]
        files.append({'name': d + 'MAIN' + e, 'src': src, 'damage': dmg, 'variant': dmg is not None})
    for d in rng.sample(dirs, 2):                      # a second shared name, one copy damaged
        src = rng.choice(spec['valid'])
        files.append({'name': d + 'AUX' + e, 'src': src, 'damage': None if len([f for f in files if f['name'].endswith('AUX' + e)]) == 0 else gen_damage(rng, fmt, src)})
    for i in range(rng.randint(1, 5)):
        src = rng.choice(spec['valid'])
        files.append({'name': rng.choice(dirs) + 'f%d-%s%s' % (i, ''.join(rng.choice('abc019') for _ in range(3)), rng.choice(spec['exts'])),
                      'src': src, 'damage': gen_damage(rng, fmt, src) if rng.random() < 0.5 else None})
    return {'fmt': fmt, 'files': files, 'opt': opt, 'tag': tag, 'recurse': True, 'shape': 'recursive'}


def build_dir(recipe, din):
    os.makedirs(din, exist_ok=True)
    for f in recipe['files']:
        os.makedirs(os.path.dirname(os.path.join(din, f['name'])), exist_ok=True)
        with open(os.path.join(din, f['name']), 'wb') as fh:
            fh.write(apply_damage(_example(f['src']), f['damage']))


# ---------------------------------------------------------------- running the real code in child processes

_LOG = {'fd': None, 'fn': None}


def _logged_conv(path_in, array_reduction, path_out, frame_slice, channels, field_width, float_format):
    """Module-level (picklable) wrapper used ONLY for the schedule-recording correspondence runs."""
    name = path_in
    os.write(_LOG['fd'], ('S %d %d %s\n' % (time.monotonic_ns(), os.getpid(), name.encode().hex())).encode())
    try:
        return _LOG['fn'](path_in, array_reduction, path_out, frame_slice, channels, field_width, float_format)
    finally:
        os.write(_LOG['fd'], ('F %d %d %s\n' % (time.monotonic_ns(), os.getpid(), name.encode().hex())).encode())


def _frame_slice(opt):
    from TotalDepth.common import Slice
    if opt[0] == 'sample':
        return Slice.Sample(opt[1])
    return Slice.Slice(opt[1], opt[2], opt[3])


def _canon_results(ret, root):
    """rows [key, path_input, type, size_in, size_out, las_count, exception, ignored], paths relative to the input root"""
    out = []
    for key, r in ret.items():
        out.append([os.path.relpath(key, root), os.path.relpath(r.path_input, root), str(r.binary_file_type),
                    int(r.size_input), int(r.size_output), int(r.las_count), bool(r.exception), bool(r.ignored)])
    return out


def _child_main(conn, spec):
    """Runs in a forked child of the harness: silence, limit, call the unmodified batch function, report."""
    try:
        os.setsid()
        import logging, resource, importlib
        dn = os.open(os.devnull, os.O_WRONLY)
        os.dup2(dn, 1); os.dup2(dn, 2)
        logging.disable(logging.CRITICAL)
        try:
            resource.setrlimit(resource.RLIMIT_AS, (12 << 30, 12 << 30))
            resource.setrlimit(resource.RLIMIT_CORE, (0, 0))
        except Exception:
            pass
        from TotalDepth.LAS.core import WriteLAS
        mod = importlib.import_module(FMT[spec['fmt']]['module'])
        fn = getattr(mod, FMT[spec['fmt']]['func'])
        fs = _frame_slice(spec['opt'])
        chs = set(spec.get('channels') or [])        # ONE set object handed to the batch function, as process_to_las does
        mode = spec['mode']
        if spec.get('log'):
            _LOG['fd'] = os.open(spec['log'], os.O_WRONLY | os.O_APPEND | os.O_CREAT, 0o644)
            _LOG['fn'] = fn
            fn = _logged_conv
        rec = bool(spec.get('recurse'))
        if mode == 'seq':
            ret = WriteLAS.convert_dir_or_file_to_las(spec['din'], spec['dout'], rec, 'first', fs, chs, 16, '.3f', fn)
        elif mode == 'single':
            ret = WriteLAS.convert_dir_or_file_to_las(spec['file'], spec['fout'], False, 'first', fs, chs, 16, '.3f', fn)
        else:
            ret = WriteLAS.convert_dir_or_file_to_las_multiprocessing(
                spec['din'], spec['dout'], rec, 'first', fs, chs, 16, '.3f', int(mode[1:]), fn)
        after = sorted(x if isinstance(x, str) else repr(x) for x in chs)
        conn.send(('ok', _canon_results(ret, spec['din']), {'channels_after': after}))
    except BaseException as e:           # noqa: anything that escapes the batch is the observation
        try:
            conn.send(('exc', '%s: %s' % (type(e).__name__, str(e)[:300])))
        except Exception:
            pass
    finally:
        try:
            conn.close()
        except Exception:
            pass


def run_children(specs, parallel=6):
    """Run each spec in its own forked process (its own session, killed as a group afterwards).
    Returns a list of (status, payload): ('ok', results) | ('exc', text) | ('crash', exitcode) | ('timeout', seconds)."""
    import multiprocessing as mp
    from multiprocessing.connection import wait
    ctxm = mp.get_context('fork')
    out = [None] * len(specs)
    pending = list(range(len(specs)))
    running = {}   # conn -> (idx, proc, t0, limit)

    def reap(conn, idx, proc, status):
        out[idx] = status
        try:
            conn.close()
        except Exception:
            pass
        proc.join(10 if status[0] == 'ok' else 0.5)
        # a child that returned normally has already terminated its (daemonic) pool workers at exit; the group is only
        # killed while the child's pid is still ours (alive) or after a crash that may have orphaned workers
        if proc.is_alive() or proc.exitcode != 0:
            try:
                os.killpg(proc.pid, signal.SIGKILL)
            except (ProcessLookupError, PermissionError):
                pass
            proc.join(5)

    while pending or running:
        while pending and sum(s[4] for s in running.values()) < parallel:
            idx = pending.pop(0)
            spec = specs[idx]
            pc, cc = ctxm.Pipe(duplex=False)
            p = ctxm.Process(target=_child_main, args=(cc, spec))
            p.start()
            cc.close()
            weight = int(spec['mode'][1:]) if spec['mode'][0] == 'j' else 1
            running[pc] = (idx, p, time.time(), SINGLE_TIMEOUT if spec['mode'] == 'single' else MODE_TIMEOUT, min(weight, parallel))
        ready = wait(list(running.keys()), timeout=0.5)
        now = time.time()
        for conn in list(running.keys()):
            idx, p, t0, limit, _w = running[conn]
            if conn in ready:
                try:
                    msg = conn.recv()
                except (EOFError, OSError):
                    p.join(5)
                    msg = ('crash', p.exitcode)
                del running[conn]
                reap(conn, idx, p, msg)
            elif now - t0 > limit:
                del running[conn]
                reap(conn, idx, p, ('timeout', round(now - t0)))
    return out


# ---------------------------------------------------------------- reading output trees

def canon_file(path):
    with open(path, 'rb') as fh:
        raw = fh.read()
    lines = raw.split(b'\n')
    keep = [ln for i, ln in enumerate(lines) if not (i < 12 and ln.startswith(b'CREA.'))]
    src = ''
    for ln in lines[:12]:
        if ln.startswith(b'SOURCE.'):
            src = ln[7:].split(b' : ')[0].strip().decode('latin-1')
    body = b'\n'.join(keep)
    cols = ()
    for ln in lines:
        if ln.startswith(b'~A'):
            cols = tuple(t.decode('latin-1') for t in ln.split()[1:])
            break
    return hashlib.sha1(body).hexdigest() + ':%d' % len(body), src, cols


def read_tree(dout):
    tree = {}
    if not os.path.isdir(dout):
        return tree
    for root, _dirs, files in os.walk(dout):
        for fn in files:
            p = os.path.join(root, fn)
            tree[os.path.relpath(p, dout)] = canon_file(p)
    return tree


def xgain_only(pa, pb, xaxes):
    """True when the batch output `pa` differs from the stand-alone output `pb` ONLY in the comment line
    '# Requested Channels in this LAS file [n]: ...' and there only by additional names that are X axis idents of
    outputs of the directory (strict class of C12-channels-arg-gains-x-axis)."""
    try:
        a = [ln for ln in open(pa, 'rb').read().split(b'\n') if not ln.startswith(b'CREA.')]
        b = [ln for ln in open(pb, 'rb').read().split(b'\n') if not ln.startswith(b'CREA.')]
    except OSError:
        return False
    if len(a) != len(b):
        return False
    tag = b'# Requested Channels in this LAS file'
    seen = False
    for x, y in zip(a, b):
        if x == y:
            continue
        if not (x.startswith(tag) and y.startswith(tag) and b':' in x and b':' in y):
            return False
        sx = {t.decode('latin-1') for t in x.split(b':', 1)[1].strip().split(b',')}
        sy = {t.decode('latin-1') for t in y.split(b':', 1)[1].strip().split(b',')}
        if not (sy < sx and all(t.strip() in xaxes for t in sx - sy)):
            return False
        seen = True
    return seen


def first_diff(pa, pb):
    try:
        a = [ln for ln in open(pa, 'rb').read().split(b'\n') if not ln.startswith(b'CREA.')]
        b = [ln for ln in open(pb, 'rb').read().split(b'\n') if not ln.startswith(b'CREA.')]
    except OSError as e:
        return str(e)
    for i, (x, y) in enumerate(zip(a, b)):
        if x != y:
            return 'line %d: %r vs %r' % (i + 1, x[:80], y[:80])
    return 'lengths %d vs %d lines' % (len(a), len(b))


# ---------------------------------------------------------------- one directory: run all modes, evaluate the oracle

def modes_for(ctx, jobs=None):
    js = jobs if jobs is not None else (range(1, 17) if ctx.tier == 'thorough' else JOBS_QUICK)
    return ['seq'] + ['j%d' % j for j in js]


def run_directory(recipe, base, modes, log_mode=None):
    """Build the directory from its recipe and run: each file on its own (fresh process, own output dir) and every mode."""
    shutil.rmtree(base, ignore_errors=True)
    din = os.path.join(base, 'in')
    build_dir(recipe, din)
    names = [f['name'] for f in recipe['files']]
    specs = []
    for i, nm in enumerate(names):
        specs.append({'fmt': recipe['fmt'], 'opt': recipe['opt'], 'mode': 'single', 'file': os.path.join(din, nm), 'din': din,
                      'fout': os.path.join(base, 'single', '%02d' % i, nm), 'channels': recipe.get('channels')})
    singles = run_children(specs, parallel=12)
    mspecs = []
    for m in modes:
        s = {'fmt': recipe['fmt'], 'opt': recipe['opt'], 'mode': m, 'din': din, 'dout': os.path.join(base, 'out_' + m),
             'recurse': bool(recipe.get('recurse')), 'channels': recipe.get('channels')}
        if log_mode and m == log_mode:
            s['log'] = os.path.join(base, 'sched_%s.log' % m)
        mspecs.append(s)
    mres = run_children(mspecs, parallel=18)
    run = {'base': base, 'din': din, 'names': names, 'single': {}, 'single_tree': {}, 'modes': {}, 'trees': {}}
    for i, nm in enumerate(names):
        run['single'][nm] = singles[i]
        run['single_tree'][nm] = read_tree(os.path.join(base, 'single', '%02d' % i))
    for m, r in zip(modes, mres):
        run['modes'][m] = r
        run['trees'][m] = read_tree(os.path.join(base, 'out_' + m))
    return run


def res_tuple(row):
    # (relative input path, type, size_in, size_out, las_count, exception, ignored)   (no elapsed time)
    return tuple(row[1:8])


def classify(t):
    return 'ignored' if t[6] else ('failed' if t[5] else 'ok')


def f14_groups(recipe, run):
    """Strict class of finding F14: RP66V1 inputs of one directory whose names differ only in the extension."""
    if recipe['fmt'] != 'rp':
        return []
    by = {}
    for nm in run['names']:
        st = run['single'].get(nm)
        if st and st[0] == 'ok' and st[1] and st[1][0][2] == 'RP66V1':
            by.setdefault(os.path.splitext(nm)[0], []).append(nm)
    return [sorted(v) for v in by.values() if len(v) > 1]


def evaluate(ctx, recipe, run, modes):
    """The property oracle on the implementation alone. Returns list of (case, detail, finding)."""
    fails = []
    names = run['names']
    fmt = recipe['fmt']
    damaged = {f['name'] for f in recipe['files'] if f['damage'] is not None}
    base_case = {'recipe': recipe}
    # --- file by file: conv must be total
    single = {}
    for nm in names:
        st = run['single'][nm]
        ctx.count('oracle_cases')
        if st[0] != 'ok':
            fails.append((dict(base_case, mode='single', file=nm),
                          'converting %s on its own: %s %s (an exception/crash/timeout escaped single_*_to_las)' % (nm, st[0], st[1]), None))
            continue
        rows = st[1]
        if len(rows) != 1 or rows[0][0] != nm or rows[0][1] != nm:
            fails.append((dict(base_case, mode='single', file=nm), 'file on its own gave results %r' % (rows,), None))
            continue
        single[nm] = res_tuple(rows[0])
        if nm not in damaged and not (classify(single[nm]) == 'ok' and single[nm][4] >= 1):
            fails.append((dict(base_case, mode='single', file=nm),
                          'undamaged copy of %s converted on its own gives %s las_count=%d' % (
                              [f['src'] for f in recipe['files'] if f['name'] == nm][0], classify(single[nm]), single[nm][4]), None))
    # --- the union of the stand-alone trees is the expected tree
    union = {}
    for nm in names:
        for key, val in run['single_tree'][nm].items():
            union.setdefault(key, []).append((nm, val))
    collisions = {k: v for k, v in union.items() if len(v) > 1}
    groups = f14_groups(recipe, run)
    f14_keys = {k for k, v in collisions.items() if any(set(c[0] for c in v) <= set(g) for g in groups)}
    f14_detail = []
    # --- the caller's channel set must come back unchanged (the sequential driver hands ONE set object to every file)
    want_ch = sorted(recipe.get('channels') or [])
    xaxes = {v[2][0].strip() for nm in names for v in run['single_tree'][nm].values() if len(v) > 2 and v[2]}
    gained = []
    def check_channels(st, case, label):
        if not want_ch or st[0] != 'ok' or len(st) < 3:
            return
        after = st[2].get('channels_after')
        if after == want_ch:
            return
        ctx.count('oracle_cases')
        removed = sorted(set(want_ch) - set(after)); added = sorted(set(after) - set(want_ch))
        if not removed and fmt in ('rp', 'bit') and all(a.strip() in xaxes for a in added):
            gained.append('%s: +%s' % (label, added))        # strict class of C12-channels-arg-gains-x-axis
        else:
            fails.append((case, "the caller's channels argument was modified by the %s run: requested %s, afterwards %s "
                                '(removed %s, added %s)' % (label, want_ch, after, removed, added), None))
    for nm in names:
        check_channels(run['single'][nm], dict(base_case, mode='single', file=nm), 'single:' + nm)
    for m in modes:
        ctx.count('oracle_cases')
        st = run['modes'][m]
        case = dict(base_case, mode=m)
        check_channels(st, case, m)
        if st[0] != 'ok':
            fails.append((case, 'batch %s aborted: %s %s' % (m, st[0], st[1]), None))
            continue
        rows = st[1]
        got = {}
        bad_rows = [r for r in rows if r[0] != r[1]]
        if bad_rows:
            fails.append((case, 'result keyed by a path that is not its input path: %r' % (bad_rows[:2],), None))
        for r in rows:
            got[r[0]] = res_tuple(r)
        missing = sorted(set(names) - set(got)); extra = sorted(set(got) - set(names))
        if missing or extra or len(rows) != len(names):
            fails.append((case, 'one result per input file violated: %d results for %d files, missing %s extra %s' % (
                len(rows), len(names), missing[:4], extra[:4]), None))
        tree = run['trees'][m]
        xg_keys, xg_names = set(), set()
        if want_ch and m == 'seq' and fmt in ('rp', 'bit'):
            # sequential driver + RP66V1/BIT writer + channel subset: the shared set has gained the X idents of earlier files
            for key in set(tree) & set(union):
                if key not in collisions and tree[key] != union[key][0][1]:
                    nm0 = union[key][0][0]
                    if xgain_only(os.path.join(run['base'], 'out_' + m, key),
                                  os.path.join(run['base'], 'single', '%02d' % names.index(nm0), key), xaxes):
                        xg_keys.add(key); xg_names.add(nm0)
        for nm in names:
            if nm in got and nm in single and got[nm] != single[nm]:
                if nm in xg_names and got[nm][:3] + got[nm][4:] == single[nm][:3] + single[nm][4:]:
                    gained.append('%s: size_output of %s is %d, alone %d' % (m, nm, got[nm][3], single[nm][3]))
                    continue
                if any(nm in g for g in groups) and got[nm][:3] + got[nm][4:] == single[nm][:3] + single[nm][4:]:
                    # size_output is os.path.getsize of the shared output path after the other input overwrote it: F14 itself
                    f14_detail.append('%s: size_output of %s is %d, alone %d' % (m, nm, got[nm][3], single[nm][3]))
                    continue
                fails.append((case, 'result of %s differs from converting it on its own: %r vs %r' % (nm, got[nm], single[nm]), None))
        if set(tree) != set(union):
            fails.append((case, 'output file set differs from the union of the stand-alone conversions: missing %s extra %s' % (
                sorted(set(union) - set(tree))[:4], sorted(set(tree) - set(union))[:4]), None))
        for key in sorted(set(tree) & set(union)):
            if key in collisions:
                if key in f14_keys:
                    owner = [c[0] for c in collisions[key] if c[1] == tree[key]]
                    f14_detail.append('%s: %s <- %s' % (m, key, owner[0] if owner else 'mixed'))
                else:
                    fails.append((case, 'two inputs write the same output path %s: %s' % (key, [c[0] for c in collisions[key]]), None))
                continue
            nm, val = union[key][0]
            if key in xg_keys:
                gained.append("%s: %s lists the X idents of earlier files in '# Requested Channels'" % (m, key))
                continue
            if tree[key] != val:
                i = names.index(nm)
                d = first_diff(os.path.join(run['base'], 'out_' + m, key), os.path.join(run['base'], 'single', '%02d' % i, key))
                fails.append((case, 'output %s of %s differs from the stand-alone conversion (%s)' % (key, nm, d), None))
    if gained:
        fails.append((dict(base_case, mode=None, what='channels-arg'),
                      "the caller's channels set is extended in place with the X axis ident of every frame array written "
                      '(WriteLAS._add_x_axis_to_channels_to_write); the sequential driver shares that set, so later files '
                      'differ from their stand-alone conversion: %s' % '; '.join(gained[-3:] + gained[:5]), 'C12-channels-arg-gains-x-axis'))
    if f14_keys:
        ctx.count('oracle_cases')
        fails.append((dict(base_case, mode=None),
                      'RP66V1 inputs %s are given the same output path(s) %s; whose content survives depends on the order: %s' % (
                          groups, sorted(f14_keys), '; '.join(f14_detail[:8])), 'F14-rp66-output-name-collision'))
    return fails, single


def summary(recipe):
    return {'fmt': recipe['fmt'], 'channels': recipe.get('channels'), 'shape': recipe.get('shape', 'random'), 'recurse': bool(recipe.get('recurse')), 'n': len(recipe['files']), 'opt': recipe['opt'],
            'damaged': [[i, f['name'], f['damage']['kind']] for i, f in enumerate(recipe['files']) if f['damage']]}


# ---------------------------------------------------------------- correspondence helpers

def hx(s):
    b = s.encode('latin-1') if isinstance(s, str) else bytes(s)
    return b.hex() or '-'


def unhx(h):
    return '' if h == '-' else bytes.fromhex(h).decode('latin-1')


def corr_naming(ctx):
    """Naming rules / posixpath transcription vs the real las_file_name and os.path."""
    import posixpath
    from TotalDepth.RP66V1 import ToLAS as RT
    rng = ctx.rng
    alpha = 'abAB01._-/ _..//'
    def rstr(maxlen=12, chars=alpha):
        return ''.join(rng.choice(chars) for _ in range(rng.randint(0, maxlen)))
    cases = []
    fixed = ['out/b.dlis', 'out/b.DLIS', 'out/a.dlis', 'out/a_0.dlis', '', '/', '//', 'a', '.a', '..', '...', 'a.', '.a.b', 'a/.b',
             'a/b.c/d', '/a.b', '//a//b.c', 'a//', 'a.b.c', 'dir.x/name', 'dir/.hidden.ext', 'dir/...x']
    for p in fixed + [rstr() for _ in range(ctx.n(1500, 15000))]:
        lf = rng.choice([0, 0, 1, 2, 9, 10, 11, 99, 100, 12345, rng.randrange(10 ** 9)])
        ident = bytes(rng.choice(b'ABC019_ .-/T') for _ in range(rng.randint(0, 5)))
        if rng.random() < 0.08:
            ident += bytes([rng.randrange(128, 256)])
        cases.append((p, lf, ident))
    rep = ctx.lean(['outpath rp %s %d %s' % (hx(p), lf, hx(ident)) for p, lf, ident in cases])
    for (p, lf, ident), m in zip(cases, rep):
        try:
            impl = 'ok ' + hx(RT.las_file_name(p, lf, ident))
        except UnicodeDecodeError:
            impl = 'err UnicodeDecodeError'
        ctx.corr('las_file_name', {'op': 'outpath', 'fmt': 'rp', 'path_out': p, 'lf': lf, 'ident': ident.hex()}, impl, m)
    # posixpath pieces
    ps = fixed + [rstr(14) for _ in range(ctx.n(1000, 10000))]
    req, want = [], []
    for p in ps:
        req.append('path basename ' + hx(p)); want.append('ok ' + hx(posixpath.basename(p)))
        req.append('path dirname ' + hx(p)); want.append('ok ' + hx(posixpath.dirname(p)))
        nm = posixpath.basename(p)
        req.append('path stem ' + hx(nm)); want.append('ok ' + hx(posixpath.splitext(nm)[0]))
        q = rng.choice(ps)
        req.append('join %s %s' % (hx(p), hx(q))); want.append('ok ' + hx(posixpath.join(p, q)))
    rep = ctx.lean(req)
    for r, w, m in zip(req, want, rep):
        ctx.corr('posixpath', {'op': r}, w, m)


def corr_naming_real(ctx, fmt, base):
    """LIS / BIT naming is an inline f-string: observe the files the real converter creates for odd output paths."""
    import importlib
    spec = FMT[fmt]
    rng = ctx.rng
    src = spec['valid'][0]
    din = os.path.join(base, 'in'); os.makedirs(din, exist_ok=True)
    fin = os.path.join(din, 'x' + spec['exts'][0])
    with open(fin, 'wb') as fh:
        fh.write(_example(src))
    outs = []
    for i in range(ctx.n(3, 10)):
        nm = ''.join(rng.choice('abAB01._- ') for _ in range(rng.randint(1, 10)))
        sub = rng.choice(['', 'd', 'd.e/f_1'])
        outs.append(os.path.join(base, 'o%d' % i, sub, nm))
    specs = [{'fmt': fmt, 'opt': ['sample', 8], 'mode': 'single', 'file': fin, 'fout': po, 'din': din} for po in outs]
    res = run_children(specs, parallel=8)
    req = []
    meta = []
    for i, (po, st) in enumerate(zip(outs, res)):
        if st[0] != 'ok':
            continue
        cnt = st[1][0][5]
        root = os.path.join(base, 'o%d' % i)
        real = sorted(os.path.join(root, k) for k in read_tree(root))
        meta.append((po, cnt, real, len(req)))
        for j in range(cnt):
            req.append('outpath %s %s %d' % (fmt, hx(po), j))
    rep = ctx.lean(req)
    for po, cnt, real, off in meta:
        model = sorted(unhx(r[3:]) for r in rep[off:off + cnt])
        ctx.corr('outpath_real_' + fmt, {'op': 'outpath', 'fmt': fmt, 'path_out': po, 'count': cnt}, real, model)


def corr_walk(ctx, base):
    """dirWalk pairing and the two orders (alphabetical / ascending size) vs the model."""
    from TotalDepth.util import DirWalk
    rng = ctx.rng
    for d in range(ctx.n(25, 150)):
        din = os.path.join(base, 'w%d' % d)
        os.makedirs(din)
        n = rng.randint(0, 9)
        names = set()
        while len(names) < n:
            names.add(''.join(rng.choice('abAB01._- Zz') for _ in range(rng.randint(1, 6))))
        names -= {'.', '..'}
        sized = []
        for nm in sorted(names):
            sz = rng.choice([0, 0, 1, 2, 2, 3, 10, 300])
            with open(os.path.join(din, nm), 'wb') as fh:
                fh.write(b'x' * sz)
            sized.append((sz, nm))
        dout = rng.choice(['', 'out', 'out/', '/abs/out', 'o.d'])
        seq = list(DirWalk.dirWalk(din, dout, theFnMatch='', recursive=False, bigFirst=False))
        big = list(DirWalk.dirWalk(din, dout, theFnMatch='', recursive=False, bigFirst=True))
        req = ['order seq ' + (','.join(hx(nm) for _, nm in sized) or '-'),
               'order pool ' + (','.join('%d:%s' % (sz, hx(nm)) for sz, nm in sized) or '-')]
        req += ['walk %s %s %s' % (hx(din), hx(dout), hx(nm)) for _, nm in sized]
        rep = ctx.lean(req)
        case = {'op': 'dirWalk', 'names': [[sz, nm] for sz, nm in sized], 'dir_out': dout}
        ctx.corr('dirwalk_order_seq', case, 'ok ' + ','.join(hx(os.path.basename(t.filePathIn)) for t in seq), rep[0] if sized else 'ok ')
        ctx.corr('dirwalk_order_pool', case, 'ok ' + ','.join(hx(os.path.basename(t.filePathIn)) for t in big), rep[1] if sized else 'ok ')
        pairs = {os.path.basename(t.filePathIn): t for t in seq}
        for (sz, nm), m in zip(sized, rep[2:]):
            t = pairs[nm]
            ctx.corr('dirwalk_pair', dict(case, name=nm), 'ok %s %s' % (hx(t.filePathIn), hx(t.filePathOut)), m)
        shutil.rmtree(din, ignore_errors=True)


def corr_walk_recursive(ctx, base):
    """recursive dirWalk: the (input, output) pair of a file is a function of its full relative path (model: walkPath)."""
    from TotalDepth.util import DirWalk
    rng = ctx.rng
    for d in range(ctx.n(12, 80)):
        din = os.path.join(base, 'r%d' % d)
        os.makedirs(din)
        rels = set()
        for _ in range(rng.randint(1, 8)):
            comps = [''.join(rng.choice('abAB01._- ') for _ in range(rng.randint(1, 4))) for _ in range(rng.randint(1, 4))]
            comps = [c for c in comps if c not in ('.', '..')] or ['f']
            rels.add('/'.join(comps))
        made = []
        for rel in sorted(rels):
            p = os.path.join(din, rel)
            try:
                os.makedirs(os.path.dirname(p), exist_ok=True)
                if os.path.isdir(p):
                    continue
                with open(p, 'wb') as fh:
                    fh.write(b'x' * rng.choice([0, 1, 2, 2, 5]))
                made.append(rel)
            except OSError:          # a component is already a file
                continue
        dout = rng.choice(['', 'out', 'out/', '/abs/out', 'o.d'])
        for big in (False, True):
            walked = list(DirWalk.dirWalk(din, dout, theFnMatch='', recursive=True, bigFirst=big))
            req = ['walkpath %s %s %s' % (hx(din), hx(dout), ','.join(hx(c) for c in os.path.relpath(t.filePathIn, din).split('/'))) for t in walked]
            rep = ctx.lean(req)
            case = {'op': 'dirWalk_recursive', 'files': made, 'dir_out': dout, 'bigFirst': big}
            ctx.corr('dirwalk_recursive_files', case, sorted(os.path.relpath(t.filePathIn, din) for t in walked), sorted(made))
            for t, m in zip(walked, rep):
                ctx.corr('dirwalk_recursive_pair', dict(case, file=os.path.relpath(t.filePathIn, din)),
                         'ok %s %s' % (hx(t.filePathIn), hx(t.filePathOut)), m)
        shutil.rmtree(din, ignore_errors=True)


def py_valid(k, nouts, evs):
    n = len(nouts)
    if any(e[1] >= n for e in evs):
        return False
    for i in range(n):
        want = [('s', i)] + [('w', i, j) for j in range(nouts[i])] + [('f', i)]
        if [e for e in evs if e[1] == i] != want:
            return False
    c = 0
    for e in evs:
        if e[0] == 's':
            if not c < k:
                return False
            c += 1
        elif e[0] == 'f':
            c = max(c - 1, 0)
    return True


def py_sim(k, tasks, evs):
    """Python dict simulation of the abstract batch (dict keeps first-insertion order, like aset)."""
    table = {}
    for p, b, r, outs in tasks:
        table.setdefault((p, b), (r, outs))
    conv = lambda t: table[(t[0], t[1])]
    res, tree = {}, {}
    for e in evs:
        if e[0] == 'w' and e[1] < len(tasks):
            outs = conv(tasks[e[1]])[1]
            if e[2] < len(outs):
                tree[outs[e[2]][0]] = outs[e[2]][1]
        elif e[0] == 'f' and e[1] < len(tasks):
            res[tasks[e[1]][0]] = conv(tasks[e[1]])[0]
    sres, stree = {}, {}
    for t in tasks:
        r, outs = conv(t)
        sres[t[0]] = r
        for o, x in outs:
            stree[o] = x
    show = lambda d: ','.join('%s=%s' % kv for kv in d.items()) or '-'
    nouts = [len(conv(t)[1]) for t in tasks]
    return 'valid=%d res=%s tree=%s sres=%s stree=%s' % (py_valid(k, nouts, evs), show(res), show(tree), show(sres), show(stree))


def enc_tasks(tasks):
    return ';'.join('%s:%s:%s:%s' % (p, b, r, ','.join('%s=%s' % ox for ox in outs) or '-') for p, b, r, outs in tasks) or '-'


def enc_evs(evs):
    return ','.join(('w%d.%d' % (e[1], e[2])) if e[0] == 'w' else '%s%d' % (e[0], e[1]) for e in evs) or '-'


def random_schedule(rng, nouts, k):
    """A valid interleaving on k workers (tasks picked in any order)."""
    todo = list(range(len(nouts))); rng.shuffle(todo)
    if rng.random() < 0.5:
        todo.sort()
    running = {}
    evs = []
    while todo or running:
        can_start = todo and len(running) < k
        if can_start and (not running or rng.random() < 0.4):
            i = todo.pop(0); running[i] = 0; evs.append(('s', i))
        else:
            i = rng.choice(sorted(running))
            if running[i] < nouts[i]:
                evs.append(('w', i, running[i])); running[i] += 1
            else:
                evs.append(('f', i)); del running[i]
    return evs


def corr_sched(ctx):
    rng = ctx.rng
    req, want, cases = [], [], []
    for _ in range(ctx.n(2500, 30000)):
        n = rng.randint(0, 5)
        collide = rng.random() < 0.3
        tasks = []
        for i in range(n):
            p = 'p%d' % (rng.randrange(n) if rng.random() < 0.1 else i)
            outs = []
            for j in range(rng.randint(0, 3)):
                key = 'o%d' % rng.randrange(4) if collide else 'o%d_%d' % (i, rng.randrange(3))
                outs.append((key, 't%d%d' % (i, j)))
            tasks.append((p, 'b%d' % i, rng.choice(['ok', 'failed', 'ignored']) + str(i), outs))
        table = {}
        for p, b, r, outs in tasks:
            table.setdefault((p, b), (r, outs))
        nouts = [len(table[(t[0], t[1])][1]) for t in tasks]
        k = rng.choice([1, 1, 2, 3, 5, 16])
        evs = random_schedule(rng, nouts, k)
        x = rng.random()
        if evs and x < 0.35:          # break it
            y = rng.randrange(6)
            if y == 0: evs.pop(rng.randrange(len(evs)))
            elif y == 1: evs.insert(rng.randrange(len(evs) + 1), rng.choice(evs))
            elif y == 2:
                a, b = rng.randrange(len(evs)), rng.randrange(len(evs)); evs[a], evs[b] = evs[b], evs[a]
            elif y == 3: evs.append(('s', n + rng.randrange(2)))
            elif y == 4: k = max(0, k - rng.randint(1, 2))
            else: evs.append(('w', rng.randrange(n + 1), rng.randrange(5)))
        req.append('sched %d %s %s' % (k, enc_tasks(tasks), enc_evs(evs)))
        want.append(py_sim(k, tasks, evs))
        cases.append({'op': 'sched', 'k': k, 'tasks': enc_tasks(tasks), 'events': enc_evs(evs)})
    rep = ctx.lean(req)
    nv = 0
    for c, w, m in zip(cases, want, rep):
        ctx.corr('runSched_vs_dict_simulation', c, w, m)
        nv += w.startswith('valid=1')
    ctx.count('abstract_schedules_valid', nv)
    ctx.count('abstract_schedules_invalid', len(req) - nv)


def corr_real_schedule(ctx, recipe, run, mode):
    """Feed the completion order of the real pool to the model: start/finish times recorded around every real
    single_*_to_las call, writes placed before the finish.  The model must find the schedule valid for k = jobs and
    predict the file list of the real tree (and, away from F14 collisions, which input owns each file)."""
    from TotalDepth.util import DirWalk
    logp = os.path.join(run['base'], 'sched_%s.log' % mode)
    st = run['modes'][mode]
    if st[0] != 'ok' or not os.path.exists(logp):
        return
    order = [os.path.relpath(t.filePathIn, run['din']) for t in
             DirWalk.dirWalk(run['din'], '', theFnMatch='', recursive=bool(recipe.get('recurse')), bigFirst=True)]
    idx = {nm: i for i, nm in enumerate(order)}
    lines = []
    for ln in open(logp).read().split('\n'):
        if ln:
            kind, ns, pid, h = ln.split(' ')
            lines.append((int(ns), 0 if kind == 'F' else 1, kind, os.path.relpath(bytes.fromhex(h).decode(), run['din'])))
    lines.sort()
    outs = {nm: sorted(run['single_tree'][nm]) for nm in order}
    evs = []
    for ns, _o, kind, nm in lines:
        i = idx[nm]
        if kind == 'S':
            evs.append(('s', i))
        else:
            evs += [('w', i, j) for j in range(len(outs[nm]))] + [('f', i)]
    rows = {r[0]: res_tuple(r) for r in st[1]}
    tasks = [(hx(nm), 'x', classify(rows[nm]) + str(rows[nm][4]) if nm in rows else 'none', [(hx(k), hx(nm)) for k in outs[nm]]) for nm in order]
    k = int(mode[1:])
    rep = ctx.lean(['sched %d %s %s' % (k, enc_tasks(tasks), enc_evs(evs))])[0]
    parts = dict(p.split('=', 1) for p in rep.split(' '))
    def parse(s):
        return {} if s == '-' else dict(kv.split('=') for kv in s.split(','))
    mtree = parse(parts.get('tree', '-')); mres = parse(parts.get('res', '-'))
    tree = run['trees'][mode]
    union = {}
    for nm in order:
        for key in outs[nm]:
            union.setdefault(key, []).append(nm)
    def owners(tr, get):
        return sorted((k, get(k)) for k in tr if len(union.get(k, [])) == 1)
    model = ['valid=' + parts.get('valid', '?'), sorted(unhx(k) for k in mtree), sorted((unhx(k), v) for k, v in mres.items()),
             owners([unhx(k) for k in mtree], lambda k: os.path.basename(unhx(mtree[hx(k)])))]
    impl = ['valid=1', sorted(tree), sorted((nm, classify(t) + str(t[4])) for nm, t in rows.items()),
            owners(tree, lambda k: tree[k][1] or os.path.basename(union[k][0]))]
    ctx.corr('real_pool_schedule', {'op': 'real_schedule', 'recipe': recipe, 'mode': mode, 'events': enc_evs(evs)}, impl, model)
    ctx.count('real_schedule_events', len(evs))
    inflight = c = 0
    for e in evs:
        c += 1 if e[0] == 's' else (-1 if e[0] == 'f' else 0)
        inflight = max(inflight, c)
    if inflight > 1:
        ctx.nontriv(('real_schedule_overlap', recipe['fmt'], mode, inflight))


# ---------------------------------------------------------------- run / replay

def plan(ctx):
    """(fmt, shapes) for the tier: directory 0 carries the same-stem pair (F14 for RP66V1), then directories with
    prefix-related names and late-failing files, recursive trees with same-named files, then random directories."""
    out = []
    for fmt, nr in (('rp', ctx.n(11, 48)), ('lis', ctx.n(6, 22)), ('bit', ctx.n(6, 22))):
        out.append((fmt, ['f14'] + ['prefix'] * ctx.n(2, 6) + ['recursive'] * ctx.n(2, 6) + ['channels'] * ctx.n(1, 5) + ['random'] * nr))
    return out


def record(ctx, recipe, run, modes, fails, single):
    names = run['names']
    dam = [i for i, f in enumerate(recipe['files']) if f['damage']]
    kinds = tuple(sorted({f['damage']['kind'] for f in recipe['files'] if f['damage']}))
    nvalid = len(names) - len(dam)
    for m in modes:
        if nvalid >= 2 and dam:
            ctx.nontriv((recipe['fmt'], recipe.get('shape', 'random'), bool(recipe.get('recurse')), len(names), tuple(dam), kinds, m))
    seq_order = sorted(names)
    for f in recipe['files']:
        if f['damage']:
            ctx.count('damaged_%s' % f['damage']['kind'])
            ctx.nontriv(('pos_seq', recipe['fmt'], seq_order.index(f['name']) * 4 // max(len(names), 1)))
            if f['name'] in single:
                ctx.count('damaged_result_' + classify(single[f['name']]))
        elif f['name'] in single:
            ctx.count('valid_result_' + classify(single[f['name']]))
    ctx.count('directories')
    ctx.count('files', len(names))
    ctx.count('batch_runs', len(modes))
    for case, detail, finding in fails:
        ctx.fail(case, detail, finding=finding)


def run(ctx):
    t0 = time.time()
    base = os.path.join(ctx.scratch, 'c12')
    os.makedirs(base, exist_ok=True)
    if getattr(ctx, 'model_available', True):
        corr_naming(ctx)
        corr_sched(ctx)
        corr_walk(ctx, os.path.join(base, 'walk'))
        corr_walk_recursive(ctx, os.path.join(base, 'walkr'))
        for fmt in ('lis', 'bit'):
            corr_naming_real(ctx, fmt, os.path.join(base, 'nm_' + fmt))
            shutil.rmtree(os.path.join(base, 'nm_' + fmt), ignore_errors=True)
    modes = modes_for(ctx)
    k = 0
    for recipe in fixed_recipes() + fixed_channel_recipes():
        dbase = os.path.join(base, 'fx%d' % k); k += 1
        r = run_directory(recipe, dbase, FIXED_MODES, log_mode='j2' if getattr(ctx, 'model_available', True) else None)
        if recipe['shape'] == 'fixed':
            check_fixed_not_vacuous(ctx, recipe, r)
        fails, single = evaluate(ctx, recipe, r, FIXED_MODES)
        record(ctx, recipe, r, FIXED_MODES, fails, single)
        ctx.count('directories_fixed')
        if getattr(ctx, 'model_available', True):
            corr_real_schedule(ctx, recipe, r, 'j2')
        ctx.sample(summary(recipe))
        shutil.rmtree(dbase, ignore_errors=True)
    for fmt, shapes in plan(ctx):
        nrand = 0
        for d, shape in enumerate(shapes):
            dbase = os.path.join(base, 'd%d' % k); k += 1
            tag = '%s%d-%s' % (fmt, d, shape)
            if shape == 'prefix':
                recipe = gen_prefix_recipe(ctx, fmt, dbase, tag=tag)
            elif shape == 'recursive':
                recipe = gen_recursive_recipe(ctx, fmt, dbase, tag=tag)
            elif shape == 'channels':
                recipe = gen_channel_recipe(ctx, fmt, tag=tag)
            else:
                nfiles = None
                if shape == 'random':
                    nrand += 1
                    nfiles = 4 if nrand == 1 else (24 if nrand == 2 else None)
                recipe = gen_recipe(ctx.rng, fmt, nfiles=nfiles, f14=(shape == 'f14'), tag=tag)
            ctx.count('directories_' + shape)
            log_mode = ctx.rng.choice([m for m in modes if m != 'seq']) if getattr(ctx, 'model_available', True) else None
            r = run_directory(recipe, dbase, modes, log_mode=log_mode)
            fails, single = evaluate(ctx, recipe, r, modes)
            record(ctx, recipe, r, modes, fails, single)
            if log_mode:
                corr_real_schedule(ctx, recipe, r, log_mode)
            ctx.sample(summary(recipe))
            shutil.rmtree(dbase, ignore_errors=True)
    ctx.note('exercise of the real converters took %.0f s; modes per directory: %s' % (time.time() - t0, ','.join(modes)))


def search(ctx):
    """Extra oracle budget (called when a proof/correspondence broke and no failing input was found yet)."""
    base = os.path.join(ctx.scratch, 'c12s')
    modes = modes_for(ctx, jobs=JOBS_QUICK)
    k = 0
    for fmt in ('rp', 'lis', 'bit', 'rp', 'lis', 'bit'):
        for d in range(6):
            dbase = os.path.join(base, 'd%d' % k); k += 1
            if d == 1:
                recipe = gen_prefix_recipe(ctx, fmt, dbase, tag='search')
            elif d == 2:
                recipe = gen_recursive_recipe(ctx, fmt, dbase, tag='search')
            else:
                recipe = gen_recipe(ctx.rng, fmt, f14=(d == 0), tag='search-%s%d' % (fmt, d))
            r = run_directory(recipe, dbase, modes)
            fails, single = evaluate(ctx, recipe, r, modes)
            record(ctx, recipe, r, modes, fails, single)
            shutil.rmtree(dbase, ignore_errors=True)
            if any(f[2] is None for f in fails):
                return


def replay(ctx, rec):
    case = rec.get('case') or {}
    recipe = case.get('recipe')
    if not recipe:
        return True, 'nothing to replay (no concrete failing input was recorded)'
    mode = case.get('mode')
    if mode in (None, 'single'):
        modes = ['seq'] + ['j%d' % j for j in JOBS_QUICK]
    else:
        modes = [mode] if mode == 'seq' else ['seq', mode]
    dbase = os.path.join(ctx.scratch, 'replay')
    last = ''
    for attempt in range(3 if mode not in (None, 'single', 'seq') else 1):   # a scheduling-dependent failure may need a few tries
        r = run_directory(recipe, dbase, modes)
        fails, _single = evaluate(ctx, recipe, r, modes)
        if mode is not None:          # the recorded failure was not the known F14 class: look for unlisted failures only
            fails = [f for f in fails if f[2] is None]
        if fails:
            return False, '%d oracle failure(s), first: %s' % (len(fails), fails[0][1])
        last = 'directory of %d files (%s), modes %s: all results and trees agree' % (len(recipe['files']), recipe['fmt'], modes)
    return True, last
