"""C03 — RP66V1/DLIS logical files and their EFLR tables decode to what was encoded."""
import io, json, logging, math, struct
from fractions import Fraction

CLAIM = {
 'text': ('Lean 4 theorems, for every well-formed table and EVERY producer choice (SET/RSET/RDSET, omitted set name, any '
          'subset of omitted characteristics equal to the default, ABSATR, trailing omission at any depth, INVATR columns '
          'anywhere, all 19 supported representation codes): eflr_roundtrip (decode (encode t choices) = t), '
          'split_at_file_header (indexing the records of n logical files gives exactly their tables and frame records, '
          'split at each FILE-HEADER) and encrypted_skipped, about a model of ComponentDescriptor/EFLR/LogicalFile as '
          'coded today; the model is tied to /repo on every run by a correspondence over encoder-produced and '
          'malformed payloads and whole files, and the property oracle compares the implementation alone with the '
          'generated abstract content. Proof is the right level: the space of templates x characteristic subsets x '
          'codes is combinatorial and unbounded.'),
 'note': ('Trusted: Lean kernel; model<->code correspondence on the cases of the run; struct.unpack (IEEE decode) and '
          'Python float arithmetic of ISINGL/VSINGL (exact, probed with Fraction); the physical layer (C01/C02) is only '
          'used through a simple conformant wrapping; construction of the log pass from CHANNEL/FRAME tables is C04.'),
 'technique': 'Lean 4 proof (structural induction over template/objects/records) + model-implementation correspondence',
 'design_ref': 'DESIGN.md section 6 C03',
}
RULE = ('tables are generated type-directed from the abstract table model (0-8 columns, 0-6 objects, every supported '
        'representation code, counts 0-3, ordinary/invariant columns at any position, cells default/absent/overriding), '
        'encoded by the Lean spec encoder under random producer choices, decoded by the real '
        'ExplicitlyFormattedLogicalRecord; files of 1-4 logical files with encrypted records and IFLRs are indexed by '
        'the real LogicalIndex; a malformed stream (truncation, byte flips, insertions) covers the error branches. A '
        'case is non-trivial when the table has at least one object and one of: an invariant column, an absent cell, a '
        'trailing omission, an overridden count/repcode; distinct by payload bytes.')
ASSUMPTIONS = ['"marked absent" is observed as attrs[i] is None or attrs[i].value is None (DESIGN F6)',
               'CHANNEL/FRAME tables inside generated files are ones LogPass.log_pass_from_RP66V1 accepts (C04 models it)',
               'UVARI values are written in their shortest form by the spec encoder']
TRUSTED = ['modelled, not verified: struct.unpack(">f"/">d"), Python float arithmetic in ISINGL/VSINGL, bytes/list/dict of CPython',
           'the physical layer (pFile.FileRead / Index.LogicalRecordIndex) is exercised through one conformant wrapping only']

FLOAT_CODES = (2, 5, 6, 7)
INT_RANGES = {12: (-128, 127), 13: (-32768, 32767), 14: (-2**31, 2**31 - 1), 15: (0, 255), 16: (0, 65535),
              17: (0, 2**32 - 1), 18: (0, 2**30 - 1), 22: (0, 2**30 - 1), 26: (0, 255)}
SUPPORTED = [2, 5, 6, 7, 12, 13, 14, 15, 16, 17, 18, 19, 20, 21, 22, 23, 24, 26, 27]
UNSUPPORTED = [1, 3, 4, 8, 9, 10, 11, 25, 0, 28, 200]


# ------------------------------------------------------------------ canonical text

def hx(b):
    return b.hex() if len(b) else '-'


def canon_float(x):
    if x != x: return 'fnan'
    if x in (math.inf, -math.inf): return 'f+inf' if x > 0 else 'f-inf'
    sign = '-' if math.copysign(1.0, x) < 0 else '+'
    if x == 0: return f'f{sign}0e0'
    n, d = abs(x).as_integer_ratio()
    e = 0
    if d > 1:
        e = -(d.bit_length() - 1)
    else:
        while n % 2 == 0:
            n //= 2; e += 1
    return f'f{sign}{n}e{e}'


def ref_float(rc, w):
    """Independent reference for the number a floating word denotes (IEEE via struct; IBM/VAX via Fraction)."""
    if rc == 2: return struct.unpack('>f', w.to_bytes(4, 'big'))[0]
    if rc == 7: return struct.unpack('>d', w.to_bytes(8, 'big'))[0]
    b = w.to_bytes(4, 'big')
    if rc == 5:
        v = Fraction((b[1] << 16) | (b[2] << 8) | b[3], 1 << 24) * Fraction(16) ** ((b[0] & 0x7f) - 64)
        f = float(v); assert Fraction(f) == v
        return -f if b[0] & 0x80 else f
    if rc == 6:
        s = b[1] & 0x80
        e = ((b[1] & 0x7f) << 1) | (b[0] >> 7)
        m = ((b[0] & 0x7f) << 16) | (b[3] << 8) | b[2]
        if e == 0 and not s: return 0.0
        v = (Fraction(1, 2) + Fraction(m, 1 << 23)) * Fraction(2) ** (e - 128)
        f = float(v); assert Fraction(f) == v
        return -f if s else f
    raise ValueError(rc)


def val_in(v):
    k, x = v
    if k == 'i': return f'i{x}'
    if k == 'w': return f'w{x[0]}.{x[1]}'
    if k == 'b': return 'b' + hx(bytes.fromhex(x))
    if k == 'd': return 'd' + ','.join(map(str, x))
    if k == 'o': return f'o{x[0]},{x[1]},{hx(bytes.fromhex(x[2]))}'
    if k == 'r': return f'r{hx(bytes.fromhex(x[0]))},{x[1]},{x[2]},{hx(bytes.fromhex(x[3]))}'
    raise ValueError(k)


def val_out(rc, v):
    if v[0] == 'w': return canon_float(ref_float(v[1][0], v[1][1]))
    return val_in(v)


def attr_txt(a, fval):
    s = f"{hx(bytes.fromhex(a['label']))} {a['count']} {a['rc']} {hx(bytes.fromhex(a['units']))} "
    if a['value'] is None: return s + 'N'
    return s + ' '.join([f"V{len(a['value'])}"] + [fval(a['rc'], v) for v in a['value']])


def table_txt(t, out):
    fval = val_out if out else (lambda rc, v: val_in(v))
    parts = [hx(bytes.fromhex(t['stype'])), hx(bytes.fromhex(t['sname'])), str(len(t['cols']))]
    parts += [('1 ' if c['inv'] else '0 ') + attr_txt(c['attr'], fval) for c in t['cols']]
    parts.append(str(len(t['rows'])))
    for r in t['rows']:
        o, c, i = r['name']
        parts.append(' '.join([str(o), str(c), hx(bytes.fromhex(i)), str(len(r['cells']))] + [attr_txt(a, fval) for a in r['cells']]))
    return ' '.join(parts)


def flags_txt(f):
    return ''.join('1' if f[k] else '0' for k in ('L', 'C', 'R', 'U', 'V', 'absent', 'stop'))


def choices_txt(ch):
    parts = [str(ch['setRole']), '1' if ch['omitName'] else '0', str(len(ch['cols']))] + [flags_txt(f) for f in ch['cols']]
    parts.append(str(len(ch['rows'])))
    for r in ch['rows']:
        parts += [str(len(r))] + [flags_txt(f) for f in r]
    return ' '.join(parts)


# ------------------------------------------------------------------ implementation adapters

def _impl():
    logging.disable(logging.CRITICAL)
    from TotalDepth.RP66V1.core import File, RepCode, LogicalFile
    from TotalDepth.RP66V1.core.LogicalRecord import EFLR
    return File, RepCode, LogicalFile, EFLR


def impl_val(RepCode, v):
    if isinstance(v, float): return canon_float(v)
    if isinstance(v, bool): return f'?bool{v}'
    if isinstance(v, int): return f'i{v}'
    if isinstance(v, (bytes, bytearray)): return 'b' + hx(bytes(v))
    if isinstance(v, RepCode.DateTime):
        return 'd' + ','.join(map(str, (v.year, v.tz, v.month, v.day, v.hour, v.minute, v.second, v.millisecond)))
    if isinstance(v, RepCode.ObjectName): return f'o{v.O},{v.C},{hx(v.I)}'
    if isinstance(v, RepCode.ObjectReference): return f'r{hx(v.T)},{v.N.O},{v.N.C},{hx(v.N.I)}'
    return f'?{type(v).__name__}'


def impl_attr(RepCode, a):
    if a is None: return '? ? ? ? N'
    s = f'{hx(a.label)} {a.count} {a.rc if hasattr(a, "rc") else a.rep_code} {hx(a.units)} '
    if a.value is None: return s + 'N'
    return s + ' '.join([f'V{len(a.value)}'] + [impl_val(RepCode, v) for v in a.value])


def impl_table_txt(RepCode, e):
    parts = [hx(e.set.type), hx(e.set.name), str(len(e.template.attrs))]
    parts += [('1 ' if a.component_descriptor.is_invariant_attribute else '0 ') + impl_attr(RepCode, a) for a in e.template.attrs]
    parts.append(str(len(e.objects)))
    for o in e.objects:
        parts.append(' '.join([str(o.name.O), str(o.name.C), hx(o.name.I), str(len(o.attrs))] + [impl_attr(RepCode, a) for a in o.attrs]))
    return ' '.join(parts)


def err_name(e):
    return 'err ' + type(e).__name__


def impl_eflr_obj(mods, payload, lr_type=5):
    """(canonical text, EFLR object or None).  The text is produced only after the complete record has been parsed."""
    File, RepCode, LogicalFile, EFLR = mods
    try:
        e = EFLR.ExplicitlyFormattedLogicalRecord(lr_type, File.LogicalData(payload))
    except Exception as err:   # canonicalised by class
        return err_name(err), None
    return 'ok ' + impl_table_txt(RepCode, e), e


def impl_eflr(mods, payload, lr_type=5):
    return impl_eflr_obj(mods, payload, lr_type)[0]


def _index_txt(RepCode, li):
    """canonical form of an entered LogicalIndex; positions are reported as record ordinals"""
    order = {}
    for k in range(len(li._logical_record_index)):
        order[li._logical_record_index.get_file_logical_data(k, 0, 0).position.lrsh_position] = k
    parts = ['ok', str(len(li.logical_files))]
    for lf in li.logical_files:
        parts += ['F', str(len(lf.eflrs))]
        for pe in lf.eflrs:
            parts.append(f'{order[pe.lrsh_position.lrsh_position]} {pe.eflr.lr_type} {impl_table_txt(RepCode, pe.eflr)}')
        parts += ['1' if lf.channel is not None else '0', '1' if lf.frame is not None else '0']
        # file order of the attached IFLRs over all frame types
        fl = []
        for name, xa in lf.iflr_position_map.items():
            for ref in xa._data:
                fl.append((order[ref.logical_record_position.lrsh_position], name.O, name.C, hx(name.I), ref.frame_number))
        fl.sort()
        parts.append(str(len(fl)))
        parts += [f'{p} {o} {c} {i} {f}' for p, o, c, i, f in fl]
    return ' '.join(parts)


HISTORIES = ('once', 'reenter', 'reenter3', 'two-objects', 'two-objects-nested')


def impl_lfiles_hist(mods, recs, rng, hist='once', data=None):
    """Index a wrapped file with the real LogicalIndex under an object-level history; returns one canonical text per
    `__enter__` (every one of them must present the encoded content):
    once: enter; reenter / reenter3: enter, leave, enter again (and again) on the SAME LogicalIndex over one BytesIO;
    two-objects: two LogicalIndex objects over ONE file object used one after the other; two-objects-nested: the second
    entered while the first is still open, the first re-read afterwards."""
    from gen import c03phys
    File, RepCode, LogicalFile, EFLR = mods
    if data is None:
        data = c03phys.wrap(recs, rng)
    outs = []
    fobj = io.BytesIO(data)

    def entered(li):
        try:
            with li:
                outs.append(_index_txt(RepCode, li))
        except Exception as err:
            outs.append(err_name(err))
    if hist == 'once':
        entered(LogicalFile.LogicalIndex(fobj))
    elif hist in ('reenter', 'reenter3'):
        li = LogicalFile.LogicalIndex(fobj)
        for _ in range(2 if hist == 'reenter' else 3):
            entered(li)
    elif hist == 'two-objects':
        a, b = LogicalFile.LogicalIndex(fobj), LogicalFile.LogicalIndex(fobj)
        entered(a); entered(b); entered(a)
    else:
        a, b = LogicalFile.LogicalIndex(fobj), LogicalFile.LogicalIndex(fobj)
        try:
            with a:
                first = _index_txt(RepCode, a)
                with b:
                    outs.append(_index_txt(RepCode, b))
                    outs.append(_index_txt(RepCode, a))     # the first object, read while/after the second indexed
                outs.append(first)
        except Exception as err:
            outs.append(err_name(err))
    return outs


def impl_lfiles(mods, recs, rng):
    return impl_lfiles_hist(mods, recs, rng, 'once')[0]


# ------------------------------------------------------------------ generators

IDENT_POOL = [b'', b'A', b'LONG-NAME', b'UNITS', b'DIMENSION', b'X', b'TOOL', b'PARAMETER', b'ZONE', b'Q' * 255, b'\x00\xff', b'a b',
              b'EQUIPMENT', b'COMMENT', b'9', b'VALUES', b'AXIS', b'DESCRIPTION', b'STATUS', b'k' * 40,
              # identifiers that only an exact (byte-wise) comparison keeps apart: case, blanks, control bytes
              b'a', b' A', b'A ', b'long-name', b'Long-Name', b' UNITS', b'UNITS ', b'x', b'A  B', b'A B', b'a B', b'TOOL\x00', b'\tTOOL', b'zone']
UNITS_POOL = [b'', b'', b'', b'm', b'ft', b'0.1 in', b'deg C', b'm/s2', b'\xb0', b'%', b'u' * 255, b'M', b' m', b'm ', b'FT']


def gen_val(rng, rc):
    if rc in FLOAT_CODES:
        bits = 64 if rc == 7 else 32
        r = rng.random()
        if r < 0.15:
            w = rng.choice([0, 1 << (bits - 1), (1 << bits) - 1, 0x7f800000 if bits == 32 else 0x7ff0000000000000,
                            0xff800000 if bits == 32 else 0xfff0000000000000, 0x7fc00000 if bits == 32 else 0x7ff8000000000000,
                            1, 0x00800000, 0x3f800000, 0x41200000, 0x00400000])
            w &= (1 << bits) - 1
        else:
            w = rng.getrandbits(bits)
        return ['w', [rc, w]]
    if rc in INT_RANGES:
        lo, hi = INT_RANGES[rc]
        if rc in (18, 22):
            v = rng.choice([0, 1, 127, 128, 129, 16383, 16384, 16385, hi, rng.randint(0, 200), rng.randint(0, 20000), rng.randint(0, hi)])
        else:
            v = rng.choice([lo, hi, 0, -1 if lo < 0 else 1, rng.randint(lo, hi), rng.randint(lo, hi)])
        return ['i', v]
    if rc in (19, 27):
        return ['b', (rng.choice(IDENT_POOL) if rng.random() < 0.6 else bytes(rng.getrandbits(8) for _ in range(rng.randint(0, 12)))).hex()]
    if rc == 20:
        n = rng.choice([0, 1, 5, 127, 128, 300, rng.randint(0, 40)])
        return ['b', bytes(rng.getrandbits(8) for _ in range(n)).hex()]
    if rc == 21:
        return ['d', [1900 + rng.randint(0, 255), rng.randint(0, 15), rng.randint(0, 15)] + [rng.randint(0, 255) for _ in range(4)] + [rng.randint(0, 65535)]]
    if rc == 23:
        return ['o', gen_obname(rng)]
    if rc == 24:
        return ['r', [rng.choice(IDENT_POOL).hex()] + gen_obname(rng)]
    raise ValueError(rc)


def gen_obname(rng):
    r = rng.random()
    if r < 0.4: ident = rng.choice(IDENT_POOL)
    elif r < 0.7: ident = bytes(rng.randint(65, 90) for _ in range(rng.randint(1, 6)))
    else: ident = bytes(rng.choice(b'ABCabcRTrtGg 019_-') for _ in range(rng.randint(1, 5)))
    return [rng.choice([0, 1, 2, 127, 128, 300, 16384, 2**30 - 1, rng.randint(0, 10)]), rng.randint(0, 255) if rng.random() < 0.3 else rng.randint(0, 3),
            ident.hex()]


NEAR_KINDS = ('case', 'trailing-blank', 'leading-blank', 'inner-blank', 'origin', 'copy', 'nul', 'case+blank')


def near_duplicate_name(rng, name):
    """A DIFFERENT object name that an identifier-folding comparison (upper/lower, strip, whitespace normalisation,
    ignoring origin or copy number) would take for `name`; returns (name', kind) or None."""
    o, c, ih = name
    i = bytes.fromhex(ih)
    kind = rng.choice(NEAR_KINDS)
    if kind == 'case':
        j = rng.choice([i.upper(), i.lower(), i.swapcase(), i.title()])
    elif kind == 'trailing-blank': j = i + rng.choice([b' ', b'  ', b'\t'])
    elif kind == 'leading-blank': j = rng.choice([b' ', b'  ']) + i
    elif kind == 'inner-blank': j = i.replace(b' ', b'  ', 1) if b' ' in i else i[:1] + b' ' + i[1:]
    elif kind == 'nul': j = i + b'\x00'
    elif kind == 'case+blank': j = i.swapcase() + b' '
    elif kind == 'origin': return [o + 1 if o < 2**30 - 1 else o - 1, c, ih], kind
    else: return [o, (c + 1) % 256, ih], kind
    if j == i or len(j) > 255: return None
    return [o, c, j.hex()], kind


def add_near_duplicates(rng, rows, new_row, feats, p=0.35):
    """give some rows a name that differs from an earlier row's only in case / blanks / origin / copy number"""
    names = {tuple(r['name']) for r in rows}
    for k in range(1, len(rows)):
        if rng.random() < p:
            nd = near_duplicate_name(rng, rows[rng.randrange(k)]['name'])
            if nd is not None and tuple(nd[0]) not in names:
                names.discard(tuple(rows[k]['name'])); rows[k]['name'] = nd[0]; names.add(tuple(nd[0]))
                feats.add('near-duplicate-names'); feats.add('near-duplicate-' + nd[1])


def gen_attr(rng, label, with_value=None):
    rc = rng.choice(SUPPORTED) if rng.random() < 0.85 else 19
    count = rng.choice([1, 1, 1, 0, 2, 3]) if rng.random() < 0.9 else rng.choice([128, 130, 200])
    if count > 3 and rc not in (12, 15, 26, 2, 13):
        count = 3
    units = rng.choice(UNITS_POOL)
    hasv = (rng.random() < 0.6) if with_value is None else with_value
    if not hasv and rng.random() < 0.1:
        rc = rng.choice(UNSUPPORTED)   # a code that is never used to read a value
    value = [gen_val(rng, rc) for _ in range(count)] if hasv else None
    return {'label': label.hex(), 'count': count, 'rc': rc, 'units': units.hex(), 'value': value}


def gen_table(rng, stype=None, max_cols=8, max_rows=6):
    """Type-directed generator of a well-formed abstract table; returns (table, features)."""
    feats = set()
    stype = rng.choice(IDENT_POOL[1:]) if stype is None else stype
    sname = rng.choice([b'', b'', b'0', b'51', b'name'])
    ncols = rng.randint(1, max_cols) if rng.random() < 0.97 else 0
    labels = rng.sample(IDENT_POOL, ncols)
    cols = []
    for k, lab in enumerate(labels):
        inv = rng.random() < 0.2
        cols.append({'inv': inv, 'attr': gen_attr(rng, lab)})
        if inv:
            feats.add('inv-' + ('only' if ncols == 1 else 'first' if k == 0 else 'last' if k == ncols - 1 else 'middle'))
    nrows = 0 if ncols == 0 else rng.choice([0, 1, 1, 2, 3, rng.randint(0, max_rows)])
    rows, names = [], set()
    while len(rows) < nrows:
        name = gen_obname(rng)
        if tuple(name) in names: continue
        names.add(tuple(name))
        mode = rng.random()
        cells = []
        for c in cols:
            t = c['attr']
            if c['inv']:
                cells.append(dict(t)); continue
            r = rng.random()
            if mode < 0.15: r = 0.0          # an object that takes every default (may be omitted entirely)
            if r < 0.35:
                cells.append(dict(t))
            elif r < 0.55:
                a = dict(t); a['value'] = None; cells.append(a); feats.add('absent' if t['value'] is not None else 'novalue')
            else:
                a = gen_attr(rng, bytes.fromhex(t['label']), with_value=True if t['value'] is not None else None)
                keep = rng.random()
                if keep < 0.5:   # override only some characteristics
                    if rng.random() < 0.6: a['count'] = t['count']
                    if rng.random() < 0.6: a['rc'] = t['rc']
                    if rng.random() < 0.6: a['units'] = t['units']
                    if a['value'] is not None:
                        if a['count'] == t['count'] and a['rc'] == t['rc'] and t['value'] is not None and rng.random() < 0.3:
                            a['value'] = t['value']
                        else:
                            if a['rc'] not in SUPPORTED: a['rc'] = 19
                            a['value'] = [gen_val(rng, a['rc']) for _ in range(a['count'])]
                if a['value'] is None and t['value'] is not None:
                    a = dict(t); a['value'] = None; feats.add('absent')
                if a['count'] != t['count']: feats.add('override-count')
                if a['rc'] != t['rc']: feats.add('override-rc')
                if a['units'] != t['units']: feats.add('override-units')
                cells.append(a)
        rows.append({'name': name, 'cells': cells})
    add_near_duplicates(rng, rows, None, feats)
    t = {'stype': stype.hex(), 'sname': sname.hex(), 'cols': cols, 'rows': rows}
    return t, feats


def gen_shared_default_table(rng):
    """The aliasing shape: a column whose default value has n >= 2 elements; several objects inherit it unchanged, some
    override ONLY the count (C without V) to m != n and so still present the complete default list; rows of both kinds
    before and after each other."""
    feats = {'shared-default'}
    ncols = rng.randint(1, 3)
    labels = rng.sample(IDENT_POOL[1:], ncols)
    cols = []
    for lab in labels:
        rc = rng.choice([2, 7, 13, 15, 16, 17, 18, 19, 20, 23])
        n = rng.randint(2, 4)
        cols.append({'inv': False, 'attr': {'label': lab.hex(), 'count': n, 'rc': rc, 'units': rng.choice(UNITS_POOL).hex(),
                                            'value': [gen_val(rng, rc) for _ in range(n)]}})
    if rng.random() < 0.3:
        cols.insert(rng.randint(0, len(cols)), {'inv': rng.random() < 0.5, 'attr': gen_attr(rng, b'EXTRA-' + bytes([65 + len(cols)]))})
    rows, names = [], set()
    for _ in range(rng.randint(3, 6)):
        while True:
            name = gen_obname(rng)
            if tuple(name) not in names: break
        names.add(tuple(name))
        cells = []
        for c in cols:
            t = c['attr']
            a = dict(t)
            r = rng.random()
            if c['inv'] or t['value'] is None or len(t['value']) < 2 or r < 0.45:
                pass                                                   # inherits everything
            elif r < 0.85:
                a['count'] = rng.choice([0, 1, max(1, t['count'] - 1), t['count'] + 1, t['count'] + 2])
                if a['count'] < t['count']: feats.add('count-only-override-smaller')
                elif a['count'] > t['count']: feats.add('count-only-override-larger')
                if rng.random() < 0.2: a['units'] = rng.choice(UNITS_POOL).hex()
            else:
                a['count'] = rng.randint(1, 3)
                a['value'] = [gen_val(rng, a['rc']) for _ in range(a['count'])]
            cells.append(a)
        rows.append({'name': name, 'cells': cells})
    add_near_duplicates(rng, rows, None, feats)
    return {'stype': rng.choice(IDENT_POOL[1:]).hex(), 'sname': b''.hex(), 'cols': cols, 'rows': rows}, feats


def gen_flags(rng, p):
    return {k: rng.random() < p for k in ('L', 'C', 'R', 'U', 'V')} | {'absent': rng.random() < 0.5, 'stop': rng.random() < 0.6}


def gen_choices(rng, t):
    p = rng.choice([0.0, 0.5, 0.9, 1.0])
    return {'setRole': rng.randint(0, 2), 'omitName': rng.random() < 0.5,
            'cols': [gen_flags(rng, p) for _ in t['cols']],
            'rows': [[gen_flags(rng, p) for _ in t['cols']] for _ in t['rows']]}


def omission_depth(t, ch):
    """How many components the encoder drops at the end of each object (mirror of the spec's `stop` rule; statistics only)."""
    depths = []
    for r, fl in zip(t['rows'], ch['rows']):
        d = 0
        n = len(t['cols'])
        for i in range(n):
            if t['cols'][i]['inv']: continue
            if fl[i]['stop'] and all(r['cells'][j] == t['cols'][j]['attr'] for j in range(i, n)):
                d = sum(1 for j in range(i, n) if not t['cols'][j]['inv'])
                break
        depths.append(d)
    return depths


def mutate(rng, b):
    b = bytearray(b)
    k = rng.random()
    if k < 0.35 and len(b) > 1:
        return bytes(b[:rng.randint(0, len(b) - 1)])
    if k < 0.75 and b:
        for _ in range(rng.randint(1, 2)):
            i = rng.randrange(len(b))
            b[i] = rng.choice([b[i] ^ (1 << rng.randint(0, 7)), rng.getrandbits(8), 0x70, 0x00, 0x20, 0x40, 0xf0, 0x60, 0x80, 0x7f])
        return bytes(b)
    i = rng.randint(0, len(b))
    return bytes(b[:i]) + bytes(rng.choice([0x70, 0x00, 0x3f, 0x21, 0xf8, rng.getrandbits(8)]) for _ in range(rng.randint(1, 3))) + bytes(b[i:])


# ------------------------------------------------------------------ fixed tables for whole files

def _a(label, count=1, rc=19, units=b'', value=None):
    return {'label': label.hex(), 'count': count, 'rc': rc, 'units': units.hex(), 'value': value}


def file_header_table(rng, k):
    cols = [{'inv': False, 'attr': _a(b'SEQUENCE-NUMBER', 1, 20)}, {'inv': False, 'attr': _a(b'ID', 1, 20)}]
    rows = [{'name': [k, 0, b'5'.hex()], 'cells': [_a(b'SEQUENCE-NUMBER', 1, 20, b'', [['b', (b'%10d' % (k + 1)).hex()]]),
                                                  _a(b'ID', 1, 20, b'', [['b', (b'file %d' % k).ljust(65).hex()]])]}]
    return {'stype': b'FILE-HEADER'.hex(), 'sname': b''.hex(), 'cols': cols, 'rows': rows}


def origin_table(rng, k):
    t, _ = gen_table(rng, stype=rng.choice([b'ORIGIN', b'ORIGIN', b'WELL-REFERENCE']), max_cols=4, max_rows=2)
    return t


def channel_frame_tables(rng, nframes=2):
    """A CHANNEL and a FRAME table that LogPass.log_pass_from_RP66V1 accepts: each frame has a scalar first channel."""
    chans, frames = [], []
    ccols = [{'inv': False, 'attr': _a(b'LONG-NAME', 1, 20)}, {'inv': False, 'attr': _a(b'REPRESENTATION-CODE', 1, 15)},
             {'inv': False, 'attr': _a(b'UNITS', 1, 27)}, {'inv': False, 'attr': _a(b'DIMENSION', 1, 18)}]
    crows = []
    # frame object names that differ only in case / a blank / (below) origin: they key the log pass and the frame map
    fr_names = rng.choice([[b'FR0', b'FR1', b'FR2'], [b'Fr', b'FR', b'fr'], [b'FR', b'FR ', b' FR'], [b'Rt', b'RT', b'rT']])
    for f in range(nframes):
        names = []
        for c in range(rng.randint(1, 3)):
            nm = [1, 0, (b'CH%d_%d' % (f, c)).hex()]
            names.append(nm)
            rc = 2 if c == 0 else rng.choice([2, 7, 13, 16])
            dims = [1] if c == 0 else rng.choice([[1], [2], [2, 2]])
            crows.append({'name': nm, 'cells': [_a(b'LONG-NAME', 1, 20, b'', [['b', b'ln'.hex()]]), _a(b'REPRESENTATION-CODE', 1, 15, b'', [['i', rc]]),
                                                 _a(b'UNITS', 1, 27, b'', [['b', b'm'.hex()]]), _a(b'DIMENSION', len(dims), 18, b'', [['i', d] for d in dims])]})
        frames.append(([1, 0, (fr_names[f]).hex()], names))
    fcols = [{'inv': False, 'attr': _a(b'DESCRIPTION', 1, 20)}, {'inv': False, 'attr': _a(b'CHANNELS', 1, 23)}]
    frows = [{'name': nm, 'cells': [_a(b'DESCRIPTION', 1, 20), _a(b'CHANNELS', len(chs), 23, b'', [['o', c] for c in chs])]} for nm, chs in frames]
    ct = {'stype': b'CHANNEL'.hex(), 'sname': b''.hex(), 'cols': ccols, 'rows': crows}
    ft = {'stype': b'FRAME'.hex(), 'sname': b''.hex(), 'cols': fcols, 'rows': frows}
    # bytes of one frame of each frame type
    sizes = {}
    fixed = {2: 4, 7: 8, 13: 2, 16: 2}
    for (nm, chs) in frames:
        n = 0
        for c in chs:
            row = next(r for r in crows if r['name'] == c)
            cnt = 1
            for d in row['cells'][3]['value']: cnt *= d[1]
            n += cnt * fixed[row['cells'][1]['value'][0][1]]
        sizes[tuple(nm)] = n
    return ct, ft, [f[0] for f in frames], sizes


def gen_file_items(rng, nfiles):
    """Items of `nfiles` logical files: ('E', lrtype, table, choices) / ('I', lrtype, obname, frameno, datahex), with junk."""
    files = []
    for k in range(nfiles):
        items = [['E', 0, file_header_table(rng, k)], ['E', 1, origin_table(rng, k)]]
        with_frames = rng.random() < 0.6
        extra = []
        for _ in range(rng.randint(0, 4)):
            t, _f = gen_table(rng, stype=rng.choice([b'PARAMETER', b'TOOL', b'EQUIPMENT', b'ZONE', b'ORIGIN', b'COMMENT', b'X',
                                                      # set types that only an exact comparison keeps apart from the structural ones
                                                      b'file-header', b'File-Header', b'FILE-HEADER ', b' FILE-HEADER', b'FILE_HEADER', b'origin', b'channel', b'Frame', b'CHANNEL ', b' FRAME', b'frame']), max_cols=5, max_rows=3)
            extra.append(['E', rng.choice([5, 5, 6, 1, 200]), t])
        if with_frames:
            ct, ft, fnames, sizes = channel_frame_tables(rng, rng.randint(1, 3))
            pair = [['E', 3, ct], ['E', 4, ft]]
            if rng.random() < 0.3: pair.reverse()
            pos = sorted(rng.randint(0, len(extra)) for _ in range(2))
            extra.insert(pos[0], pair[0]); extra.insert(pos[1] + 1, pair[1])
            last = max(i for i, e in enumerate(extra) if e[2]['stype'] in (b'CHANNEL'.hex(), b'FRAME'.hex()))
            counters = {tuple(n): 0 for n in fnames}
            for _ in range(rng.randint(0, 8)):
                nm = rng.choice(fnames)
                counters[tuple(nm)] += 1
                empty = rng.random() < 0.2
                data = b'' if empty else bytes(rng.getrandbits(8) for _ in range(sizes[tuple(nm)]))
                if not empty and data[:4] in (b'\x7f\xc0\x00\x00',): data = b'\x00' + data[1:]
                fno = rng.choice([counters[tuple(nm)], 0, 127, 128, 20000])
                extra.insert(rng.randint(last + 1, len(extra)), ['I', 0, nm, fno, data.hex()])
        elif rng.random() < 0.3:
            # an empty IFLR needs no log pass
            extra.insert(rng.randint(0, len(extra)), ['I', 0, [1, 0, b'FR0'.hex()], 1, ''])
        items += extra
        files.append(items)
    return files


def items_request(rng, files, trailer):
    toks = []
    n = 0
    for items in files:
        for it in items:
            junk = []
            if rng.random() < 0.25:
                for _ in range(rng.randint(1, 2)):
                    junk.append((rng.random() < 0.5, rng.choice([0, 1, 3, 5, 77]), bytes(rng.getrandbits(8) for _ in range(rng.randint(0, 30)))))
            jt = ' '.join([str(len(junk))] + [f"{'1' if x else '0'} {ty} {hx(b)}" for x, ty, b in junk])
            if it[0] == 'E':
                ch = gen_choices(rng, it[2])
                toks.append(f"E {it[1]} {jt} {table_txt(it[2], False)} {choices_txt(ch)}")
            else:
                o, c, i = it[2]
                toks.append(f"I {it[1]} {jt} {o} {c} {hx(bytes.fromhex(i))} {it[3]} {hx(bytes.fromhex(it[4]))}")
            n += 1
    tr = ' '.join(f"{'1' if x else '0'} {ty} {hx(b)}" for x, ty, b in trailer)
    return f"encfiles {n} {len(trailer)} " + ' '.join(toks) + (' ' + tr if trailer else '')


def parse_recs(reply):
    t = reply.split(' ')
    n = int(t[0]); out = []
    for k in range(n):
        e, x, ty, h = t[1 + 4 * k: 5 + 4 * k]
        out.append((e == '1', x == '1', int(ty), b'' if h == '-' else bytes.fromhex(h)))
    return out


def expected_files_txt(files, recs):
    """What the index must present, from the abstract items and the positions of the unencrypted records."""
    pos = [i for i, r in enumerate(recs) if not r[0]]
    parts = ['ok', str(len(files))]
    k = 0
    for items in files:
        ef, fr, hc, hf = [], [], False, False
        for it in items:
            p = pos[k]; k += 1
            if it[0] == 'E':
                ef.append(f'{p} {it[1]} {table_txt(it[2], True)}')
                hc = hc or it[2]['stype'] == b'CHANNEL'.hex(); hf = hf or it[2]['stype'] == b'FRAME'.hex()
            elif it[4] != '':
                o, c, i = it[2]
                fr.append(f'{p} {o} {c} {hx(bytes.fromhex(i))} {it[3]}')
        parts += ['F', str(len(ef))] + ef + ['1' if hc else '0', '1' if hf else '0', str(len(fr))] + fr
    return ' '.join(parts)


# ------------------------------------------------------------------ run

def folded_variants(name):
    """names an identifier-folding comparison would confuse with `name` (o, c, ident bytes)"""
    o, c, i = name
    out = {(o, c, i.upper()), (o, c, i.lower()), (o, c, i.swapcase()), (o, c, i.strip()), (o, c, i + b' '), (o, c, b' ' + i),
           (o, c, b' '.join(i.split())), (o, c, i.rstrip(b'\x00')), (o + 1, c, i), (o, (c + 1) % 256, i), (0, c, i), (o, 0, i)}
    out.discard((o, c, i))
    return out


def name_map_check(mods, e, t):
    """Objects are identified by their exact name: the name map has one key per encoded object (compared field by field,
    not through ObjectName.__eq__), looking a row up by its name gives that row, and no name that was NOT encoded —
    in particular none that differs from an encoded one only in case, blanks, origin or copy number — is a key."""
    File, RepCode, LogicalFile, EFLR = mods
    names = [(r['name'][0], r['name'][1], bytes.fromhex(r['name'][2])) for r in t['rows']]
    if len(e) != len(names) or len(e.objects) != len(names):
        return f'{len(names)} objects encoded, the table has {len(e.objects)} rows'
    keys = sorted((k.O, k.C, bytes(k.I)) for k in e.object_name_map.keys())
    if keys != sorted(names):
        return f'object_name_map keys {keys[:4]} != encoded object names {sorted(names)[:4]}'
    for idx, nm in enumerate(names):
        key = RepCode.ObjectName(*nm)
        if e.object_name_map.get(key) != idx:
            return f'object_name_map[{nm}] = {e.object_name_map.get(key)} but the object is row {idx}'
        if e[key] is not e.objects[idx]:
            got = e[key].name
            return f'looking up {nm} gives the row named {(got.O, got.C, bytes(got.I))}'
    enc = set(names)
    for nm in names:
        for v in folded_variants(nm):
            if v not in enc and len(v[2]) < 256 and RepCode.ObjectName(*v) in e.object_name_map:
                return f'{v} was not encoded (only {nm} was) but is found in object_name_map'
    return None


def oracle_eflr(ctx, mods, t, ch, payload, impl_out=None, obj=None):
    """Property on the implementation alone: the decoded table is the generated abstract table (row count, every row's
    name and cells), and its objects are keyed by exactly the encoded names."""
    ctx.count('oracle_cases')
    want = 'ok ' + table_txt(t, True)
    if impl_out is None:
        impl_out, obj = impl_eflr_obj(mods, payload)
    got = impl_out
    case = {'op': 'eflr', 'table': t, 'choices': ch, 'payload': payload.hex()}
    if got != want:
        nrows = f' ({len(obj.objects)} rows for {len(t["rows"])} objects encoded)' if obj is not None and len(obj.objects) != len(t['rows']) else ''
        ctx.fail(case, f'decoded table differs from the encoded one{nrows}: got {got[:300]!r} want {want[:300]!r}')
        return False
    if obj is not None:
        ctx.count('oracle_cases')
        bad = name_map_check(mods, obj, t)
        if bad:
            ctx.fail(case, 'object identity: ' + bad)
            return False
    return True


def run(ctx):
    mods = _impl()
    rng = ctx.rng
    # ---------------- (i) tables through the spec encoder
    N = ctx.n(10000, 100000)
    cases = []
    for _ in range(N):
        t, feats = gen_shared_default_table(rng) if rng.random() < 0.15 else gen_table(rng)
        ch = gen_choices(rng, t)
        cases.append((t, ch, feats))
    wf = ctx.lean(['wf ' + table_txt(t, False) for t, _, _ in cases])
    enc = ctx.lean([f'enc {table_txt(t, False)} {choices_txt(ch)}' for t, ch, _ in cases])
    bad_wf = [i for i, w in enumerate(wf) if w != '1']
    if bad_wf:
        ctx.corr('generator-wf', {'table': cases[bad_wf[0]][0]}, 'generator produced', 'a table outside Table.wf')
    payloads = [b'' if h == '-' else bytes.fromhex(h) for h in enc]
    dec = ctx.lean(['eflr ' + hx(p) for p in payloads])
    prev = None          # (payload, object, text, table, choices) of the record parsed before this one
    for (t, ch, feats), p, m in zip(cases, payloads, dec):
        out, obj = impl_eflr_obj(mods, p)
        ctx.corr('eflr', {'op': 'eflr', 'payload': p.hex()}, out, m)
        ok = oracle_eflr(ctx, mods, t, ch, p, out, obj)
        # a record already presented must not change when another record is parsed afterwards
        if prev is not None and prev[1] is not None:
            ctx.count('oracle_cases')
            again = 'ok ' + impl_table_txt(mods[1], prev[1])
            if again != prev[2]:
                ctx.fail({'op': 'eflr2', 'table': prev[3], 'choices': prev[4], 'payload': prev[0].hex(), 'then': p.hex()},
                         f'a parsed table changed after another record was parsed: {again[:200]!r} was {prev[2][:200]!r}')
        prev = (p, obj, out, t, ch)
        depths = omission_depth(t, ch)
        for d in depths:
            ctx.count(f'trailing_omission_depth_{min(d, 5)}{"+" if d >= 5 else ""}')
        if any(d == sum(1 for c in t['cols'] if not c['inv']) and d > 0 for d in depths): feats.add('object-fully-omitted')
        if any(depths): feats.add('trailing-omission')
        for f in feats: ctx.count('feature_' + f)
        ctx.count('rows', len(t['rows'])); ctx.count('cols', len(t['cols']))
        if ok and t['rows'] and feats - {'novalue', 'override-units'}:
            ctx.nontriv(p)
    ctx.sample({'op': 'eflr', 'table_in': table_txt(cases[0][0], False)[:400], 'choices': choices_txt(cases[0][1]), 'payload': payloads[0].hex()[:200]})
    # ---------------- (i-b) duplicate object names (outside Table.wf): the REPLACE strategy as coded, correspondence only
    dcases = []
    for _ in range(ctx.n(600, 6000)):
        t, _f = gen_table(rng, max_cols=4, max_rows=6)
        if len(t['rows']) < 2: continue
        for _k in range(rng.randint(1, 2)):
            i, j = rng.sample(range(len(t['rows'])), 2)
            t['rows'][j]['name'] = list(t['rows'][i]['name'])
        dcases.append((t, gen_choices(rng, t)))
    enc2 = ctx.lean([f'enc {table_txt(t, False)} {choices_txt(ch)}' for t, ch in dcases])
    pl2 = [b'' if h == '-' else bytes.fromhex(h) for h in enc2]
    dec2 = ctx.lean(['eflr ' + hx(p) for p in pl2])
    for p, m in zip(pl2, dec2):
        ctx.corr('eflr-duplicate-objects', {'op': 'eflr-raw', 'payload': p.hex()}, impl_eflr(mods, p), m)
    # ---------------- (ii) malformed payloads: correspondence of the error branches
    mal = []
    for _ in range(ctx.n(10000, 100000)):
        p = rng.choice(payloads)
        if len(p) > 600: continue
        mal.append(mutate(rng, p))
    mal += [b'', b'\xf0', b'\xf8\x00\x00', b'\x70\x00', b'\xf0\x01A\x20', b'\xf0\x01A\x30\x01B\x70\x00\x00\x01C', b'\xf7\x01A', b'\xe0\x01A', b'\x80', b'\xf0\x01A\x80',
            b'\xf0\x01A\x30\x01B\x30\x01B', b'\xf0\x01A\x34\x01B\x19\x70\x00\x00\x01C\x21\x00', b'\xf0\x01A\x30\x01B\x71\x00\x00\x01C', b'\xf0\x01A\x30\x01B\x70\x00\x00\x01C\x70\x00\x00\x01C',
            b'\xf0\x01A\x30\x01B\x30\x01C\x70\x00\x00\x01O\x30\x01C']
    dec = ctx.lean(['eflr ' + hx(p) for p in mal])
    for p, m in zip(mal, dec):
        out = impl_eflr(mods, p)
        ctx.corr('eflr-malformed', {'op': 'eflr-raw', 'payload': p.hex()}, out, m)
        ctx.count('malformed_' + (out.split(' ')[1] if out.startswith('err') else 'ok'))
    # ---------------- (iii) whole files: split at FILE-HEADER, ORIGIN second, encrypted skipped, IFLRs attached
    NF = ctx.n(800, 6000)
    fcases, reqs = [], []
    for _ in range(NF):
        files = gen_file_items(rng, rng.randint(1, 4))
        trailer = [(rng.random() < 0.5, 3, b'zz')] if rng.random() < 0.2 else []
        fcases.append(files); reqs.append(items_request(rng, files, trailer))
    replies = ctx.lean(reqs)
    recs_all = [parse_recs(r) for r in replies]
    model = ctx.lean(['lfiles ' + ' '.join([str(len(recs))] + [f"{'1' if e else '0'} {'1' if x else '0'} {ty} {hx(b)}" for e, x, ty, b in recs]) for recs in recs_all])
    for ci, (files, recs, m) in enumerate(zip(fcases, recs_all, model)):
        hist = HISTORIES[ci % len(HISTORIES)]
        outs = impl_lfiles_hist(mods, recs, rng, hist)
        out = outs[0]
        want = expected_files_txt(files, recs)
        for j, o in enumerate(outs):
            # every __enter__ of every object must present the encoded content (model: enterIndex prev prs = indexRecs prs)
            ctx.corr('lfiles', {'op': 'lfiles', 'hist': hist, 'enter': j, 'recs': [[e, x, ty, b.hex()] for e, x, ty, b in recs]}, o, m)
            ctx.count('oracle_cases')
            if o != want:
                ctx.fail({'op': 'lfiles', 'hist': hist, 'recs': [[e, x, ty, b.hex()] for e, x, ty, b in recs], 'want': want},
                         f'history {hist}, enter #{j}: indexed logical files differ from the encoded ones: got {o[:300]!r} want {want[:300]!r}')
                break
        else:
            ctx.nontriv(('lf', hist, len(files), len(recs), hash(want)))
        ctx.count('history_' + hist)
        ctx.count('files_with_%d_logical_files' % len(files))
        ctx.count('encrypted_records', sum(1 for r in recs if r[0]))
        # encrypted records removed: the tables and frame references must not change (positions aside)
        if any(r[0] for r in recs):
            ctx.count('oracle_cases')
            out2 = impl_lfiles(mods, [r for r in recs if not r[0]], rng)
            want2 = expected_files_txt(files, [r for r in recs if not r[0]])
            if out2 != want2:
                ctx.fail({'op': 'lfiles', 'recs': [[e, x, ty, b.hex()] for e, x, ty, b in recs if not e], 'want': want2},
                         'removing the encrypted records changed the indexed content')
    ctx.sample({'op': 'lfiles', 'n_records': len(recs_all[0]), 'expected': expected_files_txt(fcases[0], recs_all[0])[:300]})
    # ---------------- (iv) malformed record sequences (correspondence of the index error branches)
    seqs = []
    for _ in range(ctx.n(1200, 9000)):
        recs = list(rng.choice(recs_all))
        k = rng.random()
        if k < 0.3 and len(recs) > 1:
            del recs[rng.randrange(len(recs))]
        elif k < 0.6 and len(recs) > 1:
            i, j = rng.randrange(len(recs)), rng.randrange(len(recs)); recs[i], recs[j] = recs[j], recs[i]
        elif k < 0.8:
            i = rng.randrange(len(recs)); e, x, ty, b = recs[i]; recs[i] = (e, x, rng.choice([0, 1, 3, 4, 5]), b)
        else:
            i = rng.randrange(len(recs)); e, x, ty, b = recs[i]; recs[i] = (e, not x, ty, b)
        # log pass construction from damaged CHANNEL/FRAME tables is C04's subject: keep sequences whose tables are intact
        seqs.append(recs)
    model = ctx.lean(['lfiles ' + ' '.join([str(len(recs))] + [f"{'1' if e else '0'} {'1' if x else '0'} {ty} {hx(b)}" for e, x, ty, b in recs]) for recs in seqs])
    for recs, m in zip(seqs, model):
        out = impl_lfiles(mods, recs, rng)
        if out.startswith('err') and out.split(' ')[1] in ('KeyError', 'ExceptionFrameArrayInit', 'ExceptionLogPassInit', 'ExceptionRepCode', 'ExceptionFrameChannel', 'ValueError', 'TypeError', 'ExceptionLogPass', 'ExceptionFrameArray'):
            ctx.count('lfiles_malformed_outside_model'); continue
        ctx.corr('lfiles-malformed', {'op': 'lfiles-raw', 'recs': [[e, x, ty, b.hex()] for e, x, ty, b in recs]}, out, m)
        ctx.count('lfiles_malformed_' + (out.split(' ')[1] if out.startswith('err') else 'ok'))


def replay(ctx, rec):
    mods = _impl()
    case = rec.get('case') or {}
    n0 = len(ctx.failures)
    if case.get('op') == 'eflr':
        oracle_eflr(ctx, mods, case['table'], case['choices'], bytes.fromhex(case['payload']))
    elif case.get('op') == 'eflr2':
        out, obj = impl_eflr_obj(mods, bytes.fromhex(case['payload']))
        impl_eflr_obj(mods, bytes.fromhex(case['then']))
        again = 'ok ' + impl_table_txt(mods[1], obj) if obj is not None else out
        if again != out:
            return False, f'a parsed table changed after another record was parsed: {again[:200]!r} was {out[:200]!r}'
        oracle_eflr(ctx, mods, case['table'], case['choices'], bytes.fromhex(case['payload']))
    elif case.get('op') == 'lfiles':
        recs = [(e, x, ty, bytes.fromhex(b)) for e, x, ty, b in case['recs']]
        hist = case.get('hist', 'once')
        for j, out in enumerate(impl_lfiles_hist(mods, recs, None, hist)):
            if out != case['want']:
                return False, f'history {hist}, enter #{j}: indexed logical files differ: got {out[:300]!r} want {case["want"][:300]!r}'
        return True, f'indexed content equals the encoded content after every enter (history {hist})'
    else:
        return True, 'nothing to replay (no concrete failing input was recorded)'
    if len(ctx.failures) > n0:
        return False, ctx.failures[-1]['detail']
    return True, 'decoded table equals the encoded table'
