"""C18 — generated XML, XHTML and SVG are well-formed and carry the data unchanged
(util/XmlWrite.py, RP66V1/IndexXML.py, RP66V1/ScanHTML.py, LIS/LisToHtml.py, LAS/LASToHTML.py, util/plot/SVGWriter.py,
common/Rle.py)."""
import ast, io, json, math, os, re, struct, sys

CLAIM = {
 'text': ('Lean 4 theorems about a model of XmlStream/XhtmlStream/Element and an XML 1.0 recogniser/decoder: '
          'encode_decodes / encode_decodes_attr (every string of XML-representable characters written by _encode is read '
          'back unchanged as character data and as an attribute value, TAB/LF/CR included), stream_wellformed (every '
          'sequence of startElement/characters/literal/comment/pI/endElement/xmlSpacePreserve calls that forms one document '
          'element, closed by __exit__, is accepted by the recogniser; xhtml_stream_wellformed the same for XhtmlStream), '
          'element_decodes (an element with any attribute dictionary and any text is decoded to exactly that name, those '
          'attribute values and that text), stream_decodes (whole trees: the decoder reports exactly the events the calls asked for, '
          'the only admissible difference being newline+spaces immediately before a tag outside mixed content), comment_wellformed (whatever string is passed to comment(), the comment written '
          'is legal), encode_illegal_ref (negation witness for the known finding F13-xml-illegal-char-reference), '
          'rle_float_expand_within (float X axis over exact rationals with isclose(rel_tol=tol): count exact, every expanded value within tol*max(|x|,|y|) of the value added; partial: rounding not modelled), rle_xml_roundtrip (the datum/stride/repeat attributes of xml_rle_write expand '
          'to the integer list that was run-length encoded). Proof is the right level for the writer core: the claim is '
          'about all strings and all nestings. The large producers (RP66V1 XML index, ScanHTML, LASToHTML, LisToHtml, SVG) '
          'are exercised end to end with an oracle only: partial.'),
 'note': ('Trusted: Lean kernel; the hand-written recogniser is a sound, deliberately incomplete XML 1.0 parser tied to '
          'lxml(libxml2) and xml.dom.minidom(expat) by comparing accept/reject and the reported events on every generated '
          'and mutated document of the run; the model is tied to XmlWrite.py by text-identical output on every generated '
          'call sequence. F13-xml-illegal-char-reference is an open known finding (F20 was repaired: a recurrence is a violation). Float X axes of the RLE index are oracle-only.'),
 'technique': 'Lean 4 proof (simulation of a character-level XML recogniser by the writer automaton, induction over the call list; decide for the witnesses) + model-implementation correspondence',
 'design_ref': 'DESIGN.md section 6 C18',
}

EXTRA_LEAN_TARGETS = ('drv_c04', 'drv_c03')     # the C03/C04 specification encoder builds the indexed RP66V1 files of the rlefile stream
ANCHOR_FILES = ['src/TotalDepth/util/XmlWrite.py', 'src/TotalDepth/RP66V1/IndexXML.py', 'src/TotalDepth/common/Rle.py']

RULE = ('xmlenc: every single code point in U+0000..U+02FF plus all Char-production boundaries, plus random strings mixed '
        'from classes (markup, quotes, whitespace, C0 controls, DEL/C1, Latin-1, BMP, non-characters, astral, lone '
        'surrogates, tricky sequences like ]]> -- &amp; &#1;); xmlrun: random element trees (depth<=5) with dict '
        'attributes, characters/literal/comment/pI/xmlSpacePreserve/charactersWithBr calls, elements left open for '
        '__exit__, on XmlStream and XhtmlStream, plus flat call sequences with wrong/missing endElement for the error '
        'branches; xmlwf: single-character edits of generated documents; rle: exhaustive small integer lists + random '
        'lists with runs written through xml_rle_write; rlefloat: FLOAT sequences (exact and accumulated grids, near-regular '
        'with deviations spread over 1e-17..1e-6 relative, time-like, depth-like, equal runs, random; float64 and float32) '
        'through create_rle + xml_rle_write, read back and expanded; rlefile: generated RP66V1 files (C03/C04 specification '
        'encoder) with FDOUBL/FSINGL X channels indexed and written by write_logical_file_sequence_to_xml; eflrfile: generated '
        'RP66V1 files (C03 specification encoder) whose ASCII/IDENT/UNITS values carry valid UTF-8 2/3/4-byte sequences, isolated '
        'high bytes, mixtures, all representable bytes, all 256 bytes, walked value by value against the in-memory index (bytes exact via latin-1); producers: see harness/gen/c18_producers.py. A case is '
        'non-trivial when it contains at least one character needing escaping (xmlenc), at least two nested elements and '
        'one escaped string (xmlrun), or at least one run of length >= 3 (rle); distinct by content.')
ASSUMPTIONS = [
 'a document is "parseable" when both lxml (libxml2, recover=False) and xml.dom.minidom (expat) accept it; "recovered unchanged" compares their reported attribute values / text with the Python strings passed to the writer',
 'element and attribute names passed to the writer are XML Names and processing-instruction targets are legal (they are program constants in every producer; names are not escaped by the writer)',
 'stream_wellformed assumes the calls form exactly one document element (XML requires it), that literal() text is plain character data and that a pI() string is an ASCII target optionally followed by one blank and data',
 'indentation: in an element without character data the writer inserts newline+spaces before tags; this whitespace is accepted as not being data; inside an element that has character data nothing may be inserted (checked)',
 'lone surrogates cannot be Lean characters: they are covered by the oracle only',
 'RLE theorems: integer values (frame numbers, positions) exactly; float X axes over exact rationals (rle_float_expand_within); on the real code "exactly the X values" is read as: count exact and every expanded value within 4*eps*max|x| of the indexed X (closed form; (2k+4)*eps*max|x| for the k-th repeated addition), eps = 2**-52 for float64 and 2**-23 (computed in float32) for float32 X channels - the rounding of the stride subtraction and of datum + i*stride, the same bound C16 uses',
]
TRUSTED = ['modelled, not verified: str.encode("ascii","xmlcharrefreplace"), f"{n:03d}", sorted() on str keys, dict key uniqueness, io.StringIO.write',
           'lxml/libxml2 and expat as the reference XML parsers of the oracle']

_NS = '{http://www.w3.org/XML/1998/namespace}'


# ------------------------------------------------------------------ translate: ENTITY_MAP -> Lean table

def _entity_map_from_source(repo):
    path = os.path.join(repo, 'src', 'TotalDepth', 'util', 'XmlWrite.py')
    tree = ast.parse(open(path, encoding='utf-8').read())
    for node in ast.walk(tree):
        if isinstance(node, ast.ClassDef) and node.name == 'XmlStream':
            for st in node.body:
                if isinstance(st, ast.Assign) and any(isinstance(t, ast.Name) and t.id == 'ENTITY_MAP' for t in st.targets):
                    d = ast.literal_eval(st.value)
                    return [(k, v) for k, v in d.items()]
    raise RuntimeError('XmlStream.ENTITY_MAP literal not found in XmlWrite.py')


def _lean_entities(pairs):
    def ch(c): return f'Char.ofNat {ord(c)}'
    rows = []
    for k, v in pairs:
        if len(k) != 1 or not (0 <= ord(k) < 0xD800 or 0xE000 <= ord(k) < 0x110000):
            raise RuntimeError(f'ENTITY_MAP key {k!r} is not a single character')
        rows.append((f'  ({ch(k)}, [{", ".join(ch(c) for c in v)}])', f'  -- {k!r} -> {v!r}'))
    body = '\n'.join(r + (',' if i + 1 < len(rows) else '') + c for i, (r, c) in enumerate(rows))
    return ('/-\nGENERATED by harness/props/c18.py translate() from src/TotalDepth/util/XmlWrite.py (XmlStream.ENTITY_MAP, source order).\n'
            'Do not edit by hand: `./check C18` regenerates this file and the proofs are checked against it.\n-/\n'
            'namespace TD.C18\n\n/-- `XmlStream.ENTITY_MAP` as (character, replacement text) pairs. -/\n'
            'def entityMap : List (Char × List Char) := [\n' + body + '\n]\n\nend TD.C18\n')


def translate(ctx):
    import core
    text = _lean_entities(_entity_map_from_source(core.REPO))
    path = os.path.join(core.LEAN_DIR, 'TD', 'Gen', 'C18Entities.lean')
    old = open(path, encoding='utf-8').read() if os.path.exists(path) else None
    if old != text:
        os.makedirs(os.path.dirname(path), exist_ok=True)
        with open(path, 'w', encoding='utf-8') as fh:
            fh.write(text)
        ctx.note('translate: regenerated lean/TD/TD/Gen/C18Entities.lean from XmlWrite.py (the entity map differs from the committed table)')


# ------------------------------------------------------------------ helpers

_KNOWN_CAP = 40


def fail(ctx, case, detail, finding=None):
    """ctx.fail with a cap on the recorded cases per known finding (core keeps 200 in total): every case is counted,
    only the first _KNOWN_CAP per finding are stored so that each finding of the run is reported."""
    if finding is not None:
        ctx.count('known_' + finding)
        if ctx.stats['known_' + finding] > _KNOWN_CAP:
            ctx.count('oracle_failures'); ctx.count('known_not_stored_' + finding)
            return
    ctx.fail(case, detail, finding=finding)


def _X():
    from TotalDepth.util import XmlWrite
    return XmlWrite


def cps(s):
    return ','.join(str(ord(c)) for c in s) if s else '-'


def uncps(t):
    return '' if t == '-' else ''.join(chr(int(x)) for x in t.split(','))


def lean_ok(s):
    """can the string be a Lean `List Char` (no lone surrogates)?"""
    return not any(0xD800 <= ord(c) <= 0xDFFF for c in s)


_CLASSES = {
    'alpha': 'abcXYZ019 _-.:;/=()[]{}!?#%*+,@^`|~$\\',
    'markup': '<>&\'"',
    'ws': '\t\n\r ',
    'ctrl': ''.join(chr(i) for i in list(range(0, 9)) + [11, 12] + list(range(14, 32))),
    'delc1': '\x7f\x80\x85\x9f\xa0',
    'latin': '\xe9\xfc\xdf\xb5\xb0\xff\xc0\xd7\xf7',
    'bmp': '\u0100\u0394\u0416\u4e2d\u2028\u2029\u20ac\ud7ff\ue000\ufffd\u0300\u200b\ufeff',
    'nonchar': '\ufffe\uffff',
    'astral': '\U00010000\U0001F600\U0010FFFF\U000EFFFF\U000F0000',
    'surr': '\ud800\udfff\udbff\udc00',
}
_SEQS = [']]>', '--', '-', '&amp;', '&#1;', '&#x41;', '<!--', '-->', '?>', '<![CDATA[', '&lt', '&;', '"\'', '\r\n', ' \t ', '</a>', '<a>']
_LEGAL = ['alpha', 'markup', 'ws', 'delc1', 'latin', 'bmp', 'astral']
_ILLEGAL = ['ctrl', 'nonchar', 'surr']


def rand_string(rng, p_illegal=0.25, maxlen=12):
    n = rng.choice([0, 1, 1, 2, 3, 5, 8, maxlen])
    out = []
    ill = rng.random() < p_illegal
    for _ in range(n):
        r = rng.random()
        if r < 0.12:
            out.append(rng.choice(_SEQS))
        else:
            cl = rng.choice(_ILLEGAL) if (ill and rng.random() < 0.3) else rng.choice(_LEGAL + ['alpha', 'markup'])
            out.append(rng.choice(_CLASSES[cl]))
    return ''.join(out)


def needs_escape(s):
    return any(c in '<>&\'"' or ord(c) < 32 or ord(c) > 126 for c in s)


# ------------------------------------------------------------------ stream 1: _encode

def impl_encode(s):
    X = _X()
    return X.XmlStream(io.StringIO())._encode(s)


def oracle_encode(ctx, s, enc=None):
    """Property on the implementation alone: the encoded string, placed where the writer places it (text and a
    double-quoted attribute value), is parsed back to `s` by lxml and minidom; not representable => must still parse."""
    from gen import c18_xmlcheck as xc
    ctx.count('oracle_cases')
    case = {'op': 'xmlenc', 's': s}
    if enc is None:
        enc = impl_encode(s)
    doc = '<?xml version=\'1.0\' encoding="utf-8"?>\n<a k="%s">%s</a>\n' % (enc, enc)
    res = xc.parse_both(doc)
    if not res['ok']:
        fail(ctx, case, f'document with the encoded string does not parse: lxml: {res["lxml_err"]}; minidom: {res["dom_err"]}',
             finding=xc.classify_not_wf(res, [s]))
        return False
    root, dom = res['lxml_root'], res['dom'].documentElement
    got = (root.get('k'), root.text or '', dom.getAttribute('k'), ''.join(n.data for n in dom.childNodes))
    if got != (s, s, s, s):
        ctx.fail(case, f'string {s!r} read back as attr/text {got!r}')
        return False
    if needs_escape(s):
        ctx.nontriv(('enc', s))
    return True


def run_xmlenc(ctx):
    rng = ctx.rng
    strs = [chr(i) for i in range(0, 0x300)]
    for b in (0xD7FF, 0xD800, 0xDBFF, 0xDC00, 0xDFFF, 0xE000, 0xFFFD, 0xFFFE, 0xFFFF, 0x10000, 0x1FFFE, 0x1FFFF, 0xEFFFF,
              0xF0000, 0x10FFFD, 0x10FFFF, 0x2028, 0x2029, 0x85, 0xFEFF, 999, 1000, 9999, 10000, 99999, 100000, 999999, 1000000):
        strs.append(chr(b))
    strs += list(_SEQS) + ['', 'plain text', 'a<b>c&d"e\'f', '\t\n\r', 'x\x00y', 'tab\there', 'µ°é', '\x01\x02\x1f']
    for _ in range(ctx.n(3000, 40000)):
        strs.append(rand_string(rng, 0.3, rng.choice([4, 12, 40])))
    X = _X()
    xs = X.XmlStream(io.StringIO())
    encs = [xs._encode(s) for s in strs]
    idx = [i for i, s in enumerate(strs) if lean_ok(s)]
    replies = ctx.lean(['xmlenc ' + cps(strs[i]) for i in idx]) if ctx.model_available else []
    from gen import c18_xmlcheck as xc
    for i, rep in zip(idx, replies):
        s = strs[i]
        m = dict(f.split('=', 1) for f in rep.split(' ')) if rep.startswith('e=') else {}
        ctx.corr('xmlenc', {'op': 'xmlenc', 's': s}, cps(encs[i]), m.get('e', rep))
        # the model's own classification and decoder against the Python reference of "representable"
        rep_ok = xc.representable(s)
        ctx.corr('xmlchar', {'op': 'xmlenc', 's': s}, '1' if rep_ok else '0', m.get('x', rep))
        want = cps(s) if rep_ok else 'N'
        ctx.corr('xmldec', {'op': 'xmlenc', 's': s}, f'{want} {want}', f"{m.get('t')} {m.get('a')}")
    for s, e in zip(strs, encs):
        oracle_encode(ctx, s, e)
    ctx.sample({'op': 'xmlenc', 's': strs[0x41], 'encoded': encs[0x41]})
    ctx.sample({'op': 'xmlenc', 's': 'a<b>c&d"e\'f\t\x01é', 'encoded': xs._encode('a<b>c&d"e\'f\t\x01é')})
    ctx.count('xmlenc_cases', len(strs))
    ctx.extra['exhaustive'] = True
    ctx.extra['exhaustive_scope'] = 'xmlenc: every single code point U+0000..U+02FF and all boundaries of production [2] Char'


# ------------------------------------------------------------------ stream 2: call sequences on the stream

ELEM_NAMES = ['a', 'b', 'c', 'td', 'Row', 'x-y', '_n', 'n1', 'h.1', 'é', 'Δx', 'LogPass', 'svg']
ATTR_NAMES = ['k', 'id', 'name', 'long_name', 'units', 'x-1', '_p', 'xml:lang', 'é', 'B', 'a', 'zz']
PI_TARGETS = ['tgt', 'xml-stylesheet', 'p1', '_x']


def hyphen_comment(rng):
    """comment text with hyphen runs of length 1..8 at the start, in the middle and at the end, mixed with other text"""
    fill = lambda: rng.choice(['', 'a', ' ', 'x y', 'GR', 'Output ', ' START', '<', '&', '>', '\xe9', '.', '_', '- ', ' -'])
    parts = []
    if rng.random() < 0.4: parts.append('-' * rng.randint(1, 8))
    for _ in range(rng.randint(0, 3)):
        parts += [fill(), '-' * rng.randint(1, 8)]
    parts.append(fill())
    if rng.random() < 0.4: parts.append('-' * rng.randint(1, 8))
    return ''.join(parts)


def comment_progs(ctx):
    """Every string over {'-', 'a', ' '} up to length 6 (thorough: 7), and hyphen runs of every length 1..8 at the
    start / in the middle / at the end in several surroundings, as the text of one comment() call (XmlStream and
    XhtmlStream; SVGWriter inherits the method) - plus two comments in a row and a comment after an open start tag."""
    import itertools
    texts = [''.join(t) for n in range(0, ctx.n(7, 8)) for t in itertools.product('-a ', repeat=n)]
    for L in range(1, 9):
        h = '-' * L
        texts += [h + 'x', 'x' + h, 'x' + h + 'y', 'a ' + h + ' b', h + 'x' + h, ' Output C' + h + 'I START ', 'GR' + h, '<' + h + '>',
                  '&' + h + '&', h + '\xe9' + h, h + ' ' + h, 'x' + h + 'y' + '-' * (9 - L) + 'z', '\n' + h + '\n', h + '>', '-' + ' ' + h]
    for _ in range(ctx.n(300, 3000)):
        texts.append(hyphen_comment(ctx.rng))
    progs = []
    for k, t in enumerate(texts):
        kind = 'H' if k % 5 == 4 else 'X'
        if k % 7 == 6:
            ops = [['s', 'a', {}], ['m', t], ['m', t[::-1]], ['e', 'a']]
        elif k % 7 == 5:
            ops = [['s', 'a', {'k': 'v'}], ['s', 'b', {}], ['m', t], ['e', 'b'], ['c', 'x'], ['m', t]]
        elif kind == 'H':
            ops = [['m', t]]                     # inside the <html> element that XhtmlStream.__enter__ opens
        else:
            ops = [['s', 'a', {}], ['m', t], ['e', 'a']]
        progs.append((kind, ops))
    return progs


def gen_tree_ops(ctx, p_illegal):
    """A random call sequence that forms one document element (possibly left open for __exit__).
    ops: ['s', name, attrs_dict] ['c', str] ['l', str] ['m', str] ['p', str] ['e', name] ['x'] ['b', str]
    `E` marks elements opened through `with Element(...)`."""
    rng = ctx.rng
    ops = []
    budget = [rng.choice([3, 8, 20, 40])]

    def attrs():
        return {k: rand_string(rng, p_illegal) for k in rng.sample(ATTR_NAMES, rng.choice([0, 0, 1, 2, 3, 5]))}

    def content(depth, xhtml):
        for _ in range(rng.choice([0, 1, 2, 3, 5])):
            if budget[0] <= 0:
                return
            budget[0] -= 1
            r = rng.random()
            if r < 0.40 and depth < 5:
                name = rng.choice(ELEM_NAMES)
                ops.append(['s', name, attrs()])
                content(depth + 1, xhtml)
                if rng.random() < 0.12:
                    ops.append(['open'])      # left open: everything after is inside it; closed by __exit__
                    return 'open'
                ops.append(['e', name])
            elif r < 0.70:
                ops.append(['c', rand_string(rng, p_illegal)])
            elif r < 0.76:
                ops.append(['l', rng.choice(['', 'plain', ' x ', 'a b\tc\nd', 'é', ']]', 'a]b'])])
            elif r < 0.84:
                ops.append(['m', rng.choice([' note ', 'x', '', ' a - b ', 'CURVE:' + rand_string(rng, p_illegal), '-x', 'a<b&c'])
                            if rng.random() < 0.6 else (rng.choice([' a -- b ', 'x-', '--', '-', 'DEPT--X', '->'])
                                                        if rng.random() < 0.4 else hyphen_comment(rng))])
            elif r < 0.88:
                ops.append(['p', rng.choice(PI_TARGETS) + rng.choice(['', ' ', ' data', ' a="b" ?', ' x?>y', ' ' + rand_string(rng, p_illegal)])])
            elif r < 0.92:
                ops.append(['x'])
            elif xhtml:
                ops.append(['b', rng.choice(['', 'one', 'a\nb', '\n', 'a\n\nb\n', '<\n>', rand_string(rng, p_illegal) + '\n' + rand_string(rng, p_illegal)])])
        return None

    xhtml = rng.random() < 0.3
    if xhtml:
        content(1, True)
    else:
        # comments may precede / follow the document element
        if rng.random() < 0.15:
            ops.append(['m', ' before '])
        name = rng.choice(ELEM_NAMES)
        ops.append(['s', name, attrs()])
        if content(1, False) != 'open' and rng.random() < 0.85:
            ops.append(['e', name])
            if rng.random() < 0.15:
                ops.append(['m', ' after '])
    ops = [o for o in ops if o != ['open']]
    return ('H' if xhtml else 'X'), ops


def gen_error_ops(ctx):
    """flat call sequences hitting the error branches (and some accidental successes)"""
    rng = ctx.rng
    ops = []
    for _ in range(rng.choice([1, 2, 3, 5, 8])):
        r = rng.random()
        if r < 0.35:
            ops.append(['s', rng.choice(['a', 'b', 'c']), {}])
        elif r < 0.65:
            ops.append(['e', rng.choice(['a', 'b', 'c'])])
        elif r < 0.8:
            ops.append(['c', rng.choice(['', 'x', '<'])])
        elif r < 0.86:
            ops.append(['x'])
        elif r < 0.92:
            ops.append(['p', 'tgt d'])
        elif r < 0.96:
            ops.append(['l', 'y'])
        else:
            ops.append(['m', 'c'])
    return rng.choice(['X', 'X', 'H']), ops


def op_tokens(ops):
    out = []
    for o in ops:
        if o[0] == 's':
            out.append(':'.join(['s', cps(o[1])] + [x for k, v in o[2].items() for x in (cps(k), cps(v))]))
        elif o[0] == 'x':
            out.append('x')
        else:
            out.append(o[0] + ':' + cps(o[1]))
    return out


def ops_lean_ok(ops):
    for o in ops:
        if o[0] == 's':
            if not (lean_ok(o[1]) and all(lean_ok(k) and lean_ok(v) for k, v in o[2].items())):
                return False
        elif o[0] != 'x' and not lean_ok(o[1]):
            return False
    return True


def impl_run(kind, ops, enc='utf-8', use_element=True):
    """Run the calls on the real XmlStream/XhtmlStream.  Well-nested start/end pairs go through `with Element(...)`
    when `use_element`; returns ('ok', text) or ('err <class>', text_so_far)."""
    X = _X()
    f = io.StringIO()
    cls = X.XhtmlStream if kind == 'H' else X.XmlStream
    # match each start with its end (same name, properly nested) so it can be a `with Element` block
    partner = {}
    if use_element:
        stk = []
        for i, o in enumerate(ops):
            if o[0] == 's':
                stk.append(i)
            elif o[0] == 'e':
                if stk and ops[stk[-1]][1] == o[1]:
                    partner[stk.pop()] = i
                else:
                    stk = None
                    break
        if stk is None:
            partner = {}

    def call(xs, o):
        t = o[0]
        if t == 's': xs.startElement(o[1], dict(o[2]))
        elif t == 'e': xs.endElement(o[1])
        elif t == 'c': xs.characters(o[1])
        elif t == 'l': xs.literal(o[1])
        elif t == 'm': xs.comment(o[1])
        elif t == 'p': xs.pI(o[1])
        elif t == 'x': xs.xmlSpacePreserve()
        elif t == 'b': xs.charactersWithBr(o[1])
        else: raise ValueError(t)

    def block(xs, i, j):
        while i < j:
            o = ops[i]
            if o[0] == 's' and i in partner:
                with X.Element(xs, o[1], dict(o[2])):
                    block(xs, i + 1, partner[i])
                i = partner[i] + 1
            else:
                call(xs, o)
                i += 1
    try:
        with cls(f, enc) as xs:
            block(xs, 0, len(ops))
    except X.ExceptionXmlEndElement:
        return 'err EndElement', f.getvalue()
    except X.ExceptionXml:
        return 'err Xml', f.getvalue()
    except AssertionError:
        return 'err Assertion', f.getvalue()
    return 'ok', f.getvalue()


def ev_string(events):
    out = []
    for e in events:
        if e[0] == 'start':
            out.append(':'.join(['s', cps(e[1])] + [x for k, v in e[2] for x in (cps(k), cps(v))]))
        elif e[0] == 'text':
            out.append('t:' + cps(e[1]))
        elif e[0] == 'end':
            out.append('e:' + cps(e[1]))
        elif e[0] == 'comment':
            out.append('m:' + cps(e[1]))
        elif e[0] == 'pi':
            out.append('p:' + cps(e[1]) + ':' + cps(e[2]))
    return '|'.join(out)


def _plain_events(events):
    return events


def expected_events(kind, ops):
    """Independent reference (no writer logic): the elements, attributes and character data the calls ask for.
    Adjacent text merged; __exit__ closes what is open.  literal() text is taken as plain text (the generator only
    produces such).  pI: target = up to first whitespace; data = rest without leading whitespace, with the
    markup characters written as entity text (a PI is not entity-decoded by a parser)."""
    ev, stk = [], []

    def text(s):
        if s:
            if ev and ev[-1][0] == 'text': ev[-1] = ('text', ev[-1][1] + s)
            else: ev.append(('text', s))

    def start(n, a):
        ev.append(('start', n, tuple(sorted(a.items())))); stk.append(n)

    def end():
        ev.append(('end', stk.pop()))
    if kind == 'H':
        start('html', {'xmlns': 'http://www.w3.org/1999/xhtml', 'xml:lang': 'en', 'lang': 'en'})
    for o in ops:
        t = o[0]
        if t == 's': start(o[1], o[2])
        elif t == 'e': end()
        elif t in 'cl': text(o[1])
        elif t == 'b':
            parts = o[1].split('\n')
            for i, p in enumerate(parts):
                text(p)
                if i + 1 < len(parts):
                    ev.append(('start', 'br', ())); ev.append(('end', 'br'))
        elif t == 'm':
            # comment text is not entity-decoded by a parser (not "data" of the property); '--' and a final '-' cannot
            # be carried by any comment: a blank after each '-' that is followed by '-' / that ends the text
            c = re.sub('-(?=-)', '- ', impl_encode(o[1]))
            ev.append(('comment', c + ' ' if c.endswith('-') else c))
        elif t == 'p':
            enc = impl_encode(o[1])
            m = re.match(r'^(\S*)\s*(.*)$', enc, re.S)
            ev.append(('pi', m.group(1), m.group(2)))
    while stk:
        end()
    return ev


_INDENT = re.compile(r'\n *\Z')


def match_events(got, want):
    """`got` (parser) must be `want` with nothing changed except newline+spaces inserted before a tag inside elements
    that have had no character data so far (and neither has any enclosing element)."""
    i = j = 0
    mixed = []          # per open element: has character data been written in it?
    while i < len(got) or j < len(want):
        g = got[i] if i < len(got) else None
        w = want[j] if j < len(want) else None
        if g is not None and g[0] == 'text':
            wt = w[1] if (w is not None and w[0] == 'text') else ''
            if g[1] == wt:
                pass
            elif g[1].startswith(wt) and _INDENT.match(g[1][len(wt):]) and not any(mixed) and wt == '':
                pass
            else:
                return f'text {g[1]!r} where {wt!r} was written (mixed content so far: {any(mixed)})'
            if wt != '' and mixed:
                mixed[-1] = True
            i += 1
            if w is not None and w[0] == 'text':
                j += 1
            continue
        if w is not None and w[0] == 'text':
            return f'text {w[1]!r} missing'
        if g != w:
            return f'event {g!r} != {w!r}'
        if g[0] == 'start':
            mixed.append(False)
        elif g[0] == 'end':
            mixed.pop()
        i += 1; j += 1
    return None


def doc_strings(ops):
    ss, cs = [], []
    for o in ops:
        if o[0] == 's':
            ss += list(o[2].values())
        elif o[0] in 'clbp':
            ss.append(o[1])
        elif o[0] == 'm':
            cs.append(o[1])
    return ss, cs


def single_root(kind, ops):
    """do the calls form exactly one document element? (XML requires it; the callers' responsibility)"""
    depth, roots = (1, 1) if kind == 'H' else (0, 0)
    for o in ops:
        if o[0] == 's':
            if depth == 0: roots += 1
            depth += 1
        elif o[0] == 'e':
            depth -= 1
    return roots == 1


def oracle_run(ctx, kind, ops, status, text):
    """Property on the implementation alone for one successful `with XmlStream(...)` block."""
    from gen import c18_xmlcheck as xc
    if not single_root(kind, ops):
        ctx.count('skipped_not_one_document_element')
        return None
    ctx.count('oracle_cases')
    case = {'op': 'xmlrun', 'kind': kind, 'ops': ops}
    res = xc.parse_both(text)
    ss, cs = doc_strings(ops)
    if not res['ok']:
        fail(ctx, case, f'not well-formed: lxml: {res["lxml_err"]}; minidom: {res["dom_err"]}', finding=xc.classify_not_wf(res, ss, cs))
        return None
    ev_l = _plain_events(xc.lxml_events(res['lxml_root']))
    ev_d = _plain_events(xc.dom_events(res['dom']))
    if ev_l != ev_d:
        ctx.fail(case, f'lxml and minidom report different content: {ev_l[:6]} vs {ev_d[:6]}')
        return ev_l
    # comments/PIs outside the document element are not in the element walk: drop them from the reference too
    want = expected_events(kind, ops)
    depth, inner = 0, []
    for e in want:
        if e[0] == 'start': depth += 1
        if depth > 0: inner.append(e)
        if e[0] == 'end': depth -= 1
    bad = match_events(ev_l, inner)
    if bad:
        ctx.fail(case, 'data not carried unchanged: ' + bad)
        return ev_l
    if sum(1 for o in ops if o[0] == 's') >= 2 and any(needs_escape(s) for s in ss):
        ctx.nontriv(('run', kind, json.dumps(ops, sort_keys=True)))
    return ev_l


def _has_top_level_misc(kind, ops):
    """comments before/after the document element: the model reports them, the element walk of lxml does not"""
    depth = 1 if kind == 'H' else 0
    for o in ops:
        if o[0] == 's': depth += 1
        elif o[0] == 'e': depth -= 1
        elif o[0] in 'mp' and depth == 0:
            return True
    return False


def run_xmlrun(ctx):
    from gen import c18_xmlcheck as xc
    progs = []
    for _ in range(ctx.n(2500, 30000)):
        progs.append(gen_tree_ops(ctx, ctx.rng.choice([0.0, 0.0, 0.0, 0.15, 0.4])))
    cp = comment_progs(ctx)
    progs += cp
    ctx.count('comment_cases', len(cp))
    ctx.extra['exhaustive_scope_comments'] = "comment(): every string over {'-','a',' '} up to length %d; hyphen runs of length 1..8 at start/middle/end" % (ctx.n(7, 8) - 1)
    nerr = ctx.n(600, 6000)
    for _ in range(nerr):
        progs.append(gen_error_ops(ctx))
    idx = [i for i, (k, ops) in enumerate(progs) if ops_lean_ok(ops)]
    replies = {}
    if ctx.model_available:
        rr = ctx.lean([' '.join(['xmlrun', progs[i][0], cps('utf-8')] + op_tokens(progs[i][1])) for i in idx])
        replies = dict(zip(idx, rr))
    docs = []
    for i, (kind, ops) in enumerate(progs):
        status, text = impl_run(kind, ops, use_element=(i % 4 != 0))
        ctx.count('run_' + status.replace(' ', '_'))
        case = {'op': 'xmlrun', 'kind': kind, 'ops': ops}
        ev = None
        if status == 'ok':
            ev = oracle_run(ctx, kind, ops, status, text)
            docs.append(text)
        if i in replies:
            rep = replies[i]
            if status != 'ok':
                ctx.corr('xmlrun', case, status, rep)
                continue
            parts = rep.split(' ')
            if parts[0] != 'ok' or len(parts) != 4:
                ctx.corr('xmlrun', case, 'ok', rep[:80]); continue
            ctx.corr('xmlrun', case, text, uncps(parts[1]))
            # the recogniser against the real parsers (soundness direction is the one the theorems need)
            res = xc.parse_both(text)
            model_wf = parts[2] == 'wf=1'
            if model_wf:
                if _has_top_level_misc(kind, ops) or not res['ok']:
                    ctx.corr('xmlwf', case, 'wf=1' if res['ok'] else 'wf=0', 'wf=1')
                else:
                    ctx.corr('xmlwf', case, 'wf=1 ev=' + ev_string(_plain_events(xc.lxml_events(res['lxml_root']))), parts[2] + ' ' + parts[3])
            else:
                ctx.count('model_rejects')
                if res['ok']:
                    ctx.count('model_rejects_parsers_accept')      # allowed: the recogniser is incomplete by design
                    if not any(o[0] in 'lp' for o in ops):
                        # ... but not on documents made of start/characters/comment/end only: there it must be complete
                        ctx.corr('xmlwf', case, 'wf=1', 'wf=0')
    ctx.sample({'op': 'xmlrun', 'kind': progs[1][0], 'ops': progs[1][1], 'impl': impl_run(*progs[1])[1][:300]})
    ctx.count('xmlrun_cases', len(progs))
    return docs


def run_xmlwf(ctx, docs):
    """single-character edits of generated documents: whenever the recogniser accepts, lxml and minidom must accept and
    report the same events (soundness of the specification parser)"""
    from gen import c18_xmlcheck as xc
    if not ctx.model_available:
        return
    rng = ctx.rng
    docs = [d for d in docs if lean_ok(d) and len(d) < 1500]
    muts = []
    pool = '<>&"\'/=?!-; \n\tax#0]'
    for _ in range(ctx.n(3000, 30000)):
        d = rng.choice(docs)
        k = rng.randrange(len(d))
        e0 = d.find('utf-8')
        if e0 - 1 <= k <= e0 + 5:
            continue        # an unknown encoding *name* is refused by real parsers for a reason other than syntax
        r = rng.random()
        if r < 0.4: m = d[:k] + d[k + 1:]
        elif r < 0.7: m = d[:k] + rng.choice(pool) + d[k:]
        elif r < 0.9: m = d[:k] + rng.choice(pool) + d[k + 1:]
        else:
            j = rng.randrange(len(d)); a, b = min(j, k), max(j, k)
            if a <= e0 + 5 and b >= e0 - 1:
                continue
            m = d[:a] + d[b:]
        muts.append(m)
    replies = ctx.lean(['xmlwf ' + cps(m) for m in muts])
    for m, rep in zip(muts, replies):
        if rep.startswith('wf=1'):
            res = xc.parse_both(m)
            ctx.count('xmlwf_model_accepts')
            if not res['ok']:
                # lxml and expat are namespace-aware; the recogniser is plain XML 1.0: an undeclared prefix, a bad
                # namespace URI or a name that is not a QName (xml:0lang, a:b:c) is not a well-formedness error of XML 1.0
                ns_l = res['lxml_err'] is not None and re.search(r'Namespace|xmlns|URI|QName', res['lxml_err'])
                ns_d = res['lxml_err'] is None and 'prefix' in (res['dom_err'] or '')
                if ns_l or ns_d:
                    ctx.count('xmlwf_namespace_only_rejections')
                    continue
                ctx.corr('xmlwf-mut', {'op': 'xmlwf', 'doc': m}, 'wf=0', 'wf=1')
            else:
                ev = ev_string(_plain_events(xc.lxml_events(res['lxml_root'])))
                mev = rep.split(' ', 1)[1]
                # comments / PIs outside the root are not walked by the lxml event list: compare inside the root only
                mi = [e for e in mev[3:].split('|')]
                while mi and mi[0][:2] in ('m:', 'p:'): mi.pop(0)
                while mi and mi[-1][:2] in ('m:', 'p:'): mi.pop()
                ctx.corr('xmlwf-mut', {'op': 'xmlwf', 'doc': m}, 'ev=' + ev, 'ev=' + '|'.join(mi))
        else:
            ctx.count('xmlwf_model_rejects')


# ------------------------------------------------------------------ stream 3: RLE attributes

def _rle_doc(xs, hex_output):
    from TotalDepth.common import Rle
    from TotalDepth.RP66V1 import IndexXML
    X = _X()
    rle = Rle.create_rle(xs)
    f = io.StringIO()
    with X.XmlStream(f) as s:
        IndexXML.xml_rle_write(rle, 'R', s, hex_output)
    return rle, f.getvalue()


def expand_rle_element(elem):
    """reader side, independent of Rle.py: closed form datum + i*stride"""
    out = []
    for r in elem:
        d, st, rp = int(r.get('datum'), 0), int(r.get('stride'), 0), int(r.get('repeat'))
        out += [d + i * st for i in range(rp + 1)]
    return out


def oracle_rle(ctx, xs, hex_output, doc=None):
    from gen import c18_xmlcheck as xc
    ctx.count('oracle_cases')
    case = {'op': 'rle', 'xs': xs, 'hex': hex_output}
    if doc is None:
        _, doc = _rle_doc(xs, hex_output)
    res = xc.parse_both(doc)
    if not res['ok']:
        ctx.fail(case, f'RLE document not well-formed: {res["lxml_err"]}'); return
    root = res['lxml_root']
    try:
        got = expand_rle_element(root)
    except ValueError as e:
        ctx.fail(case, f'RLE attribute not an integer literal: {e}'); return
    if got != xs:
        ctx.fail(case, f'RLE entries expand to {got[:10]} (len {len(got)}), values were {xs[:10]} (len {len(xs)})'); return
    if int(root.get('count')) != len(xs) or int(root.get('rle_len')) != len(root):
        ctx.fail(case, f'count/rle_len attributes {root.get("count")}/{root.get("rle_len")} for {len(xs)} values in {len(root)} entries'); return
    if any(int(r.get('repeat')) >= 2 for r in root):
        ctx.nontriv(('rle', hex_output, tuple(xs)))


def run_rle(ctx):
    import itertools
    rng = ctx.rng
    cases = []
    # exhaustive small scope (decimal): all lists of length <= 5 over -2..2
    L = ctx.n(4, 5)
    for n in range(0, L + 1):
        for t in itertools.product(range(-2, 3), repeat=n):
            cases.append((list(t), False))
    # hex output is used for file positions: non-negative, non-decreasing
    for n in range(0, L + 2):
        for t in itertools.combinations_with_replacement(range(0, 5), n):
            cases.append((list(t), True))
    for _ in range(ctx.n(1500, 20000)):
        xs, v = [], rng.randint(0, 10**rng.randint(1, 9))
        for _ in range(rng.choice([1, 2, 3, 5])):
            st = rng.choice([0, 1, 1, 48, 0x2000, rng.randint(1, 10**6)])
            for _ in range(rng.choice([1, 1, 2, 3, 7, 40])):
                xs.append(v); v += st
            v += rng.randint(0, 1000)
        cases.append((xs, rng.random() < 0.5))
    for _ in range(ctx.n(500, 5000)):
        xs = [rng.randint(-10**rng.randint(0, 12), 10**rng.randint(0, 12)) for _ in range(rng.choice([1, 2, 3, 6, 12]))]
        if rng.random() < 0.5:
            st = rng.randint(-50, 50)
            xs = [xs[0] + i * st for i in range(rng.randint(1, 30))] + xs
        cases.append((xs, False))
    # negative values / strides in hex: correspondence only (Python renders 0x-30, which int(x, 0) does not read back)
    neg_hex = [([5, 3, 1], True), ([-1, -2], True), ([10, 0], True)]
    allc = cases + neg_hex
    replies = ctx.lean([f'rle {1 if h else 0} ' + (','.join(map(str, xs)) or '-') for xs, h in allc]) if ctx.model_available else [None] * len(allc)
    for k, ((xs, h), rep) in enumerate(zip(allc, replies)):
        rle, doc = _rle_doc(xs, h)
        if rep is not None:
            items = ';'.join(f'{it.datum}:{it.stride}:{it.repeat}' for it in rle.rle_items)
            attrs = ';'.join('/'.join([f'0x{it.datum:x}' if h else f'{it.datum}', f'0x{it.stride:x}' if h else f'{it.stride}', f'{it.repeat:d}']) for it in rle.rle_items)
            m = re.match(r'items=(\S*) attrs=(\S*) expand=(\S*) doc=(\S+) (wf=\d)', rep)
            if not m:
                ctx.corr('rle', {'op': 'rle', 'xs': xs, 'hex': h}, 'parsable reply', rep[:60]); continue
            ctx.corr('rle', {'op': 'rle', 'xs': xs, 'hex': h},
                     f'{items} {attrs} {",".join(map(str, xs))} wf=1', f'{m.group(1)} {m.group(2)} {m.group(3)} {m.group(5)}')
            ctx.corr('rle-doc', {'op': 'rle', 'xs': xs, 'hex': h}, doc, uncps(m.group(4)))
        if k < len(cases):
            oracle_rle(ctx, xs, h, doc)
    ctx.sample({'op': 'rle', 'xs': [1, 2, 3, 7, 5, 3, 1], 'doc': _rle_doc([1, 2, 3, 7, 5, 3, 1], False)[1]})
    ctx.count('rle_cases', len(allc))


# ------------------------------------------------------------------ stream 4: FLOAT run-length entries (X axis)

EPS = sys.float_info.epsilon
F_NO_IFLR = 'F22-index-refused-frame-type-without-iflr'
F_NO_LOGPASS = 'F23-index-without-logpass-when-no-iflr'
EPS32 = 2.0 ** -23


def _hexf(xs):
    return [float(x).hex() for x in xs]


def gen_float_seq(rng):
    """(kind, [float]) : exact grids, accumulated grids, near-regular sequences whose deviations are spread over
    1e-17 .. 1e-6 relative to the magnitude, time-like, depth-like, runs of equal values, random."""
    n = rng.choice([3, 4, 5, 8, 12, 20, rng.randint(3, 60)])
    kind = rng.choice(['grid', 'accum', 'near', 'near', 'near', 'time', 'depth', 'equal', 'random'])
    if kind == 'random':
        return kind, [rng.uniform(-1e6, 1e6) * 10 ** rng.randint(-6, 3) for _ in range(n)]
    if kind == 'equal':
        xs = []
        while len(xs) < n:
            xs += [rng.choice([0.0, 1.5, -2.25, rng.uniform(-1e3, 1e3)])] * rng.randint(1, 6)
        return kind, xs[:n]
    if kind == 'time':
        base = float(rng.randint(9 * 10**8, 2 * 10**9)) + rng.choice([0.0, 0.5, 0.123, 0.001])
        st = rng.choice([0.5, 1.0, 0.25, 10.0, 0.1, 60.0])
        devs = [0.25, 0.1, 1e-3, 1e-4, 1e-6, 2.5e-7]
    elif kind == 'depth':
        base = rng.choice([0.0, 1000.0, 2500.5, rng.uniform(10, 9000)])
        st = rng.choice([0.1524, -0.1524, 0.5, -0.5, 0.1, 0.25, 1.0 / 3, 6.0 * 0.0254])
        devs = [1e-6, 1e-9, 1e-4, 1e-7, 1e-11, 1e-12]
    else:
        base = rng.choice([0.0, 1.0, -3.5, 1000.25, 1e9, rng.uniform(-1e4, 1e4), rng.uniform(-1e-3, 1e-3), rng.uniform(1e5, 1e12)])
        st = rng.choice([0.5, -0.5, 0.1, -0.1, 0.25, 1.0 / 3, 0.1524, 75197.0, rng.uniform(-10, 10), rng.uniform(-1e-6, 1e-6),
                         abs(base) * rng.choice([1e-3, 1e-6, 0.07]) or 1.0])
        devs = None
    if kind == 'accum':
        xs = [base]
        for _ in range(n - 1):
            xs.append(xs[-1] + st)
        return kind, xs
    xs = [base + k * st for k in range(n)]
    if kind == 'grid':
        return kind, xs
    big = max(abs(xs[0]), abs(xs[-1]), 1e-300)
    for _ in range(rng.choice([1, 1, 2, 3])):
        k = rng.randrange(2, n) if n > 2 else n - 1       # from the third value on a run exists that could absorb it
        d = rng.choice(devs) if devs is not None else big * 10 ** rng.uniform(-17, -6)
        xs[k] = xs[k] + rng.choice([-1, 1]) * d
    return kind, xs


def _rle_float_doc(vals):
    """Rle.create_rle + IndexXML.xml_rle_write on the real code; returns (rle, document text)"""
    from TotalDepth.common import Rle
    from TotalDepth.RP66V1 import IndexXML
    X = _X()
    rle = Rle.create_rle(vals)
    f = io.StringIO()
    with X.XmlStream(f) as s:
        IndexXML.xml_rle_write(rle, 'Xaxis', s, False)
    return rle, f.getvalue()


def check_float_expansion(elem, want, f32=False):
    """Reader side, independent of Rle.py: the <RLE datum stride repeat/> children of `elem` expanded by the closed form
    datum + i*stride and by repeated addition must give back `want` (Python floats; float32 values when f32):
    count exact, every value within 4*eps*max|x| (closed form) / (2k+4)*eps*max|x| (k-th repeated addition) —
    the rounding of the two or three float operations involved; float32 data are expanded in float32, with the float32 epsilon."""
    import numpy as np
    closed, it = [], []
    for r in elem:
        d, st, rp = float(r.get('datum')), float(r.get('stride')), int(r.get('repeat'))
        if f32:
            d, st = np.float32(d), np.float32(st)
            closed += [float(d + st * np.float32(i)) for i in range(rp + 1)]
            v = d
            it.append((0, float(v)))
            for k in range(rp):
                v = v + st
                it.append((k + 1, float(v)))
        else:
            closed += [d + st * i for i in range(rp + 1)]
            v = d
            it.append((0, v))
            for k in range(rp):
                v += st
                it.append((k + 1, v))
    if len(closed) != len(want):
        return f'entries expand to {len(closed)} values, {len(want)} were indexed'
    if elem.get('count') is not None and (int(elem.get('count')) != len(want) or int(elem.get('rle_len')) != len(elem)):
        return f'count/rle_len attributes {elem.get("count")}/{elem.get("rle_len")} for {len(want)} values in {len(elem)} entries'
    m = max((abs(x) for x in want), default=0.0)
    for i, x in enumerate(want):
        if f32:
            # float32 data take the exact-equality branch of RLEItem.add; what remains is the rounding of the stride
            # (v - datum) and of datum + stride*i in float32: the same allowance, with the float32 epsilon
            if not abs(closed[i] - x) <= 4 * EPS32 * m or not abs(it[i][1] - x) <= (2 * it[i][0] + 4) * EPS32 * m:
                return (f'value {i}: entries expand to {closed[i]!r} / {it[i][1]!r} (float32), indexed X is {x!r} '
                        f'(bound 4*eps32*max|x| = {4 * EPS32 * m!r})')
            continue
        if not abs(closed[i] - x) <= 4 * EPS * m:
            return (f'value {i}: entries expand to {closed[i]!r}, indexed X is {x!r}: off by {abs(closed[i] - x):.3e} '
                    f'= {abs(closed[i] - x) / m if m else 0:.2e} relative (bound 4*eps = {4 * EPS:.2e})')
        k, v = it[i]
        if not abs(v - x) <= (2 * k + 4) * EPS * m:
            return f'value {i}: repeated addition gives {v!r}, indexed X is {x!r} (bound {(2 * k + 4)}*eps*max|x|)'
    return None


def oracle_rle_float(ctx, xs, f32=False):
    from gen import c18_xmlcheck as xc
    import numpy as np
    ctx.count('oracle_cases')
    case = {'op': 'rlefloat', 'xs': _hexf(xs), 'f32': f32}
    vals = [np.float32(x) for x in xs] if f32 else list(xs)
    want = [float(v) for v in vals]
    rle, doc = _rle_float_doc(vals)
    res = xc.parse_both(doc)
    if not res['ok']:
        ctx.fail(case, f'float RLE document not well-formed: {res["lxml_err"]}'); return False
    try:
        bad = check_float_expansion(res['lxml_root'], want, f32)
    except ValueError as e:
        bad = f'RLE attribute is not a number: {e}'
    if bad:
        ctx.fail(case, 'Xaxis ' + bad); return False
    if any(int(r.get('repeat')) >= 2 for r in res['lxml_root']):
        ctx.nontriv(('rlefloat', f32, tuple(case['xs'])))
    return True


def run_rle_float(ctx):
    rng = ctx.rng
    seqs = []
    for _ in range(ctx.n(6000, 60000)):
        seqs.append(gen_float_seq(rng))
    # the two situations named in the report of the missed change, verbatim
    seqs.append(('time', [1.6e9 + 0.5 * k for k in range(4)] + [1.6e9 + 2.25] + [1.6e9 + 0.5 * k for k in range(5, 8)]))
    seqs.append(('depth', [1000.0 + 0.1524 * k for k in range(5)] + [1000.0 + 0.1524 * 5 + 1e-6] + [1000.0 + 0.1524 * k for k in range(6, 9)]))
    for r in (1e-16, 2.3e-16, 1e-15, 1e-14, 1e-13, 1e-12, 1e-11, 1e-10, 9e-10, 1e-9, 1e-8, 1e-7, 1e-6):
        seqs.append(('near', [100.0 + k for k in range(6)] + [106.0 * (1 + r)] + [107.0, 108.0]))
    for kind, xs in seqs:
        ctx.count('rlefloat_' + kind)
        oracle_rle_float(ctx, xs, False)
        if rng.random() < 0.25:
            oracle_rle_float(ctx, xs, True)
    ctx.sample({'op': 'rlefloat', 'xs': seqs[-14][1], 'doc': _rle_float_doc(seqs[-14][1])[1]})
    ctx.count('rlefloat_cases', len(seqs))


# ------------------------------------------------------------------ stream 5: whole generated RP66V1 files -> XML index

def _bits(rc, x):
    return int.from_bytes(struct.pack('>d' if rc == 7 else '>f', x), 'big')


def gen_index_file(rng):
    """A small log pass whose X channel (first channel of each frame type) is FDOUBL (7) or FSINGL (2), with generated
    X sequences and frame numbers; the other channels are arbitrary numeric.  -> (lp, frames, want) with
    want[ft] = {'x': [float], 'no': [int], 'rc': 7|2}"""
    from props import c04
    lp, want = [], {}
    nft = rng.choice([1, 1, 2, 2, 3])
    # frame types that are declared in the FRAME set but never get an IFLR (logging stopped early): some of them, or all
    r = rng.random()
    silent = set() if r < 0.7 else (set(range(nft)) if r < 0.78 else {k for k in range(nft) if rng.random() < 0.5})
    for k in range(nft):
        rcx = rng.choice([7, 7, 7, 2])
        chans = [{'ident': b'X%d' % k, 'rc': rcx, 'dims': [1]}]
        for j in range(rng.choice([0, 1, 2])):
            chans.append({'ident': b'C%d%d' % (k, j), 'rc': rng.choice([2, 7, 12, 13, 14, 15, 16, 17]), 'dims': rng.choice([[1], [2], [3]])})
        lp.append({'name': [rng.choice([0, 1, 300]), rng.randint(0, 2), b'FR%d' % k], 'chans': chans})
        _kind, xs = gen_float_seq(rng)
        if k in silent:
            xs = []
        if rcx == 2:
            xs = [struct.unpack('>f', struct.pack('>f', max(-3e38, min(3e38, x))))[0] for x in xs]
        no, nos = rng.choice([1, 1, 1, 7]), []
        for _ in xs:
            nos.append(no)
            no += rng.choice([1, 1, 1, 1, 1, 2]) if rng.random() < 0.9 else rng.randint(1, 50)
        want[k] = {'x': xs, 'no': nos, 'rc': rcx}
    order = [k for k in range(nft) for _ in want[k]['x']]
    if rng.random() < 0.6:
        rng.shuffle(order)
    frames, ptr = [], [0] * nft
    for k in order:
        i = ptr[k]; ptr[k] += 1
        vals = [[_bits(want[k]['rc'], want[k]['x'][i])]]
        for ch in lp[k]['chans'][1:]:
            vals.append([c04.gen_value(rng, ch['rc']) for _ in range(c04.count_of(ch))])
        frames.append({'ft': k, 'no': want[k]['no'][i], 'vals': vals})
    return lp, frames, want


def oracle_index_file(ctx, lp, frames, recs, want):
    """Index the generated file with the real code, write the XML index, read it back: one FrameArray per frame type;
    FrameNumbers and LRSH expand exactly to the generated frame numbers / the indexed positions, Xaxis to the generated X
    values (tight float bound, see check_float_expansion)."""
    import logging
    from gen import c18_xmlcheck as xc, c03phys
    from TotalDepth.RP66V1 import IndexXML
    from TotalDepth.RP66V1.core import LogicalFile
    ctx.count('oracle_cases')
    case = {'op': 'rlefile', 'lp': [{'name': [ft['name'][0], ft['name'][1], ft['name'][2].hex()],
                                     'chans': [{'ident': c['ident'].hex(), 'rc': c['rc'], 'dims': c['dims']} for c in ft['chans']]} for ft in lp],
            'recs': [[e, x, ty, b.hex()] for e, x, ty, b in recs],
            'want': {str(k): {'x': _hexf(v['x']), 'no': v['no'], 'rc': v['rc']} for k, v in want.items()}}
    path = os.path.join(ctx.scratch, 'rlefile_%d.dlis' % ctx.stats['oracle_cases'])
    with open(path, 'wb') as fh:
        fh.write(c03phys.wrap(recs, None))
    logging.disable(logging.CRITICAL)
    try:
        out = io.StringIO()
        with LogicalFile.LogicalIndex(path) as li:
            IndexXML.write_logical_file_sequence_to_xml(li, out, True)
            lf = li.logical_files[0]
            mem = {fa.ident.I: ([r.frame_number for r in lf.iflr_position_map[fa.ident]],
                                [r.logical_record_position.lrsh_position for r in lf.iflr_position_map[fa.ident]],
                                [float(r.x_axis) for r in lf.iflr_position_map[fa.ident]])
                   for fa in lf.log_pass.frame_arrays if fa.ident in lf.iflr_position_map}
    except Exception as e:
        n_silent = sum(1 for v in want.values() if not v['x'])
        # strict class of the known finding: exactly this exception, and a declared frame type without any IFLR next to
        # one that has IFLRs.  (An index that IS written must be complete: see below - never covered by the finding.)
        known = (type(e).__name__ == 'ExceptionLogPassXML' and 'Missing ident' in str(e) and 0 < n_silent < len(want))
        fail(ctx, case, f'indexing / writing the XML index of a generated conformant file raised {type(e).__name__}: {e} '
                        f'({n_silent} of {len(want)} declared frame types have no IFLR)',
             finding=F_NO_IFLR if known else None)
        return False
    finally:
        logging.disable(logging.NOTSET)
        os.unlink(path)
    res = xc.parse_both(out.getvalue())
    if not res['ok']:
        ctx.fail(case, f'XML index not well-formed: {res["lxml_err"]}'); return False
    # one entry per frame type of the file: a single <LogPass>, its count attribute, and one <FrameArray> per Frame object
    # of the FRAME set (generated = lp), in order, identified by O, C, I
    lps = res['lxml_root'].findall('.//LogPass')
    fas = res['lxml_root'].findall('.//FrameArray')
    declared = [(str(ft['name'][0]), str(ft['name'][1]), ft['name'][2].decode('ascii')) for ft in lp]
    if not lps and not fas and all(not v['x'] for v in want.values()):
        # strict class of the second known finding: NO frame type of the logical file has an IFLR and the index was
        # written without any <LogPass> element
        fail(ctx, case, f'XML index written without a <LogPass> element: no entry for the declared frame types {declared} '
                        '(none of them has an IFLR)', finding=F_NO_LOGPASS)
        return False
    found = [(fa.get('O'), fa.get('C'), fa.get('I')) for fa in fas]
    if len(lps) != 1 or lps[0].get('count') != str(len(declared)) or found != declared or any(fa.getparent() is not lps[0] for fa in fas):
        ctx.fail(case, f'XML index reported written but it does not hold one entry per frame type: {len(lps)} <LogPass> element(s), '
                       f'count={[x.get("count") for x in lps]}, <FrameArray> {found}; declared frame types {declared}')
        return False
    for fa in fas:
        k = [ft['name'][2] for ft in lp].index(fa.get('I').encode('ascii'))
        w, (mno, mpos, mx) = want[k], mem.get(fa.get('I').encode('ascii'), ([], [], []))   # declared, no IFLR: nothing indexed
        iflr = fa.find('IFLR')
        bad = None
        try:
            nos = expand_rle_element(iflr.find('FrameNumbers'))
            pos = expand_rle_element(iflr.find('LRSH'))
            if nos != w['no'] or nos != mno:
                bad = f'FrameNumbers expand to {nos[:8]}.., generated {w["no"][:8]}.., indexed {mno[:8]}..'
            elif pos != mpos or len(pos) != len(w['x']) or any(b <= a for a, b in zip(pos, pos[1:])):
                bad = f'LRSH entries expand to {pos[:6]}.., indexed positions {mpos[:6]}.. ({len(w["x"])} frames)'
            elif int(iflr.get('count')) != len(w['x']):
                bad = f'IFLR count {iflr.get("count")} for {len(w["x"])} frames'
            else:
                bad = check_float_expansion(iflr.find('Xaxis'), w['x'], f32=(w['rc'] == 2))
                if bad is None and mx != w['x']:
                    bad = f'in-memory X {mx[:4]} differs from the generated X {w["x"][:4]}'
                if bad: bad = 'Xaxis ' + bad
        except (ValueError, AttributeError, TypeError) as e:
            bad = f'IFLR block unreadable: {type(e).__name__}: {e}'
        if bad:
            ctx.fail(case, f'frame type {fa.get("I")}: ' + bad); return False
    if any(len(v['x']) >= 5 for v in want.values()):
        ctx.nontriv(('rlefile', json.dumps(case['want'], sort_keys=True)))
    return True


def run_index_files(ctx):
    from props import c03, c04
    rng = ctx.rng
    cases = [gen_index_file(rng) for _ in range(ctx.n(600, 6000))]
    try:
        enc = ctx.lean([f'encfile {c04.lp_txt(lp)} {c04.frames_txt(lp, fr)}' for lp, fr, _ in cases], name='C04')
    except Exception as e:      # the encoder of another property is not available: say so, do not guess
        ctx.note(f'rlefile stream not run: C04 specification encoder unavailable ({type(e).__name__}: {str(e)[:120]})')
        return
    for (lp, frames, want), reply in zip(cases, enc):
        recs = c03.parse_recs(reply)
        oracle_index_file(ctx, lp, frames, recs, want)
    ctx.count('rlefile_cases', len(cases))
    ctx.sample({'op': 'rlefile', 'frame_types': len(cases[0][0]), 'x': cases[0][2][0]['x'][:6], 'frame_numbers': cases[0][2][0]['no'][:6]})


# ------------------------------------------------------------------ stream 6: generated EFLR tables -> XML index, byte-exact

_UTF8 = [b'\xc2\xb0', b'\xc3\xa9', b'\xc2\xb5', b'\xd0\x96', b'\xc2\x80', b'\xdf\xbf',                       # 2 bytes
         b'\xe2\x82\xac', b'\xe2\x80\xa8', b'\xe4\xb8\xad', b'\xef\xbf\xbd', b'\xe0\xa0\x80',              # 3 bytes
         b'\xf0\x9f\x98\x80', b'\xf0\x90\x80\x80', b'\xf4\x8f\xbf\xbf']                                    # 4 bytes
_ISOLATED = [b'\x80', b'\xa0', b'\xb0', b'\xe9', b'\xff', b'\xc2', b'\xe2\x82', b'\xf0\x9f\x98', b'\xc0\xaf', b'\xed\xa0\x80', b'\xfe']
_REPRESENTABLE_BYTES = bytes(b for b in range(256) if b in (9, 10, 13) or b >= 32)
BYTES_CLASSES = ['ascii', 'markup', 'utf8', 'utf8', 'isolated', 'mixed', 'latin', 'all-representable', 'all256', 'ctrl', 'empty']


def gen_bytes_value(rng, cls, maxlen=255):
    w = lambda: rng.choice([b'18', b'deg', b'GR', b' ', b'Run 1', b'0.1 in', b'x', b'caf', b'T=', b'/', b'm'])
    if cls == 'empty': return b''
    if cls == 'ascii': v = b''.join(w() for _ in range(rng.randint(1, 5)))
    elif cls == 'markup': v = b''.join(rng.choice([w(), b'<', b'>', b'&', b'"', b"'", b'&amp;', b']]>', b'--']) for _ in range(rng.randint(2, 6)))
    elif cls == 'utf8': v = b''.join(rng.choice([w(), rng.choice(_UTF8), rng.choice(_UTF8)]) for _ in range(rng.randint(1, 6)))
    elif cls == 'isolated': v = b''.join(rng.choice([w(), rng.choice(_ISOLATED)]) for _ in range(rng.randint(1, 6)))
    elif cls == 'mixed': v = b''.join(rng.choice([w(), rng.choice(_UTF8), rng.choice(_ISOLATED), b'<&>', b'\t', b'\r\n']) for _ in range(rng.randint(2, 8)))
    elif cls == 'latin': v = bytes(rng.randint(0xa0, 0xff) for _ in range(rng.randint(1, 12)))
    elif cls == 'all-representable': v = _REPRESENTABLE_BYTES
    elif cls == 'all256': v = bytes(range(256))
    else: v = b''.join(rng.choice([w(), bytes([rng.choice([0, 1, 8, 11, 12, 14, 27, 31])])]) for _ in range(rng.randint(1, 4)))
    return v[:maxlen]


def gen_eflr_file(rng):
    """Items of one logical file for the C03 specification encoder: FILE-HEADER, ORIGIN and 1..3 tables (PARAMETER,
    TOOL, COMMENT, ...) whose ASCII (20) / IDENT (19) / UNITS (27) *values* carry the byte classes; names, labels and
    attribute units stay ASCII (the writers decode those as ASCII), some with markup.  -> (items, [bytes values])"""
    from props import c03
    A = c03._a
    bv = lambda b: ['b', b.hex()]
    items = [['E', 0, c03.file_header_table(rng, 0)],
             ['E', 1, {'stype': b'ORIGIN'.hex(), 'sname': b''.hex(),
                       'cols': [{'inv': False, 'attr': A(b'FILE-ID', 1, 20)}, {'inv': False, 'attr': A(b'WELL-NAME', 1, 20)}],
                       'rows': [{'name': [0, 0, b'ORIGIN1'.hex()],
                                 'cells': [A(b'FILE-ID', 1, 20, b'', [bv(gen_bytes_value(rng, rng.choice(['ascii', 'utf8', 'latin'])))]),
                                           A(b'WELL-NAME', 1, 20, b'', [bv(gen_bytes_value(rng, rng.choice(['ascii', 'utf8', 'mixed', 'markup'])))])]}]}]]
    values = [bytes.fromhex(c['value'][0][1]) for c in items[1][2]['rows'][0]['cells']]
    # only one file in seven holds characters XML cannot represent (F13 class: the whole document is then unreadable)
    classes = BYTES_CLASSES if rng.random() < 0.14 else [c for c in BYTES_CLASSES if c not in ('ctrl', 'all256')]
    for t in range(rng.randint(1, 3)):
        ncols = rng.randint(1, 4)
        labels = rng.sample([b'LONG-NAME', b'VALUES', b'DESCRIPTION', b'TEXT', b'ZONES', b'A<B', b'R&D', b'Q"', b"IT'S", b'X-1'], ncols)
        specs = [(lab, rng.choice([20, 20, 20, 19, 27]), rng.choice([b'', b'm', b'0.1 in', b'deg<C>', b'ohm&m'])) for lab in labels]
        cols = [{'inv': False, 'attr': A(lab, 1, rc, un)} for lab, rc, un in specs]
        rows = []
        for r in range(rng.randint(1, 4)):
            cells = []
            for lab, rc, un in specs:
                n = rng.choice([1, 1, 1, 2, 3])
                vs = [gen_bytes_value(rng, rng.choice(classes), 255 if rc in (19, 27) else 400) for _ in range(n)]
                values += vs
                cells.append(A(lab, n, rc, un, [bv(v) for v in vs]))
            rows.append({'name': [rng.choice([0, 1, 44]), rng.randint(0, 3), (rng.choice([b'P', b'TOOL_', b'A&B', b'<x>', b"q'", b'n']) + b'%d%d' % (t, r)).hex()],
                         'cells': cells})
        items.append(['E', rng.choice([5, 5, 6, 200]), {'stype': rng.choice([b'PARAMETER', b'TOOL', b'COMMENT', b'ZONE', b'X<Y>']).hex(),
                                                        'sname': rng.choice([b'', b'set&1', b'S']).hex(), 'cols': cols, 'rows': rows}])
    return items, values


def oracle_eflr_file(ctx, recs, values):
    """Index the generated file, write the XML index (private), read it back and walk every EFLR / Object / Attribute /
    Value against the in-memory index (c18_producers._check_index_doc: bytes compared through latin-1, exactly); in
    addition every generated bytes value must be the latin-1 encoding of some <Value type="bytes"> of the document."""
    import logging
    from gen import c18_xmlcheck as xc, c03phys, c18_producers as P
    from TotalDepth.RP66V1 import IndexXML
    from TotalDepth.RP66V1.core import LogicalFile
    ctx.count('oracle_cases')
    case = {'op': 'eflrfile', 'recs': [[e, x, ty, b.hex()] for e, x, ty, b in recs], 'values': [v.hex() for v in values]}
    path = os.path.join(ctx.scratch, 'eflrfile_%d.dlis' % ctx.stats['oracle_cases'])
    with open(path, 'wb') as fh:
        fh.write(c03phys.wrap(recs, None))
    logging.disable(logging.CRITICAL)
    try:
        out = io.StringIO()
        with LogicalFile.LogicalIndex(path) as li:
            IndexXML.write_logical_file_sequence_to_xml(li, out, True)
            res = xc.parse_both(out.getvalue())
            strings = [v.decode('latin-1') for v in values]
            if not res['ok']:
                fail(ctx, case, f'XML index not well-formed: lxml: {res["lxml_err"]}; minidom: {res["dom_err"]}',
                     finding=xc.classify_not_wf(res, strings))
                return False
            msgs = P._check_index_doc(li, res['lxml_root'], True)
    except Exception as e:
        ctx.fail(case, f'indexing / writing the XML index of a generated conformant file raised {type(e).__name__}: {e}')
        return False
    finally:
        logging.disable(logging.NOTSET)
        if os.path.exists(path): os.unlink(path)
    if not msgs:
        try:
            got = [v.get('value').encode('latin-1') for v in res['lxml_root'].iter('Value') if v.get('type') == 'bytes']
        except UnicodeEncodeError as e:
            msgs = [f'a <Value type="bytes"> cannot be turned back into bytes: {e}']
        else:
            import collections
            missing = collections.Counter(values) - collections.Counter(got)
            if missing:
                v = next(iter(missing))
                msgs = [f'generated bytes value {v!r} is not reproduced by any <Value type="bytes"> ({len(got)} values in the document)']
    if msgs:
        ctx.fail(case, f'{len(msgs)} difference(s) between the XML index and the indexed data: ' + ' ;; '.join(msgs[:3]))
        return False
    if any(b >= 0x80 for v in values for b in v):
        ctx.nontriv(('eflrfile', hash(tuple(values))))
    return True


def run_eflr_files(ctx):
    from props import c03
    rng = ctx.rng
    cases = [gen_eflr_file(rng) for _ in range(ctx.n(300, 3000))]
    try:
        enc = ctx.lean([c03.items_request(rng, [items], []) for items, _ in cases], name='C03')
    except Exception as e:
        ctx.note(f'eflrfile stream not run: C03 specification encoder unavailable ({type(e).__name__}: {str(e)[:120]})')
        return
    for (items, values), reply in zip(cases, enc):
        oracle_eflr_file(ctx, c03.parse_recs(reply), values)
    ctx.count('eflrfile_cases', len(cases))
    ctx.count('eflrfile_bytes_values', sum(len(v) for _, v in cases))
    ctx.sample({'op': 'eflrfile', 'values': [v.decode('latin-1') for v in cases[0][1][:5]]})


# ------------------------------------------------------------------ entry points

def run(ctx):
    run_xmlenc(ctx)
    docs = run_xmlrun(ctx)
    run_xmlwf(ctx, docs)
    run_rle(ctx)
    run_rle_float(ctx)
    run_index_files(ctx)
    run_eflr_files(ctx)
    try:
        from gen import c18_producers
    except ImportError:
        ctx.note('end-to-end producers module not present: producers not exercised')
        _note_known(ctx)
        return
    c18_producers.run(ctx)
    _note_known(ctx)


def _note_known(ctx):
    ks = sorted(k for k in ctx.stats if k.startswith('known_not_stored_'))
    if ks:
        ctx.note('oracle failures counted but not stored (all inside the strict input class of an open known finding; '
                 'core keeps at most 200 stored cases): ' + ', '.join(f'{k[len("known_not_stored_"):]}: {ctx.stats[k]}' for k in ks))


def search(ctx):
    """extra oracle budget when a proof or the correspondence broke and no failing input was found yet"""
    for p in (0.0, 0.0, 0.3):
        for _ in range(4000):
            kind, ops = gen_tree_ops(ctx, p)
            status, text = impl_run(kind, ops)
            if status == 'ok':
                oracle_run(ctx, kind, ops, status, text)
    for _ in range(4000):
        oracle_encode(ctx, rand_string(ctx.rng, 0.2, 30))


def replay(ctx, rec):
    case = rec['case']
    n0 = len(ctx.failures)
    op = case.get('op')
    if op == 'xmlenc':
        oracle_encode(ctx, case['s'])
    elif op == 'xmlrun':
        status, text = impl_run(case['kind'], case['ops'])
        if status != 'ok':
            return True, f'the calls raise {status} (no document)'
        oracle_run(ctx, case['kind'], case['ops'], status, text)
    elif op == 'rle':
        oracle_rle(ctx, case['xs'], case['hex'])
    elif op == 'rlefloat':
        oracle_rle_float(ctx, [float.fromhex(h) for h in case['xs']], case['f32'])
    elif op == 'eflrfile':
        oracle_eflr_file(ctx, [(e, x, ty, bytes.fromhex(b)) for e, x, ty, b in case['recs']], [bytes.fromhex(v) for v in case['values']])
    elif op == 'rlefile':
        lp = [{'name': [ft['name'][0], ft['name'][1], bytes.fromhex(ft['name'][2])],
               'chans': [{'ident': bytes.fromhex(c['ident']), 'rc': c['rc'], 'dims': c['dims']} for c in ft['chans']]} for ft in case['lp']]
        recs = [(e, x, ty, bytes.fromhex(b)) for e, x, ty, b in case['recs']]
        want = {int(k): {'x': [float.fromhex(h) for h in v['x']], 'no': v['no'], 'rc': v['rc']} for k, v in case['want'].items()}
        oracle_index_file(ctx, lp, None, recs, want)
    elif op == 'xmlwf':
        return True, 'correspondence-only case (specification parser vs lxml); nothing to replay on the implementation'
    else:
        try:
            from gen import c18_producers
        except ImportError:
            return True, 'nothing to replay (producers module missing)'
        return c18_producers.replay_case(ctx, case)
    if len(ctx.failures) > n0:
        f = ctx.failures[-1]
        return False, f['detail'] + (f' [known finding {f["finding"]}]' if f['finding'] else '')
    return True, 'property holds on this case'
