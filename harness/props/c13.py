"""C13 — Western Atlas BIT log passes decode to the recorded numbers (TotalDepth/BIT/ReadBIT.py)."""
import io, logging, math, struct

CLAIM = {
 'text': ('Lean 4 theorems about a model of BIT/ReadBIT.py (TIF block walker, 276-byte header block, add_block '
          'de-interleave, the two IBM-float decoders, X axis synthesis): bit_roundtrip (for every content of 1..n log '
          'passes, 1..20 channels, any blocks incl. a short last one, the reader applied to the spec encoder\'s file '
          'returns the names, counts, header numbers, the frame words in channel/frame order and the synthesised X axis; '
          'bit_roundtrip_one_end_marker for the file without the final marker; mkBlocks_spec for blocks of fib frames), '
          'read_position_independent (the answer does not depend on where the open handle was positioned), frame_count, x_axis, x_axis_towards_stop (|spacing| steps towards the stop depth for either sign of the header spacing), ibm_header_eq_isingl (header decoder = RP66V1 ISINGL on every word), '
          'gen_floats_rel_error / gen_floats_ne (the frame decoder as coded is NOT the IBM value: exact factor '
          '2^24/(2^24-1), known finding F12). The model is tied to the source on every run by comparing it with the real '
          'create_bit_frame_array_from_file on files written by the spec encoder, on damaged files, and on single words. '
          'Proof is the right level: the property is quantified over all files and all 2^32 words.'),
 'note': ('Trusted: Lean kernel; model<->code correspondence on the cases of the run; io.BytesIO.read, struct.unpack, '
          'bytes.decode, numpy float64 arrays and LogPass.FrameArray.append are modelled, not verified. binary64 rounding '
          'is modelled by round-to-nearest-even on rationals for the normal range (every BIT value is in [2^-280, 2^252]).'),
 'technique': 'Lean 4 proof (induction over records/blocks/channels, omega, decide) + model-implementation correspondence',
 'design_ref': 'DESIGN.md section 6 C13',
}

RULE = ('files: random abstract content (1..4 passes, plus files of 5..30 and 100+ pairwise different passes incl. exactly 10/11/12/20/21/101 compared POSITIONALLY (i-th frame array returned == i-th pass written, ident == str(i)), 9/10/11/19/20 channels, 100..1200 one-frame blocks, ~10000 frames, data blocks of every special byte length (276 = header block, 12/24 = TIF markers, header field offsets, 640) as regular, only and short last block, 1..20 distinct channel names, 0..~2500 frames, block size 1..64 '
        'frames incl. short last block and block size > frame count, IBM words from a mix of realistic values, zeros, '
        'negative zero, extreme exponents, unnormalised and random words, up and down logs, header spacing of either sign) encoded by the Lean spec '
        'encoder, decoded by the model and by ReadBIT; a file is non-trivial when it has >= 2 frames and >= 1 non-zero '
        'value, distinct by (names, frame counts, block size, hash of data). words: structured + random 4-byte words '
        'through gen_floats / bytes_to_float / ISINGL. history: ONE open handle (io.BytesIO and a real file on disc) used for a '
        'random sequence of is_bit_file / decode / decode-twice / seek / read / seek-to-end; every decode must give the recorded '
        'content (and the model\'s answer) whatever the position before the call, every is_bit_file the answer for the bytes. malformed: truncation at every byte of tiny files, damaged TIF '
        'markers, header counts/names, data block lengths, missing end markers, byte flips (error class compared).')
ASSUMPTIONS = [
    'channel names in a header are pairwise distinct and differ from "X   " (otherwise LogPass.FrameArray.append raises '
    'ExceptionFrameArray: modelled, compared in the malformed stream, outside the property)',
    'file positions fit in 32 bits (TIF marker fields are u32)',
    'the file object is io.BytesIO: read(n) with n < 0 reads to the end (a real file raises ValueError for n < -1); '
    'only damaged TIF markers reach that call',
    'binary64 arithmetic stays in the normal range (no overflow/underflow): true for all sums of IBM single values with '
    'fewer than 2^700 frames',
]
ANCHOR_FILES = ['src/TotalDepth/BIT/ReadBIT.py', 'src/TotalDepth/RP66V1/core/pRepCode.py', 'src/TotalDepth/common/LogPass.py']
TRUSTED = ['modelled, not verified: io.BytesIO.read/tell/seek, struct.unpack("<3L"/">H"), bytes.decode("ascii"), '
           'CPython int/int true division (correctly rounded) and float +,-,* (IEEE binary64), numpy float64 array '
           'assignment, LogPass.FrameArray.append duplicate check, Python generator laziness of yield_tif_blocks/gen_floats']

F12 = 'F12-gen-floats-mantissa-divisor'
X_NAME = b'X   '


KNOWN_CAP = 60     # failures recorded individually per known finding (core keeps at most 200 listed ones)


def known_fail(ctx, case, detail, finding):
    """record a failure that belongs to a listed finding; beyond the cap only count it"""
    k = 'listed_' + finding
    if ctx.stats[k] < KNOWN_CAP:
        ctx.fail(case, detail, finding=finding)
    else:
        ctx.count('known_finding_cases_beyond_cap')
    ctx.count(k)


# ------------------------------------------------------------------ implementation access

def _impl():
    from TotalDepth.BIT import ReadBIT
    return ReadBIT


def _quiet():
    logging.disable(logging.CRITICAL)


def fl(v):
    """canonical exact text of a float: sign and integer ratio of the magnitude"""
    n, d = abs(v).as_integer_ratio()
    return ('-' if math.copysign(1.0, v) < 0 else '+') + f'{n}/{d}'


def hx(b):
    return b.hex() or '-'


def err_class(R, e):
    from TotalDepth.common import LogPass
    if isinstance(e, R.ExceptionTotalDepthBIT_TIF): return 'err TIF'
    if isinstance(e, R.ExceptionTotalDepthBITFirstBlock): return 'err FirstBlock'
    if isinstance(e, struct.error): return 'err struct.error'
    if isinstance(e, UnicodeDecodeError): return 'err UnicodeDecodeError'
    if isinstance(e, ValueError): return 'err ValueError'
    if isinstance(e, IndexError): return 'err IndexError'
    if isinstance(e, LogPass.ExceptionFrameArray): return 'err ExceptionFrameArray'
    return f'err other {type(e).__name__}'


def impl_read(R, data):
    """-> (canonical string, list of BITFrameArray or None)"""
    return impl_read_handle(R, io.BytesIO(data))


def impl_read_handle(R, handle):
    """decode through an already open handle, wherever it is positioned"""
    try:
        fas = R.create_bit_frame_array_from_file(handle)
    except Exception as e:          # noqa: every class is canonicalised
        return err_class(R, e), None
    out = []
    for p in fas:
        if p.frame_array is None:
            f = 'none'
        else:
            ch = p.frame_array.channels
            f = ','.join(map(fl, ch[0].array[:, 0].tolist())) + ';' + \
                '/'.join(','.join(map(fl, c.array[:, 0].tolist())) for c in ch[1:])
        out.append(f"{p.ident};{hx(p.description)};{','.join(n.encode('ascii').hex() for n in p.channel_names)};"
                   f"{','.join(fl(v) for v in p.bit_log_pass_range)};{hx(p.unknown_tail)};{p.frame_count};{f}")
    return 'ok ' + '|'.join(out), fas


# ------------------------------------------------------------------ independent references

def ibm(w):
    """IBM single precision value of 4 bytes, exact (ldexp of a 24-bit integer)."""
    m = (w[1] << 16) | (w[2] << 8) | w[3]
    v = math.ldexp(m, 4 * ((w[0] & 0x7f) - 64) - 24)
    return -v if w[0] & 0x80 else v


def rn_div(m, d):
    """correctly rounded (nearest even, 53 bits) m/d for positive ints, by integer arithmetic only"""
    if m == 0:
        return 0.0
    s = max(0, 55 - (m.bit_length() - d.bit_length()))
    q, r = divmod(m << s, d)
    extra = q.bit_length() - 53
    low = q & ((1 << extra) - 1)
    q >>= extra
    half = 1 << (extra - 1)
    if low > half or (low == half and r):
        q += 1
    elif low == half and not r:
        q += q & 1
    return math.ldexp(q, extra - s)


_f12_cache = {}


def f12(w):
    """the value F12 describes: IBM(bytes) * 2^24 / (2^24 - 1), correctly rounded"""
    m = (w[1] << 16) | (w[2] << 8) | w[3]
    q = _f12_cache.get(m)
    if q is None:
        q = rn_div(m, 0xffffff)
        if len(_f12_cache) < 2000000:
            _f12_cache[m] = q
    v = math.ldexp(q, 4 * ((w[0] & 0x7f) - 64))
    return -v if w[0] & 0x80 else v


def ibm_encode(v):
    """an IBM word for (approximately) the float v — generator helper"""
    if v == 0:
        return b'\x00\x00\x00\x00'
    s = 0x80 if v < 0 else 0
    v = abs(v)
    e = 64
    while v >= 1 and e < 127:
        v /= 16; e += 1
    while v < 1 / 16 and e > 0:
        v *= 16; e -= 1
    m = min(int(v * 0x1000000), 0xffffff)
    return bytes([s | e, (m >> 16) & 255, (m >> 8) & 255, m & 255])


# ------------------------------------------------------------------ content generator

NAME_CHARS = 'ABCDEFGHIJKLMNOPQRSTUVWXYZ0123456789'
REAL_NAMES = ['COND', 'SN  ', 'SP  ', 'GR  ', 'CAL ', 'TEN ', 'SPD ', 'ACQ ', 'AC  ', 'RT  ', 'CN  ', 'DEN ', 'CORR', 'PORZ',
              'CNC ', 'RFOC', 'RILM', 'RILD', 'CILD', 'K   ', 'TH  ', 'U   ', 'KTH ', 'GRSG', 'TTEN', 'C13 ', 'C24 ']


def gen_word(rng):
    k = rng.random()
    if k < 0.04: return b'\x00\x00\x00\x00'
    if k < 0.06: return b'\x80\x00\x00\x00'
    if k < 0.10: return bytes.fromhex('3d68db8b')
    if k < 0.45: return ibm_encode(round(rng.uniform(-300, 3000), rng.randint(0, 4)))
    if k < 0.52: return ibm_encode(rng.choice([1, -1, 0.5, 16, 256, 0.0625, 1 / 3, -249.709, 1e-5, 1e6, 14950.0]))
    if k < 0.62: return bytes([rng.choice([0, 1, 0x7f, 0x7e, 0x80, 0x81, 0xff, 0x40, 0x41, 0xc0])]) + rng.randbytes(3)
    if k < 0.70: return bytes([rng.randrange(256), 0, rng.choice([0, rng.randrange(256)]), rng.randrange(256)])
    if k < 0.74: return bytes([rng.randrange(256)]) + rng.choice([b'\xff\xff\xff', b'\x00\x00\x01', b'\x80\x00\x00', b'\x10\x00\x00'])
    return rng.randbytes(4)


def gen_names(rng, nch):
    names = []
    while len(names) < nch:
        if rng.random() < 0.6:
            n = rng.choice(REAL_NAMES)
        else:
            k = rng.randint(1, 4)
            n = ''.join(rng.choice(NAME_CHARS) for _ in range(k)).ljust(4)
        b = n.encode('ascii')
        if b != X_NAME and b not in names:
            names.append(b)
    return names


def gen_range(rng, n, neg_spacing=False):
    k = rng.random()
    if k < 0.55:
        sp = rng.choice([0.25, 0.5, 0.125, 1.0, 0.1, 1 / 6, 0.0625, 2.0, 0.25])
        start = round(rng.uniform(10, 20000) * 4) / 4
        if rng.random() < 0.5:
            stop = start - sp * max(n - 1, 1) * rng.choice([1, 1, 0.9, 1.1])
        else:
            stop = start + sp * max(n - 1, 1) * rng.choice([1, 1, 0.9, 1.1])
        if rng.random() < 0.1: stop = 0.0
        ws = [ibm_encode(start), ibm_encode(stop), ibm_encode(sp)]
    elif k < 0.7:
        # magnitudes far apart: the sum rounds
        ws = [ibm_encode(rng.choice([1e9, -1e9, 1e15, 3e-7, 12345.678])), ibm_encode(rng.choice([0, 1e10, -5.0])),
              ibm_encode(rng.choice([1e-3, 1 / 3, 1e-9, 7.0, 1e12]))]
    elif k < 0.8:
        ws = [rng.choice([b'\x00\x00\x00\x00', b'\x80\x00\x00\x00', gen_word(rng)]), gen_word(rng),
              rng.choice([b'\x00\x00\x00\x00', b'\x80\x00\x00\x00', gen_word(rng)])]
    else:
        ws = [gen_word(rng), gen_word(rng), gen_word(rng)]
    if rng.random() < 0.04:
        ws[1] = ws[0]                       # stop == start
    sp = ws[2]
    if neg_spacing:
        if ibm(sp) == 0: sp = ibm_encode(0.25)
        sp = bytes([sp[0] | 0x80]) + sp[1:]
    elif ibm(sp) != 0 and rng.random() < 0.75:
        sp = bytes([sp[0] & 0x7f]) + sp[1:]  # mostly a positive magnitude; otherwise the sign the generator drew
    ws[2] = sp
    return ws + [gen_word(rng), gen_word(rng)]


def gen_pass(rng, size, neg_spacing=False):
    """size: 'tiny' | 'small' | 'medium' | 'large'"""
    if size == 'tiny':
        nch, n, fib = rng.randint(1, 3), rng.randint(0, 5), rng.randint(1, 4)
    elif size == 'small':
        nch, n, fib = rng.choice([1, 2, 3, 5, 10, 20, rng.randint(1, 20)]), rng.randint(0, 40), rng.randint(1, 20)
    elif size == 'medium':
        nch, n, fib = rng.randint(1, 20), rng.randint(1, 400), rng.choice([1, 16, 16, rng.randint(1, 64)])
    else:
        nch, n, fib = rng.randint(1, 12), rng.randint(400, 2500), rng.choice([16, 16, 64, rng.randint(2, 64)])
    k = rng.random()
    if k < 0.1 and n: fib = n                        # one full block
    elif k < 0.2 and n: fib = n + rng.randint(1, 5)  # block size > frame count
    elif k < 0.3 and n > 1: fib = max(1, n // rng.randint(2, 4))
    names = gen_names(rng, nch)
    chans = [[gen_word(rng) for _ in range(n)] for _ in range(nch)]
    desc = ''.join(rng.choice('ABCDEFGHIJKLMNOPQRSTUVWXYZ ./0123456789') for _ in range(72)).encode('ascii')
    return {
        'head': rng.choice([b'\x00\x02\x00\x00', rng.randbytes(4)]), 'desc': desc, 'ua': rng.randbytes(5),
        'ub': rng.randbytes(75), 'uc': rng.randbytes(8),
        'null': b'\x00\x00' if rng.random() < 0.8 else rng.randbytes(2),
        'names': names, 'filler': (b' ' * (4 * (20 - nch))) if rng.random() < 0.7 else rng.randbytes(4 * (20 - nch)),
        'range': gen_range(rng, n, neg_spacing),
        'tail': rng.randbytes(8) if rng.random() < 0.8 else rng.randbytes(rng.randint(0, 20)),
        'fib': fib, 'chans': chans, 'n': n,
    }


def enc_line(passes):
    out = []
    for p in passes:
        data = b''.join(b''.join(c) for c in p['chans'])
        out.append(';'.join([hx(p['head']), hx(p['desc']), hx(p['ua']), hx(p['ub']), hx(p['uc']), hx(p['null']),
                             hx(b''.join(p['names'])), hx(p['filler']), hx(b''.join(p['range'])), hx(p['tail']),
                             str(p['fib']), str(len(p['names'])), hx(data)]))
    return 'enc ' + ' '.join(out)


def case_of(passes, data, variant='full'):
    """JSON-able replay case: the abstract content the oracle needs + the file bytes"""
    return {'op': 'file', 'variant': variant, 'hex': data.hex(),
            'passes': [{'names': [n.hex() for n in p['names']], 'desc': p['desc'].hex(), 'range': [w.hex() for w in p['range']],
                        'n': p['n'], 'fib': p['fib'], 'chans': [b''.join(c).hex() for c in p['chans']]} for p in passes]}


# ------------------------------------------------------------------ data blocks of "magic" byte lengths

#: byte lengths the reader knows as literals or as offsets of the 276-byte header block (ReadBIT.py): TIF marker 12 (and
#: 2 markers 24), float 4, header 276 (0x114) and its field boundaries 4/76/81/156/164/166/168/248/268, the 160-byte
#: description, the 80-byte name table, the docstring's 640-byte (0x280) block; plus neighbours of 276
MAGIC_BLOCK_LENGTHS = [4, 8, 12, 24, 72, 76, 80, 156, 160, 164, 168, 248, 268, 272, 276, 280, 288, 552, 640]


def magic_shapes(length):
    """(channels, frames in block) with 4 * channels * frames == length, channels <= 20"""
    w = length // 4
    return [(c, w // c) for c in range(1, 21) if length % 4 == 0 and w % c == 0]


def pass_with_block(rng, nch, nf, mode):
    """a pass whose data blocks hit 4*nch*nf bytes: mode 'regular' (every block), 'last' (only the short last block),
    'only' (a single block), 'first_then_short' (regular blocks of that size, shorter last one)"""
    if mode == 'regular':
        fib, n = nf, nf * rng.randint(2, 3)
    elif mode == 'only':
        fib, n = nf + rng.randint(0, 3), nf
    elif mode == 'last':
        fib = nf + rng.randint(1, 12); n = fib * rng.randint(1, 2) + nf
    else:
        fib = nf; n = nf * rng.randint(1, 2) + rng.randint(1, max(1, nf - 1)) if nf > 1 else nf * 2
    p = gen_pass(rng, 'tiny')
    p['names'] = gen_names(rng, nch); p['filler'] = b' ' * (4 * (20 - nch)); p['n'] = n; p['fib'] = fib
    p['chans'] = [[gen_word(rng) for _ in range(n)] for _ in range(nch)]
    return p


def magic_block_cases(rng, extra_random=0):
    """deterministic list of files (every magic length, as regular / only / short-last block, two channel shapes each,
    the 276-byte ones in every shape) followed by `extra_random` random picks"""
    cases = []
    for length in MAGIC_BLOCK_LENGTHS:
        shapes = magic_shapes(length)
        if not shapes:
            continue
        pick = shapes if length == 276 else [shapes[0], shapes[-1]] if len(shapes) > 1 else shapes
        for nch, nf in pick:
            for mode in ('regular', 'only', 'last', 'first_then_short'):
                ps = [pass_with_block(rng, nch, nf, mode)]
                if rng.random() < 0.5:
                    ps.append(gen_pass(rng, 'tiny'))       # a following pass: a spurious extra pass shifts it
                cases.append(ps)
    # the coordinator's example: 3 channels, 32 frames per block, 87 frames -> short last block of 23 frames = 276 bytes
    p = pass_with_block(rng, 3, 23, 'last'); p['fib'] = 32; p['n'] = 87
    p['chans'] = [[gen_word(rng) for _ in range(87)] for _ in range(3)]
    cases.append([p, gen_pass(rng, 'tiny')])
    for _ in range(extra_random):
        length = rng.choice(MAGIC_BLOCK_LENGTHS + [276, 276, 12, 24])
        shapes = magic_shapes(length)
        nch, nf = rng.choice(shapes)
        cases.append([pass_with_block(rng, nch, nf, rng.choice(['regular', 'only', 'last', 'first_then_short']))
                      for _ in range(rng.choice([1, 1, 2]))])
    return cases


# ------------------------------------------------------------------ python layout (malformed stream + cross-check)

def header_bytes(p, count=None):
    cnt = len(p['names']) if count is None else count
    return (p['head'] + p['desc'] + p['ua'] + p['ub'] + p['uc'] + struct.pack('>H', cnt) + p['null'] + b''.join(p['names'])
            + p['filler'] + b''.join(p['range']) + p['tail'])


def pass_records(p):
    recs = [[0, header_bytes(p)]]
    n, fib = p['n'], p['fib']
    for s in range(0, n, fib):
        recs.append([0, b''.join(b''.join(c[s:s + fib]) for c in p['chans'])])
    recs.append([1, b''])
    return recs


def file_records(passes):
    recs = []
    for p in passes:
        recs += pass_records(p)
    recs.append([1, b''])
    return recs


def layout(recs):
    out, tell, prev = b'', 0, 0
    for typ, payload in recs:
        nxt = tell + 12 + len(payload)
        out += struct.pack('<3L', typ & 0xffffffff, prev & 0xffffffff, nxt & 0xffffffff) + payload
        prev, tell = tell, nxt
    return out


# ------------------------------------------------------------------ the property oracle (implementation alone)

def oracle_file(ctx, R, passes, data, variant='full', fas='unset', case=None, out=None):
    """passes: abstract content; data: file bytes. Returns number of failures recorded."""
    ctx.count('oracle_cases')
    case = case or case_of(passes, data, variant)
    if fas == 'unset':
        out, fas = impl_read(R, data)
    if fas is None:
        ctx.fail(case, f'reader raised on a well-formed file: {out}'); return 1
    if len(fas) != len(passes):
        ctx.fail(case, f'{len(fas)} log passes read, {len(passes)} recorded'); return 1
    f12_values = 0
    for i, (p, fa) in enumerate(zip(passes, fas)):
        where = f'pass {i}: '
        names = [n.decode('ascii') for n in p['names']]
        if fa.ident != str(i): ctx.fail(case, where + f'ident {fa.ident!r}'); return 1
        if fa.channel_names != names: ctx.fail(case, where + f'channel names {fa.channel_names} != {names}'); return 1
        if fa.description != p['desc']: ctx.fail(case, where + 'description differs'); return 1
        rng_exp = [ibm(w) for w in p['range']]
        got = list(fa.bit_log_pass_range)
        if [fl(v) for v in got] != [fl(v) for v in rng_exp]:
            ctx.fail(case, where + f'header numbers {got} != IBM values {rng_exp}'); return 1
        if fa.frame_count != p['n']:
            ctx.fail(case, where + f'frame_count {fa.frame_count} != recorded {p["n"]}'); return 1
        if fa.frame_array is None:
            ctx.fail(case, where + 'no frame array'); return 1
        chs = fa.frame_array.channels
        if [c.ident for c in chs] != ['X   '] + names:
            ctx.fail(case, where + f'frame array channels {[c.ident for c in chs]}'); return 1
        for c, (ch, words) in enumerate(zip(chs[1:], p['chans'])):
            vals = ch.array[:, 0].tolist() if ch.array.ndim == 2 else None
            if vals is None or len(vals) != p['n'] or ch.array.shape != (p['n'], 1):
                ctx.fail(case, where + f'channel {c} shape {ch.array.shape} for {p["n"]} frames'); return 1
            for f, (v, w) in enumerate(zip(vals, words)):
                e = ibm(w)
                if v == e:
                    continue
                if e != 0 and v == f12(w):
                    f12_values += 1
                    continue
                ctx.fail(case, where + f'channel {c} frame {f}: bytes {w.hex()} read as {v!r} ({v.hex()}), IBM value {e!r}, '
                               f'F12 value {f12(w)!r}')
                return 1
        # X axis
        xs = chs[0].array[:, 0].tolist()
        if len(xs) != p['n'] or chs[0].array.shape != (p['n'], 1):
            ctx.fail(case, where + f'X axis has {len(xs)} values for {p["n"]} frames'); return 1
        start, stop, sp = rng_exp[0], rng_exp[1], rng_exp[2]
        if xs:
            if xs[0] != start:
                ctx.fail(case, where + f'X axis starts at {xs[0]!r}, header start {start!r}'); return 1
            mag = abs(sp)
            dirs = [1.0] if stop > start else [-1.0] if stop < start else [1.0, -1.0]
            ok = False
            for d in dirs:
                x, good = start, True
                for v in xs:
                    if v != x: good = False; break
                    x = x + d * mag
                ok = ok or good
            if not ok:
                ctx.fail(case, where + f'X axis {xs[:4]}.. does not move from {start!r} by {mag!r} towards {stop!r}'); return 1
    nfail = 0
    if f12_values:
        known_fail(ctx, case, f'{f12_values} frame value(s) equal IBM(bytes)*2^24/(2^24-1) instead of IBM(bytes)', F12); nfail += 1
    return nfail


def nontriv_key(passes):
    import hashlib
    h = hashlib.sha1()
    for p in passes:
        h.update(b''.join(p['names'])); h.update(struct.pack('<2L', p['n'], p['fib']))
        for c in p['chans']: h.update(b''.join(c))
    return ('file', len(passes), h.hexdigest()[:16])


def is_nontriv(passes):
    return any(p['n'] >= 2 and any(ibm(w) != 0 for c in p['chans'] for w in c) for p in passes)


# ------------------------------------------------------------------ streams

def stream_words(ctx, R):
    from TotalDepth.RP66V1.core import File, pRepCode
    rng = ctx.rng
    ws = []
    # structured: every first byte with characteristic mantissas; every (b0 in a few, b1) pair
    mants = [b'\x00\x00\x00', b'\x00\x00\x01', b'\x10\x00\x00', b'\x80\x00\x00', b'\xff\xff\xff', b'\x68\xdb\x8b', b'\x0f\xff\xff',
             b'\x76\xa0\x00', b'\x55\x55\x55', b'\xaa\xaa\xab']
    for b0 in range(256):
        for m in mants:
            ws.append(bytes([b0]) + m)
    for b0 in (0x00, 0x3d, 0x40, 0x41, 0x42, 0x44, 0x7f, 0xc2):
        for b1 in range(256):
            ws.append(bytes([b0, b1, 0, 0])); ws.append(bytes([b0, b1, 0xff, 0xff]))
    ws += [bytes.fromhex(h) for h in ('42100000', 'c276a000', '3d68db8b', '443a6600', '4438fe00', '40400000', '4d4e3233', '394a2031')]
    for _ in range(ctx.n(60000, 600000)):
        ws.append(gen_word(rng) if rng.random() < 0.5 else rng.randbytes(4))
    B = 4000
    reqs = ['flt ' + b''.join(ws[i:i + B]).hex() for i in range(0, len(ws), B)]
    reps = ctx.lean(reqs)
    model = [e for r in reps for e in r.split(',')]
    bad_model = len(model) != len(ws)
    n12 = 0
    for k, w in enumerate(ws):
        g = list(R.gen_floats(w))[0]
        h = R.bytes_to_float(w)
        i = pRepCode.ISINGL(File.LogicalData(w))
        ctx.corr('words', {'op': 'word', 'hex': w.hex()}, f'g={fl(g)} h={fl(h)} i={fl(i)}', 'missing' if bad_model else model[k])
        # oracle: the three decoders give the IBM value of the bytes
        ctx.count('oracle_cases')
        e = ibm(w)
        case = {'op': 'word', 'hex': w.hex()}
        if fl(h) != fl(e) or fl(i) != fl(e):
            ctx.fail(case, f'bytes {w.hex()}: bytes_to_float {h!r}, ISINGL {i!r}, IBM value {e!r}')
        elif g != e:
            if e != 0 and g == f12(w):
                n12 += 1
                if n12 <= 20:
                    ctx.fail(case, f'gen_floats({w.hex()}) = {g!r}, header decoder and ISINGL give {e!r}', finding=F12)
                else:
                    ctx.count('f12_words_beyond_cap')
            else:
                ctx.fail(case, f'gen_floats({w.hex()}) = {g!r} ({g.hex()}), IBM value {e!r}, F12 value {f12(w)!r}')
        elif fl(g) != fl(e):
            ctx.fail(case, f'gen_floats({w.hex()}) = {g!r} has the wrong zero sign')
        if e != 0:
            ctx.nontriv(('word', w))
    ctx.count('word_cases', len(ws))
    ctx.sample({'op': 'word', 'hex': '42100000', 'model_reply': model[0] if model else None})
    # cross-check of the oracle's own rounding helper against fractions.Fraction on a sample
    from fractions import Fraction
    for _ in range(2000):
        m = rng.randrange(1, 1 << 24)
        if float(Fraction(m, 0xffffff)) != rn_div(m, 0xffffff):
            raise AssertionError(f'harness self-check: rn_div({m}) disagrees with Fraction')


def stream_files(ctx, R):
    rng = ctx.rng
    plan = [('tiny', ctx.n(200, 1500)), ('small', ctx.n(200, 1500)), ('medium', ctx.n(100, 600)), ('large', ctx.n(16, 100))]
    cases = []
    for size, cnt in plan:
        for _ in range(cnt):
            np_ = rng.choice([1, 1, 2, 2, 3, 4]) if size != 'large' else rng.choice([1, 2])
            cases.append([gen_pass(rng, size) for _ in range(np_)])
    # the shape of the example file: 10 channels, 16 frames per block, 128 and 1472 frames
    for _ in range(ctx.n(1, 4)):
        ps = [gen_pass(rng, 'large'), gen_pass(rng, 'medium')]
        for p, n in zip(ps, (1472, 128)):
            p['names'] = [n_.encode() for n_ in REAL_NAMES[:10]]; p['filler'] = b' ' * 40; p['fib'] = 16; p['n'] = n
            p['chans'] = [[gen_word(rng) for _ in range(n)] for _ in range(10)]
        cases.append(ps)
    # data blocks whose byte length equals a length the reader treats specially (276-byte header, 12-byte TIF marker, ...)
    mb = magic_block_cases(rng, ctx.n(30, 400))
    cases += mb
    for ps in mb:
        ctx.nontriv(('magic_block', len(ps[0]['names']), ps[0]['fib'], ps[0]['n']))
    # many log passes: the reader numbers them with decimal strings, so cross 10 / 11 / 20 / 21 / 100 / 101 passes
    # (every pass differs from the others at least in its 72-byte description, frame count and data; the oracle is positional)
    many = [11, 12, 21, 10, 13, 20, 30, rng.randint(5, 30), rng.randint(5, 30), rng.randint(22, 30), 101, rng.randint(100, 130)]
    many += [rng.randint(1, 30) for _ in range(ctx.n(10, 120))] + [rng.randint(100, 260) for _ in range(ctx.n(0, 6))]
    for k in many:
        ps = [gen_pass(rng, 'tiny' if k > 30 or rng.random() < 0.7 else 'small') for _ in range(k)]
        for j, p in enumerate(ps):               # make neighbours and decimal look-alikes (1/10/11, 2/20/21) differ visibly
            p['desc'] = (f'PASS {j:05d} OF {k:05d} '.encode('ascii') + p['desc'])[:72]
        cases.append(ps)
        ctx.nontriv(('many_passes', k))
    # other counts past their thresholds: 9/10/11/19/20 channels, >= 100 and >= 1000 blocks, 9999/10000/10001 frames
    for nch in (9, 10, 11, 19, 20):
        p = gen_pass(rng, 'small'); n = rng.randint(2, 30)
        p['names'] = gen_names(rng, nch); p['filler'] = b' ' * (4 * (20 - nch)); p['n'] = n
        p['chans'] = [[gen_word(rng) for _ in range(n)] for _ in range(nch)]
        cases.append([p]); ctx.nontriv(('channels', nch))
    for n, fib, nch in [(101, 1, 2), (1001, 1, 1), (1200, 1, 3), (rng.choice([9999, 10000, 10001]), rng.choice([1, 16, 100]), 1)] + \
                       ([(9999, 16, 2), (10000, 1, 1), (10001, 100, 1), (100001, 1000, 1)] if ctx.tier == 'thorough' else []):
        p = gen_pass(rng, 'tiny')
        p['names'] = gen_names(rng, nch); p['filler'] = b' ' * (4 * (20 - nch)); p['n'] = n; p['fib'] = fib
        p['chans'] = [[gen_word(rng) for _ in range(n)] for _ in range(nch)]
        cases.append([p, gen_pass(rng, 'tiny')]); ctx.nontriv(('blocks', n, fib))
    files = [bytes.fromhex(r) if r != '-' else b'' for r in ctx.lean([enc_line(ps) for ps in cases])]
    dec = ctx.lean(['dec ' + hx(f) for f in files])
    for ps, data, m in zip(cases, files, dec):
        if layout(file_records(ps)) != data:
            ctx.corr('encoder', {'op': 'enc', 'n': [p['n'] for p in ps]}, 'python layout differs', 'lean spec encoder')
        else:
            ctx.corr('encoder', None, '', '')
        out, fas = impl_read(R, data)
        ctx.corr('files', case_of(ps, data), out, m)
        oracle_file(ctx, R, ps, data, 'full', fas, out=out)
        if is_nontriv(ps):
            ctx.nontriv(nontriv_key(ps))
    ctx.sample({'op': 'file', 'passes': [{'names': [n.decode() for n in p['names']], 'frames': p['n'], 'frames_per_block': p['fib']}
                                          for p in cases[len(cases) // 2]], 'bytes': len(files[len(cases) // 2])})
    # other well-formed endings: without the final type-1 marker, without any end marker
    var = []
    for ps, data in list(zip(cases, files))[:ctx.n(150, 1500)]:
        var.append((ps, data[:-12], 'one_end_marker'))
        var.append((ps, data[:-24], 'no_end_marker'))
        var.append((ps, data + struct.pack('<3L', 1, len(data) - 12, len(data) + 12), 'three_end_markers'))
        var.append((ps, data + rng.randbytes(rng.randint(1, 30)), 'junk_after_end'))
    dec = ctx.lean(['dec ' + hx(d) for _, d, _ in var])
    for (ps, data, v), m in zip(var, dec):
        out, fas = impl_read(R, data)
        ctx.corr('files_endings', case_of(ps, data, v), out, m)
        oracle_file(ctx, R, ps, data, v, fas, out=out)
    ctx.count('file_cases', len(cases) + len(var))
    return cases, files


def stream_negative_spacing(ctx, R):
    rng = ctx.rng
    cases = [[gen_pass(rng, 'tiny', neg_spacing=True)] for _ in range(ctx.n(6, 40))]
    for ps in cases:
        if ps[0]['n'] < 2:
            ps[0]['n'] = 3; ps[0]['chans'] = [[gen_word(rng) for _ in range(3)] for _ in ps[0]['names']]
    files = [bytes.fromhex(r) for r in ctx.lean([enc_line(ps) for ps in cases])]
    dec = ctx.lean(['dec ' + hx(f) for f in files])
    for ps, data, m in zip(cases, files, dec):
        out, fas = impl_read(R, data)
        ctx.corr('files_negative_spacing', case_of(ps, data), out, m)
        oracle_file(ctx, R, ps, data, 'full', fas, out=out)


def damage(rng, ps):
    """yield (label, bytes) damaged variants of the file for content ps"""
    recs = file_records(ps)
    good = layout(recs)
    import copy

    def relayout(f):
        r = copy.deepcopy(recs); f(r); return layout(r)
    marks = []
    t = 0
    for typ, payload in recs:
        marks.append(t); t += 12 + len(payload)
    # TIF marker damage
    for _ in range(6):
        k = rng.randrange(len(recs)); pos = marks[k]
        b = bytearray(good)
        what = rng.choice(['type', 'next', 'prev', 'next0', 'nextshort', 'nextlong'])
        if what == 'type': b[pos:pos + 4] = struct.pack('<L', rng.choice([1, 2, 3, 0, 0xffffffff, 256]))
        elif what == 'prev': b[pos + 4:pos + 8] = rng.randbytes(4)
        elif what == 'next': b[pos + 8:pos + 12] = rng.randbytes(4)
        elif what == 'next0': b[pos + 8:pos + 12] = b'\0\0\0\0'
        elif what == 'nextshort': b[pos + 8:pos + 12] = struct.pack('<L', max(0, pos + 12 - rng.randint(1, 20)))
        else: b[pos + 8:pos + 12] = struct.pack('<L', len(good) + rng.randint(0, 50))
        yield 'tif_' + what, bytes(b)
    # header damage (first pass)
    p0 = ps[0]
    nch = len(p0['names'])

    def hdr(fn):
        q = dict(p0); q = fn(q) or q
        return lambda r: r.__setitem__(0, [0, q if isinstance(q, bytes) else header_bytes(q)])
    for cnt in (0, 21, 65535, 256, max(0, nch - 1), min(20, nch + 1), 20):
        yield f'count_{cnt}', relayout(lambda r, cnt=cnt: r.__setitem__(0, [0, header_bytes(p0, cnt)]))
    if nch:
        j = rng.randrange(nch)
        nm = list(p0['names']); nm[j] = bytes([nm[j][0] | 0x80]) + nm[j][1:]
        yield 'name_non_ascii', relayout(hdr(lambda q: q.update(names=nm)))
        nm = list(p0['names']); nm[j] = X_NAME
        yield 'name_X', relayout(hdr(lambda q: q.update(names=nm)))
    if nch >= 2:
        nm = list(p0['names']); nm[rng.randrange(1, nch)] = nm[0]
        yield 'name_duplicate', relayout(hdr(lambda q: q.update(names=nm)))
    full = header_bytes(p0)
    for cut in sorted({0, 3, 4, 75, 76, 80, 81, 155, 156, 163, 164, 165, 166, 167, 168, 168 + 4 * nch - 1, 168 + 4 * nch, 247, 248, 251,
                       267, 268, 275, rng.randrange(277)}):
        yield f'header_len_{cut}', relayout(lambda r, cut=cut: r.__setitem__(0, [0, full[:cut]]))
    yield 'header_longer', relayout(lambda r: r.__setitem__(0, [0, full + rng.randbytes(rng.randint(1, 40))]))
    # data block damage
    data_idx = [i for i, (typ, pl) in enumerate(recs) if typ == 0 and i > 0 and len(recs[i][1]) != 276]
    if data_idx:
        for _ in range(6):
            k = rng.choice(data_idx)
            pl = recs[k][1]
            what = rng.choice(['plus1', 'plus2', 'plus3', 'plus4', 'plusnc', 'minus1', 'minus4', 'empty', 'short', 'plus4nc'])
            new = {'plus1': pl + b'\x41', 'plus2': pl + b'\x41\x42', 'plus3': pl + b'\x41\x10\x00', 'plus4': pl + b'\x41\x10\x00\x00',
                   'plusnc': pl + rng.randbytes(max(nch, 1)), 'minus1': pl[:-1], 'minus4': pl[:-4], 'empty': b'',
                   'short': pl[:rng.randint(0, max(0, 4 * nch - 1))], 'plus4nc': pl + rng.randbytes(4 * max(nch, 1))}[what]
            yield 'block_' + what, relayout(lambda r, k=k, new=new: r.__setitem__(k, [0, new]))
    # structure
    yield 'leading_end_marker', layout([[1, b'']] + recs)
    yield 'no_separator', layout([r for i, r in enumerate(recs) if not (r[0] == 1 and i < len(recs) - 2)])
    yield 'type2_end', layout([[2 if t else 0, pl] for t, pl in recs])
    yield 'empty_file', b''
    yield 'only_end', layout([[1, b''], [1, b'']])
    yield 'data_first', layout(recs[1:])
    # truncation and byte flips
    for _ in range(6):
        yield 'truncate', good[:rng.randrange(len(good) + 1)]
    for m in marks[:40]:
        for d in (0, 1, 11, 12, 13):
            if m + d <= len(good): yield 'truncate_at_marker', good[:m + d]
    for _ in range(8):
        b = bytearray(good); k = rng.randrange(len(b)); b[k] ^= 1 << rng.randrange(8)
        yield 'bitflip', bytes(b)
    for _ in range(4):
        b = bytearray(good); k = rng.randrange(min(len(b), 400)); b[k] = rng.randrange(256)
        yield 'byte_in_header', bytes(b)


def stream_malformed(ctx, R):
    rng = ctx.rng
    items = []
    for _ in range(ctx.n(100, 700)):
        ps = [gen_pass(rng, rng.choice(['tiny', 'tiny', 'small'])) for _ in range(rng.choice([1, 1, 2, 3]))]
        for label, data in damage(rng, ps):
            items.append((label, data))
    # truncation at every byte of tiny files
    for _ in range(ctx.n(3, 25)):
        ps = [gen_pass(rng, 'tiny') for _ in range(rng.choice([1, 2]))]
        good = layout(file_records(ps))
        for k in range(len(good) + 1):
            items.append(('truncate_every', good[:k]))
    # zero-channel pass (frame_array is None) followed by a normal one
    for _ in range(ctx.n(5, 50)):
        ps = [gen_pass(rng, 'tiny'), gen_pass(rng, 'tiny')]
        z = ps[0]; z['names'] = []; z['filler'] = b' ' * 80
        recs = file_records(ps)
        recs[0] = [0, header_bytes(z)]
        items.append(('zero_channels', layout(recs)))
    dec = ctx.lean(['dec ' + hx(d) for _, d in items])
    classes = {}
    for (label, data), m in zip(items, dec):
        out, fas = impl_read(R, data)
        ctx.corr('malformed', {'op': 'bytes', 'label': label, 'hex': data.hex()}, out, m)
        if fas is not None:
            # whatever the bytes: a frame array that is returned is rectangular and as long as the reported frame count
            ctx.count('oracle_cases')
            for p in fas:
                if p.frame_array is not None and any(len(c.array) != p.frame_count for c in p.frame_array.channels):
                    ctx.fail({'op': 'bytes', 'label': label, 'hex': data.hex()},
                             f'pass {p.ident}: frame_count {p.frame_count} but channel lengths {[len(c.array) for c in p.frame_array.channels]}')
                    break
        cls = out.split(' ')[0] + ' ' + (out.split(' ')[1] if out.startswith('err') else '')
        classes[cls] = classes.get(cls, 0) + 1
        ctx.nontriv(('malformed', label, cls))
    ctx.count('malformed_cases', len(items))
    ctx.extra['malformed_outcomes'] = {k.strip(): v for k, v in sorted(classes.items())}


# ------------------------------------------------------------------ object history: one open handle, many operations

import string as _string
_PRINTABLE = set(_string.printable.encode('ascii'))


def expected_is_bit(data):
    """what is_bit_file must answer for these file bytes (reference written from the is_bit_file docstring/code: first TIF
    marker with next != 0, then 4 bytes, a 160-byte block whose bytes 0..72 and 96..152 are printable, a count <= 20
    and that many printable 4-byte names) — a pure function of the bytes, independent of any handle position"""
    if len(data) < 12 or struct.unpack('<L', data[8:12])[0] == 0:
        return False
    r = data[16:176]
    if len(r) < 160 or any(v not in _PRINTABLE for v in r[:72]) or any(v not in _PRINTABLE for v in r[96:152]):
        return False
    count = struct.unpack('>H', data[176:178])[0]
    if count > 20:
        return False
    return all(v in _PRINTABLE for v in data[180:180 + 4 * count])


def gen_history(rng, size):
    """a random sequence of operations on one handle; every sequence decodes at least twice"""
    ops = []
    for _ in range(rng.randint(3, 9)):
        k = rng.random()
        if k < 0.22: ops.append(['is_bit'])
        elif k < 0.50: ops.append(['decode'])
        elif k < 0.62: ops.append(['decode']); ops.append(['decode'])
        elif k < 0.74: ops.append(['seek', rng.choice([0, 1, 11, 12, 16, 176, 180, 288, size // 2, max(size - 1, 0), size, size + 5,
                                                        rng.randint(0, size)])])
        elif k < 0.84: ops.append(['read', rng.choice([1, 4, 12, 276, rng.randint(0, size + 3)])])
        elif k < 0.94: ops.append(['seek_end'])
        else: ops.append(['tell'])
    ops.append(rng.choice([['is_bit'], ['seek_end'], ['read', 7], ['seek', rng.randint(1, max(size, 1))]]))
    ops.append(['decode'])
    return ops


FIXED_HISTORIES = [
    [['is_bit'], ['decode']],                       # the handle is left inside the header by is_bit_file
    [['seek_end'], ['decode']],                     # size query first
    [['decode'], ['decode']],                       # twice in a row: the second result equals the first
    [['read', 7], ['decode'], ['is_bit'], ['decode']],
    [['seek', 12], ['decode']],
    [['decode'], ['is_bit'], ['seek_end'], ['is_bit'], ['decode']],
]


def run_history(ctx, R, passes, data, kind, ops, path=None, model=None, record=True):
    """execute ops on ONE handle (kind 'bytesio' | 'disk'); every decode must give the recorded content and every
    is_bit_file the same answer, whatever the handle position before the call. Returns list of failure details."""
    import os
    case = dict(case_of(passes, data, 'history'), op='history', kind=kind, ops=ops)
    fails = []
    if kind == 'disk':
        if path is None:
            path = os.path.join(ctx.scratch, f'hist_{ctx.stats["history_files"]}.bit'); ctx.count('history_files')
            with open(path, 'wb') as fh:
                fh.write(data)
        handle = open(path, 'rb')
    else:
        handle = io.BytesIO(data)
    want_bit = expected_is_bit(data)
    first = None
    try:
        for k, op in enumerate(ops):
            if op[0] == 'seek': handle.seek(op[1])
            elif op[0] == 'seek_end': handle.seek(0, 2)
            elif op[0] == 'read': handle.read(op[1])
            elif op[0] == 'tell': handle.tell()
            elif op[0] == 'is_bit':
                ctx.count('oracle_cases')
                pos = handle.tell()
                try:
                    got = R.is_bit_file(handle)
                except Exception as e:      # noqa
                    got = f'{type(e).__name__}: {e}'
                if got is not want_bit:
                    d = f'op {k} is_bit_file with the handle at {pos}: {got!r}, expected {want_bit!r} for this file'
                    fails.append(d); ctx.fail(case, d); break
            elif op[0] == 'decode':
                pos = handle.tell()
                out, fas = impl_read_handle(R, handle)
                if model is not None:
                    ctx.corr('history', case if record else None, out, model)
                n0 = len(ctx.failures)
                oracle_file(ctx, R, passes, data, 'history', fas, case=case,
                            out=f'{out} (op {k}: decode through the {kind} handle positioned at {pos})')
                new = [f for f in ctx.failures[n0:] if not f['finding']]
                if new:
                    new[-1]['detail'] = f'op {k} decode with the {kind} handle at {pos}: ' + new[-1]['detail']
                    fails.append(new[-1]['detail']); break
                if first is None:
                    first = out
                elif out != first:
                    d = f'op {k} decode with the {kind} handle at {pos} differs from the first decode through the same handle'
                    fails.append(d); ctx.fail(case, d); break
    finally:
        handle.close()
    return fails


def stream_history(ctx, R, cases, files):
    """cases/files: abstract contents and their encoded bytes (from stream_files)"""
    rng = ctx.rng
    pool = [(ps, data) for ps, data in zip(cases, files) if len(data) < 6000][:ctx.n(140, 1200)]
    # make a share of them look like BIT files to is_bit_file (printable block) so that both answers occur
    reqs, plan = [], []
    for j, (ps, data) in enumerate(pool):
        if j % 2 == 0:
            ps = [dict(p) for p in ps]
            ps[0]['ub'] = bytes(rng.choice(b'ABCDEFGHIJKLMNOPQRSTUVWXYZ 0123456789/-') for _ in range(75))
            data = layout(file_records(ps))
        hs = ([FIXED_HISTORIES[j % len(FIXED_HISTORIES)]] if j < 4 * len(FIXED_HISTORIES) else []) + [gen_history(rng, len(data))]
        for ops in hs:
            for kind in ('bytesio', 'disk'):
                plan.append((ps, data, kind, ops))
        # the model's answer for a handle at the positions used (position independence of readHandle)
        reqs.append(f'decat {rng.choice([0, 12, 180, len(data) // 2, len(data), len(data) + 3])} {hx(data)}')
    model = ctx.lean(reqs)
    by_data = {}
    for r, m in zip(reqs, model):
        by_data[r.split(' ')[2]] = m
    for ps, data, kind, ops in plan:
        run_history(ctx, R, ps, data, kind, ops, model=by_data[hx(data)], record=len(data) < 1500)
        ctx.nontriv(('history', kind, tuple(o[0] for o in ops)))
    ctx.count('history_cases', len(plan))
    ctx.sample({'op': 'history', 'kind': 'disk', 'ops': plan[-1][3], 'bytes': len(plan[-1][1])})


def run(ctx):
    R = _impl()
    _quiet()
    try:
        stream_words(ctx, R)
        cases, files = stream_files(ctx, R)
        stream_history(ctx, R, cases, files)
        stream_negative_spacing(ctx, R)
        stream_malformed(ctx, R)
    finally:
        logging.disable(logging.NOTSET)


def _passes_from_case(case):
    ps = []
    for q in case['passes']:
        chans = [[bytes.fromhex(c)[i:i + 4] for i in range(0, len(c) // 2, 4)] for c in q['chans']]
        ps.append({'names': [bytes.fromhex(n) for n in q['names']], 'desc': bytes.fromhex(q['desc']),
                   'range': [bytes.fromhex(w) for w in q['range']], 'n': q['n'], 'fib': q['fib'], 'chans': chans})
    return ps


def replay(ctx, rec):
    R = _impl()
    _quiet()
    case = rec.get('case') or {}
    try:
        if case.get('op') == 'file':
            ps = _passes_from_case(case)
            n0 = len(ctx.failures)
            oracle_file(ctx, R, ps, bytes.fromhex(case['hex']), case.get('variant', 'full'))
            new = ctx.failures[n0:]
            unlisted = [f for f in new if not f['finding']]
            known = '; '.join(f"{f['detail']} [known finding {f['finding']}]" for f in new if f['finding'])
            if unlisted:
                return False, '; '.join(f['detail'] for f in unlisted) + (f' (also: {known})' if known else '')
            return True, ('every name, count, header number, frame value and X value equals the recorded content'
                          + (f', except: {known}' if known else ''))
        if case.get('op') == 'history':
            ps = _passes_from_case(case)
            fails = run_history(ctx, R, ps, bytes.fromhex(case['hex']), case['kind'], case['ops'])
            if fails:
                return False, '; '.join(fails)
            return True, f'every decode and is_bit_file through the one {case["kind"]} handle gave the answer for the file ({case["ops"]})'
        if case.get('op') == 'word':
            w = bytes.fromhex(case['hex'])
            g = list(R.gen_floats(w))[0]; h = R.bytes_to_float(w); e = ibm(w)
            if fl(h) == fl(e) and e != 0 and g == f12(w) and g != e:
                return True, (f'bytes {w.hex()}: bytes_to_float {h!r} is the IBM value; gen_floats {g!r} is IBM*2^24/(2^24-1) '
                              f'[known finding {F12}]')
            if fl(h) != fl(e) or fl(g) != fl(e):
                return False, f'bytes {w.hex()}: gen_floats {g!r}, bytes_to_float {h!r}, IBM value {e!r}'
            return True, f'bytes {w.hex()} decode to {e!r} in both decoders'
        if case.get('op') == 'bytes':
            out, fas = impl_read(R, bytes.fromhex(case['hex']))
            for p in fas or []:
                if p.frame_array is not None and any(len(c.array) != p.frame_count for c in p.frame_array.channels):
                    return False, f'pass {p.ident}: frame_count {p.frame_count} but channel lengths {[len(c.array) for c in p.frame_array.channels]}'
            return True, f'result now: {out[:200]} (recorded: {rec.get("detail")})'
        return True, 'nothing to replay (no concrete failing input was recorded)'
    finally:
        logging.disable(logging.NOTSET)


def search(ctx):
    """extra oracle budget when a proof or the correspondence broke: more small files"""
    R = _impl()
    _quiet()
    try:
        rng = ctx.rng
        cases = magic_block_cases(rng, 200)
        cases += [[gen_pass(rng, rng.choice(['tiny', 'small'])) for _ in range(rng.choice([1, 2]))] for _ in range(400)]
        for ps in cases:
            data = layout(file_records(ps))
            oracle_file(ctx, R, ps, data, 'full')
    finally:
        logging.disable(logging.NOTSET)
