"""C14 — DAT mud-log files parse to their declared channels and values (TotalDepth/DAT/DAT_parser.py)."""
import ast, os

CLAIM = {
 'text': ('Lean 4 theorems, universally quantified over DAT contents and whitespace layouts, about a line-for-line model of '
          'DAT_parser._parse_file and its three conversion functions: dat_parse_print (parse(print(content, layout)) = the '
          'content: channels, order, descriptions, units, dtype kind, exact values), dat_layout_independent, errors_are_dat '
          '(every failure of the model parser is a DAT error, for every text), can_parse_never_raises, '
          'row_width_mismatch_rejected, undeclared_channel_rejected, bad_number_rejected. The model is tied to the source on '
          'every run by (a) regenerating the regex literals, conversion/dtype key tables, month list, strptime format and '
          'two-digit-year test from the source with ast (gen_tables_as_modelled breaks when one changes) and (b) a '
          'correspondence run of parse_file / can_parse_file, the compiled regexes and every conversion function against the '
          'model on generated files, their single-line corruptions and token streams. The property oracle is evaluated on '
          'the implementation alone. Proof is the right level: the property quantifies over unbounded texts and layouts.'),
 'note': ('Trusted: Lean kernel; model<->code correspondence on the cases of the run; str.strip/split/translate, re, '
          'float(), int(), time.gmtime, datetime constructors and strptime are transcribed into the model, not verified. '
          'Rounding decimal -> binary64 is Python float(); the model keeps the exact decimal. Not a theorem: the value of '
          'can_parse_file on printed files (correspondence + oracle only); bad_number_rejected is stated on the scanner state.'),
 'technique': 'Lean 4 proof (structural induction on lines/tokens, omega for calendar arithmetic) + model-implementation correspondence',
 'design_ref': 'DESIGN.md section 6 C14',
}

RULE = ('content model (declared channels in random order, header UTIM DATE TIME + non-empty subset, 0..n rows, both date '
        'spellings, 1/2-digit fields, decimal number grammar) printed under a random whitespace layout by the Lean spec '
        'printer and by harness/gen/dat.py; every catalogue corruption applied to exactly one line. A case is non-trivial '
        'when the file has >= 1 data row and >= 1 float channel (valid stream) or when the corruption changes the text '
        '(corruption stream); distinct by (text hash).')
ASSUMPTIONS = [
    'float(token) is the correctly rounded binary64 of the decimal the token denotes (model keeps the exact decimal)',
    'time.gmtime / datetime constructors: proleptic Gregorian calendar, years 1..9999 (transcribed from CPython ord_to_ymd)',
    'no Unicode decimal digits other than ASCII 0-9 in the input (Python \\d, int(), float() accept them; never generated)',
    'the file object is an io.StringIO of the text (lines end at \\n only)',
]
TRUSTED = ['modelled, not verified: str.strip/split/translate, re (four regular expressions as hand-written scanners, '
           'literals pinned by Props.gen_tables_as_modelled), float(), int(), time.gmtime, datetime.datetime/date/time, '
           'datetime.strptime("%H-%M-%S") — compared with the real functions on every generated token',
           'harness/props/c14.py translate(): ast extraction of literals from DAT_parser.py into lean/TD/TD/Gen/C14Tables.lean']


# ------------------------------------------------------------------ translate: source -> Lean tables

def _repo():
    import core
    return core.REPO


def _lean_str(s):
    out = []
    for ch in s:
        if ch == '\\': out.append('\\\\')
        elif ch == '"': out.append('\\"')
        elif 32 <= ord(ch) < 127: out.append(ch)
        else: out.append('\\u{%x}' % ord(ch))
    return '"' + ''.join(out) + '"'


def _cps(s):
    return '[' + ', '.join(str(ord(c)) for c in s) + ']'


def extract_tables(path):
    """Read the literals the model depends on from DAT_parser.py. Missing items come back as None."""
    tree = ast.parse(open(path, encoding='utf-8').read())
    res = {'regex': {}, 'conversion': None, 'types': None, 'months': None, 'time_format': None, 'pivot': None}

    def keymap(node, valname):
        out = []
        if not isinstance(node, ast.Dict):
            return None
        for k, v in zip(node.keys, node.values):
            if not (isinstance(k, ast.Tuple) and len(k.elts) == 2 and all(isinstance(e, ast.Constant) and isinstance(e.value, str) for e in k.elts)):
                return None
            out.append((k.elts[0].value, k.elts[1].value, valname(v)))
        return out

    def vname(v):
        if isinstance(v, ast.Name): return v.id
        if isinstance(v, ast.Attribute): return ast.unparse(v)
        return ast.unparse(v)

    for node in tree.body:
        if isinstance(node, ast.Assign) and len(node.targets) == 1 and isinstance(node.targets[0], ast.Name):
            name = node.targets[0].id
            v = node.value
            if name.startswith('RE_') and isinstance(v, ast.Call) and ast.unparse(v.func) == 're.compile' and v.args \
                    and isinstance(v.args[0], ast.Constant) and isinstance(v.args[0].value, str):
                flags = ','.join([ast.unparse(a) for a in v.args[1:]] + [f'{k.arg}={ast.unparse(k.value)}' for k in v.keywords])
                res['regex'][name] = v.args[0].value + (f' FLAGS({flags})' if flags else '')
            elif name == 'NAME_VALUE_CONVERSION_MAP':
                res['conversion'] = keymap(v, vname)
            elif name == 'NAME_UNITS_TYPE_MAP':
                res['types'] = keymap(v, vname)
        elif isinstance(node, ast.FunctionDef) and node.name == '_unit_ddmmyy_to_datetime_date':
            for sub in ast.walk(node):
                if isinstance(sub, ast.List) and len(sub.elts) >= 1 and all(isinstance(e, ast.Constant) and isinstance(e.value, str) for e in sub.elts):
                    res['months'] = [e.value for e in sub.elts]
                if isinstance(sub, ast.If) and isinstance(sub.test, ast.Compare):
                    res['pivot'] = ast.unparse(sub.test) if ast.unparse(sub.test).startswith('yr') else res['pivot']
        elif isinstance(node, ast.FunctionDef) and node.name == '_unit_hhmmyy_to_datetime_time':
            for sub in ast.walk(node):
                if isinstance(sub, ast.Call) and ast.unparse(sub.func).endswith('strptime') and len(sub.args) == 2 \
                        and isinstance(sub.args[1], ast.Constant):
                    res['time_format'] = sub.args[1].value
    return res


def render_tables(t):
    rx = t['regex']
    def opt(s):
        return _lean_str(s if s is not None else '<missing>')
    def triples(lst):
        if lst is None:
            return '[]   -- <missing or not a literal dict keyed by (str, str)>'
        return '[' + ', '.join(f'({_cps(a)}, {_cps(b)}, {_lean_str(c)})' for a, b, c in lst) + ']'
    def comment(lst):
        return '' if lst is None else ''.join(f'--   ({a!r}, {b!r}): {c}\n' for a, b, c in lst)
    lines = [
        '/-',
        'GENERATED by harness/props/c14.py translate() from src/TotalDepth/DAT/DAT_parser.py — do not edit.',
        'Regex literals, the (name, units) key tables, the month list, the strptime format and the two-digit-year test,',
        'as they stand in the source. Strings that the model looks up are given as code-point lists.',
        '-/',
        'namespace TD.Gen.C14',
        '',
        f'def reChannelDefinition : String := {opt(rx.get("RE_CHANNEL_DEFINITION"))}',
        f'def reDataHeaderDefinition : String := {opt(rx.get("RE_DATA_HEADER_DEFINITION"))}',
        f'def reDateStyleA : String := {opt(rx.get("RE_DATE_STYLE_A"))}',
        f'def reDateStyleB : String := {opt(rx.get("RE_DATE_STYLE_B"))}',
        f'def timeFormat : String := {opt(t["time_format"])}',
        f'def yearPivotTest : String := {opt(t["pivot"])}',
        'def monthNames : List (List Nat) := ' + ('[]' if t['months'] is None else '[' + ', '.join(_cps(m) for m in t['months']) + ']'),
        '',
        '-- NAME_VALUE_CONVERSION_MAP: (name, units) -> conversion function',
        comment(t['conversion']).rstrip('\n') or '--   <missing>',
        f'def conversionMap : List (List Nat × List Nat × String) := {triples(t["conversion"])}',
        '',
        '-- NAME_UNITS_TYPE_MAP: (name, units) -> numpy dtype',
        comment(t['types']).rstrip('\n') or '--   <missing>',
        f'def typeMap : List (List Nat × List Nat × String) := {triples(t["types"])}',
        '',
        'end TD.Gen.C14',
        '',
    ]
    return '\n'.join(lines)


def translate(ctx):
    import core
    src = os.path.join(core.REPO, 'src', 'TotalDepth', 'DAT', 'DAT_parser.py')
    text = render_tables(extract_tables(src))
    out = os.path.join(core.LEAN_DIR, 'TD', 'Gen', 'C14Tables.lean')
    os.makedirs(os.path.dirname(out), exist_ok=True)
    old = open(out).read() if os.path.exists(out) else None
    if old != text:
        tmp = out + '.tmp'
        with open(tmp, 'w') as fh:
            fh.write(text)
        os.replace(tmp, out)
        if old is not None:
            ctx.note('lean/TD/TD/Gen/C14Tables.lean was regenerated with different content: DAT_parser.py literals changed')


# ------------------------------------------------------------------ implementation adapters



def _impl():
    from TotalDepth.DAT import DAT_parser
    return DAT_parser


def _gen():
    from gen import dat
    return dat


def enc(s):
    return '.'.join('%x' % ord(c) for c in s) if s else '-'


def canon_value(v):
    import datetime
    if isinstance(v, datetime.datetime):
        return 'T%d.%d.%d.%d.%d.%d' % (v.year, v.month, v.day, v.hour, v.minute, v.second) + ('' if v.microsecond == 0 and v.tzinfo is None else '?')
    if isinstance(v, datetime.date):
        return 'D%d.%d.%d' % (v.year, v.month, v.day)
    if isinstance(v, datetime.time):
        return 't%d.%d.%d' % (v.hour, v.minute, v.second) + ('' if v.microsecond == 0 and v.tzinfo is None else '?')
    if isinstance(v, float):          # np.float64 is a float subclass
        return 'f' + float(v).hex()
    return '?' + type(v).__name__


def canon_channels(chans):
    """chans: [(name, desc, units, 'O'|'F', [canonical values])] -> one line, same shape as the driver's reply"""
    return ' '.join(['ok'] + [f"{enc(n)}:{enc(d)}:{enc(u)}:{k}:{','.join(vs) or '-'}" for n, d, u, k, vs in chans])


def impl_parse(D, text):
    """canonical outcome of DAT_parser.parse_file(io.StringIO(text))"""
    import io
    try:
        fa = D.parse_file(io.StringIO(text))
    except D.ExceptionDAT:
        return 'err dat'
    except Exception as e:           # any other exception type is itself a failure of the property
        return 'raise ' + type(e).__name__
    chans = []
    for c in fa.channels:
        arr = c.array
        kind = 'O' if arr.dtype == object else ('F' if str(arr.dtype) == 'float64' else '?' + str(arr.dtype))
        vals = [canon_value(arr[j, 0]) for j in range(len(arr))] if arr.ndim == 2 and arr.shape[1:] == (1,) else ['?shape%s' % (arr.shape,)]
        chans.append((c.ident, c.long_name, c.units, kind, vals))
    return canon_channels(chans)


def impl_can(D, text):
    import io
    try:
        return 'true' if D.can_parse_file(io.StringIO(text)) else 'false'
    except Exception as e:
        return 'raise ' + type(e).__name__


_FLOAT_RE = None


def model_to_canon(reply):
    """the model keeps exact decimals: round them to binary64 the way float() does, for comparison"""
    global _FLOAT_RE
    import re
    dat = _gen()
    if _FLOAT_RE is None:
        _FLOAT_RE = re.compile(r'f([+-])(\d+)e(-?\d+)')
    reply = _FLOAT_RE.sub(lambda m: 'f' + dat.dec_to_hex(m.group(1) == '-', int(m.group(2)), int(m.group(3))), reply)
    return reply.replace('finf+', 'finf').replace('finf-', 'f-inf')


def impl_tok(D, kind, tok):
    fn = {'f': float, 'u': D._unit_unix_time_to_datetime_datetime, 'd': D._unit_ddmmyy_to_datetime_date,
          't': D._unit_hhmmyy_to_datetime_time}[kind]
    try:
        return canon_value(fn(tok))
    except D.ExceptionDAT:
        return 'err dat'
    except ValueError:
        # inside _parse_file a ValueError of the conversion function is re-raised as ExceptionDATRead
        return 'err dat' if kind == 'f' else 'raise ValueError'
    except Exception as e:
        return 'raise ' + type(e).__name__


# ------------------------------------------------------------------ the property oracle (implementation alone)

def judge(out, want, must_reject, kind='corrupt'):
    """out: canonical outcome of the implementation; want: canonical content the generator encoded.
    kind 'valid': must equal the content. Corruptions: must_reject -> only a DAT error is right; otherwise a DAT error
    or the unchanged content (harmless change). Any non-DAT exception is a failure. Returns None when the property holds."""
    if out.startswith('raise '):
        return f'rejected with {out[6:]}, which is not a DAT error'
    if out == 'err dat':
        return 'a valid file was rejected with a DAT error' if kind == 'valid' else None
    if must_reject:
        return 'a file that does not match its header/declarations was accepted: ' + out[:160]
    if want is not None and out != want:
        return 'misread: ' + first_diff(out, want)
    return None


def first_diff(a, b):
    pa, pb = a.split(' '), b.split(' ')
    if len(pa) != len(pb):
        return f'{len(pa) - 1} channels, expected {len(pb) - 1}'
    for i, (x, y) in enumerate(zip(pa, pb)):
        if x != y:
            return f'channel {i - 1}: got {x[:120]} expected {y[:120]}'
    return 'equal'


def check_case(ctx, D, case):
    """case = {'op': 'parse', 'kind', 'text', 'want', 'must_reject'} — evaluates the oracle, records a failure."""
    ctx.count('oracle_cases')
    out = impl_parse(D, case['text'])
    bad = judge(out, case['want'], case['must_reject'], case['kind'])
    if bad:
        ctx.fail(case, bad)
    return out, bad


# ------------------------------------------------------------------ token streams

def gen_tokens(ctx):
    """yield (kind, token, want) — want is the canonical value a correct conversion gives, 'reject', or None (correspondence only)"""
    rng, dat = ctx.rng, _gen()
    # floats
    for _ in range(ctx.n(4000, 40000)):
        x = dat.gen_num(rng)
        yield 'f', dat.num_token(x), 'f' + dat.dec_to_hex(*dat.num_fraction(x))
    specials = ['inf', '-inf', '+inf', 'Infinity', '-INFINITY', 'nan', '-nan', '+NaN', 'infinit', 'in', 'na', 'nann', 'infinityy',
                '1_0', '1_000.5', '1e1_0', '1_e5', '1._5', '1_.5', '.5_5', '5_5.', '_', '1__0', '-_1', '1_', '-', '+', '.', '-.', '1e400',
                '-1e400', '1e-400', '0e999999', '1e99999999', '-0', '-0.0', '0.0e-0', '00012', '1.', '.5', '1.e5', '.e5', 'e5', '1e', '1e+',
                '1E+5', '1d5', '0x10', '1,5', '--1', '+-1', '1.5.', '1..', 'in_f', 'i', 'N', '9' * 400, '0.' + '0' * 400 + '1']
    for t in specials + dat.BAD_NUMBERS:
        yield 'f', t, None
    alpha = '0123456789.eE+-_infaINFxy'
    for _ in range(ctx.n(1500, 15000)):
        yield 'f', ''.join(rng.choice(alpha) for _ in range(rng.randint(1, 7))), None
    # unix times
    bounds = [0, 1, -1, 86399, 86400, -86400, -86401, 951782400, 951868799, 951868800, 253402300799, 253402300800,
              -62135596800, -62135596801, 2**31 - 1, 2**31, -2**31, 2**63 - 1, 2**63, -2**63, -2**63 - 1, 10**20, -10**17]
    for b in bounds:
        yield 'u', str(b), None
    import datetime
    for _ in range(ctx.n(4000, 40000)):
        ymd = dat.gen_ymd(rng, 1, 9999)
        hms = dat.gen_hms(rng)
        n = dat.unix_time(ymd + hms)
        tok = str(n)
        if rng.random() < 0.05 and n >= 0: tok = '+' + tok
        yield 'u', tok, 'T' + '.'.join(map(str, ymd + hms))
    for _ in range(ctx.n(500, 5000)):
        n = rng.randint(-10**rng.randint(1, 20), 10**rng.randint(1, 20))
        yield 'u', str(n), None
    for t in dat.BAD_UTIMS + ['1_0', '1__0', '_1', '1_', '+_1', '+', '', '00', '-0', '007', '1' * 4300, '1' * 4301, '0' * 4301, '12a', '1.0', '１２３'[:0] + 'x']:
        yield 'u', t, None
    for _ in range(ctx.n(500, 5000)):
        yield 'u', ''.join(rng.choice('0123456789_+-a') for _ in range(rng.randint(1, 12))), None
    # dates
    for _ in range(ctx.n(5000, 50000)):
        y, m, d = dat.gen_ymd(rng, 1951, 2050)
        c = dat.gen_cell(rng, 'wild')
        yield 'd', dat.date_token(c, [y, m, d]), 'D%d.%d.%d' % (y, m, d)
    for _ in range(ctx.n(1500, 15000)):
        d = rng.choice([0, 1, 28, 29, 30, 31, 32, rng.randint(0, 99)])
        m = rng.randint(1, 12)
        yy = rng.choice([0, 1, 4, 49, 50, 51, 52, 96, 99, 100, 1900, 2000, 8099, 8100, rng.randint(0, 120)])
        dash = rng.random() < 0.5
        tok = (f'{d}-{dat.MONTHS[m - 1]}-{yy:02d}' if dash else f'{d}{dat.MONTHS[m - 1]}{yy:02d}')
        year = yy + 1900 if yy > 50 else yy + 2000       # the pivot the property states: 51..99 -> 19xx, 0..50 -> 20xx
        if yy <= 99:
            ok = 1 <= d <= dat.days_in_month(year, m)
            yield 'd', tok, ('D%d.%d.%d' % (year, m, d)) if ok else 'reject'
        else:
            yield 'd', tok, None
    for t in dat.BAD_DATES + ['', '-', '9', 'Dec', '9Dec', '9-Dec-', '-Dec-06', '9Dec06x', '9Dec0 6'.replace(' ', ''), '9dec06', '9DEC06', '9-Dec-06-', '9Decc06', '999Dec06', '9Dec' + '9' * 30]:
        yield 'd', t, None if t in ('9Dec06', '999Dec06') else 'reject'
    for _ in range(ctx.n(500, 5000)):
        yield 'd', ''.join(rng.choice('0123456789-JanFebDecMay') for _ in range(rng.randint(1, 10))), None
    # times
    for _ in range(ctx.n(5000, 50000)):
        h, mi, s = dat.gen_hms(rng)
        c = dat.gen_cell(rng, 'wild')
        yield 't', dat.time_token(c, [h, mi, s]), 't%d.%d.%d' % (h, mi, s)
    for _ in range(ctx.n(1500, 15000)):
        parts = [str(rng.choice([rng.randint(0, 70), rng.randint(0, 9), rng.randint(20, 25), rng.randint(58, 62)])) for _ in range(3)]
        parts = [('0' + p if rng.random() < 0.2 else p) for p in parts]
        yield 't', '-'.join(parts), None
    for t in dat.BAD_TIMES + ['', '-', '--', '1-2', '1-2-', '1-2-3-', '1-2-3', '01-02-03', '23-59-59', '24-00-00', '0-0-0', '00-00-60', '00-00-61', '00-00-62', '2-3-4x']:
        yield 't', t, 'reject' if t in dat.BAD_TIMES else None
    for _ in range(ctx.n(500, 5000)):
        yield 't', ''.join(rng.choice('0123456789--:') for _ in range(rng.randint(1, 9))), None


def run_tokens(ctx, D, with_model=True):
    toks = list(gen_tokens(ctx))
    model = lean_or_none(ctx, [f'tok {k} {enc(t)}' for k, t, _ in toks]) if with_model else None
    names = {'f': 'tok_float', 'u': 'tok_utim', 'd': 'tok_date', 't': 'tok_time'}
    for i, (k, t, want) in enumerate(toks):
        out = impl_tok(D, k, t)
        case = {'op': 'tok', 'kind': k, 'token': t, 'want': want}
        if model is not None:
            ctx.corr(names[k], case, out, model_to_canon(model[i]))
        ctx.count('oracle_cases')
        bad = judge_tok(out, want)
        if bad:
            ctx.fail(case, bad)
        elif want not in (None, 'reject'):
            ctx.nontriv(('tok', k, t))
    ctx.count('token_cases', len(toks))
    ctx.sample({'op': 'tok', 'kind': toks[7][0], 'token': toks[7][1], 'want': toks[7][2]})


def judge_tok(out, want):
    if out.startswith('raise '):
        return f'conversion raised {out[6:]}, which is not a DAT error'
    if want == 'reject' and out != 'err dat':
        return f'accepted as {out}'
    if want not in (None, 'reject') and out != want:
        return f'got {out}, expected {want}'
    return None


# ------------------------------------------------------------------ regex / character-class streams

def run_lexical(ctx, D):
    import re
    rng = ctx.rng
    cps = list(range(0, 0x3100)) + [0xFEFF, 0xFF10, 0x1F600, 0x10FFFF, 0xE000] + [rng.randrange(0x3100, 0xD800) for _ in range(300)]
    model = lean_or_none(ctx, ['cls %x' % c for c in cps])
    if model is not None:
        for c, m in zip(cps, model):
            ch = chr(c)
            out = f'{int(ch.isspace())}{int(ch.translate(D.ASCII_PRINTABLE_TABLE) != "")}{int(bool(re.fullmatch("[A-Z0-9]", ch)))}'
            ctx.corr('charclass', {'op': 'cls', 'cp': c}, out, m)
    alpha = ['U', 'T', 'I', 'M', 'D', 'A', 'E', 'x', '1', ' ', ' ', ' ', '\t', '\x0b', '\r', ' ', '-', '.', '中']
    lines = ['UTIM DATE TIME A', 'UTIM DATE TIME', 'UTIM DATE TIME ', 'UTIM DATE TIME  ', 'UTIM  DATE\tTIME\tA B', 'UTIMDATE TIME A', ' UTIM DATE TIME A',
             'UTIM DATE TIMEX A', 'UTIM DATE TIME A', 'A b u', 'A  u', 'A   u', 'A b', 'A', 'a b u', 'A1 b c d u', 'A\tb\tu', 'A b u ', 'AB中 b u',
             'A 中 u', 'A b 中', '1 2 3', 'UTIM Unix Time sec', '', ' ', 'A b  u', 'A  b u']
    for _ in range(ctx.n(3000, 30000)):
        if rng.random() < 0.4:
            words = [rng.choice(['UTIM', 'DATE', 'TIME', 'A', 'B1', 'x', 'UTI', 'TIMEX']) for _ in range(rng.randint(1, 6))]
            if rng.random() < 0.6:
                words[:3] = ['UTIM', 'DATE', 'TIME'][:len(words)]
            lines.append(rng.choice(['', '', ' ']) + ''.join(w + ''.join(rng.choice(' \t') for _ in range(rng.choice([1, 1, 2]))) for w in words)[:-1 if rng.random() < 0.7 else None])
        else:
            lines.append(''.join(rng.choice(alpha) for _ in range(rng.randint(0, 14))))
    model = lean_or_none(ctx, [f'hdr {enc(l)}' for l in lines] + [f'decl {enc(l)}' for l in lines])
    if model is not None:
        for l, m in zip(lines, model[:len(lines)]):
            ctx.corr('regex_header', {'op': 'hdr', 'line': l}, '1' if D.RE_DATA_HEADER_DEFINITION.match(l) else '0', m)
        for l, m in zip(lines, model[len(lines):]):
            mo = D.RE_CHANNEL_DEFINITION.match(l)
            ctx.corr('regex_decl', {'op': 'decl', 'line': l}, ':'.join(enc(g) for g in mo.groups()) if mo else 'none', m)


def lean_or_none(ctx, lines):
    """the model's replies, or None when the driver could not be built on this tree (oracle still runs)"""
    if getattr(ctx, '_c14_no_model', False):
        return None
    try:
        return ctx.lean(lines)
    except Exception as e:           # stale or missing driver: reported through the broken proof obligation
        ctx._c14_no_model = True
        ctx.note(f'model driver unavailable ({str(e)[:200]}); correspondence skipped, oracle still evaluated')
        return None


# ------------------------------------------------------------------ whole files

def run_files(ctx, D, nfiles, ncorrupt_bases, with_model=True):
    rng, dat = ctx.rng, _gen()
    files = [dat.gen_file(rng, max_channels=ctx.n(12, 60), max_rows=ctx.n(8, 30)) for _ in range(nfiles)]
    texts = [dat.print_file(f) for f in files]
    wants = [canon_channels(dat.expected(f)) for f in files]
    if with_model:
        args = [dat.driver_args(f) for f in files]
        m_print = lean_or_none(ctx, ['print ' + a for a in args])
        m_expect = lean_or_none(ctx, ['expect ' + a for a in args])
        m_dat = lean_or_none(ctx, ['dat ' + enc(t) for t in texts])
        m_can = lean_or_none(ctx, ['can ' + enc(t) for t in texts])
    else:
        m_print = m_expect = m_dat = m_can = None
    for i, (f, text, want) in enumerate(zip(files, texts, wants)):
        case = {'op': 'parse', 'kind': 'valid', 'text': text, 'want': want, 'must_reject': False}
        out, bad = check_case(ctx, D, case)
        can = impl_can(D, text)
        ctx.count('oracle_cases')
        if can != ('true' if f['rows'] else 'false'):
            ctx.fail({'op': 'can', 'text': text, 'want': bool(f['rows'])}, f'can_parse_file gave {can} for a valid file with {len(f["rows"])} data line(s)')
        if m_print is not None:
            ctx.corr('printer', {'op': 'print', 'file': i}, enc(text), m_print[i])          # Python printer vs Lean spec printer
            ctx.corr('expected', {'op': 'expect', 'text': text}, out, model_to_canon(m_expect[i]))   # implementation vs Spec.expected
            ctx.corr('parse_valid', {'op': 'parse', 'text': text}, out, model_to_canon(m_dat[i]))    # implementation vs model parser
            ctx.corr('can_valid', {'op': 'can', 'text': text}, can, m_can[i])
        if not bad and f['rows'] and f['sel']:
            ctx.nontriv(('valid', hash(text)))
        ctx.count('rows_total', len(f['rows'])); ctx.count('channels_total', 3 + len(f['sel']))
        ctx.count('files_with_shuffled_decls' if [d['name'] for d in f['decls']][:3] != ['UTIM', 'DATE', 'TIME'] else 'files_with_leading_std_decls')
        if i == 0:
            ctx.sample({'op': 'parse', 'kind': 'valid', 'text': text[:400], 'channels': 3 + len(f['sel']), 'rows': len(f['rows'])})
    # corruption stream: one mutated line per case
    cases = []
    for f, want in list(zip(files, wants))[:ncorrupt_bases]:
        for kind in dat.CATALOGUE:
            for _ in range(2 if kind in ('junk_low', 'junk_high', 'garble_number') else 1):
                c = dat.corrupt(rng, f, kind)
                if c is None:
                    ctx.count('corruption_not_applicable'); continue
                text, must, note = c
                cases.append({'op': 'parse', 'kind': kind, 'text': text, 'want': want, 'must_reject': must, 'note': note})
    m_dat = lean_or_none(ctx, ['dat ' + enc(c['text']) for c in cases]) if with_model else None
    m_can = lean_or_none(ctx, ['can ' + enc(c['text']) for c in cases]) if with_model else None
    for i, case in enumerate(cases):
        out, bad = check_case(ctx, D, case)
        can = impl_can(D, case['text'])
        ctx.count('oracle_cases')
        if can.startswith('raise'):
            ctx.fail({'op': 'can', 'text': case['text'], 'want': None}, f'can_parse_file let {can[6:]} escape')
        if m_dat is not None:
            ctx.corr('parse_corrupt', {'op': 'parse', 'kind': case['kind'], 'text': case['text']}, out, model_to_canon(m_dat[i]))
            ctx.corr('can_corrupt', {'op': 'can', 'kind': case['kind'], 'text': case['text']}, can, m_can[i])
        ctx.count('corrupt_' + case['kind'] + ('_rejected' if out == 'err dat' else '_same' if out == case['want'] else '_other'))
        if not bad:
            ctx.nontriv(('corrupt', case['kind'], hash(case['text'])))
    if cases:
        k = min(len(cases) - 1, 5)
        ctx.sample({'op': 'parse', 'kind': cases[k]['kind'], 'text': cases[k]['text'][:300], 'must_reject': cases[k]['must_reject']})
    ctx.count('valid_files', len(files)); ctx.count('corrupted_files', len(cases))


def run_bundled(ctx, D):
    """the example file shipped with the project and the literal of the unit tests: correspondence only"""
    import core
    p = os.path.join(core.REPO, 'example_data', 'DAT', 'data', 'example.dat')
    texts = []
    if os.path.exists(p):
        t = open(p, newline='').read()
        texts += [t, t.replace('\r\n', '\n'), t.replace('\n', '\r\n')]
    texts += ['', '\n', 'asdadf\nasdsa', 'UTIM Unix Time sec\nUTIM DATE TIME WAC\n1 2 3 4\n',
              'UTIM Unix Time sec\nDATE Date ddmmyy\nTIME Time hhmmss\nWAC Wits Activity Code unitless\nBDIA Bit \x01Diameter inch\nUTIM DATE TIME WAC BDIA \n1165665017 \x02 09Dec06 11-50-17 0 8.50 \n',
              'UTIM a sec\nDATE b ddmmyy\nTIME c hhmmss\nUTIM DATE TIME\n', 'UTIM a s\nDATE b d\nTIME c h\nA d e\nUTIM DATE TIME A\n1 2 3 4\n']
    m = lean_or_none(ctx, ['dat ' + enc(t) for t in texts] + ['can ' + enc(t) for t in texts])
    for i, t in enumerate(texts):
        out, can = impl_parse(D, t), impl_can(D, t)
        ctx.count('oracle_cases')
        if out.startswith('raise') or can.startswith('raise'):
            ctx.fail({'op': 'parse', 'kind': 'bundled', 'text': t, 'want': None, 'must_reject': None}, f'{out[:40]} / {can}')
        if m is not None:
            ctx.corr('bundled', {'op': 'parse', 'text': t[:200]}, out, model_to_canon(m[i]))
            ctx.corr('bundled', {'op': 'can', 'text': t[:200]}, can, m[len(texts) + i])


def run(ctx):
    D = _impl()
    run_lexical(ctx, D)
    run_tokens(ctx, D)
    run_bundled(ctx, D)
    run_files(ctx, D, ctx.n(1500, 12000), ctx.n(700, 6000))


def search(ctx):
    """extra oracle budget (implementation alone) when a proof or the correspondence broke and nothing failed yet"""
    D = _impl()
    run_tokens(ctx, D, with_model=False)
    run_files(ctx, D, ctx.n(1500, 6000), ctx.n(1000, 4000), with_model=False)


def replay(ctx, rec):
    D = _impl()
    case = rec.get('case') or {}
    if case.get('op') == 'parse':
        out = impl_parse(D, case['text'])
        bad = judge(out, case.get('want'), case.get('must_reject'), case.get('kind'))
        if case.get('kind') == 'bundled':
            bad = out[6:] + ' is not a DAT error' if out.startswith('raise') else None
        return (bad is None), (bad or f'outcome: {out[:200]}')
    if case.get('op') == 'can':
        can = impl_can(D, case['text'])
        want = case.get('want')
        ok = not can.startswith('raise') and (want is None or can == ('true' if want else 'false'))
        return ok, f'can_parse_file -> {can}'
    if case.get('op') == 'tok':
        out = impl_tok(D, case['kind'], case['token'])
        bad = judge_tok(out, case.get('want'))
        return (bad is None), (bad or f'conversion gives {out}')
    return True, 'nothing to replay (no concrete failing input was recorded)'
