"""C04 — DLIS frame arrays hold exactly the recorded values; sub-selection commutes."""
import io, logging, math
from fractions import Fraction

CLAIM = {
 'text': ('Lean 4 theorems about a model of LogicalIndex (IFLR branch)/LogicalFile.populate_frame_array/'
          'RP66V1FrameArray.read(_partial)/FrameChannel.init_array as coded: frame_count and x_and_frameno (the position '
          'map holds one entry per non-empty frame record of the type, in file order, with the recorded frame number and '
          'the first channel\'s value), populate_all_values, populate_commutes (for every prior storage state, every index '
          'list a selector yields and every channel subset, the result is exactly the corresponding rows and columns of '
          'the recorded values; first channel always present, unselected channels empty) and '
          'populate_history_independent (any sequence of populate calls leaves the result of the last call only). The '
          'selector arithmetic is the one proved in C15. The model is tied to /repo on every run by a correspondence of '
          'index and populate histories on encoder-produced files; the oracle compares the implementation alone with the '
          'generated values cast to the channel dtype.'),
 'note': ('Trusted: Lean kernel; model<->code correspondence on the cases of the run; numpy dtype casts (float64 -> '
          'float32 rounding, int storage) and ndarray indexing/mean are assumed primitives applied in the harness; random '
          'access by file position is C02\'s subject and log-pass construction from the CHANNEL/FRAME tables is checked by '
          'the oracle only (structure equals the generated one).'),
 'technique': 'Lean 4 proof (induction over frames/channels, list-update lemmas; C15 selector theorems) + model-implementation correspondence',
 'design_ref': 'DESIGN.md section 6 C04',
}
RULE = ('log passes of 1-3 frame types interleaved in one logical file, 1-5 channels each of every fixed-length numeric '
        'representation code and dimensions up to 3-D (first channel scalar), 1-30 frames per type plus data-less frame '
        'records and encrypted records, encoded by the Lean spec (tables through the C03 encoder), wrapped physically and '
        'indexed by the real LogicalIndex; per frame type a history of 2-6 populate calls with different slice (None parts, '
        'bounds inside/at/far beyond +-n, positive and NEGATIVE steps, |step| up to beyond n) / sample / '
        'channel selections on the same index; the oracle is Python slicing list(range(n))[start:stop:step] of the full population, in that order. A case is non-trivial when a call selects at least 2 and fewer than all '
        'frames or a proper channel subset; distinct by (file bytes, call).')
ASSUMPTIONS = ['slices are Python slices with any non-zero step (negative steps populate rows in reverse order); step 0 is a ValueError in Python itself',
               'the first channel of a frame is scalar (RP66V1 5.7.1: the index channel must be scalar); X is then the mean of one element',
               'a selection selects at least one frame (otherwise ExceptionFrameArray is raised - exercised as correspondence)',
               'channel identifiers are ASCII and distinct within a frame']
TRUSTED = ['modelled, not verified: numpy casts and indexing, struct.unpack, itertools.product order',
           'the physical layer and random access by position (C01/C02) are used through one conformant wrapping']

NUMERIC = [2, 5, 6, 7, 12, 13, 14, 15, 16, 17]
DIMS = [[1], [1], [2], [3], [2, 2], [1, 3], [3, 1], [2, 3, 2], [2, 1, 2], [1, 1, 1], [4]]


def _mods():
    logging.disable(logging.CRITICAL)
    from TotalDepth.RP66V1.core import LogicalFile
    from TotalDepth.common import Slice
    import numpy as np
    return LogicalFile, Slice, np


def _c03():
    from props import c03
    return c03


# ------------------------------------------------------------------ text forms

class LP(list):
    """a log pass: frame types in FRAME-set order, each with its channels in the order the Frame lists them; `defs` is
    the CHANNEL set: the channel objects in DEFINITION order (any order, may contain channels no frame uses)"""
    defs = None
    defs_order = 'frame-order'


def lp_defs(lp):
    d = getattr(lp, 'defs', None)
    return d if d is not None else [ch for ft in lp for ch in ft['chans']]


def lp_txt(lp):
    """CHANNEL set objects in definition order, then the FRAME objects listing their channels by name: the model picks
    the channels by name in the Frame's order (`buildLogPass`)"""
    c03 = _c03()
    defs = lp_defs(lp)
    parts = [str(len(defs))]
    for ch in defs:
        parts += [c03.hx(ch['ident']), str(ch['rc']), str(len(ch['dims']))] + [str(d) for d in ch['dims']]
    parts.append(str(len(lp)))
    for ft in lp:
        o, c, i = ft['name']
        parts += [str(o), str(c), c03.hx(i), str(len(ft['chans']))] + [c03.hx(ch['ident']) for ch in ft['chans']]
    return ' '.join(parts)


def val_txt(rc, v):
    return f'w{rc}.{v}' if rc in (2, 5, 6, 7) else f'i{v}'


def frames_txt(lp, frames):
    parts = [str(len(frames))]
    for f in frames:
        parts += [str(f['ft']), str(f['no'])]
        if f['vals'] is None:
            parts.append('N')
        else:
            parts.append('V')
            for ch, vs in zip(lp[f['ft']]['chans'], f['vals']):
                parts += [str(len(vs))] + [val_txt(ch['rc'], v) for v in vs]
    return ' '.join(parts)


def recs_txt(recs):
    c03 = _c03()
    return ' '.join([str(len(recs))] + [f"{'1' if e else '0'} {'1' if x else '0'} {ty} {c03.hx(b)}" for e, x, ty, b in recs])


def sel_txt(sel):
    o = lambda v: 'N' if v is None else str(v)
    if sel is None: return 'A'
    if sel[0] == 'slice': return f'S {o(sel[1])} {o(sel[2])} {o(sel[3])}'
    return f'M {sel[1]}'


def chans_txt(ch):
    c03 = _c03()
    if ch is None: return 'A'
    return ' '.join(['C', str(len(ch))] + [c03.hx(c) for c in ch])


# ------------------------------------------------------------------ exact values and casts

def tok_to_float(tok):
    """'f+MeE' | 'fnan' | 'f+inf' -> python float (exact)"""
    if tok == 'fnan': return math.nan
    if tok.endswith('inf'): return -math.inf if tok[1] == '-' else math.inf
    sign = -1.0 if tok[1] == '-' else 1.0
    m, e = tok[2:].split('e')
    return math.copysign(math.ldexp(int(m), int(e)), sign)


def cast_float(np, rc, x):
    """the assumed primitive: storing a Python float into an array of the channel's dtype"""
    c03 = _c03()
    if rc == 7: return c03.canon_float(float(np.float64(x)))
    return c03.canon_float(float(np.float32(x)))


def cast_tok(np, rc, tok):
    if tok.startswith('i'): return tok
    return cast_float(np, rc, tok_to_float(tok))


def expected_elem(np, rc, v):
    c03 = _c03()
    if rc in (2, 5, 6, 7): return cast_float(np, rc, c03.ref_float(rc, v))
    return f'i{v}'


def x_canon(np, tok_or_val):
    """X axis values are compared as exact numbers (the implementation holds numpy scalars of the mean)"""
    c03 = _c03()
    if isinstance(tok_or_val, str):
        r = c03.canon_float(float(int(tok_or_val[1:]))) if tok_or_val.startswith('i') else tok_or_val
    else:
        r = c03.canon_float(float(tok_or_val))
    return 'f+0e0' if r == 'f-0e0' else r      # X is ndarray.mean() of one element: -0.0 is held as 0.0 (same number)


# ------------------------------------------------------------------ generator

def gen_value(rng, rc):
    c03 = _c03()
    if rc in (2, 5, 6, 7):
        return c03.gen_val(rng, rc)[1][1]
    lo, hi = c03.INT_RANGES[rc]
    return rng.choice([lo, hi, 0, rng.randint(lo, hi), rng.randint(lo, hi)])


def gen_logpass(rng):
    nft = rng.choice([1, 1, 2, 2, 3])
    lp, used = [], set()
    for k in range(nft):
        chans = []
        for j in range(rng.randint(1, 5)):
            while True:
                ident = bytes(rng.choice(b'ABCDEFGHXYZ0123456789_') for _ in range(rng.randint(1, 5)))
                if ident not in used: break
            used.add(ident)
            chans.append({'ident': ident, 'rc': rng.choice(NUMERIC), 'dims': [1] if j == 0 else rng.choice(DIMS)})
        lp.append({'name': [rng.choice([0, 1, 2, 300]), rng.randint(0, 2), b'FR%d' % k], 'chans': chans})
    # FRAME objects in any order relative to the frame records (frames refer to them by their index in this list)
    rng.shuffle(lp)
    lp = LP(lp)
    # the CHANNEL set defines its objects independently of the order in which the Frames list them
    defs = [ch for ft in lp for ch in ft['chans']]
    for _ in range(rng.choice([0, 0, 1, 2])):            # channels defined but used by no frame
        while True:
            ident = bytes(rng.choice(b'ABCDEFGHXYZ0123456789_') for _ in range(rng.randint(1, 5)))
            if ident not in used: break
        used.add(ident)
        defs.insert(rng.randint(0, len(defs)), {'ident': ident, 'rc': rng.choice(NUMERIC), 'dims': rng.choice(DIMS)})
    mode = rng.choice(['frame-order', 'reversed', 'sorted', 'sorted-desc', 'shuffled', 'shuffled', 'index-last', 'interleaved'])
    if mode == 'reversed': defs.reverse()
    elif mode == 'sorted': defs.sort(key=lambda c: c['ident'])
    elif mode == 'sorted-desc': defs.sort(key=lambda c: c['ident'], reverse=True)
    elif mode == 'shuffled': rng.shuffle(defs)
    elif mode == 'index-last':
        firsts = [ft['chans'][0] for ft in lp]
        defs = [c for c in defs if not any(c is f for f in firsts)] + firsts
    elif mode == 'interleaved':
        cols = [list(ft['chans']) for ft in lp] + [[c for c in defs if not any(c is x for ft in lp for x in ft['chans'])]]
        defs = []
        while any(cols):
            for col in cols:
                if col: defs.append(col.pop(rng.randrange(len(col)) if rng.random() < 0.5 else 0))
    lp.defs, lp.defs_order = defs, mode
    return lp


def count_of(ch):
    n = 1
    for d in ch['dims']: n *= d
    return n


def gen_frames(rng, lp):
    frames = []
    per = [rng.choice([1, 2, 3, 5, 8, 12, rng.randint(1, 30)]) for _ in lp]
    order = [k for k, n in enumerate(per) for _ in range(n)]
    rng.shuffle(order)
    counters = [0] * len(lp)
    for k in order:
        counters[k] += 1
        no = counters[k] if rng.random() < 0.9 else rng.choice([0, 127, 128, 16384, 2**30 - 1])
        vals = [[gen_value(rng, ch['rc']) for _ in range(count_of(ch))] for ch in lp[k]['chans']]
        frames.append({'ft': k, 'no': no, 'vals': vals})
        if rng.random() < 0.12:
            frames.append({'ft': rng.randrange(len(lp)), 'no': rng.choice([0, counters[k] + 1]), 'vals': None})
    if rng.random() < 0.2:
        frames.insert(0, {'ft': 0, 'no': 0, 'vals': None})
    return frames


def gen_sel(rng, n):
    """None (all frames) / any Python slice: None parts, bounds inside, at and far beyond +-n, positive AND negative
    steps, |step| from 1 to beyond n / Sample."""
    r = rng.random()
    if r < 0.15: return None
    if r < 0.75:
        far = lambda: rng.choice([-3 * n - 7, -n - 1, -n, n - 1, n, n + 1, 3 * n + 7, rng.randint(-n - 2, n + 2)])
        neg = rng.random() < 0.45
        if neg:      # start high, stop low so that most negative-step slices select something
            lo = None if rng.random() < 0.35 else rng.choice([rng.randint(n // 2, n + 2), rng.randint(-max(1, n // 2), -1), far()])
            hi = None if rng.random() < 0.35 else rng.choice([rng.randint(-1, max(0, n // 2)), rng.randint(-n - 2, -max(1, n // 2)), far()])
            st = -rng.choice([1, 1, 2, 3, 4, n, n + 1, 2 * n + 3, rng.randint(1, n + 1)])
        else:
            lo = None if rng.random() < 0.35 else rng.choice([rng.randint(0, max(0, n // 2)), rng.randint(-n - 2, -max(1, n // 2)), far()])
            hi = None if rng.random() < 0.35 else rng.choice([rng.randint(n // 2, n + 2), rng.randint(-max(1, n // 2), -1), far()])
            st = None if rng.random() < 0.25 else rng.choice([1, 2, 3, 4, n, n + 1, 2 * n + 3, rng.randint(1, n + 1)])
        return ['slice', lo, hi, st]
    return ['sample', rng.choice([1, 2, 3, n, n + 1, rng.randint(1, max(1, n))])]


def gen_chans(rng, ft):
    r = rng.random()
    if r < 0.3: return None
    ids = [c['ident'] for c in ft['chans']]
    sub = [i for i in ids if rng.random() < 0.5]
    if rng.random() < 0.2: sub.append(b'NOSUCH')
    if rng.random() < 0.3: sub = [i for i in sub if i != ids[0]]
    return sub


def ref_indices(sel, n):
    """independent reference for the selected frame indexes"""
    if sel is None: return list(range(n))
    if sel[0] == 'slice': return list(range(n))[sel[1]:sel[2]:sel[3]]
    s = sel[1]
    return list(range(n)) if s >= n else [k * n // s for k in range(s)]


# ------------------------------------------------------------------ implementation adapters

def impl_open(mods, recs, rng):
    from gen import c03phys
    LogicalFile, Slice, np = mods
    data = c03phys.wrap(recs, rng)
    return LogicalFile.LogicalIndex(io.BytesIO(data)), data


def impl_arrays_txt(np, fa):
    c03 = _c03()
    parts = []
    for ch in fa.channels:
        a = ch.array
        parts.append(f'ch {len(a)}')
        isf = np.issubdtype(a.dtype, np.floating)
        for i in range(len(a)):
            flat = a[i].reshape(-1)
            parts.append(','.join(c03.canon_float(float(v)) if isf else f'i{int(v)}' for v in flat))
    return ' '.join(parts)


def model_arrays_cast(np, ft, txt):
    """apply the dtype cast to the exact values the model printed"""
    toks = txt.split(' ')
    out, i, c = [], 0, 0
    while i < len(toks):
        assert toks[i] == 'ch'
        n = int(toks[i + 1]); out += ['ch', toks[i + 1]]; i += 2
        rc = ft['chans'][c]['rc']; c += 1
        for _ in range(n):
            out.append(','.join(cast_tok(np, rc, t) for t in toks[i].split(',')))
            i += 1
    return ' '.join(out)


def impl_index_txt(mods, li, lf):
    LogicalFile, Slice, np = mods
    c03 = _c03()
    order = {}
    for k in range(len(li._logical_record_index)):
        order[li._logical_record_index.get_file_logical_data(k, 0, 0).position.lrsh_position] = k
    parts = ['ok', str(len(lf.iflr_position_map))]
    for name, xa in lf.iflr_position_map.items():
        parts += [str(name.O), str(name.C), c03.hx(name.I), str(len(xa))]
        for ref in xa._data:
            parts.append(f'{order[ref.logical_record_position.lrsh_position]} {ref.frame_number} {x_canon(np, ref.x_axis)}')
    return ' '.join(parts)


def model_index_cast(np, lp, txt):
    if not txt.startswith('ok'): return txt
    t = txt.split(' ')
    out = t[:2]; i = 2
    names = {(str(ft['name'][0]), str(ft['name'][1]), _c03().hx(ft['name'][2])): ft for ft in lp}
    for _ in range(int(t[1])):
        ft = names[(t[i], t[i + 1], t[i + 2])]
        n = int(t[i + 3]); out += t[i:i + 4]; i += 4
        rc = ft['chans'][0]['rc']
        for _k in range(n):
            out += [t[i], t[i + 1], x_canon(np, cast_tok(np, rc, t[i + 2]))]; i += 3
    return ' '.join(out)


def make_sel(Slice, sel):
    if sel is None: return None
    if sel[0] == 'slice': return Slice.Slice(sel[1], sel[2], sel[3])
    return Slice.Sample(sel[1])


def impl_call(mods, lf, fa, selobj, chans):
    """`selobj` is a Slice/Sample OBJECT (or None) that may already have been applied to other frame arrays"""
    LogicalFile, Slice, np = mods
    try:
        n = lf.populate_frame_array(fa, selobj, None if chans is None else {c.decode('ascii') for c in chans})
    except Exception as err:
        return 'err ' + type(err).__name__, None
    return f'ok {n} ' + impl_arrays_txt(np, fa), n


def expected_call(np, ft, rows, sel, chans):
    """oracle: rows/columns of the recorded values cast to the channel dtype"""
    idx = ref_indices(sel, len(rows))
    parts = []
    for c, ch in enumerate(ft['chans']):
        if chans is None or c == 0 or ch['ident'] in chans:
            parts.append(f'ch {len(idx)}')
            for i in idx:
                parts.append(','.join(expected_elem(np, ch['rc'], v) for v in rows[i][c]))
        else:
            parts.append('ch 0')
    return f'ok {len(idx)} ' + ' '.join(parts), idx


# ------------------------------------------------------------------ one case

def run_case(ctx, mods, lp, frames, recs, calls_by_ft, model_index, model_pop, record=True, order=None, hist='once'):
    """Index the file and run the populate histories on the implementation; compare with the model replies (if given)
    and evaluate the oracle.  Returns the list of oracle failure details.

    `order`: the interleaving of the per-frame-type histories (a list of frame type indexes); equal selector VALUES are
    served by ONE Slice/Sample object for the whole case, so the same object is applied to frame arrays of different
    lengths in both orders.  `hist`: 'once' | 'reenter' (leave and re-enter the same LogicalIndex half way: the number
    of logical files, the position map and every later populate must still equal the encoded content)."""
    LogicalFile, Slice, np = mods
    c03 = _c03()
    fails = []
    if order is None:
        order = [k for k, v in calls_by_ft.items() for _ in v]
    case = {'lp': [{'name': [ft['name'][0], ft['name'][1], ft['name'][2].hex()],
                    'chans': [{'ident': c['ident'].hex(), 'rc': c['rc'], 'dims': c['dims']} for c in ft['chans']]} for ft in lp],
            'frames': frames, 'recs': [[e, x, ty, b.hex()] for e, x, ty, b in recs],
            'defs': [{'ident': c['ident'].hex(), 'rc': c['rc'], 'dims': c['dims']} for c in lp_defs(lp)],
            'calls': {str(k): [[s, None if c is None else [i.hex() for i in c]] for s, c in v] for k, v in calls_by_ft.items()},
            'order': order, 'hist': hist}
    li, data = impl_open(mods, recs, ctx.rng if record else None)
    pos = [i for i, r in enumerate(recs) if not r[0] and not r[1]]       # record ordinals of the frame records
    seen, want_parts = [], {}
    for p, f in zip(pos, frames):
        if f['vals'] is None: continue
        k = f['ft']
        if k not in seen: seen.append(k)
        want_parts.setdefault(k, []).append(f"{p} {f['no']} {x_canon(np, expected_elem(np, lp[k]['chans'][0]['rc'], f['vals'][0][0]))}")
    wtxt = ' '.join(['ok', str(len(seen))] + [' '.join([str(lp[k]['name'][0]), str(lp[k]['name'][1]), c03.hx(lp[k]['name'][2]),
                                                     str(len(want_parts[k]))] + want_parts[k]) for k in seen])
    mrep = {}
    for k in calls_by_ft:
        if model_pop is not None and k in model_pop:
            mr = model_pop[k]
            if mr.startswith('ok'):
                mrep[k] = mr.split(' | ')[1:]
            else:
                ctx.corr('populate', {'op': 'populate', 'ft': k}, 'index ok', mr)
    segments = [order] if hist == 'once' or len(order) < 2 else [order[:len(order) // 2], order[len(order) // 2:]]
    ptr = {k: 0 for k in calls_by_ft}
    pool, last_n = {}, {}
    try:
      for seg_i, seg in enumerate(segments):
        with li:
          ctx.count('oracle_cases')
          if len(li.logical_files) != 1:
              fails.append(f'enter #{seg_i}: the file has 1 logical file, the index presents {len(li.logical_files)}')
              break
          lf = li.logical_files[0]
          # log pass structure
          got = [[(ch.ident, ch.rep_code, list(ch.dimensions)) for ch in fa.channels] for fa in lf.log_pass.frame_arrays]
          want = [[(c['ident'].decode('ascii'), c['rc'], c['dims']) for c in ft['chans']] for ft in lp]
          if got != want:
              fails.append(f'frame array channels (ident, code, dimensions) {got} != the channels each Frame lists, in that order: {want}'[:700])
          # index: frame count, X and frame number
          itxt = impl_index_txt(mods, li, lf)
          if model_index is not None:
              ctx.corr('index', {'op': 'index', 'enter': seg_i, 'lp': lp_txt(lp), 'recs': recs_txt(recs)}, itxt, model_index_cast(np, lp, model_index))
          ctx.count('oracle_cases')
          if itxt != wtxt:
              fails.append(f'enter #{seg_i}: position map differs: got {itxt[:200]!r} want {wtxt[:200]!r}')
          # populate histories, interleaved over the frame types
          for k in seg:
              j = ptr[k]; ptr[k] += 1
              sel, chans = calls_by_ft[k][j]
              ft = lp[k]
              fa = lf.log_pass.frame_arrays[k]
              rows = [f['vals'] for f in frames if f['ft'] == k and f['vals'] is not None]
              key = repr(sel)
              if sel is not None and key not in pool:
                  pool[key] = make_sel(Slice, sel)
              elif sel is not None and record and last_n.get(key) not in (None, len(rows)):
                  ctx.count('selector_object_reused_on_' + ('longer' if len(rows) > last_n[key] else 'shorter') + '_frame_array')
              last_n[key] = len(rows)
              out, n = impl_call(mods, lf, fa, None if sel is None else pool[key], chans)
              if k in mrep:
                  m = mrep[k][j]
                  if m.startswith('ok'):
                      t = m.split(' ', 2)
                      m = f'ok {t[1]} ' + model_arrays_cast(np, ft, t[2])
                  ctx.corr('populate', {'op': 'populate', 'ft': k, 'call': j, 'sel': sel}, out, m)
              ctx.count('oracle_cases')
              want, idx = expected_call(np, ft, rows, sel, chans)
              if not idx:
                  ctx.count('calls_selecting_nothing')
                  if not out.startswith('err ExceptionFrameArray'):
                      fails.append(f'frame type {k} call {j} {sel}: selecting no frame gave {out[:80]!r}')
                  continue
              if out != want:
                  fails.append(f'frame type {k} ({len(rows)} frames) call {j} sel={sel} chans={chans}: got {out[:160]!r} want {want[:160]!r}')
              elif record:
                  ctx.count('calls_ok')
                  sub = chans is not None and any(c['ident'] not in chans for c in ft['chans'][1:])
                  if 2 <= len(idx) < len(rows) or sub:
                      ctx.nontriv((hash(data), k, j))
                  if sub: ctx.count('calls_channel_subset')
                  if sel is not None: ctx.count('calls_' + sel[0])
                  if seg_i > 0: ctx.count('calls_after_reenter')
                  if sel is not None and sel[0] == 'slice' and sel[3] is not None and sel[3] < 0:
                      ctx.count('calls_slice_negative_step')
                      if len(idx) >= 2: ctx.count('calls_slice_negative_step_reversed_rows')
                  if sel is not None and sel[0] == 'slice' and sel[3] is not None and abs(sel[3]) > len(rows): ctx.count('calls_slice_step_beyond_n')
                  if any(len(c['dims']) >= 2 for c in ft['chans']): ctx.count('calls_multidim')
    except Exception as err:   # a well-formed file and a selection of at least one frame must not raise
        fails.append(f'indexing or populating a well-formed file raised {type(err).__name__}: {str(err)[:120]}')
    if record:
        for d in fails:
            ctx.fail(case, d)
    return fails


def run(ctx):
    mods = _mods()
    rng = ctx.rng
    N = ctx.n(2500, 18000)
    cases = []
    for _ in range(N):
        lp = gen_logpass(rng)
        frames = gen_frames(rng, lp)
        cases.append((lp, frames))
    enc = ctx.lean([f'encfile {lp_txt(lp)} {frames_txt(lp, fr)}' for lp, fr in cases])
    c03 = _c03()
    all_recs, all_frames, all_calls, all_orders, all_hists = [], [], [], [], []
    for (lp, frames), reply in zip(cases, enc):
        base = c03.parse_recs(reply)
        recs, fr2 = list(base[:4]), []
        # interleave encrypted records between the frame records (frames list keeps only the frame records)
        for r, f in zip(base[4:], frames):
            if rng.random() < 0.1:
                recs.append((True, rng.random() < 0.5, rng.choice([0, 3]), bytes(rng.getrandbits(8) for _ in range(rng.randint(0, 20)))))
            recs.append(r); fr2.append(f)
        all_recs.append(recs); all_frames.append(fr2)
        calls = {}
        for k, ft in enumerate(lp):
            n = sum(1 for f in frames if f['ft'] == k and f['vals'] is not None)
            if n == 0: continue
            calls[k] = [(gen_sel(rng, n), gen_chans(rng, ft)) for _ in range(rng.randint(2, 6))]
        # selector values shared by the frame types (served by ONE object per value): None / negative / beyond-the-end bounds
        ns = [sum(1 for f in frames if f['ft'] == k and f['vals'] is not None) for k in calls]
        for _s in range(rng.randint(1, 2) if len(calls) > 1 else rng.randint(0, 1)):
            shared = gen_sel(rng, rng.choice(ns))
            if shared is None: continue
            for k in calls:
                for _r in range(rng.choice([1, 1, 2])):
                    calls[k].insert(rng.randint(0, len(calls[k])), (shared, gen_chans(rng, lp[k])))
        order = [k for k, v in calls.items() for _ in v]
        rng.shuffle(order)
        all_orders.append(order); all_hists.append('reenter' if rng.random() < 0.3 else 'once')
        all_calls.append(calls)
        for k in range(len(lp)): ctx.count('frame_types')
        ctx.count('channel_set_order_' + lp.defs_order)
        if [c['ident'] for c in lp_defs(lp) if any(c is x for ft in lp for x in ft['chans'])] != [c['ident'] for ft in lp for c in ft['chans']]:
            ctx.count('channel_set_order_differs_from_frame_listing')
        if len(lp_defs(lp)) > sum(len(ft['chans']) for ft in lp): ctx.count('channel_set_with_unused_channels')
        ctx.count('channels', sum(len(ft['chans']) for ft in lp))
        for ft in lp:
            for ch in ft['chans']:
                ctx.count(f'channel_rc_{ch["rc"]}'); ctx.count(f'channel_rank_{len(ch["dims"])}')
    midx = ctx.lean([f'index {lp_txt(lp)} {recs_txt(recs)}' for (lp, _), recs in zip(cases, all_recs)])
    preq, pkey = [], []
    for ci, ((lp, _), recs, calls) in enumerate(zip(cases, all_recs, all_calls)):
        for k, cl in calls.items():
            preq.append(f'populate {lp_txt(lp)} {k} {recs_txt(recs)} {len(cl)} ' + ' '.join(f'{sel_txt(s)} {chans_txt(c)}' for s, c in cl))
            pkey.append((ci, k))
    prep = ctx.lean(preq)
    mpop = {}
    for (ci, k), r in zip(pkey, prep):
        mpop.setdefault(ci, {})[k] = r
    for ci, ((lp, _), frames, recs, calls) in enumerate(zip(cases, all_frames, all_recs, all_calls)):
        run_case(ctx, mods, lp, frames, recs, calls, midx[ci], mpop.get(ci, {}), order=all_orders[ci], hist=all_hists[ci])
        ctx.count('history_' + all_hists[ci])
        if ci == 0:
            ctx.sample({'lp': lp_txt(lp), 'n_records': len(recs), 'calls': {k: [[sel_txt(s), chans_txt(c)] for s, c in v] for k, v in calls.items()},
                        'model_reply': (prep[0][:300] if prep else '')})
    ctx.count('files', N)


def replay(ctx, rec):
    mods = _mods()
    case = rec.get('case')
    if not case:
        return True, 'nothing to replay (no concrete failing input was recorded)'
    lp = [{'name': [ft['name'][0], ft['name'][1], bytes.fromhex(ft['name'][2])],
           'chans': [{'ident': bytes.fromhex(c['ident']), 'rc': c['rc'], 'dims': c['dims']} for c in ft['chans']]} for ft in case['lp']]
    lp = LP(lp)
    if case.get('defs') is not None:
        lp.defs = [{'ident': bytes.fromhex(c['ident']), 'rc': c['rc'], 'dims': c['dims']} for c in case['defs']]
    recs = [(e, x, ty, bytes.fromhex(b)) for e, x, ty, b in case['recs']]
    calls = {int(k): [(s, None if c is None else [bytes.fromhex(i) for i in c]) for s, c in v] for k, v in case['calls'].items()}
    fails = run_case(ctx, mods, lp, case['frames'], recs, calls, None, None, record=False, order=case.get('order'), hist=case.get('hist', 'once'))
    if fails:
        return False, fails[0]
    return True, 'index and every populate call equal the recorded values'
