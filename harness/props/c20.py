"""C20 — file type identification recognises every supported format and never crashes (TotalDepth/util/bin_file_type.py)."""
import base64, io, json, os, random, signal, tempfile, time, traceback, zlib

CLAIM = {
 'text': ('Lean 4 theorems about a branch-for-branch model of bin_file_type.py whose table of tests, magic byte strings, constants and '
          'RP66 regular-expression shapes are re-generated from the source on every run: total_and_in_range (every answer is a '
          'documented code or the empty string, for all byte strings), first_match_wins, and recognition theorems stated against the '
          'spec encoders of the other properties: rp66_identified_c01 (TD.C01.encode sul recs layout, every conformant label with a '
          'printable identifier, all records and layouts), bit_identified_c13 (TD.C13.encode of any non-empty list of well-formed '
          'passes), dat_identified (TD.C14.Spec.print f in every layout, with the DAT trial parse instantiated by the C14 model '
          'canParseFile and proved to accept the file), lis_identified (TD.C05.encode L (header :: records) for every valid '
          'layout and TIF mode, with the deep test _lis made concrete as TD.C20.lisTest = the loop of /repo after 80d49da (pr_limit 100, '
          'then the whole file; every pad option that read at least one physical record tried, best count first, ties in dict order; '
          'options that raise or give an empty index skipped; C05 pad scan + reader, C06 FileIndex), PROVED to answer the code of the '
          'layout whenever building the index over the records does not raise - no condition on the pad-option scan is left; '
          'lis_answer_is_tif_state: for EVERY byte string the answer, if any, is the code of the TIF state of the first 12 bytes, '
          'whichever option succeeded), plus the '
          'prefix-level rp66_identified / bit_identified / lis_family_identified_partial / dat_text_identified and the scanner-level '
          'las12/las20_identified_partial. The model is tied to the code by a correspondence run on valid files of every format, '
          'all truncations <= 400 bytes, mutations, random bytes and adversarial text. "Raises nothing / terminates promptly / '
          'leaves the file readable" are properties of the CPython code, not of the model: they are exercised (partial), with every '
          'exception an oracle failure.'),
 'note': ('Partial: residual hypotheses of lis_identified: FileIndex does not raise on the record contents (hidx), file < 2^32-24 '
          'bytes, header record shape. TD.C05.encode writes no PAD bytes: padded files (input classes of the repaired defects 7ad9eab, '
          '80d49da) are covered by three kernel-evaluated examples (ExamplesPad.lean), the oracle, the corpus and the lis-deep stream, '
          'not by a theorem. lisTest reads whole records where '
          'FileIndex reads parts (equal on written files by read_refines; compared with _lis on written and padded files in stream '
          'lis-deep, files outside the C06 model scope skipped); LAS is proved at the level of the line scanner, not against TD.C09.print (whose number styles for VERS '
          'produce files the code does not identify: known finding FC20d). dat_identified needs "fifth byte is not V" (FC20e). '
          'Exceptions, timing and stream position are tested, not proved. Trusted: Lean kernel; Python re/struct/codecs (cp500).'),
 'technique': 'Lean 4 proof (case analysis over a generated signature table, list induction, composition with the C01/C05/C13/C14 spec encoders) + model-implementation correspondence + fuzzing oracle',
 'design_ref': 'DESIGN.md section 6 C20',
}

RULE = ('size independence: for every format, files whose header part (declarations, comment runs, titles, first visible record, records after the LIS header) or total size is 2^k + d for k = 9..16 and small d; path histories: one path reused for every ordered pair of contents (valid files of every format, damaged variants, non-files), identified through binary_file_type_from_path, an open file and a named in-memory file, each answer compared with the answer for the same bytes through a plain BytesIO; valid files: bundled example_data plus generated RP66V1 (any conformant SUL, any body), PADDED LIS (own encoder: null / non-null PAD bytes after physical records to a multiple of 2/4/8 bytes or a minimum record size 64/80/128, TIF next pointers skipping the padding, unused attribute bits, > 100 physical records; without TIF only the paddings the reader can resynchronise on), LIS written by File.FileWrite '
        '(reel/tape/file header first; TIF off/on/reversed; any PR length/trailer), LAS 1.2/2.0/3.0 layouts, BIT, DAT, SEG-Y, RP66V2, '
        'LISVER and magic-number formats, each with varying content and size; arbitrary bytes: random, every truncation length <= 400 '
        'and random longer ones, byte mutations/bit flips of valid files of every format, EBCDIC-printable blocks, LAS-like text with odd '
        'version lines, DAT-like text with extreme fields, LIS-like record structures with garbage, very long lines. A case is '
        'non-trivial when it is a valid file that must be recognised, or an arbitrary string on which at least one signature test '
        'gets past its first comparison; distinct by the hash of the bytes.')
ASSUMPTIONS = ['a LIS file whose physical records are followed by null PAD bytes to a multiple of 2 or 4 (LIS-79 2.3.1.1) is a valid LIS file and must be identified as LIS',
               'documented type codes are the 25 labels of FUNCTION_ID_MAP / BINARY_FILE_TYPE_DESCRIPTIONS at the time of writing',
               'a valid LIS file begins with a reel, tape or file header record whose name fields are printable ASCII; TIF-marked files '
               'whose first record is exactly 276 bytes are excluded (they carry the BIT signature)',
               'a valid DAT file has at least one data channel beside UTIM DATE TIME (RE_DATA_HEADER_DEFINITION requires it)',
               'promptness = at most 2 s CPU per call for inputs up to 1 MB (the LIS test indexes the whole file, cost is linear in size)',
               'a conformant RP66V1 storage unit label has a positive sequence number and a positive maximum record length']
EXTRA_LEAN_TARGETS = ('TD.C20.ExamplesPad',)     # kernel-evaluated padded LIS examples of the repaired defect's input class
TRUSTED = ['modelled, not verified: Python re (the RP66 patterns are classified into matcher shapes by exhaustive comparison over a 12-letter '
           'alphabet at the field width; RE_LAS_VERSION_LINE is transcribed as a scanner), bytes.strip/lstrip, line iteration of binary files, '
           'int() on two printable characters, cp500 decoding',
           'abstract in the model: _lis (PhysRec scan, TIF detection, FileIndexer) and DAT_parser.can_parse_file']

DOCUMENTED = ['RCD', 'STK', 'BIT', 'CFBF', 'PDS', 'XML', 'PDF', 'PS', 'ZIP', 'TIFF', 'JPEG', 'LAS1.2', 'LAS2.0', 'LAS3.0', 'RP66V1', 'RP66V1t',
              'RP66V1tr', 'RP66V2', 'DAT', 'SEGY', 'LISVER', 'ASCII', 'LISt', 'LIStr', 'LIS']
CPU_CAP = 2.0
WALL_CAP = 10
MODEL_MAX = 65536        # longer inputs are not sent to the Lean driver (their 64 KB prefix is, as an input of its own)
HEX_MAX = 65536
LIS_DEEP_MAX = 16384   # the list-based reader model is quadratic in the file size

# Open findings of this property: (id, exception type, file of the raising frame, function or None).  None at present:
# FC20a/b/c (see notes/C20.md) were repaired in /repo; their inputs are in CORPUS below and any recurrence is a VIOLATION.
FINDINGS = []
# Open findings that are NOT exceptions are classified at their own streams (`finding_if_wrong`): FC20d, FC20e.

# Permanent regression corpus, run first on every run: inputs on which binary_file_type once raised.
_DAT_HDR = b'UTIM Unix Time sec\nDATE Date ddmmyy\nTIME Time hhmmss\nWAC Wits Activity Code unitless\nUTIM DATE TIME WAC\n'
CORPUS = [
    ('FC20b struct.error: physical record with one byte of logical data', bytes.fromhex('0005000080')),
    ('FC20b struct.error (as first found)', bytes.fromhex('00052000e800')),
    ('FC20c OverflowError: table component block, rep code 70, negative value',
     bytes.fromhex('001600002200494604005459504520202020ffffffff')),
    ('FC20a OverflowError: DAT day too large for a C int', _DAT_HDR + b'1 2147483648Dec06 11-50-17 0\n'),
    ('FC20a OverflowError: DAT year too large for a C int', _DAT_HDR + b'1165665017 09Dec99999999999999999999 11-50-17 0\n'),
    ('F15 OverflowError: DAT UTIM out of range', _DAT_HDR + b'99999999999999999999 09Dec06 11-50-17 0\n'),
    ('ZeroDivisionError: mutated RCD-like input that the LIS test indexes to a format specification with zero samples '
     '(found by the thorough tier, seed 5)', bytes.fromhex('0400000040000000ffffffff000000002d26642e3a78303a0c4a4b782350535c2861503c3757770d333a7e412d730b39673a64705f313b3e7c4b2e7369474763505834735d5d0b457c625b4b21393f6d677b2a28465f404b4f704a4e334e466b6e7467d96e632575752a454d647d54590922680a597d572b4668676a6065465b3a5e2a5e2223336761695a4671774059697444395336442026772c4e536c5754737c42472a353426226b3c726c696b3553426b202037592e0970672a4b5a0b3f545338092e6d263c796664342e626f763962765b6523633d215c764676363e3b5a670b27790b66554b567e426e660d5138526c3d6a295f44390d7d632a7c2b0d5a4162227d27423d6b6236426120745a284f7e246a5409465b72523d20325f434577604b75286a3239784e2d0d0b2c203f7d097430685e386a3665775f506c4a653a5852517c290a0c4e565f6577682f6b2d350a2e260a3965674438667752274a6067665b79457e42385122276c7e5e704c240b775b3b23414a48625e2e2273273921572b594f697b7031404c4954532f09490b496d5d7968224237212a5a59')),
    ('F17 ValueError: EBCDIC-printable block with cards Cxx',
     ''.join('Cxx' + ' ' * 77 for _ in range(40)).encode('cp500')),
]


class _Timeout(BaseException):
    pass


def _alarm(signum, frame):
    raise _Timeout()


def _bft():
    import logging
    logging.disable(logging.CRITICAL)
    from TotalDepth.util import bin_file_type
    return bin_file_type


def _repo():
    import core
    return core.REPO


def call_impl(bft, b, via_path=None):
    """-> dict(out, cpu, pos_ok, where). out is a code, '' , 'EXC:<type>' or 'TIMEOUT'."""
    where = None
    old = signal.signal(signal.SIGALRM, _alarm)
    signal.alarm(WALL_CAP)
    t0 = time.process_time()
    pos_ok = True
    try:
        try:
            if via_path is not None:
                out = bft.binary_file_type_from_path(via_path)
            else:
                f = io.BytesIO(b)
                out = bft.binary_file_type(f)
                pos_ok = (f.tell() == 0 and f.read() == b)
            if not isinstance(out, str):
                out = 'EXC:NotAString'
        except _Timeout:
            out = 'TIMEOUT'
        except BaseException as e:           # noqa — every exception is an output class
            signal.alarm(0)
            tb = traceback.extract_tb(e.__traceback__)
            last = tb[-1] if tb else None
            where = (os.path.basename(last.filename), last.name) if last else ('?', '?')
            out = 'EXC:' + type(e).__name__
    finally:
        signal.alarm(0)
        signal.signal(signal.SIGALRM, old)
    return {'out': out, 'cpu': time.process_time() - t0, 'pos_ok': pos_ok, 'where': where}


def classify_finding(res):
    if not res['out'].startswith('EXC:') or res['where'] is None:
        return None
    typ = res['out'][4:]
    for fid, t, fname, func in FINDINGS:
        if typ == t and res['where'][0] == fname and (func is None or res['where'][1] == func):
            return fid
    return None


def sub_dat(bft, b):
    """What `_dat` says on an all-ASCII file (the model's `datP`); '0' when it raises (the whole call raises too)."""
    if any(c >= 128 for c in b):
        return '0'
    try:
        return '1' if bft._dat(io.BytesIO(b)) == 'DAT' else '0'
    except BaseException:
        return '0'


# ------------------------------------------------------------------ cases

def materialise(case):
    """Bytes of a recorded case (replay)."""
    from gen import c20_files as G
    if 'hex' in case:
        return bytes.fromhex(case['hex'])
    if 'z64' in case:
        return zlib.decompress(base64.b64decode(case['z64']))
    if 'file' in case:
        b = open(os.path.join(_repo(), case['file']), 'rb').read()
    elif 'gen' in case:
        b = generate(case['gen'], case['seed'])[0]
    elif 'sized' in case:
        b = generate_sized(case['sized'], case['target'], case['seed'])[0]
    else:
        raise ValueError('case has no bytes')
    if 'trunc' in case:
        b = b[:case['trunc']]
    for i, v in case.get('mut', []):
        b = b[:i] + bytes([v]) + b[i + 1:]
    return b


_POOLS = {}


def pools():
    """Material of the bundled example files that the generators recombine (computed once)."""
    if not _POOLS:
        from gen import c20_files as G
        ex = G.example_files(_repo())
        _POOLS['examples'] = ex
        _POOLS['lis'] = [G.lis_logical_records_of(p) for p, c in ex if c == 'LIS']
        _POOLS['rp66'] = [open(p, 'rb').read()[80:] for p, c in ex if c == 'RP66V1']
        _POOLS['las'] = []
        for p, c in ex:
            if c is None:
                by = open(p, 'rb').read()
                k = by.find(b'~W')
                _POOLS['las'].append(by[k:] if k > 0 else by)
    return _POOLS


GENS = ['rp66v1', 'rp66v1t', 'rp66v1tr', 'lis', 'lispad', 'las12', 'las20', 'las30', 'bit', 'dat', 'segy', 'rp66v2', 'lisver', 'ascii',
        'RCD', 'STK', 'CFBF', 'PDS', 'XML', 'PDF', 'PS', 'ZIP', 'TIFF', 'JPEG']
SUPPORTED = {'rp66v1', 'lis', 'lispad', 'las12', 'las20', 'bit', 'dat'}


def generate(name, seed):
    from gen import c20_files as G
    rng = random.Random(seed)
    P = pools()
    if name == 'rp66v1': return G.gen_rp66v1(rng, P['rp66'])
    if name == 'rp66v1t': return G.gen_rp66v1_tif(rng, False)
    if name == 'rp66v1tr': return G.gen_rp66v1_tif(rng, True)
    if name == 'lis': return G.gen_lis(rng, P['lis'])
    if name == 'lispad': return G.gen_lis_padded(rng, P['lis'])
    if name == 'las12': return G.gen_las(rng, '1.2', P['las'])
    if name == 'las20': return G.gen_las(rng, '2.0', P['las'])
    if name == 'las30': return G.gen_las(rng, '3.0', P['las'])
    if name == 'bit': return G.gen_bit(rng)
    if name == 'dat':
        while True:
            r = G.gen_dat(rng)
            if r[2]['channels'] >= 1:
                return r
    if name == 'segy': return G.gen_segy(rng)
    if name == 'rp66v2': return G.gen_rp66v2(rng)
    if name == 'lisver': return G.gen_lisver(rng)
    if name == 'ascii': return G.gen_ascii(rng)
    return G.gen_magic(rng, name)


def generate_sized(name, target, seed):
    from gen import c20_files as G
    return G.gen_sized(random.Random(seed), name, target, pools())


def case_of(b, origin):
    """A replayable record: the recipe, plus the bytes themselves when small."""
    case = dict(origin)
    if len(b) <= HEX_MAX:
        case['hex'] = b.hex()
    elif 'file' not in case and 'gen' not in case and 'sized' not in case:
        case['z64'] = base64.b64encode(zlib.compress(b, 9)).decode()
    return case


class Batch:
    """Collects inputs, runs the implementation on each, then the model on all of them in one driver call."""
    def __init__(self, ctx, bft):
        self.ctx, self.bft = ctx, bft
        self.pending = []     # (stream, case, b, impl_out, dat, lis)
        self.pending_lis = []
        self.seen = set()

    def run_one(self, stream, b, origin, expect=None, check_path=False, finding_if_wrong=None):
        ctx = self.ctx
        res = call_impl(self.bft, b)
        out = res['out']
        ctx.count('oracle_cases')
        ctx.count('impl_calls')
        case = None
        def mk():
            nonlocal case
            if case is None:
                case = case_of(b, origin)
                if expect is not None:
                    case['expect'] = expect
            return case
        # ---- property oracle, on the implementation alone
        if out.startswith('EXC:'):
            ctx.fail(mk(), f'binary_file_type raised {out[4:]} at {res["where"]} on {len(b)} bytes [{stream}]', finding=classify_finding(res), stream=stream)
        elif out == 'TIMEOUT':
            ctx.fail(mk(), f'binary_file_type did not return within {WALL_CAP} s wall on {len(b)} bytes [{stream}]', stream=stream)
        else:
            if out != '' and out not in DOCUMENTED:
                ctx.fail(mk(), f'returned {out!r}, not a documented type code [{stream}]', stream=stream)
            if res['cpu'] > CPU_CAP and len(b) <= 1 << 20:
                ctx.fail(mk(), f'took {res["cpu"]:.2f} s CPU on {len(b)} bytes (cap {CPU_CAP} s) [{stream}]', stream=stream)
            if not res['pos_ok']:
                ctx.fail(mk(), f'file not positioned at / readable from the start after the call [{stream}]', stream=stream)
            if expect is not None and out != expect:
                fid = finding_if_wrong(b, out) if callable(finding_if_wrong) else finding_if_wrong
                ctx.fail(mk(), f'valid {expect} file identified as {out!r} ({json.dumps(origin, default=repr)[:300]}) [{stream}]',
                         finding=fid, stream=stream)
            if expect is not None and out == expect and self.bft.is_lis_file_type(out) != (expect in ('LIS', 'LISt', 'LIStr')):
                ctx.fail(mk(), f'is_lis_file_type({out!r}) wrong for a valid {expect} file [{stream}]', stream=stream)
        if check_path and not out.startswith('EXC:') and out != 'TIMEOUT':
            ctx.count('oracle_cases')
            path = os.path.join(ctx.scratch, 'f.bin')
            with open(path, 'wb') as fh:
                fh.write(b)
            r2 = call_impl(self.bft, b, via_path=path)
            if r2['out'] != out:
                ctx.fail(mk(), f'binary_file_type_from_path gives {r2["out"]!r}, binary_file_type gives {out!r} [{stream}]',
                         finding=classify_finding(r2), stream=stream)
        # ---- bookkeeping
        if expect is not None or out not in ('', 'ASCII'):
            ctx.nontriv(hash(b))
        ctx.count('out:' + (out if not out.startswith('EXC') else out + '@' + str(res['where'])))
        # ---- correspondence (only where the implementation produced a value: the model has no exception output)
        if not out.startswith('EXC:') and out != 'TIMEOUT' and len(b) <= MODEL_MAX:
            lis = out if out in ('LIS', 'LISt', 'LIStr') else '-'
            self.pending.append((stream, origin, b, out, sub_dat(self.bft, b), lis))
            # the concrete deep test `TD.C20.lisTest` (C05 pad scan + reader, C06 index) against `_lis` itself, on complete
            # written LIS files (the model obtains the records by whole-record reads, exact when every record is complete)
            if expect in ('LIS', 'LISt', 'LIStr') and len(b) <= LIS_DEEP_MAX and stream.split(':')[0] in ('valid', 'sized', 'corpus'):
                try:
                    deep = self.bft._lis(io.BytesIO(b)) or '-'
                except BaseException:
                    deep = None
                if deep is not None:
                    self.pending_lis.append((origin, b, deep))
        return out

    def flush(self):
        if self.pending_lis and getattr(self.ctx, 'model_available', True):
            replies = self.ctx.lean([f'lis {b.hex() or "-"}' for _, b, _ in self.pending_lis])
            for (origin, b, deep), m in zip(self.pending_lis, replies):
                if m == '?':      # record contents outside the scope of the C06 index model (Err.unsupported)
                    self.ctx.count('lis_deep_out_of_model_scope')
                    continue
                self.ctx.corr('lis-deep', case_of(b, origin) if deep != m else None, deep, m)
        self.pending_lis = []
        if not self.pending or not getattr(self.ctx, 'model_available', True):
            self.pending = []
            return
        lines = [f'ftype {b.hex() or "-"} {dat} {lis}' for _, _, b, _, dat, lis in self.pending]
        replies = self.ctx.lean(lines)
        for (stream, origin, b, out, dat, lis), m in zip(self.pending, replies):
            self.ctx.corr(stream, case_of(b, origin) if (out or '-') != m else None, out or '-', m)
        self.pending = []


# ------------------------------------------------------------------ streams

def mutate(rng, b):
    m = bytearray(b)
    muts = []
    if not m:
        return b, muts
    for _ in range(rng.randint(1, 4)):
        span = rng.choice([16, 100, 300, len(m)])
        i = rng.randrange(min(len(m), span))
        v = rng.randrange(256) if rng.random() < 0.5 else m[i] ^ (1 << rng.randrange(8))
        m[i] = v
        muts.append([i, v])
    return bytes(m), muts


def adversarial_texts(rng):
    """LAS-like, DAT-like, LISVER-like and plain text built to reach the later branches of the text tests."""
    out = []
    ws = [' ', '\t', '\x0b', '\x0c', '\r', '  ', '']
    for _ in range(60):
        head = rng.choice(['~V', '~v', '~', '~VERSION', ' ~V', '#~V\n~V', '~V#x', '~A', 'V', '~\x00V'])
        vers = (rng.choice(ws) + rng.choice(['VERS', 'VERS', 'vers', 'VER', 'VERSION']) + rng.choice(ws) + rng.choice(['.', '.', '', '..', ':'])
                + rng.choice(ws) + rng.choice(['2.0', '1.2', '3.0', '2', '.2.0', '2.0.1', '12.0', '1.20', '20', '', 'x', '2,0'])
                + rng.choice(ws) + rng.choice([':', ':', '', ';', ' :']) + rng.choice(['', 'desc', ' # c', '\x80']))
        nl = rng.choice(['\n', '\r\n', '\r', '\n\n', '\n#\n', '\n \n'])
        out.append((head + nl + vers + rng.choice(['', nl, nl + 'WRAP. NO:'])).encode('latin-1'))
    hdr = 'UTIM Unix Time sec\nDATE Date ddmmyy\nTIME Time hhmmss\nWAC Wits Activity Code unitless\nUTIM DATE TIME WAC\n'
    rows = ['1165665017 09Dec06 11-50-17 0', '99999999999999999999 09Dec06 11-50-17 0', '-99999999999999999 09Dec06 11-50-17 0',
            '1 09-Dec-06 11-50-17 1e999', '1 0Dec06 11-50-17 0', '1 32Dec06 11-50-17 0', '1 09Dec06 25-50-17 0', '1 09Dec06 11-50-17 nan',
            '-1 1Jan0 0-0-0 0', '1 09Dec06 11-50-17', '1 09Dec06 11-50-17 0 0', '', '1 09Xyz06 11-50-17 0', '1 9-Dec06 11-50-17 0',
            '1 09Dec06 11:50:17 0', '1_0 09Dec06 11-50-17 1_0', '\x001 09Dec06 11-50-17 0', '1 09Dec06 11-50-17 0x10', '1 09Dec06 11-50-17 ' + '9' * 400,
            '9' * 5000 + ' 09Dec06 11-50-17 0', '1 ' + '9' * 12 + 'Dec06 11-50-17 0', '1 09Dec' + '9' * 12 + ' 11-50-17 0', '1 2147483648Dec06 11-50-17 0']
    for r in rows:
        out.append((hdr + r + '\n').encode('latin-1'))
    out.append(hdr.encode())
    out.append(hdr.replace('WAC Wits', 'WAC\tWits').encode())
    out.append(('UTIM Unix Time sec\nUTIM Unix Time sec\nDATE Date ddmmyy\nTIME Time hhmmss\nA b c\nUTIM DATE TIME A A\n1 09Dec06 11-50-17 0 0\n').encode())
    out.append(('UTIM Unix Time sec\nDATE Date ddmmyy\nTIME Time hhmmss\nUTIM DATE TIME NOPE\n1 09Dec06 11-50-17 0\n').encode())
    out.append(('A b c\nUTIM DATE TIME A\n1 2 3 4\n').encode())
    for lead in ['', '\n', ' ', '\n\n\n', '\t\r\n', ' ' * 15, ' ' * 16, ' ' * 17, ' ' * 60, '\x00']:
        for sig in ['=LIS VERIFICATION by PETROLOG rev ', '=LIS VERIFICATION BY PETROLOG REVISION ', '=LIS VERIFICATION by PETROLOG rev', '=LIS VERIFICATION BY PETROLOG REV ']:
            out.append((lead + sig + '1.0\n').encode())
    for n in (1, 255, 256, 257, 3199, 3200, 3201):
        out.append(b'a' * n); out.append(b'a' * (n - 1) + b'\x80'); out.append(b'\x80' + b'a' * (n - 1))
    out.append(b'')
    return out


def lis_like(rng):
    """Physical/logical record structures with plausible headers and garbage inside (reaches FileIndexer's parsers)."""
    import struct
    out = bytearray()
    tif = rng.random() < 0.3
    pos = prev = 0
    for _ in range(rng.randint(1, 8)):
        lrty = rng.choice([128, 129, 130, 131, 132, 133, 34, 39, 47, 64, 65, 0, 1, 232, 95, 96, 85, 86, 137, rng.randrange(256)])
        pay = bytes([lrty, rng.choice([0, 0, 0, 1])]) + bytes(rng.randrange(256) if rng.random() < 0.7 else 32 for _ in range(rng.choice([0, 1, 5, 20, 56, 60, 126, 200, 1000])))
        if rng.random() < 0.05:
            pay = pay[:1]
        attr = rng.choice([0, 0, 0, 1, 2, 3, 0x200, 0x400, 0x1000, 0x600, 0x2000, 0x4000, rng.randrange(65536)])
        pr = struct.pack('>HH', (len(pay) + 4 + rng.choice([0, 0, 0, 0, 1, -1, 2])) & 0xffff, attr) + pay
        if tif:
            nxt = pos + 12 + len(pr)
            out += struct.pack('<3L', 0, prev, nxt); prev = pos; pos = nxt
        out += pr
    return bytes(out)


def ebcdic_blocks(rng):
    out = []
    printable = sorted(set(__import__('string').printable.encode('cp500')))
    for _ in range(12):
        out.append(bytes(rng.choice(printable) for _ in range(rng.choice([3199, 3200, 3200, 3300]))))
    for _ in range(12):
        cards = []
        for i in range(40):
            num = rng.choice(['%02d' % (i + 1), '%02d' % (i + 1), '%2d' % (i + 1), 'xx', '  ', '+%d' % (i % 10), '-1', '1_', '%d ' % (i % 10), '%02d' % i])
            cards.append('C' + num[:2].ljust(2) + ''.join(rng.choice('ABC xyz09') for _ in range(77)))
        out.append(''.join(cards).encode('cp500') + b'\x00' * rng.choice([0, 10]))
    return out


def odd_version_las(rng):
    """LAS texts that the LAS reader accepts (VERS is numerically 1.2 / 2.0, C09 `checkV`) but whose version value is not
    spelled with the prefix `1.2` / `2.0`, or that give VERS a unit: class of known finding FC20d."""
    out = []
    for ver, vals in (('2.0', ['2', '20.e-1', '0.20e1', '02.0', '+2.0', '2.', '2e0']), ('1.2', ['12.e-1', '0.12e1', '01.2', '120.0e-2'])):
        for v in vals:
            for line in ('VERS. %s : CWLS' % v, 'VERS.   %s:' % v):
                out.append((('~Version\n%s\nWRAP. NO : One line per frame\n~W\nSTRT.M 1.0:\n' % line).encode(), 'LAS' + ver))
    out.append((b'~V\nVERS.X 2.0 : unit on the version line\nWRAP. NO:\n', 'LAS2.0'))
    return out


def sul_like_dat(rng):
    """Well-formed DAT texts (accepted by DAT_parser) whose first declaration imitates a storage unit label: a channel named
    dV1 / ddV1 / ... written with leading blanks so that bytes 4..8 read `V1?dd`: class of known finding FC20e."""
    out = []
    for first in ('   1V1 00RECORD 8192', '  12V1 99RECORD 00001', '0001V1 00RECORD 8192', ' 007V1\t10RECORD    1'):
        name = first.split()[0]
        text = (first + ' Long description words to fill sixty printable bytes of the label x\n'
                'UTIM Unix Time sec\nDATE Date ddmmyy\nTIME Time hhmmss\nUTIM DATE TIME %s\n1165665017 09Dec06 11-50-17 5\n' % name)
        out.append(text.encode())
    return out


class _NamedBytesIO(io.BytesIO):
    """an in-memory file object that carries a `.name`, like the objects `open()` returns"""
    def __init__(self, b, name):
        super().__init__(b)
        self.name = name


HIST_MODES = ('path', 'fobj', 'named')


def identify_via(bft, mode, path, b):
    """One identification of the file at `path` (content `b` already written there) in the given mode."""
    if mode == 'path':
        return call_impl(bft, b, via_path=path)
    old = signal.signal(signal.SIGALRM, _alarm)
    signal.alarm(WALL_CAP)
    where = None
    t0 = time.process_time()
    try:
        try:
            if mode == 'fobj':
                with open(path, 'rb') as f:
                    out = bft.binary_file_type(f)
            else:
                out = bft.binary_file_type(_NamedBytesIO(b, path))
        except _Timeout:
            out = 'TIMEOUT'
        except BaseException as e:      # noqa
            signal.alarm(0)
            tb = traceback.extract_tb(e.__traceback__)
            where = (os.path.basename(tb[-1].filename), tb[-1].name) if tb else ('?', '?')
            out = 'EXC:' + type(e).__name__
    finally:
        signal.alarm(0)
        signal.signal(signal.SIGALRM, old)
    return {'out': out, 'cpu': time.process_time() - t0, 'pos_ok': True, 'where': where}


def run_history(ctx, bft, root, steps, stream='history'):
    """steps: [{'name': relative path, 'mode': one of HIST_MODES, 'content': recipe}].  After every step the answer must be
    the answer for those bytes alone (a plain BytesIO, which no path-keyed state can reach): "the answer is a function of
    the bytes".  Returns the index of the first failing step or None."""
    for i, st in enumerate(steps):
        b = materialise(st['content'])
        path = os.path.join(root, st['name'])
        os.makedirs(os.path.dirname(path), exist_ok=True)
        with open(path, 'wb') as fh:
            fh.write(b)
        ref = call_impl(bft, b)['out']
        res = identify_via(bft, st['mode'], path, b)
        ctx.count('oracle_cases'); ctx.count('history_steps')
        if res['out'] != ref:
            ctx.fail({'history': steps[:i + 1]},
                     f'step {i} ({st["mode"]}, {st["name"]}): answer {res["out"]!r} but these {len(b)} bytes alone give {ref!r}; '
                     f'earlier contents at the same name: {[s["content"].get("label") for s in steps[:i] if s["name"] == st["name"]]} [{stream}]',
                     finding=classify_finding(res), stream=stream)
            return i
        ctx.nontriv(hash((b, st['mode'], i)))
    return None


def history_contents(ctx):
    """Small representative contents: one valid file per format (fresh each run), damaged variants and non-files."""
    rng = ctx.rng
    out = []
    for name in GENS:
        for _ in range(40):
            seed = rng.getrandbits(48)
            b, expect, rec = generate(name, seed)
            if len(b) <= 40000 and not (name in ('lis', 'lispad') and rec.get('first_pr') == 276):
                break
        out.append({'gen': name, 'seed': seed, 'label': expect})
        if name in SUPPORTED or name in ('rp66v1t', 'las30'):
            cut = rng.choice([len(b) // 2, 37, max(len(b) - 3, 1)])
            out.append({'gen': name, 'seed': seed, 'trunc': cut, 'label': expect + ':trunc%d' % cut})
            if len(b) > 8:
                i = rng.randrange(min(len(b), 24))
                out.append({'gen': name, 'seed': seed, 'mut': [[i, b[i] ^ 0xff]], 'label': expect + ':mut%d' % i})
    have = {c['label'] for c in out}
    for _ in range(200):          # every TIF flavour of LIS
        if {'LIS', 'LISt', 'LIStr'} <= have:
            break
        seed = rng.getrandbits(48)
        b, expect, rec = generate('lis', seed)
        if expect not in have and len(b) <= 40000 and rec.get('first_pr') != 276:
            out.append({'gen': 'lis', 'seed': seed, 'label': expect}); have.add(expect)
    for lab, hx in (('empty', ''), ('nul', '00' * 64), ('text', b'plain text\n'.hex()), ('garbage', bytes(range(256)).hex())):
        out.append({'hex': hx, 'label': lab})
    return out


def run_histories(ctx, bft):
    rng = ctx.rng
    contents = history_contents(ctx)
    labels = [c['label'] for c in contents]
    root = os.path.join(ctx.scratch, 'hist')
    k = 0
    def fresh(basename):
        nonlocal k
        k += 1
        return os.path.join('d%d' % k, basename)
    # every ordered pair of contents at one path, the two identifications in any two modes
    pairs = [(a, b) for a in range(len(contents)) for b in range(len(contents)) if a != b]
    rng.shuffle(pairs)
    lim = ctx.n(1500, len(pairs))
    # make sure every (first is not LIS) -> (second is LIS) pair and its converse are in
    is_lis = lambda c: str(c['label']).startswith('LIS') and ':' not in str(c['label'])
    forced = [(a, b) for a, b in pairs if is_lis(contents[a]) != is_lis(contents[b])]
    chosen = forced + [p for p in pairs if p not in set(forced)][:max(lim - len(forced), 0)]
    for a, b in chosen:
        name = fresh(rng.choice(['f.bin', 'same.dat', 'WELL.LIS', 'x']))       # the same base names recur in different directories
        steps = [{'name': name, 'mode': rng.choice(HIST_MODES), 'content': contents[a]},
                 {'name': name, 'mode': rng.choice(HIST_MODES), 'content': contents[b]}]
        if rng.random() < 0.3:      # and back again
            steps.append({'name': name, 'mode': rng.choice(HIST_MODES), 'content': contents[a]})
        run_history(ctx, bft, root, steps)
    # longer histories over two names that differ only in their directory
    for _ in range(ctx.n(60, 600)):
        n1, n2 = fresh('same.bin'), fresh('same.bin')
        steps = [{'name': rng.choice([n1, n2]), 'mode': rng.choice(HIST_MODES), 'content': rng.choice(contents)} for _ in range(rng.randint(3, 8))]
        run_history(ctx, bft, root, steps)
    ctx.note(f'histories: {len(chosen)} ordered pairs of {len(contents)} contents ({", ".join(sorted(set(str(l) for l in labels)))[:400]}) at one path, '
             f'modes {HIST_MODES}; reference = the same bytes through a plain BytesIO')


def run(ctx):
    bft = _bft()
    rng = ctx.rng
    B = Batch(ctx, bft)
    P = pools()
    repo = _repo()
    valid = []            # (bytes, expect, origin) used as seeds for truncation / mutation
    # ---- 0. permanent regression corpus (inputs that once made binary_file_type raise)
    for name, b in CORPUS:
        B.run_one('corpus', b, {'corpus': name}, check_path=True)
    from gen import c20_corpus
    for name, expect, b in c20_corpus.items():
        B.run_one('corpus', b, {'corpus': name}, expect=expect, check_path=True)
    B.flush()
    # ---- 0b. two input classes found while stating the recognition theorems against the C09 / C14 printers (known findings)
    for b, expect in odd_version_las(rng):
        B.run_one('valid:las-odd-vers', b, {'class': 'FC20d'}, expect=expect, finding_if_wrong='C20-las-unusual-vers-spelling-ascii')
    for b in sul_like_dat(rng):
        B.run_one('valid:dat-sul-like', b, {'class': 'FC20e'}, expect='DAT', finding_if_wrong='C20-dat-first-line-sul-like-rp66v1')
    B.flush()
    # ---- 1. bundled example files
    for path, code in P['examples']:
        b = open(path, 'rb').read()
        expect = code or 'LAS2.0'
        origin = {'file': os.path.relpath(path, repo)}
        B.run_one('valid:example', b, origin, expect=expect, check_path=True)
        valid.append((b, expect, origin))
        if len(b) > MODEL_MAX:     # the 64 KB prefix as an input of its own, so that the model sees these files too
            B.run_one('trunc:64k', b[:MODEL_MAX], dict(origin, trunc=MODEL_MAX))
    B.flush()
    # ---- 1b. size independence: for every format, files whose header part / total size sits around every power of two
    from gen import c20_files as G2
    for name in GENS:
        for kk in range(9, 17):
            offs = [-1, 0, 1, rng.randint(-6, 6)] if ctx.tier == 'quick' else list(range(-4, 5)) + [rng.randint(-40, 40) for _ in range(4)]
            for d in offs:
                seed = rng.getrandbits(48)
                target = 2 ** kk + d
                b, expect, rec = generate_sized(name, target, seed)
                if name in ('lis', 'lispad') and expect != 'LIS' and rec.get('first_pr') == 276:
                    expect = None
                B.run_one('sized:' + name, b, {'sized': name, 'target': target, 'seed': seed}, expect=expect, check_path=(d == 0 and kk % 4 == 0))
        B.flush()
    # ---- 1c. path histories: the answer is a function of the bytes, not of what was at that path before
    run_histories(ctx, bft)
    # ---- 2. generated valid files of every format, every layout the generators know, varying content and size
    per = ctx.n(120, 1200)
    seeds_by_gen = {}
    for name in GENS:
        n = per if name in SUPPORTED else max(per // 4, 20)
        for k in range(n):
            seed = rng.getrandbits(48)
            b, expect, rec = generate(name, seed)
            origin = {'gen': name, 'seed': seed}
            if name in ('lis', 'lispad') and expect != 'LIS' and rec.get('first_pr') == 276:
                expect = None      # the stated exclusion: TIF-marked, first record exactly 276 bytes (BIT signature)
            B.run_one('valid:' + name, b, origin, expect=expect, check_path=(k % 10 == 0))
            if k < ctx.n(2, 6):
                valid.append((b, expect, origin))
            if k == 0:
                ctx.sample({'generator': name, 'recipe': rec, 'expected': expect, 'first_bytes': b[:24].hex()})
        B.flush()
    # ---- 3. truncations: every length <= 400 of every seed file, and random longer ones
    for b, expect, origin in valid:
        top = min(len(b), 400)
        for n in range(0, top + 1):
            B.run_one('trunc:<=400', b[:n], dict(origin, trunc=n))
        for _ in range(ctx.n(15, 150)):
            if len(b) > 400:
                n = rng.randint(401, len(b))
                B.run_one('trunc:long', b[:n], dict(origin, trunc=n))
        B.flush()
    # ---- 4. mutations / bit flips of valid files
    for b, expect, origin in valid:
        for _ in range(ctx.n(40, 400)):
            cut = rng.choice([len(b), len(b), 500, 2000])
            base = b[:cut]
            m, muts = mutate(rng, base)
            o = dict(origin, mut=muts)
            if cut < len(b):
                o['trunc'] = cut
            B.run_one('mutation', m, o)
        B.flush()
    # ---- 5. random bytes
    from gen import c20_files as G
    for _ in range(ctx.n(2500, 25000)):
        n = rng.choice([rng.randint(0, 40), rng.randint(0, 600), rng.randint(0, 5000)])
        style = rng.randrange(4)
        if style == 0:
            b = G.rbytes(rng, n)
        elif style == 1:
            b = bytes(rng.choice(b'\x00\x00\x00\x01\x20\x80\xff\x0a#~V') for _ in range(n))
        elif style == 2:
            b = bytes(rng.randrange(128) for _ in range(n))
        else:
            b = b'\x00' * rng.choice([4, 8, 8, 12]) + G.rbytes(rng, n)
        B.run_one('random', b, {})
    B.flush()
    # ---- 6. adversarial text, EBCDIC blocks, LIS-like structures, very long lines
    for b in adversarial_texts(rng):
        B.run_one('adversarial:text', b, {})
    for b in ebcdic_blocks(rng):
        B.run_one('adversarial:ebcdic', b, {})
    B.flush()
    for _ in range(ctx.n(4000, 40000)):
        B.run_one('adversarial:lis-like', lis_like(rng), {})
    B.flush()
    for n in (ctx.n(200000, 2000000), 70000):
        for b in (b'~V' + b'x' * n, b'x' * n + b'\n~V\nVERS. 2.0:\n', b' ' * n, b'#' * n, b'\n' * n, b'~V\n' + b' ' * n + b'VERS. 2.0 :', b'\x80' * n,
                  b'\x00\x06\x00\x00\xe8\x00' * (n // 6), b'UTIM Unix Time sec\n' * (n // 19)):
            B.run_one('adversarial:long', b, {'long': True})
    B.flush()
    ctx.note('LIS (_lis) and the DAT trial parse are abstract in the model: the correspondence run feeds the model the implementation\'s own '
             'sub-test results; inputs on which the implementation raises are oracle failures and are not compared with the model')
    ctx.note('streams: ' + ', '.join(f'{k}={v}' for k, v in sorted(ctx.streams.items())))


def replay(ctx, rec):
    bft = _bft()
    case = rec['case']
    if 'history' in case:
        n0 = len(ctx.failures)
        bad = run_history(ctx, bft, os.path.join(ctx.scratch, 'replay'), case['history'], stream='replay')
        if bad is not None:
            return False, ctx.failures[n0]['detail']
        return True, f'history of {len(case["history"])} steps: every answer equals the answer for the bytes alone'
    try:
        b = materialise(case)
    except Exception as e:
        return True, f'nothing to replay ({e})'
    n0 = len(ctx.failures)
    B = Batch(ctx, bft)
    out = B.run_one('replay', b, {k: v for k, v in case.items() if k not in ('hex', 'z64', 'expect')}, expect=case.get('expect'), check_path=True)
    if len(ctx.failures) > n0:
        return False, ctx.failures[n0]['detail']
    return True, f'binary_file_type -> {out!r} on {len(b)} bytes'


def search(ctx):
    """Extra budget when a proof or the correspondence broke and no failing input was found: more valid files of the supported formats."""
    bft = _bft()
    B = Batch(ctx, bft)
    for name in sorted(SUPPORTED):
        for _ in range(600):
            seed = ctx.rng.getrandbits(48)
            b, expect, rec = generate(name, seed)
            if name in ('lis', 'lispad') and expect != 'LIS' and rec.get('first_pr') == 276:
                expect = None
            B.run_one('search:' + name, b, {'gen': name, 'seed': seed}, expect=expect)
        B.pending = []


def translate(ctx):
    import core
    from gen import c20_translate
    c20_translate.write(core.REPO, core.LEAN_DIR)
