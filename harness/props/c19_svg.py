def run_svg(ctx): pass
def replay_svg(ctx, case): return True, 'stub'
