"""C19 (b) — the SVG producer, exercised on generated log passes (oracle only, nothing here uses the Lean model).

One case = one call of Plot.plotLogPassLIS / plotLogPassLAS on a generated log pass:
  input      LIS (written with the repo's LisGen) or LAS (text)
  format     a built-in LgFormat XML (PlotReadXML) or a generated FILM/PRES table pair (PlotReadLIS)
  data class constant | smooth | spiky | huge | tiny | neglog | absent | mixed
The resulting SVG is parsed with lxml and checked:
  * well-formed, root <svg>, viewBox "0 0 W H" consistent with width/height (96 units per inch)
  * main pane (from the track lines) inside the view box and the quarter-inch margins, depth = |xStop-xStart|/scale
  * every curve polyline point inside the view box, between the left and right plot margins, inside the union of the
    tracks of the curves of its output, inside the main pane
  * no point for absent values: a point may only sit at the depth of a frame whose value is present, or strictly between
    two adjacent present frames (wrap interpolation); at a frame whose value cannot be plotted (absent; non-positive on
    log-only outputs) no off-edge point
  * every present frame of every on-scale curve has its point where an independent Fraction computation puts it
"""
import io, json, logging, math, os, random, re, sys
from fractions import Fraction as Fr

SVG = '{http://www.w3.org/2000/svg}'
ABSENT = -999.25
UPI = 96.0           # PlotConstants.VIEW_BOX_UNITS_PER_PLOT_UNITS
TOL = 0.07           # one printed decimal
TOLY = 0.12          # depth axis: plus the three-decimal inch rounding of the track lines the pane is read from
IN_PER = {b'.1IN': 0.1, b'FEET': 12.0, b'FT  ': 12.0, b'M   ': 1 / 0.0254, b'IN  ': 1.0, b'DM  ': 0.1 / 0.0254, b'CM  ': 0.01 / 0.0254}
LAS_UNIT = {'FEET': 'F', 'FT  ': 'FT', 'M   ': 'M', 'DM  ': 'DM'}       # LIS-style X units -> LAS unit string
CLASSES = ['constant', 'smooth', 'spiky', 'huge', 'tiny', 'neglog', 'absent', 'mixed']


# ---------------------------------------------------------------------------------------------- data generation

def gen_values(rng, cls, kind, lL, rL, n, big, small):
    def inscale(t=None):
        t = rng.random() if t is None else t
        if kind == 'log' and lL > 0 and rL > 0:
            return lL * (rL / lL) ** t
        return lL + (rL - lL) * t
    def one(c):
        if c == 'constant': return None
        if c == 'smooth': return inscale()
        if c == 'spiky':
            return inscale() if rng.random() < 0.8 else inscale() * rng.choice([-1, 1]) * 10.0 ** rng.randint(1, 6)
        if c == 'huge':
            return inscale() if rng.random() < 0.5 else rng.choice([-1, 1]) * big * rng.uniform(0.1, 1)
        if c == 'tiny':
            return rng.choice([0.0, small, -small, small * 100, 1e-20, -1e-20, inscale()])
        if c == 'neglog':
            return rng.choice([0.0, -1.0, -inscale(), -1e-10, -big / 10, inscale(), inscale()])
        if c == 'absent':
            return ABSENT if rng.random() < 0.35 else inscale(rng.uniform(-2.5, 3.5))
        return one(rng.choice(['smooth', 'spiky', 'huge', 'tiny', 'neglog', 'absent']))
    if cls == 'constant':
        v = inscale(); return [v] * n
    if cls == 'smooth':
        a = rng.uniform(0.3, 2.5); ph = rng.uniform(0, 6)
        return [inscale(0.5 + a * math.sin(ph + i / rng.choice([3.0, 5.0, 9.0]))) for i in range(n)]
    out = [one(cls) for _ in range(n)]
    if cls in ('absent', 'mixed') and n > 6:
        out[0] = ABSENT if rng.random() < 0.3 else out[0]
        out[-1] = ABSENT if rng.random() < 0.3 else out[-1]
        i = rng.randrange(1, n - 3); out[i] = inscale(0.5); out[i + 1] = ABSENT; out[i + 2] = inscale(rng.choice([0.6, 1.5, 3.5, -2.2]))
    return out


class _Vals:
    def __init__(self, v): self.v = v
    def val(self, f, s=0): return self.v[f]


def make_lis(chans, n, x0, spacing, xunits, up):
    """chans: [(name4 bytes, [values])]; returns (File, FileIndex)"""
    from TotalDepth.LIS.core import LogiRec, LisGen, FileIndexer, File
    ebs = LogiRec.EntryBlockSet()
    ebs.setEntryBlock(LogiRec.EntryBlock(LogiRec.EB_TYPE_FRAME_SIZE, 1, 66, 4 * (len(chans) + 1)))
    ebs.setEntryBlock(LogiRec.EntryBlock(LogiRec.EB_TYPE_UP_DOWN_FLAG, 1, 66, 1 if up else 255))
    ebs.setEntryBlock(LogiRec.EntryBlock(LogiRec.EB_TYPE_FRAME_SPACE, 1, 68, float(spacing)))
    ebs.setEntryBlock(LogiRec.EntryBlock(LogiRec.EB_TYPE_FRAME_SPACE_UNITS, 4, 65, xunits))
    ch = [LisGen.Channel(LisGen.ChannelSpec(nm, b'ServID', b'ServOrdN', b'    ', 45310011, 256, 4, 1, 68), _Vals(v)) for nm, v in chans]
    g = LisGen.LogPassGen(ebs, ch, xStart=x0, xRepCode=68, xNoise=None)
    data = LisGen.retSinglePr(LisGen.FileHeadTailDefault.lrBytesFileHead)
    data.extend(LisGen.retPrS(g.lrBytesDFSR()))
    for f in range(0, n, 8):
        data.extend(LisGen.retPrS(g.lrBytes(f, min(8, n - f))))
    data.extend(LisGen.retSinglePr(LisGen.FileHeadTailDefault.lrBytesFileTail))
    fobj = File.FileRead(theFile=io.BytesIO(bytes(data)), theFileId='gen', keepGoing=False)
    return fobj, FileIndexer.FileIndex(fobj)


def make_las(chans, n, x0, step, unit='F'):
    lines = ['~VERSION INFORMATION', ' VERS.   2.0: CWLS LOG ASCII STANDARD - VERSION 2.0', ' WRAP.   NO: ONE LINE PER DEPTH STEP',
             '~WELL INFORMATION BLOCK', f' STRT.{unit}   {x0!r}:', f' STOP.{unit}   {x0 + step * (n - 1)!r}:', f' STEP.{unit}   {step!r}:',
             ' NULL.   -999.25: NULL VALUE', ' WELL.   GENERATED: WELL', '~CURVE INFORMATION', f' DEPT.{unit}   : Depth']
    for nm, _ in chans:
        lines.append(f' {nm}.UNIT   : generated')
    lines.append('~A')
    for f in range(n):
        lines.append(' '.join([repr(x0 + step * f)] + [repr(float(v[f])) for _, v in chans]))
    return '\n'.join(lines) + '\n'


# ---------------------------------------------------------------------------------------------- FILM / PRES tables

def table_bytes(name, rows):
    """rows: list of list of (mnem4, units4, value) where value is bytes(4) -> repcode 65 or float -> repcode 68"""
    from TotalDepth.LIS.core import RepCode
    b = bytearray(b'"\x00' + b'IA\x04\x00TYPE    ' + name)
    for row in rows:
        for k, (mn, un, val) in enumerate(row):
            typ = b'\x00' if k == 0 else b'E'
            if isinstance(val, bytes):
                b += typ + b'A\x04\x00' + mn + un + val
            else:
                b += typ + b'D\x04\x00' + mn + un + RepCode.writeBytes(val, 68)
    return bytes(b)


def gen_tables(rng):
    gc = rng.choice([(b'E20 ', b'-4--'), (b'EEE ', b'----'), (b'E2E ', b'-2--'), (b'E2E ', b'-1--'), (b'E3E ', b'-3--'),
                     (b'E4E ', b'-4--'), (b'EEB ', b'----')])
    dsca = rng.choice([b'D200', b'D500', b'D40 ', b'D20 ', b'DM  ', b'S5  ', b'S2  '])
    film = [[(b'MNEM', b'    ', b'1   '), (b'GCOD', b'    ', gc[0]), (b'GDEC', b'    ', gc[1]), (b'DEST', b'    ', b'PF1 '), (b'DSCA', b'    ', dsca)]]
    pres, curves = [], []
    nout = rng.randint(1, 4)
    for k in range(rng.randint(1, 6)):
        mode = rng.choice([b'SHIF', b'GRAD', b'NB  ', b'WRAP', b'X10 ', b'WRAP', b'SHIF'])
        trac = rng.choice([b'T1  ', b'T2  ', b'T3  ', b'T23 ', b'LHT1', b'RHT1', b'LHT2', b'RHT2', b'LHT3', b'RHT3', b'T1  ', b'T23 '])
        if mode == b'GRAD':
            l, r = rng.choice([(0.2, 2000.0), (2000.0, 0.2), (1.0, 1000.0), (2.0, 20.0), (0.5, 50000.0)])
        else:
            l, r = rng.choice([(0.0, 100.0), (-80.0, 20.0), (0.45, -0.15), (6.0, 16.0), (140.0, 40.0), (0.0, 1.0), (1.95, 2.95), (500.0, 0.0)])
        outp = ('O%d  ' % rng.randrange(nout)).encode()[:4]
        pres.append([(b'MNEM', b'    ', ('C%d  ' % k).encode()[:4]), (b'OUTP', b'    ', outp), (b'STAT', b'    ', b'ALLO'),
                     (b'TRAC', b'    ', trac), (b'CODI', b'    ', rng.choice([b'LLIN', b'LDAS', b'HDAS', b'LSPO', b'HSPO', b'LGAP'])),
                     (b'DEST', b'    ', b'1   '), (b'MODE', b'    ', mode), (b'FILT', b'    ', 0.5), (b'LEDG', b'    ', l), (b'REDG', b'    ', r)])
    return {'film': [[(a.decode('latin1'), b.decode('latin1'), c.decode('latin1') if isinstance(c, bytes) else c) for a, b, c in row] for row in film],
            'pres': [[(a.decode('latin1'), b.decode('latin1'), c.decode('latin1') if isinstance(c, bytes) else c) for a, b, c in row] for row in pres]}


def _rows(rows):
    return [[(a.encode('latin1'), b.encode('latin1'), c.encode('latin1') if isinstance(c, str) else c) for a, b, c in row] for row in rows]


def _single_pr_file(payload):
    from TotalDepth.LIS.core import File, LisGen
    return File.FileRead(theFile=io.BytesIO(bytes(LisGen.retSinglePr(payload))), theFileId='tbl', keepGoing=True)


# ---------------------------------------------------------------------------------------------- one case

def _make_plot(spec):
    from TotalDepth.util.plot import Plot
    from TotalDepth.LIS.core import LogiRec, Mnem
    if isinstance(spec['fmt'], str):
        return Plot.PlotReadXML(spec['fmt']), spec['fmt']
    film = table_bytes(b'FILM', _rows(spec['fmt']['film']))
    pres = table_bytes(b'PRES', _rows(spec['fmt']['pres']))
    p = Plot.PlotReadLIS(LogiRec.LrTableRead(_single_pr_file(film)), LogiRec.LrTableRead(_single_pr_file(pres)))
    return p, Mnem.Mnem(b'1   ')


def _curves_of(p, film_id):
    """{output Mnem: [(curve id, kind, LineTrans, lP, rP)]} for the film"""
    from TotalDepth.util.plot import PRESCfg
    pc, fc = p._presCfg, p._filmCfg
    dest = fc[film_id].name
    out = {}
    for o in pc.outpChIDs(dest):
        lst = []
        for c in pc.outpCurveIDs(film_id, o):
            try:
                fn = pc[c].tracValueFunction(film_id)
                tw = pc[c].tracWidthData(film_id)
            except (KeyError, AssertionError):
                continue
            kind = 'log' if isinstance(fn, PRESCfg.LineTransLog10) else 'lin'
            lst.append((str(c), kind, fn, tw.leftP.value, tw.rightP.value))
        out[o] = lst
    return out


def curve_points(path):
    """all curve polyline points of an SVG in document order (the 'Plot Curves' section)"""
    from lxml import etree
    out, section = [], None
    for node in etree.parse(path).getroot().iter():
        if node.tag is etree.Comment:
            m = re.search(r'=+ (.+?) (START|END) =+', node.text or '')
            if m:
                section = m.group(1) if m.group(2) == 'START' else None
            continue
        if section == 'Plot Curves' and node.tag == SVG + 'polyline':
            for tok in (node.get('points') or '').split():
                try:
                    a, b = tok.split(','); out.append((float(a), float(b)))
                except ValueError:
                    out.append((math.nan, math.nan))
    return out


_ALT = None


def las_alternates():
    global _ALT
    if _ALT is None:
        from TotalDepth.LAS.core import LASConstants
        _ALT = {k: list(v) for k, v in LASConstants.LGFORMAT_LAS.items()}
    return _ALT


def run_case(spec, scratch):
    """returns {'fails': [(detail, finding)], 'stats': {...}, 'nontriv': key or None}"""
    logging.disable(logging.CRITICAL)
    fails, stats = [], {}
    def bump(k, n=1): stats[k] = stats.get(k, 0) + n
    try:
        return _run_case(spec, scratch, fails, stats, bump)
    except Exception as e:      # an exception escaping the producer is a failure of "every log pass produces a plot"
        import traceback
        tb = traceback.extract_tb(e.__traceback__)
        where = ' <- '.join(f'{os.path.basename(f.filename)}:{f.lineno}' for f in tb[-3:])
        finding = None
        if isinstance(e, OverflowError) and tb[-1].name == '_retInterpolateWrapPoints' and spec.get('overflow_class') \
                and 'too large to convert to float' in str(e):
            finding = 'C19-wrap-interpolation-overflow'
        fails.append((f'{type(e).__name__}: {str(e)[:200]} at {where}', finding))
        return {'fails': fails, 'stats': stats, 'nontriv': None}


def _run_case(spec, scratch, fails, stats, bump):
    from TotalDepth.LIS.core import EngVal, Mnem
    from lxml import etree
    rng = random.Random(spec['seed'])
    try:
        p, film_id = _make_plot(spec)
    except Exception as e:
        if isinstance(spec['fmt'], str):
            raise
        bump('generated_table_refused')           # generated FILM/PRES not accepted by the reader: not a plot case
        return {'fails': fails, 'stats': stats, 'nontriv': None}
    try:
        curves = _curves_of(p, film_id)
    except KeyError:
        bump('format_without_curves'); return {'fails': fails, 'stats': stats, 'nontriv': None}
    scale = p.xScale(film_id)
    n = spec['frames']
    is_las = spec['input'] == 'LAS'
    big, small = (1e290, 1e-290) if is_las else (1e36, 1e-36)
    if spec.get('overflow_class'):
        big = 1.5e308
    # channels
    chans, names = [], {}
    for o, lst in curves.items():
        if not lst:
            continue
        nm = o.pStr(strip=True)
        if not is_las:
            if len(nm) > 4 or not nm:
                continue
            key = (nm + '    ')[:4].encode('ascii')
        else:
            key = nm
            if not re.fullmatch(r'[A-Za-z0-9_]+', nm):
                continue
            if spec.get('las_alt'):
                # name the LAS curve by a listed alternate (LASConstants.LGFORMAT_LAS) instead of the format's channel name:
                # 'only' -> no curve carries a literal channel name; 'mix' -> half of them do
                al = las_alternates().get(nm)
                if al and (spec['las_alt'] == 'only' or rng.random() < 0.5):
                    key = rng.choice(al)
                elif spec['las_alt'] == 'only':
                    continue
        if key in names.values():
            continue
        kind, lL, rL = lst[0][1], lst[0][2]._lL, lst[0][2]._rL
        cls = spec['data'] if spec['data'] != 'mixed' or rng.random() < 0.5 else rng.choice(CLASSES)
        names[o] = key
        chans.append((key, gen_values(rng, cls, kind, lL, rL, n, big, small)))
    if not chans:
        bump('format_no_plottable_output_for_' + spec['input']); return {'fails': fails, 'stats': stats, 'nontriv': None}
    chans = chans[:60]
    names = {o: k for o, k in names.items() if k in dict(chans)}
    # frame spacing so that adjacent frames are >= 3 view-box units apart
    step_in = max(6.0, math.ceil(3.0 * scale / UPI))
    out_path = os.path.join(scratch, 'c19_%d.svg' % spec['seed'])
    up = spec['up']
    xunits = spec['xunits'].encode('ascii')
    per = IN_PER[xunits]
    argu = (spec.get('arg_units') or spec['xunits']).encode('ascii')
    per_a = IN_PER[argu]
    foreign = argu != xunits
    x0 = spec['x0']
    title = 'C19 <generated> & "quoted"'
    if not is_las:
        spacing = step_in / per
        spacing = float(60 * math.ceil(spacing / 60)) if per < 1 else float(max(0.5, round(spacing * 2) / 2))
        fobj, idx = make_lis(chans, n, x0, spacing, xunits, up)
        lp = list(idx.genLogPasses())[0].logPass
        holder = lp
        def do_plot(e0, e1, path):
            return p.plotLogPassLIS(fobj, lp, e0, e1, film_id, path, title=title)
    else:
        spacing = float(max(0.5, round(step_in / per * 2) / 2))
        from TotalDepth.LAS.core import LASRead
        las = LASRead.LASRead(io.StringIO(make_las(chans, n, x0, -spacing if up else spacing, LAS_UNIT[spec['xunits']])))
        holder = las
        def do_plot(e0, e1, path):
            return p.plotLogPassLAS(las, e0, e1, film_id, path, title=title)
    step_in = spacing * per
    d = -spacing if up else spacing
    xs = [x0 + d * k for k in range(n)]
    sub = spec.get('sub')
    if sub or (foreign and not is_las):
        # a sub-range of the log whose ends lie a quarter frame past frames k0 and k1: which frames are loaded does not
        # depend on the rounding of the unit conversion (LogPass.frameFromX floors: frame k0, a quarter frame before the
        # start, is the first one plotted; the stop is exclusive)
        sub = sub or (0.0, 0.0)
        k0 = 1 + int(sub[0] * (n // 3)); k1 = n - 2 - int(sub[1] * (n // 3))
        xa, xb = xs[k0] + 0.25 * d, xs[k1] + 0.25 * d
        partial = True
    else:
        xa, xb = xs[0], xs[-1]
        partial = False
    def ev(x, u, pu):
        return EngVal.EngVal(x * per / pu, u) if u != xunits else EngVal.EngVal(x, xunits)
    ref_path = out_path + '.ref.svg'
    ref_points = None
    try:
        if foreign:
            # the same interval in the file's own X units: the plot must have the same curve points
            r0 = do_plot(EngVal.EngVal(xa, xunits), EngVal.EngVal(xb, xunits), ref_path)
            if r0 and r0 != (None, None) and os.path.exists(ref_path):
                ref_points = curve_points(ref_path)
            bump('foreign_unit_plots')
        if partial:
            bump('partial_interval_plots')
        ret = do_plot(ev(xa, argu, per_a), ev(xb, argu, per_a), out_path)
    except AttributeError as e:
        if not is_las:
            raise
        fails.append((f'LAS input produces no plot: plotLogPassLAS raises AttributeError: {e}', None))
        return {'fails': fails, 'stats': stats, 'nontriv': None}
    finally:
        if os.path.exists(ref_path):
            os.remove(ref_path)
    if is_las and ret == (None, None):
        fails.append(('LAS input produces no plot: plotLogPassLAS returned (None, None) for a LAS file holding curves of this format', None))
        return {'fails': fails, 'stats': stats, 'nontriv': None}
    x_in = lambda x: x * per
    if ref_points is not None and os.path.exists(out_path):
        pts = curve_points(out_path)
        if len(pts) != len(ref_points):
            fails.append((f'interval given in {argu!r} for a file indexed in {xunits!r}: {len(pts)} curve points but {len(ref_points)} '
                          f'when the same interval is given in the file units', None))
        else:
            dev = max([max(abs(a[0] - b[0]), abs(a[1] - b[1])) for a, b in zip(pts, ref_points)] or [0.0])
            if dev > 0.25:
                fails.append((f'interval given in {argu!r} for a file indexed in {xunits!r}: curve points differ by up to {dev:.1f} '
                              f'view-box units from the plot with the interval in the file units', None))
    if ret == (None, None) or ret is None:
        fails.append(('no plot produced although the log pass has outputs of this format (returned (None, None))', None))
        return {'fails': fails, 'stats': stats, 'nontriv': None}
    if not os.path.exists(out_path):
        fails.append(('plot call returned but no SVG file was written', None))
        return {'fails': fails, 'stats': stats, 'nontriv': None}
    # ------------------------------------------------------------------ parse
    try:
        doc = etree.parse(out_path)
    except etree.XMLSyntaxError as e:
        fails.append((f'SVG is not well-formed: {e}', None))
        return {'fails': fails, 'stats': stats, 'nontriv': None}
    finally:
        pass
    root = doc.getroot()
    if root.tag != SVG + 'svg':
        fails.append((f'root element is {root.tag}', None)); return {'fails': fails, 'stats': stats, 'nontriv': None}
    try:
        vb = [float(t) for t in root.get('viewBox').split()]
        wid = float(root.get('width').replace('in', '')); hei = float(root.get('height').replace('in', ''))
        assert len(vb) == 4 and vb[0] == 0 and vb[1] == 0 and root.get('width').endswith('in')
    except Exception as e:
        fails.append((f'bad viewBox/width/height: {root.get("viewBox")!r} {root.get("width")!r} {root.get("height")!r}', None))
        return {'fails': fails, 'stats': stats, 'nontriv': None}
    VW, VH = vb[2], vb[3]
    if abs(VW - wid * UPI) > 0.1 or abs(VH - hei * UPI) > 0.1 or abs(wid - 8.5) > 1e-9:
        fails.append((f'viewBox {vb} inconsistent with width {wid}in height {hei}in', None))
    # walk in document order
    section, cur_out = None, None
    track_y = []
    polys = {}           # output name -> list of list of (x, y)
    byname = {o.pStr(): o for o in curves}
    for node in root.iter():
        if node.tag is etree.Comment:
            t = node.text or ''
            m = re.search(r'=+ (.+?) (START|END) =+', t)
            if m:
                section = m.group(1) if m.group(2) == 'START' else None
                continue
            m = re.search(r'\.+ Output (.*?) (START|END) \.+', t)
            if m and section == 'Plot Curves':
                cur_out = m.group(1) if m.group(2) == 'START' else None
            continue
        if section == 'Plot Tracks' and node.tag == SVG + 'line':
            for a in ('y1', 'y2'):
                v = node.get(a)
                if v and v.endswith('in'):
                    track_y.append(float(v[:-2]) * UPI)
        if section == 'Plot Curves' and node.tag == SVG + 'polyline':
            pts = []
            for tok in (node.get('points') or '').split():
                try:
                    xs, ys = tok.split(',')
                    x, y = float(xs), float(ys)
                    if not (math.isfinite(x) and math.isfinite(y)): raise ValueError
                except ValueError:
                    fails.append((f'curve polyline with a malformed/non-finite point {tok!r} (output {cur_out})', None)); pts = None; break
                pts.append((x, y))
            if pts is None:
                continue
            if cur_out is None:
                fails.append(('curve polyline outside any output section', None)); continue
            polys.setdefault(cur_out, []).append(pts)
    if not track_y:
        bump('no_track_lines'); pane_top, pane_bot = 0.25 * UPI, VH - 0.25 * UPI
    else:
        pane_top, pane_bot = min(track_y), max(track_y)
        exp_depth = abs(x_in(xb) - x_in(xa)) / scale * UPI
        if abs((pane_bot - pane_top) - exp_depth) > 0.25 + exp_depth * 1e-6:
            fails.append((f'main pane depth {pane_bot - pane_top:.3f} but |xStop-xStart|/scale = {exp_depth:.3f} view-box units', None))
        else:
            pane_bot = pane_top + exp_depth
        if pane_top < 0.25 * UPI - TOL or pane_bot > VH - 0.25 * UPI + 2 * TOL:
            fails.append((f'main pane [{pane_top:.1f},{pane_bot:.1f}] outside the margins of the view box height {VH}', None))
    # depth -> y, independent of PlotRoll.xDepth: the shallow end is at the top of the pane
    x_top, x_botm = (x_in(xb), x_in(xa)) if up else (x_in(xa), x_in(xb))
    def y_of(x):
        return pane_top + (pane_bot - pane_top) * (x_in(x) - x_top) / (x_botm - x_top)
    # a partial interval starts between two frames: the frame just before the start is plotted (less than one frame outside the pane)
    pane_slack = (step_in / scale * UPI) if partial else 0.0
    npts = 0
    for oname, plist in polys.items():
        o = byname.get(oname)
        if o is None or o not in names:
            fails.append((f'curve polyline for output {oname!r} that was not in the log pass', None)); continue
        cl = curves[o]
        xs_lo = min(c[3] for c in cl); xs_hi = max(c[4] for c in cl)
        tlo, thi = (0.25 + xs_lo) * UPI, (0.25 + xs_hi) * UPI
        edges = sorted({(0.25 + c[3]) * UPI for c in cl} | {(0.25 + c[4]) * UPI for c in cl})
        frames = list(holder.genOutpPoints(o))
        fy = [y_of(x) for x, _ in frames]
        present = [v != ABSENT for _, v in frames]
        # per frame: how many curves can plot the value off the track edges at all
        def plottable(c, v):
            return v != ABSENT and math.isfinite(v) and (c[1] == 'lin' or v > 0)
        cap = [sum(1 for c in cl if plottable(c, v)) for _, v in frames]
        at_frame = [set() for _ in frames]
        allpts = {}
        for pts in plist:
            for (x, y) in pts:
                npts += 1
                allpts.setdefault(int(round(y * 10)), []).append(x)
                if is_las and partial and not (pane_top - TOLY - pane_slack <= y <= pane_bot + TOLY + pane_slack) \
                        and min(fy) - TOLY <= y <= max(fy) + TOLY and 0.25 * UPI - TOL <= x <= VW - 0.25 * UPI + TOL:
                    # plotLogPassLAS plots every frame of the file, also those outside the requested interval
                    fails.append((f'point ({x},{y}) of output {oname}: a frame of the LAS file outside the requested interval is plotted '
                                  f'outside the main pane [{pane_top:.1f},{pane_bot:.1f}]', 'C19-las-interval-ignored')); continue
                if not (0 <= x <= VW and 0 <= y <= VH):
                    fails.append((f'point ({x},{y}) of output {oname} outside the view box {VW}x{VH}', None)); continue
                if not (0.25 * UPI - TOL <= x <= VW - 0.25 * UPI + TOL):
                    fails.append((f'point ({x},{y}) of output {oname} outside the left/right plot margins', None)); continue
                if not (tlo - TOL <= x <= thi + TOL):
                    fails.append((f'point ({x},{y}) of output {oname} outside its track(s) [{tlo:.1f},{thi:.1f}]', None)); continue
                if not (pane_top - TOLY - pane_slack <= y <= pane_bot + TOLY + pane_slack):
                    fails.append((f'point ({x},{y}) of output {oname} outside the main pane [{pane_top:.1f},{pane_bot:.1f}]', None)); continue
                on_edge = any(abs(x - e) <= TOL for e in edges)
                # locate in depth
                k = min(range(len(fy)), key=lambda i: abs(fy[i] - y))
                if abs(fy[k] - y) <= TOLY:
                    if not on_edge:
                        at_frame[k].add(round(x, 1))
                    if not present[k]:
                        if on_edge:
                            fails.append((f'interpolated wrap point ({x},{y}) of output {oname} at the depth of an absent frame '
                                          f'(wrap interpolation drawn across absent values)', None))
                        else:
                            fails.append((f'point ({x},{y}) of output {oname} at the depth of frame {k} whose value is absent', None))
                    continue
                if k + 1 < len(fy) and min(fy[k], fy[k + 1]) < y < max(fy[k], fy[k + 1]):
                    lo, hi = k, k + 1
                elif k > 0 and min(fy[k - 1], fy[k]) < y < max(fy[k - 1], fy[k]):
                    lo, hi = k - 1, k
                else:
                    fails.append((f'point ({x},{y}) of output {oname} beyond the first/last frame', None)); continue
                if present[lo] and present[hi]:
                    if not on_edge:
                        fails.append((f'point ({x},{y}) of output {oname} between two frames but not on a track edge', None))
                    continue
                fails.append((f'{"interpolated wrap point" if on_edge else "point"} ({x},{y}) of output {oname} inside a run of absent values '
                              f'(frames {lo},{hi})', None))
        for k, (st, c) in enumerate(zip(at_frame, cap)):
            cnt = len(st)
            if cnt > c:
                fails.append((f'{cnt} off-edge point(s) of output {oname} at frame {k} (value {frames[k][1]!r}) but only {c} curve(s) can plot it', None))
                break
        # every present frame of every on-scale curve has its point where exact arithmetic puts it
        for c in cl:
            fn, lP, rP = c[2], Fr(c[3]), Fr(c[4])
            for k, (x, v) in enumerate(frames):
                if not plottable(c, v):
                    continue
                try:
                    if c[1] == 'lin':
                        pn = (Fr(v) - Fr(fn._lL)) / (Fr(fn._rL) - Fr(fn._lL))
                    else:
                        pn = Fr(math.log10(v / fn._lL)) / Fr(math.log10(fn._rL / fn._lL))
                except (ValueError, OverflowError, ZeroDivisionError):
                    continue
                w = math.floor(pn); frac = pn - w
                if min(frac, 1 - frac) < Fr(1, 10 ** 6) or abs(pn) > 10 ** 9:
                    continue
                bu = fn._bu
                off = (w < 0 and bu[0] != 0 and w < bu[0]) or (w > 0 and bu[1] != 0 and w > bu[1])
                ex = float((Fr(1, 4) + lP + frac * (rP - lP)) * 96)
                yk = int(round(fy[k] * 10))
                hit = any(abs(px - ex) <= 0.11 for dy in (-2, -1, 0, 1, 2) for px in allpts.get(yk + dy, ()))
                bump('expected_points')
                if not off and not hit:
                    fails.append((f'curve {c[0]} of output {oname}: value {v!r} at frame {k} should be plotted at ({ex:.1f},{fy[k]:.1f}) '
                                  f'(wrap {w}) but no such point', None)); break
                if off and hit and not any(abs(ex - e) <= 2 * TOL for e in edges):
                    # an off-scale sample must be suppressed by the back-up mode (unless another curve of the same output shares the spot)
                    others = [c2 for c2 in cl if c2 is not c]
                    if not others:
                        fails.append((f'curve {c[0]} of output {oname}: value {v!r} is off scale for back-up {bu} (wrap {w}) but was plotted', None)); break
    bump('svg_points', npts)
    bump('svg_polylines', sum(len(v) for v in polys.values()))
    try:
        os.remove(out_path)
    except OSError:
        pass
    nontriv = None
    if any(len(pts) >= 2 for pl in polys.values() for pts in pl):
        fm = spec['fmt'] if isinstance(spec['fmt'], str) else 'tables%d' % (spec['seed'] % 1000)
        nontriv = ('svg', spec['input'], fm, spec['data'], spec['up'])
    return {'fails': fails, 'stats': stats, 'nontriv': nontriv}


# ---------------------------------------------------------------------------------------------- driver

def _formats():
    from TotalDepth.util.plot import FILMCfgXML
    return sorted(FILMCfgXML.FilmCfgXMLRead().uniqueIdS())


def _work(args):
    spec, scratch = args
    return run_case(spec, scratch)


def build_specs(ctx):
    rng = ctx.rng
    fmts = _formats()
    specs = []
    def add(inp, fmt, data, **kw):
        s = {'op': 'svg', 'input': inp, 'fmt': fmt, 'data': data, 'up': rng.random() < 0.5, 'seed': rng.randrange(1 << 30),
             'frames': rng.choice([12, 25, 40]), 'x0': float(rng.choice([5000, 1000, 12345, 250])),
             'xunits': rng.choice(['.1IN', 'FEET', 'M   ', 'FT  ', 'DM  '] if inp == 'LIS' else ['FEET', 'M   ', 'FT  ', 'DM  ']),
             'feet_args': rng.random() < 0.5}
        if s['xunits'] == '.1IN':
            s['x0'] *= 120.0
        elif s['xunits'] == 'DM  ':
            s['x0'] *= 3.0
        c = rng.random()
        if c < 0.5:
            # interval in units that differ from the file's X units (convertible, both directions)
            s['arg_units'] = rng.choice([u for u in ('FEET', 'FT  ', 'M   ', '.1IN', 'IN  ', 'DM  ', 'CM  ') if u != s['xunits']])
            s['sub'] = [rng.random(), rng.random()] if rng.random() < 0.5 else None
        elif c < 0.7:
            s['sub'] = [rng.random(), rng.random()]
        s.update(kw)
        specs.append(s)
    reps = ctx.n(1, 6)
    for _ in range(reps):
        for f in fmts:
            for inp in ('LIS', 'LAS'):
                # quick: every format with 'mixed' plus two further random classes; thorough: every class
                classes = CLASSES if ctx.tier == 'thorough' else ['mixed', 'absent'] + rng.sample(CLASSES[:6], 2)
                for d in classes:
                    add(inp, f, d)
    # LAS curves named by alternates of the format channels (direct Plot.plotLogPassLAS): a plot must be produced
    for f in fmts:
        for mode in ('only', 'mix'):
            for _ in range(ctx.n(1, 4)):
                add('LAS', f, rng.choice(['smooth', 'mixed', 'absent', 'spiky']), las_alt=mode)
    for _ in range(ctx.n(120, 1500)):
        add('LIS', gen_tables(rng), rng.choice(CLASSES))
    # the overflow class (known finding): LAS only, doubles near the top of the range
    for _ in range(ctx.n(4, 30)):
        add('LAS', rng.choice(['Triple_Combo', 'Resistivity_3Track_Logrithmic.xml']), 'huge', overflow_class=True)
    return specs


def record(ctx, spec, res):
    ctx.count('oracle_cases')
    ctx.count('svg_cases')
    for k, v in res['stats'].items():
        ctx.count(k, v)
    seen = set()
    for detail, finding in res['fails']:
        key = (finding, detail.split('(')[0][:60])
        if key in seen:
            continue                      # one report per kind of failure and case
        seen.add(key)
        ctx.fail(spec, detail, finding=finding, stream='svg')
    if res['nontriv'] and not [f for f in res['fails'] if f[1] is None]:
        ctx.nontriv(res['nontriv'])


def run_svg(ctx):
    import multiprocessing as mp
    specs = build_specs(ctx)
    args = [(s, ctx.scratch) for s in specs]
    nproc = min(12, os.cpu_count() or 2)
    with mp.get_context('fork').Pool(nproc) as pool:
        results = pool.map(_work, args, chunksize=4)
    for s, r in zip(specs, results):
        record(ctx, s, r)
    ctx.sample({'op': 'svg', 'spec': {k: (v if not isinstance(v, dict) else 'generated FILM/PRES') for k, v in specs[0].items()},
                'result': {'failures': len(results[0]['fails']), 'stats': results[0]['stats']}})
    ctx.note(f'svg: {len(specs)} plot calls; formats {len(_formats())}; LAS plotted through Plot.plotLogPassLAS(LASRead(...)) directly')


def replay_svg(ctx, case):
    res = run_case(case, ctx.scratch)
    bad = [f for f in res['fails'] if f[1] is None]
    known = sorted({f[1] for f in res['fails'] if f[1]})
    note = (' (known findings also seen on this case: ' + ', '.join(known) + ')') if known else ''
    if bad:
        return False, '; '.join(d for d, _ in bad[:3]) + note
    return True, f'plot checked: {res["stats"]}' + note
