"""C09 — LAS files parse to their content, independent of layout (TotalDepth/LAS/core/LASRead.py)."""
import copy, io, json

CLAIM = {
 'text': ('Lean 4 theorems about a model of LASRead.py (line generator, section dispatch, line_to_sect_line with its two '
          'field regexes as scanners, string_to_value typing, unwrapped and wrapped array section, null substitution) and '
          'a layout-parametric printer: parse_print (for every well-formed content and EVERY layout the reader returns '
          'the content), layout_independent, wrap_unwrap_equal, bad_value_becomes_null, mask_exact, parse_no_final_newline, header_line_parse_print, '
          'data_line_tokens, unwrap_frames. The model is tied to the source on every run by a differential run against '
          'the real LASRead on texts printed by the proved Lean printer under random layouts, on mutated (malformed) '
          'texts and on the unit functions; the property oracle compares the real reader with the generated content.'),
 'note': ('Trusted: Lean kernel; model<->code correspondence on the cases of the run. Assumed primitive: Python float(token) '
          'is correctly rounded (the model keeps exact decimals m*10^e). Python-only numeric literals (nan, inf, 1_0, '
          'non-ASCII digits) and DATE/TIME (strptime) channels are outside the model and excluded by the generator. '
          'Equality of doubles (duplicate X values, VERS in (1.2, 2.0)) is decided on exact decimals: X values are generated '
          'with at most 12 significant digits.'),
 'technique': 'Lean 4 proof (structural induction over printed lines) + model-implementation correspondence',
 'design_ref': 'DESIGN.md section 6 C09',
}

RULE = ('contents (1..6 curves, 0..8 frames, V/W/C/P/O/user sections in random order, values int/float/yes-no/text with '
        'colons, dots, blanks, times; bad data tokens) each printed by the Lean spec printer under several random layouts '
        '(padding 0..12, comments/blank lines anywhere, blank/TAB separators, number styles, wrapped with 1..80 values per '
        'line) and with the WRAP flag flipped; a case is non-trivial when it has >= 2 curves and >= 2 frames or a text '
        'value containing ":" or "."; distinct by text. Malformed stream: 1-3 random edits / line operations / structural '
        'damage of valid texts (correspondence only).')
ASSUMPTIONS = ['Python float(str) is correctly rounded (decimal -> double)',
               'input text is ASCII, line ends are LF (io.StringIO semantics)',
               'no Python-only numeric literal (nan/inf/infinity, digits separated by "_") occurs as a value or data token',
               'no curve is DATE.D or TIME.HHMMSS (strptime path not modelled)',
               'X-axis values have at most 12 significant digits, so distinct decimals are distinct doubles']
TRUSTED = ['modelled, not verified: Python re (RE_COMMENT, RE_SECT_HEAD, RE_LINE_FIELD_0/1 replaced by explicit scanners), '
           'str.strip/split/find/rfind, int(), float(), numpy array storage and masking, LogPass.FrameArray duplicate-key check']

ANCHOR_FILES = ['src/TotalDepth/LAS/core/LASRead.py', 'src/TotalDepth/common/LogPass.py', 'src/TotalDepth/common/AbsentValue.py']

# Repaired in /repo (fix: commits): declared NULL ignored, single-curve wrapped files refused, values of a curve named
# like a column index stored in the wrong channel.  These classes are still generated; a failure there is UNLISTED.
# Also repaired: mnemonics/units that look like a number or yes/no are names and are returned as the text written.


def _impl():
    import logging
    logging.disable(logging.CRITICAL)
    from TotalDepth.LAS.core import LASRead
    return LASRead


def _fhex(x):
    x = float(x)
    return (0.0).hex() if x == 0 else x.hex()


def _cv(x):
    if isinstance(x, bool): return ['b', 1 if x else 0]
    if isinstance(x, int): return ['i', x]
    if isinstance(x, float): return ['f', _fhex(x)]
    if isinstance(x, str): return ['t', x]
    return ['?', repr(x)]


def impl_parse(LR, text):
    """(canonical structure | {'err': class}, las object or None)"""
    import numpy as np
    try:
        las = LR.LASRead(io.StringIO(text), 'id')
    except Exception as e:            # every exception class is part of the observable behaviour
        return {'err': type(e).__name__}, None
    sections, arr = [], None
    for s in las.generate_sections():
        if s.type == 'A':
            fa = s.frame_array
            names = [[_cv(ch.ident), _cv(ch.units)] for ch in fa.channels]
            n = len(fa.channels[0].array) if fa.channels else 0
            data = [np.ma.getdata(ch.array) for ch in fa.channels]
            frames = [[_fhex(d[i][0]) for d in data] for i in range(n)]
            arr = {'names': names, 'frames': frames}
        else:
            ms = []
            for m in s.members:
                ms.append(['R', m] if isinstance(m, str) else ['L', _cv(m.mnem), _cv(m.unit), _cv(m.valu), _cv(m.desc)])
            sections.append([s.type, ms])
    return {'sections': sections, 'array': arr}, las


def model_struct(reply, with_mask=False):
    """JSON reply of the driver -> the same canonical structure (exact decimals -> doubles via float())."""
    from gen import las as G
    j = json.loads(reply)
    if 'err' in j:
        return {'err': j['err']}

    def v(x):
        if x[0] == 'f': return ['f', _fhex(G.dec_to_float(x[1], x[2]))]
        if x[0] == 't': return ['t', bytes.fromhex(x[1]).decode('ascii')]
        return x
    secs = []
    for typ, ms in j['ok']['sections']:
        out = []
        for m in ms:
            out.append(['R', bytes.fromhex(m[1]).decode('ascii')] if m[0] == 'R' else ['L'] + [v(x) for x in m[1:]])
        secs.append([bytes.fromhex(typ).decode('ascii'), out])
    a = j['ok']['array']
    arr = None
    if a is not None:
        arr = {'names': [[v(n[0]), v(n[1])] for n in a['names']],
               'frames': [[_fhex(G.dec_to_float(*a['null'])) if c is None else _fhex(G.dec_to_float(c[0], c[1])) for c in row] for row in a['frames']]}
    if arr is not None and with_mask:
        arr['mask'] = a['mask']
    return {'sections': secs, 'array': arr}


def _has_bad(content):
    return any(c[0] == 'x' for row in content['frames'] for c in row)


def _diff(a, b):
    """short description of the first difference of two canonical structures"""
    if 'err' in a or 'err' in b:
        return f'{a.get("err", "ok")} vs {b.get("err", "ok")}'
    for i, (x, y) in enumerate(zip(a['sections'], b['sections'])):
        if x[0] != y[0]: return f'section {i} type {x[0]!r} vs {y[0]!r}'
        for k, (p, q) in enumerate(zip(x[1], y[1])):
            if p != q: return f'section {x[0]} line {k}: {p} vs {q}'
        if len(x[1]) != len(y[1]): return f'section {x[0]}: {len(x[1])} vs {len(y[1])} lines'
    if len(a['sections']) != len(b['sections']): return f'{len(a["sections"])} vs {len(b["sections"])} sections'
    if (a['array'] is None) != (b['array'] is None): return 'array present vs absent'
    if a['array'] is not None:
        if a['array']['names'] != b['array']['names']: return f'channels {a["array"]["names"]} vs {b["array"]["names"]}'
        fa, fb = a['array']['frames'], b['array']['frames']
        if len(fa) != len(fb): return f'{len(fa)} vs {len(fb)} frames'
        for i, (r, s) in enumerate(zip(fa, fb)):
            if r != s: return f'frame {i}: {r} vs {s}'
    return 'equal'


def oracle(ctx, LR, content, text, case, res=None):
    """The property on the implementation alone: the reader returns what the generator wrote."""
    import numpy as np
    from gen import las as G
    ctx.count('oracle_cases')
    got, las = res if res is not None else impl_parse(LR, text)
    decl = G.declared_null(content)
    want = G.expected(content, G.NULL_DEFAULT if decl is None else decl)
    ncur, nfr = len(G.curves_of(content)), len(content['frames'])
    if got != want:
        ctx.fail(case, 'reader result differs from the written content: ' + _diff(got, want))
        return False
    # masks: channels 1.. are masked exactly where the value equals the null value; the X axis is never masked
    fa = las.frame_array
    null = G.NULL_DEFAULT if decl is None else decl
    if nfr:
        for ci, ch in enumerate(fa.channels):
            mask = np.ma.getmaskarray(ch.array)[:, 0]
            data = np.ma.getdata(ch.array)[:, 0]
            exp = (data == null) if ci > 0 else np.zeros(len(data), dtype=bool)
            if list(mask) != list(exp):
                ctx.fail(case, f'channel {ci}: mask {[bool(x) for x in mask]} but values {[float(x) for x in data]} (NULL={null})')
                return False
    # public element access: masked exactly at NULL, never on the X axis; genOutpPoints gives every (X, value) pair
    if nfr:
        raw = [[float(np.ma.getdata(ch.array)[f][0]) for ch in fa.channels] for f in range(nfr)]
        for ci, ch in enumerate(fa.channels):
            for f in range(nfr):
                v = ch.array[f][0]
                is_masked = v is np.ma.masked
                if is_masked != (ci > 0 and raw[f][ci] == null):
                    ctx.fail(case, f'frame {f} channel {ci}: element access gives {"masked" if is_masked else float(v)!r} for the value {raw[f][ci]!r} (NULL={null})')
                    return False
                if not is_masked and float(v) != raw[f][ci]:
                    ctx.fail(case, f'frame {f} channel {ci}: element access {float(v)!r} != stored {raw[f][ci]!r}'); return False
        if decl is not None or G.declared_null_line(content) is None:      # null_value is a number
            for ci, h in enumerate(G.curves_of(content)):
                ctx.count('genOutpPoints_checked')
                pts = list(las.genOutpPoints(h['mnem']))
                wantp = [(raw[f][0], raw[f][ci]) for f in range(nfr)]
                if pts != wantp:
                    ctx.fail(case, f'genOutpPoints({h["mnem"]!r}) = {pts[:4]}.., expected {wantp[:4]}..'); return False
    # lookups by mnemonic give the first line with that mnemonic; channels by name
    for s in [{'typ': 'V', 'kind': 'H', 'lines': content['v']}] + content['sects']:
        if s['kind'] != 'H': continue
        seen = {}
        for i, h in enumerate(s['lines']):
            seen.setdefault(h['mnem'], i)
        for m, i in seen.items():
            if las[s['typ']].find(m) != i or las[s['typ']][m].mnem != m:
                ctx.fail(case, f'lookup of {m!r} in section {s["typ"]} gives line {las[s["typ"]].find(m)}, expected {i}'); return False
    for ci, h in enumerate(G.curves_of(content)):
        if fa[h['mnem']] is not fa.channels[ci]:
            ctx.fail(case, f'frame_array[{h["mnem"]!r}] is not channel {ci}'); return False
    if las.number_of_frames() != nfr:
        ctx.fail(case, f'number_of_frames {las.number_of_frames()} != {nfr}'); return False
    return True


def oracle_zero_null(ctx, LR, content, text, case, res=None):
    """Like `oracle`, for a NULL line whose value text is a spelling of zero that the content model cannot print
    (`-0.0`, `0E0`): the NULL line's own value is compared by value (zero, int or float), everything else exactly."""
    got = (res if res is not None else impl_parse(LR, text))[0]
    if 'err' not in got:
        for t, ms in got['sections']:
            if t == 'W':
                for m in ms:
                    if m[0] == 'L' and m[1] == ['t', 'NULL'] and m[3][0] in 'if' and (m[3][1] == 0 or m[3][1] == _fhex(0.0)):
                        m[3] = ['f', _fhex(0.0)]
    return oracle(ctx, LR, content, text, case, (got, (res if res is not None else impl_parse(LR, text))[1]))


def oracle_typed(ctx, LR, text, want, case):
    """Typed header fields: the reader must return exactly the typed value written — `type(v) is int and v == written`
    for integers of any size, the nearest double (float.hex) for floats, bool for yes/no (the canonical structures carry a
    type tag per field and Python ints are compared exactly)."""
    ctx.count('oracle_cases')
    got = impl_parse(LR, text)[0]
    if got != want:
        ctx.fail(case, 'typed header field not returned as written: ' + _diff(got, want))
        return False
    for _t, ms in want['sections']:
        for m in ms:
            if m[0] == 'L':
                for f in (m[3], m[4]):
                    if f[0] == 'i' and abs(f[1]) > 2 ** 53: ctx.count('typed_int_beyond_2_53')
                    ctx.count('typed_field_' + f[0])
    return True


def oracle_numeric_mnemonic(ctx, LR, content, text, case):
    """Mnemonics/units that look like a number or yes/no (repaired class: they are names and come back as the text
    written): everything must be as written, any difference is an unlisted failure."""
    from gen import las as G
    ctx.count('oracle_cases')
    got, las = impl_parse(LR, text)
    decl = G.declared_null(content)
    want = G.expected(content, G.NULL_DEFAULT if decl is None else decl)
    if got == want:
        return True
    if 'err' in got or got['array'] is None or got['array']['frames'] != want['array']['frames']:
        ctx.fail(case, 'data values of a curve with a number-like mnemonic are not the ones written: ' + _diff(got, want))
        return False
    ctx.fail(case, 'a number-like mnemonic/unit is not returned as the text written: ' + _diff(got, want))
    return False


# ------------------------------------------------------------------ malformed texts

_EDIT_CH = ' \t:.~#\n0123456789eE+-YNAVWCPOxq,/\r'


def mutate(rng, text):
    lines = text.split('\n')
    for _ in range(rng.randint(1, 3)):
        op = rng.random()
        if op < 0.25 and text:
            i = rng.randrange(len(text)); text = text[:i] + text[i + 1:]
        elif op < 0.55:
            i = rng.randrange(len(text) + 1); text = text[:i] + rng.choice(_EDIT_CH) + text[i:]
        elif op < 0.65 and text:
            i = rng.randrange(len(text)); text = text[:i] + rng.choice(_EDIT_CH) + text[i + 1:]
        else:
            lines = text.split('\n')
            i, j = rng.randrange(len(lines)), rng.randrange(len(lines))
            k = rng.random()
            if k < 0.3: del lines[i]
            elif k < 0.55: lines.insert(j, lines[i])
            elif k < 0.8: lines[i], lines[j] = lines[j], lines[i]
            elif k < 0.9: lines = lines[:i + 1]
            else: lines.insert(i, rng.choice(['   ', '\t', '~', '~Zed', ' ~A', '~Other', '~V', '1 2 3', ':', '.', 'A.B', ' # c']))
            text = '\n'.join(lines)
    return text


def structural(rng, G):
    """texts with one deliberate structural defect (or oddity) each"""
    out = []
    for _ in range(40):
        c = G.gen_content(rng, max_curves=4, max_frames=5)
        cur = G.curves_of(c)
        k = rng.randrange(14)
        if k == 0: c['v'] = c['v'][1:]                                   # no VERS
        elif k == 1: c['v'][0]['value'] = ['f', 30, -1]                  # VERS 3.0
        elif k == 2: c['v'][1]['value'] = ['t', 'MAYBE']
        elif k == 3: c['sects'].append(copy.deepcopy(c['sects'][0]))     # duplicate section
        elif k == 4: c['sects'] = [s for s in c['sects'] if s['typ'] != 'C']
        elif k == 5 and c['frames']: c['frames'][-1] = c['frames'][-1] + [['n', 1, 0]]
        elif k == 6 and c['frames'] and len(cur) > 1: c['frames'][0] = c['frames'][0][:-1]
        elif k == 7 and len(c['frames']) > 1: c['frames'][1][0] = c['frames'][0][0]      # duplicate X
        elif k == 8 and len(cur) > 1: cur[1]['mnem'] = cur[0]['mnem']                    # duplicate channel
        elif k == 9: cur[0]['mnem'], cur[0]['unit'] = 'DATE', 'D'
        elif k == 10 and len(cur) > 1: cur[0]['mnem'], cur[1]['mnem'] = '1', '1.0'       # numeric idents, equal as keys
        elif k == 11: c['sects'].insert(0, {'kind': 'T', 'typ': '~', 'lines': []})
        elif k == 12 and len(c['frames']) > 1: c['frames'][1][0] = ['n', c['frames'][0][0][1] * 10, c['frames'][0][0][2] - 1] if c['frames'][0][0][0] == 'n' else c['frames'][1][0]
        lay = G.gen_layout(rng, c)
        text = G.print_las(c, lay)
        if k == 13: text = text.replace('~A', '~W', 1) if rng.random() < 0.5 else '  \n' + text
        out.append(text)
    return out


# ------------------------------------------------------------------ the run

def _case(content, layout):
    return {'op': 'content', 'content': content, 'layout': layout}


def newline_variants(ctx, LR, G, count):
    """Well-formed files whose END differs: no newline after the last line (last data row, last wrapped continuation line,
    last header line of a header-only file), CR LF line ends, a last line that is only blanks.  Same content expected."""
    rng = ctx.rng
    batch = []
    for _ in range(count):
        c = G.gen_content(rng, max_curves=4, max_frames=4, allow_bad_x=False)
        l = G.gen_layout(rng, c)
        l['tail'] = [] if rng.random() < 0.8 else l['tail']
        l['v']['lead'] = 0                                   # CR LF blank lines before the first head are not skipped: head at column 0
        header_only = rng.random() < 0.25
        t = G.print_header_only(c, l) if header_only else G.print_las(c, l)
        k = rng.randrange(8)
        crlf = t.replace('\n', '\r\n')
        v = [t[:-1], t[:-1], crlf, crlf[:-2], crlf[:-1], t + rng.choice(['   ', '\t', ' \t ']), t[:-1] + rng.choice(['  ', '\t']), crlf + '  '][k]
        kind = ['no_final_newline', 'no_final_newline', 'crlf', 'crlf_no_final_newline', 'crlf_ends_with_cr', 'last_line_blanks',
                'no_final_newline_trailing_blanks', 'crlf_last_line_blanks'][k]
        batch.append((c, v, header_only, kind))
    reps = ctx.lean(['parse ' + (v.encode('ascii').hex() or '-') for _, v, _, _ in batch])
    for (c, v, header_only, kind), r in zip(batch, reps):
        res = impl_parse(LR, v)
        ctx.corr('lasparse_file_end', {'op': 'text', 'text': v}, res[0], model_struct(r))
        ctx.count('file_end_' + kind + ('_header_only' if header_only else ''))
        if header_only:
            want = G.expected(c, G.NULL_DEFAULT if G.declared_null(c) is None else G.declared_null(c))
            want['array'] = None
            oracle_typed(ctx, LR, v, want, {'op': 'typed_fields', 'text': v, 'want': want})
        else:
            oracle(ctx, LR, c, v, {'op': 'content_text', 'content': c, 'text': v}, res)


def search(ctx):
    """Extra oracle budget when a proof or a correspondence broke without a failing input: the file-end variants."""
    from gen import las as G
    LR = _impl()
    newline_variants(ctx, LR, G, ctx.n(1500, 6000))


def run(ctx):
    import numpy as np
    from gen import las as G
    typed_texts = []
    LR = _impl()
    rng = ctx.rng
    n_contents = ctx.n(1000, 6000)
    n_layouts = ctx.n(6, 12)
    items = []          # (content, layout, group)
    for g in range(n_contents):
        c = G.gen_content(rng)
        for _ in range(n_layouts):
            items.append((c, G.gen_layout(rng, c), g))
        # the same log with the WRAP flag flipped (needs >= 2 curves to be wrapped)
        if len(G.curves_of(c)) >= 2:
            t = copy.deepcopy(c)
            w = G.wrap_of(c)
            t['v'][1]['value'] = ['b', 0 if w else 1]
            for _ in range(2):
                items.append((t, G.gen_layout(rng, t), ('twin', g)))
    replies = ctx.lean(['print ' + ' '.join(G.tokens_content(c) + G.tokens_layout(l)) for c, l, _ in items])
    texts = []
    for (c, l, g), r in zip(items, replies):
        parts = r.split(' ')
        if len(parts) != 3:
            ctx.corr('printer', _case(c, l), 'text', r); texts.append(None); continue
        text = bytes.fromhex(parts[0]).decode('ascii') if parts[0] != '-' else ''
        texts.append(text)
        ctx.corr('printer', _case(c, l), G.print_las(c, l), text)            # Python printer == Lean printer
        ctx.corr('wf_content', _case(c, l), 'wf=1', parts[1])                # the generator stays inside wfContent
        ctx.corr('theorem_instance', _case(c, l), 'thm=1', parts[2])         # parse (print c l) = ok (toFile c), evaluated
    ok = [i for i, t in enumerate(texts) if t is not None]
    parses = ctx.lean(['parse ' + (texts[i].encode('ascii').hex() or '-') for i in ok])
    first_of_group = {}
    for i, mrep in zip(ok, parses):
        c, l, g = items[i]
        text = texts[i]
        res = impl_parse(LR, text)
        ctx.corr('lasparse', _case(c, l), res[0], model_struct(mrep))
        if res[1] is not None and res[1].frame_array is not None:
            chans = res[1].frame_array.channels
            n = len(chans[0].array) if chans else 0
            ms = [np.ma.getmaskarray(ch.array)[:, 0] for ch in chans]
            ctx.corr('mask', _case(c, l), [[int(m[f]) for m in ms] for f in range(n)],
                     (json.loads(mrep).get('ok', {}).get('array') or {}).get('mask'))
        good = oracle(ctx, LR, c, text, _case(c, l), res)
        if good:
            # layout independence and wrap/unwrap equality on the implementation: identical results within a group
            key = g if not isinstance(g, tuple) else g[1]
            arr_only = isinstance(g, tuple)
            if key in first_of_group:
                ref = first_of_group[key]
                same = (res[0]['array'] == ref['array']) if arr_only else (res[0] == ref)
                ctx.count('oracle_cases')
                if not same:
                    ctx.fail(_case(c, l), 'two layouts of the same content read differently: ' + _diff(res[0], ref))
            elif not arr_only:
                first_of_group[key] = res[0]
            if (len(G.curves_of(c)) >= 2 and len(c['frames']) >= 2) or any(
                    h['value'][0] == 't' and (':' in h['value'][1] or '.' in h['value'][1]) for s in c['sects'] if s['kind'] == 'H' for h in s['lines']):
                ctx.nontriv(text)
        ctx.count('wrapped_texts' if G.wrap_of(c) else 'unwrapped_texts')
        dn = G.declared_null(c); dn = G.NULL_DEFAULT if dn is None else dn
        for row in c['frames']:
            for cell in row[1:]:
                if cell[0] in 'nl':
                    v = G.dec_to_float(cell[-2], cell[-1])
                    if cell[0] == 'l': ctx.count('literal_spelling_cells')
                    if v != dn and abs(v - dn) <= 1e-8 + 1e-5 * abs(dn): ctx.count('cells_close_to_null_not_equal')
                    elif v == dn: ctx.count('cells_equal_to_null')
        for ci, h in enumerate(G.curves_of(c)):
            if h['mnem'].upper() in ('TIME', 'DATE') or h['unit'].upper() in ('HHMMSS', 'D'):
                ctx.count('special_word_curve_x_axis' if ci == 0 else 'special_word_curve_other')
    ctx.sample({'op': 'content', 'text_head': texts[ok[0]][:300], 'layouts_per_content': n_layouts})
    ctx.sample({'op': 'content', 'text_head': texts[ok[len(ok) // 2]][:300]})

    # ---- white-space-only lines (not skipped by generate_lines, ignored by every section) after the first section head
    ws_items = []
    for i in rng.sample(ok, min(len(ok), ctx.n(300, 3000))):
        c, l, g = items[i]
        lines = texts[i].split('\n')
        first = next(k for k, ln in enumerate(lines) if ln.strip().startswith('~V'))
        for _ in range(rng.randint(1, 4)):
            lines.insert(rng.randint(first + 1, len(lines) - 1), rng.choice(['  ', '\t', ' \t ', '\r', ' \x0c', '\x1f ']))
        ws_items.append((c, l, '\n'.join(lines)))
    reps = ctx.lean(['parse ' + t.encode('ascii').hex() for _, _, t in ws_items])
    for (c, l, t), r in zip(ws_items, reps):
        res = impl_parse(LR, t)
        ctx.corr('lasparse_wslines', {'op': 'text', 'text': t}, res[0], model_struct(r))
        oracle(ctx, LR, c, t, {'op': 'content_text', 'content': c, 'text': t}, res)

    # ---- classes repaired in /repo (declared NULL, single-curve wrapped): still generated, a failure is unlisted
    for _ in range(ctx.n(40, 200)):
        c = G.gen_content(rng, null=rng.choice([['f', -9999, 0], ['i', -9999], ['f', -99999, -2], ['i', 0], ['f', 0, -1], ['f', 0, 0], ['f', 0, 2]]),
                          bad_rate=0.3, allow_bad_x=False)
        l = G.gen_layout(rng, c)
        oracle(ctx, LR, c, G.print_las(c, l), _case(c, l))
    # NULL spelled -0.0 / 0E0 / +0 / -0 (spellings the printer styles do not produce): written through a placeholder
    for _ in range(ctx.n(12, 60)):
        c = G.gen_content(rng, null=['t', '@NULL@'], bad_rate=0.3, allow_bad_x=False)
        l = G.gen_layout(rng, c)
        text = G.print_las(c, l).replace('@NULL@', rng.choice(['-0.0', '0E0', '+0', '-0', '0e-5', '00.00', '-.0']))
        c2 = copy.deepcopy(c)
        for s_ in c2['sects']:
            if s_['typ'] == 'W':
                for h in s_['lines']:
                    if h['mnem'] == 'NULL': h['value'] = ['f', 0, 0]
        res = impl_parse(LR, text)
        (m_,) = ctx.lean(['parse ' + text.encode('ascii').hex()])
        ctx.corr('lasparse_zero_null', {'op': 'text', 'text': text}, res[0], model_struct(m_))
        # the declared NULL is 0: cells equal to 0 and bad tokens are masked, -999.25 is data
        oracle_zero_null(ctx, LR, c2, text, {'op': 'content_text_zero_null', 'content': c2, 'text': text}, res)
    for _ in range(ctx.n(10, 50)):
        c = G.gen_content(rng, max_curves=2, wrap=True)
        cs = [s for s in c['sects'] if s['typ'] == 'C'][0]
        cs['lines'] = cs['lines'][:1]
        c['frames'] = [r[:1] for r in c['frames']]
        l = G.gen_layout(rng, c)
        oracle(ctx, LR, c, G.print_las(c, l), _case(c, l))

    for _ in range(ctx.n(12, 60)):
        c = G.gen_content(rng, max_curves=5)
        cur = G.curves_of(c)
        used = {h['mnem'] for h in cur}
        k = rng.randrange(4)
        if k <= 1 and len(cur) >= 2:          # a curve named like another column's index / a number / yes-no
            i = rng.randrange(1, len(cur))
            names = [str(j) for j in range(len(cur)) if j != i] + ['NO', 'Yes', '1E3', '007', '-25', 'yes']
            cur[i]['mnem'] = rng.choice([n for n in names if n not in used])
        elif k == 2:                           # a unit that looks like a number
            rng.choice(cur)['unit'] = rng.choice(['1', '10', '1e3', 'NO', '0.1'])
        else:                                  # a well/parameter mnemonic that looks like a number
            hs = [h for s_ in c['sects'] if s_['kind'] == 'H' and s_['typ'] != 'C' for h in s_['lines'] if h['mnem'] not in ('NULL',)]
            if not hs: continue
            rng.choice(hs)['mnem'] = rng.choice(['1', '2', '42', 'yes', '35e-1'])
        l = G.gen_layout(rng, c)
        oracle_numeric_mnemonic(ctx, LR, c, G.print_las(c, l), {'op': 'content_numeric', 'content': c, 'layout': l})

    # ---- well-formed files ending without a newline / with CR LF / with a blank last line
    newline_variants(ctx, LR, G, ctx.n(400, 3000))

    # ---- every typed field (value AND description) with integers of every magnitude, signs, leading zeros, floats, yes/no:
    #      written through placeholders, the expected result is the exact typed value (type tag and exact int / float.hex)
    for _ in range(ctx.n(400, 3000)):
        c = G.gen_content(rng, max_curves=3, max_frames=3)
        hs = [h for s_ in c['sects'] if s_['kind'] == 'H' for h in s_['lines'] if h['mnem'] != 'NULL'] + c['v'][2:]
        if not hs:
            continue
        subst = {}
        for n_, h in enumerate(rng.sample(hs, min(len(hs), rng.randint(1, 4)))):
            for fld in rng.choice([('value',), ('desc',), ('value', 'desc')]):
                key = f'@{fld[0]}{n_}@'
                subst[key] = G.gen_typed_literal(rng)
                if fld == 'value': h['value'] = ['t', key]
                else: h['desc'] = key
        l = G.gen_layout(rng, c)
        text = G.print_las(c, l)
        for key, (t, _) in subst.items():
            text = text.replace(key, t)
        want = G.expected(c, G.NULL_DEFAULT if G.declared_null(c) is None else G.declared_null(c))
        for _t, ms in want['sections']:
            for m in ms:
                if m[0] == 'L':
                    for i_ in (3, 4):
                        if m[i_][0] == 't' and m[i_][1] in subst:
                            m[i_] = subst[m[i_][1]][1]
        oracle_typed(ctx, LR, text, want, {'op': 'typed_fields', 'text': text, 'want': want})
        typed_texts.append(text)
    reps = ctx.lean(['parse ' + t.encode('ascii').hex() for t in typed_texts])
    for t, r in zip(typed_texts, reps):
        ctx.corr('lasparse_typed_fields', {'op': 'text', 'text': t}, impl_parse(LR, t)[0], model_struct(r))

    # ---- malformed stream (correspondence only)
    bad_texts = structural(rng, G)
    valid = [texts[i] for i in ok]
    for _ in range(ctx.n(10000, 80000)):
        bad_texts.append(mutate(rng, rng.choice(valid)))
    bad_texts = [t for t in bad_texts if not G.has_python_only_literal(t)]
    replies = ctx.lean(['parse ' + (t.encode('ascii').hex() or '-') for t in bad_texts])
    kinds = {}
    for t, r in zip(bad_texts, replies):
        ms = model_struct(r)
        if ms.get('err') == 'unsupported':
            ctx.count('model_unsupported'); continue
        got = impl_parse(LR, t)[0]
        ctx.corr('lasparse_malformed', {'op': 'text', 'text': t}, got, ms)
        kinds[json.loads(r).get('kind', 'ok')] = kinds.get(json.loads(r).get('kind', 'ok'), 0) + 1
    ctx.extra['malformed_outcomes'] = dict(sorted(kinds.items()))

    # ---- unit functions
    strs = []
    pool = G._TEXT_VALUES + ['12', '-7', '+3', ' 42 ', '1.5', '-.5', '5.', '1e3', '1E-3', '1.e5', '.e5', 'e', '1e', ' yes', 'No ', 'YES',
                             'nO', '\t1\t', '\x1f2', '0012', '-0', '+.0e-0', '1.2.3', '- 1', '1 e3', '12:30', '', ' ', '++1', '1+']
    for _ in range(ctx.n(10000, 60000)):
        s = rng.choice(pool) if rng.random() < 0.4 else ''.join(rng.choice(' 0123456789.eE+-yYeEsSnNoO\t:') for _ in range(rng.randint(0, 7)))
        if not G.has_python_only_literal(s):
            strs.append(s)
    reps = ctx.lean(['val ' + (s.encode('ascii').hex() or '-') for s in strs])
    for s, r in zip(strs, reps):
        x = json.loads(r)
        mv = ['f', _fhex(G.dec_to_float(x[1], x[2]))] if x[0] == 'f' else ['t', bytes.fromhex(x[1]).decode('ascii')] if x[0] == 't' else x
        ctx.corr('string_to_value', {'op': 'val', 's': s}, _cv(LR.string_to_value(s)), mv)
    lines = []
    for i in rng.sample(ok, min(len(ok), ctx.n(150, 1500))):
        lines += [ln for ln in texts[i].split('\n')]
    lines = [ln for ln in lines if not G.has_python_only_literal(ln)]
    lines += [mutate(rng, ln).replace('\n', ' ') for ln in lines[:ctx.n(2000, 20000)]]
    lines = [ln for ln in lines if not G.has_python_only_literal(ln)]
    reps = ctx.lean(['sline ' + (s.encode('ascii').hex() or '-') for s in lines] + ['split ' + (s.encode('ascii').hex() or '-') for s in lines])
    for s, r in zip(lines, reps[:len(lines)]):
        try:
            sl = LR.line_to_sect_line(s.strip())
            got = {'ok': ['L', _cv(sl.mnem), _cv(sl.unit), _cv(sl.valu), _cv(sl.desc)]}
        except LR.ExceptionLASReadSection as e:
            got = {'err': type(e).__name__}
        j = json.loads(r)
        if 'ok' in j:
            def v(x):
                if x[0] == 'f': return ['f', _fhex(G.dec_to_float(x[1], x[2]))]
                if x[0] == 't': return ['t', bytes.fromhex(x[1]).decode('ascii')]
                return x
            j = {'ok': ['L'] + [v(x) for x in j['ok'][1:]]}
        else:
            j = {'err': j['err']}
        ctx.corr('line_to_sect_line', {'op': 'sline', 's': s}, got, j)
    for s, r in zip(lines, reps[len(lines):]):
        ctx.corr('split', {'op': 'split', 's': s}, s.split(), [bytes.fromhex(x).decode('ascii') for x in json.loads(r)])
    gl = [texts[i] for i in ok[:ctx.n(200, 2000)]] + bad_texts[:ctx.n(300, 3000)]
    reps = ctx.lean(['lines ' + (s.encode('ascii').hex() or '-') for s in gl])
    for s, r in zip(gl, reps):
        ctx.corr('generate_lines', {'op': 'lines', 's': s}, [ln for _, ln in LR.generate_lines(io.StringIO(s))],
                 [bytes.fromhex(x).decode('ascii') for x in json.loads(r)])
    ctx.note('no open finding; the repaired classes (declared NULL, single-curve wrapped, curve named like a column index, '
             'number-like mnemonics/units) are generated on every run')


def replay(ctx, rec):
    from gen import las as G
    LR = _impl()
    case = rec['case']
    if case.get('op') == 'content':
        text = G.print_las(case['content'], case['layout'])
        n0 = len(ctx.failures)
        oracle(ctx, LR, case['content'], text, case)
        if len(ctx.failures) > n0:
            return False, ctx.failures[-1]['detail']
        return True, 'the reader returns the written content'
    if case.get('op') == 'content_numeric':
        n0 = len(ctx.failures)
        oracle_numeric_mnemonic(ctx, LR, case['content'], G.print_las(case['content'], case['layout']), case)
        if len(ctx.failures) > n0:
            return False, ctx.failures[-1]['detail']
        return True, 'the reader returns the written content (or only the known retyping of a number-like mnemonic/unit)'
    if case.get('op') == 'content_text_zero_null':
        n0 = len(ctx.failures)
        oracle_zero_null(ctx, LR, case['content'], case['text'], case)
        if len(ctx.failures) > n0:
            return False, ctx.failures[-1]['detail']
        return True, 'the reader returns the written content'
    if case.get('op') == 'typed_fields':
        n0 = len(ctx.failures)
        oracle_typed(ctx, LR, case['text'], case['want'], case)
        if len(ctx.failures) > n0:
            return False, ctx.failures[-1]['detail']
        return True, 'every typed field is returned as written'
    if case.get('op') == 'content_text':
        n0 = len(ctx.failures)
        oracle(ctx, LR, case['content'], case['text'], case)
        if len(ctx.failures) > n0:
            return False, ctx.failures[-1]['detail']
        return True, 'the reader returns the written content'
    if case.get('op') == 'text':
        return True, f'reader result now: {json.dumps(impl_parse(LR, case["text"])[0])[:300]}'
    return True, 'nothing to replay (no concrete failing input was recorded)'
