"""C07 — representation codes decode per the standards; encoders invert decoders.

LIS-79 codes 49, 50, 56, 66, 68, 70, 73, 77, 79 (pRepCode.py, cRepCode.pyx, LISRepCode.cpp/cpLISRepCode.cpp, RepCode.py) and
RP66V1 Appendix B codes (RP66V1/core/pRepCode.py), plus the IBM float of BIT/ReadBIT.py.

The Cython and C++ extensions are REBUILT from the current sources under core.REPO into ctx.scratch on every run and
loaded from there; a failed build is an infrastructure error.
"""
import math, multiprocessing, os, struct, sys, time
from fractions import Fraction

CLAIM = {
 'text': ('Lean 4 theorems, for ALL words / byte strings (bit-field case split, omega, no enumeration), about a model of '
          'the decoders as coded: per code a decode_spec against the closed form of LIS-79 / RP66V1 Appendix B, '
          'consumes_exactly and len_helper_agrees for the variable-length codes, and for LIS code 68 from68c_eq_from68 '
          '(C/Cython algorithm = Python algorithm), from68_to68 (re-encoding a decoded word gives an equivalent word), '
          'to68_error (relative error < 2^-22 for every in-range dyadic). The model is tied to the three '
          'implementations (pRepCode, freshly rebuilt cRepCode and cpRepCode) on every run by exhaustive 2^8/2^16 '
          'sweeps, stratified 32-bit sweeps and an independent exact-arithmetic reference. Proof is the right level: '
          'the claim quantifies over 2^32 words and all doubles.'),
 'note': ('Trusted: Lean kernel; model<->code correspondence on the cases of the run; CPython int/float arithmetic, '
          'math.ldexp/frexp, struct and the C compiler are modelled (assumed exact where the result is representable). '
          'Code 50 (F8) and the negative clamp of to68 are defects of the code: proved only in the partial form '
          'stated in Props.lean, negations proved on witnesses, registered as known findings (RepCode.readBytes(70) of '
          'negative values was a third one; it is fixed in /repo and any recurrence is an unlisted violation). VSINGL follows the repository/RP66V1 printed vector (DESIGN F9), not VAX hardware.'),
 'technique': 'Lean 4 proof (bit-field arithmetic, omega, decide) + 3-way model-implementation correspondence',
 'design_ref': 'DESIGN.md section 6 C07',
}

# Round 2: every oracle evaluation is a "hold results" evaluation — a chunk of calls is made first and all result
# OBJECTS are kept; only afterwards each is canonicalised and compared with the reference, its exact type is checked
# (bytes, not bytearray; int, not bool) and results that are the same mutable object are reported. A failure that a
# fresh single call does not show is recorded as {'op': 'hold', 'items': [the call, the calls after it]}.
RULE = ('8/16-bit codes: every word, every implementation, every run. 32-bit codes: every (sign x exponent) combination x '
        'boundary mantissas + seeded random mantissas, plus a vectorised stratified sweep of code 68 (thorough: all 2^32 '
        'words). to68: every binade of the doubles x both signs x boundary + random mantissas. RP66V1: every word of the '
        '1/2-byte codes, (sign x exponent) x mantissas for the 4/8-byte codes, every UVARI 1- and 2-byte form, all IDENT '
        'lengths, structured + truncated + offset inputs for the compound codes. A case is non-trivial when it decodes '
        'to a non-zero value or consumes a variable number of bytes; distinct by (code, word/bytes, path). '
        'ReadBIT.float_to_bytes (IBM encoder): every representable binade x both signs x mantissas, against an exact '
        'reference encoder and the Lean model. All results of a chunk (up to 8192 calls) are held and compared afterwards; '
        'every *_len helper and reader also at non-zero indices inside buffers with a tail.')
ASSUMPTIONS = ['LIS-79 Appendix B and RP66V1 Appendix B as read by us (harness/gen/c07_ref.py is the executable reading)',
               'VSINGL: the specification is the repository\'s cited vector 0C 44 00 80 -> 153 (DESIGN F9)',
               'to68 is exercised on finite doubles only (NaN/inf excluded)',
               'code 50 values that no double can hold are compared with the correctly rounded double']
TRUSTED = ['modelled, not verified: CPython int &,|,>>, int(), float arithmetic on exactly representable values, '
           'math.ldexp/frexp, struct.unpack, Cython typed-argument conversion, gcc/g++ code generation '
           '(the rebuilt binaries are compared with the model on every run)',
           'harness/gen/c07_ref.py: the independent reference written from the standards']

F8 = 'F8-from50-exponent-mask'
F_TO68MIN = 'C07-to68-negative-clamp'

# the sources the Lean model transcribes (fingerprinted by core.check_anchors)
ANCHOR_FILES = ['src/TotalDepth/LIS/core/pRepCode.py', 'src/TotalDepth/LIS/core/RepCode.py',
                'src/TotalDepth/LIS/core/src/cython/cRepCode.pyx', 'src/TotalDepth/LIS/core/src/cpp/LISRepCode.cpp',
                'src/TotalDepth/LIS/core/src/cpp/LISRepCode.h', 'src/TotalDepth/LIS/core/src/cp/cpLISRepCode.cpp',
                'src/TotalDepth/RP66V1/core/pRepCode.py', 'src/TotalDepth/RP66V1/core/pFile.py',
                'src/TotalDepth/BIT/ReadBIT.py']

_M = {}          # modules, filled by _setup (inherited by forked workers)


# ------------------------------------------------------------------ setup
def _setup(ctx):
    import core, logging
    from gen import c07_ref as R
    if _M:
        return _M
    logging.disable(logging.CRITICAL)
    t0 = time.time()
    pc, pcp = R.build_native(core.REPO, ctx.scratch, core.InfraError)
    for name in ('TotalDepth.LIS.core.RepCode', 'TotalDepth.LIS.core.cRepCode', 'TotalDepth.LIS.core.cpRepCode'):
        if name in sys.modules:
            raise core.InfraError(f'{name} imported before the rebuilt extensions were registered')
    c = R.load_ext('TotalDepth.LIS.core.cRepCode', pc, core.InfraError)
    cp = R.load_ext('TotalDepth.LIS.core.cpRepCode', pcp, core.InfraError)
    from TotalDepth.LIS.core import pRepCode as p
    from TotalDepth.LIS.core import RepCode as rc
    if os.path.dirname(os.path.abspath(c.__file__)) != os.path.dirname(pc):
        raise core.InfraError('cRepCode not loaded from scratch')
    from TotalDepth.RP66V1.core import RepCode as rp
    from TotalDepth.RP66V1.core.File import LogicalData
    from TotalDepth.BIT import ReadBIT
    _M.update(R=R, p=p, c=c, cp=cp, rc=rc, rp=rp, LD=LogicalData, bit=ReadBIT, build_s=round(time.time() - t0, 2),
              src_root=os.path.join(core.REPO, 'src'))
    return _M


def _report(ctx, fails):
    """oracle failures -> ctx.fail; cases of a known finding are all counted but only the first 40 are listed"""
    for case, detail, finding in fails:
        if finding is not None:
            ctx.count('known_' + finding)
            if ctx.stats['known_' + finding] > 40:
                continue
        ctx.fail(case, detail, finding)


def _pool():
    return multiprocessing.get_context('fork').Pool(min(16, os.cpu_count() or 2))


# ------------------------------------------------------------------ canonical output of the implementation
class _Exc:
    """an exception captured while the results of a batch are being held"""
    __slots__ = ('s',)

    def __init__(self, e):
        n = type(e).__name__
        if isinstance(e, struct.error):
            n = 'struct'
        self.s = {'ExceptionRepCodeRead': 'err struct', 'struct': 'err struct', 'ExceptionRepCodeUnknown': 'err Unknown',
                  'ExceptionRepCodeNoLength': 'err NoLength', 'ExceptionRepCode': 'err RepCode'}.get(n, 'err ' + n)


def _raw(fn, *a):
    """fn(*a) itself (NOT canonicalised: the caller keeps it and looks at it later) or the captured exception"""
    try:
        return fn(*a)
    except Exception as e:
        return _Exc(e)


def _rstr(raw):
    return raw.s if isinstance(raw, _Exc) else _vstr(raw)


def _call(fn, *a):
    """canonical string of fn(*a) (float -> exact dyadic, int, bytes) or of the exception family"""
    return _rstr(_raw(fn, *a))


def _immutable(v):
    t = type(v)
    if t in (int, float, bytes, str, bool, type(None)):
        return True
    return isinstance(v, tuple) and all(_immutable(x) for x in v)


def _alias_report(raws):
    """{index: detail} for results that are the very same object as an earlier result of the batch although they
    are not immutable values (an encoder/decoder handing out a shared scratch buffer or object)"""
    seen, out = {}, {}
    for i, r in enumerate(raws):
        if isinstance(r, _Exc) or _immutable(r):
            continue
        j = seen.setdefault(id(r), i)
        if j != i:
            out[i] = f'call #{i} returned the very same mutable {type(r).__name__} object as call #{j} of the batch'
    return out


def _type_bad(raw, want):
    """documented result type (exactly: bytes, not bytearray; int, not bool)"""
    if isinstance(raw, _Exc) or type(raw) is want:
        return None
    return f'result is a {type(raw).__name__}, documented type is {want.__name__}'


def _vstr(v):
    if isinstance(v, float):
        return _M['R'].float_str(v)
    if isinstance(v, bool):
        return 'i %d' % v
    if isinstance(v, int):
        return 'i %d' % v
    if isinstance(v, (bytes, bytearray)):
        return 'b ' + (bytes(v).hex() or '-')
    return 'obj ' + repr(v)


def _signed(bits, u):
    return u - (1 << bits) if u >> (bits - 1) else u


# ------------------------------------------------------------------ LIS decode: one word through every path
def _lis_expected(rc, u):
    R = _M['R']
    ref = R.LIS_REF[rc](u)
    if rc in R.LIS_FLOAT:
        if R.representable(ref):
            return 'f %d %d' % ref
        return R.nearest_double_str(*ref)
    return 'i %d' % ref


def _lis_paths(rc, u):
    """[(path, arg, lean_line)] every way the word u reaches a decoder"""
    R = _M['R']
    bits = R.LIS_BITS[rc]
    s = _signed(bits, u)
    out = [('p', u, f'p {rc} {u}'), ('c', u, f'c {rc} {u}')]
    if s != u:
        out += [('p', s, f'p {rc} {s}'), ('c', s, f'c {rc} {s}')]
    if rc == 68:
        out.append(('cp', u, f'r {rc} {u}'))
        if s != u:
            out.append(('cp', s, f'r {rc} {s}'))
    out.append(('readBytes', u, 'rb %d %s' % (rc, u.to_bytes(bits // 8, 'big').hex())))
    return out


def _lis_raw(rc, path, arg):
    M = _M
    if path == 'readBytes':
        bits = M['R'].LIS_BITS[rc]
        return _raw(M['rc'].readBytes, rc, arg.to_bytes(bits // 8, 'big'))
    return _raw(getattr(M[path], 'from%d' % rc), arg)


def _lis_impl(rc, path, arg):
    return _rstr(_lis_raw(rc, path, arg))


def _lis_oracle(rc, u, path, arg, got, expected):
    """property on the implementation alone; returns None or (detail, finding)"""
    R = _M['R']
    if got == expected:
        return None
    bits = R.LIS_BITS[rc]
    structv = _signed(bits, u) if rc in R.LIS_SIGNED_STRUCT else u
    # An argument outside the declared C type of a Cython function is not a value of the code (e.g.
    # cRepCode.from56(200)): the property says nothing about it.  The value struct.unpack produces always is one,
    # and so is the unsigned word for the codes whose functions are documented/tested on unsigned words.
    if path == 'c' and got == 'err OverflowError':
        if not (arg == structv or (arg == u and rc in (49, 50, 68, 70))):
            return None
    if path == 'p' and rc in (73, 79) and arg != structv:
        return None     # pRepCode.from73/79 are the identity: the word must be the signed struct value
    finding = None
    if rc == 50 and R.in_class_F8(u) and got.startswith(('f ', 'nz')):
        finding = F8
    return (f'code {rc} word 0x{u:0{R.LIS_BITS[rc] // 4}X} via {path}({arg}): got {got}, standard gives {expected}', finding)


def _lis_chunk(job):
    """two phases: every decoder result of the chunk is produced and KEPT, only afterwards each is looked at"""
    rc, words = job
    R = _M['R']
    items = [(u, path, arg, line) for u in words for path, arg, line in _lis_paths(rc, u)]
    raws = [_lis_raw(rc, path, arg) for u, path, arg, line in items]
    want_t = float if rc in R.LIS_FLOAT else int
    res, fails, nontriv, exp_of = [], [], 0, {}
    for (u, path, arg, line), raw in zip(items, raws):
        if u not in exp_of:
            exp_of[u] = _lis_expected(rc, u)
            if exp_of[u] not in ('f 0 0', 'i 0'):
                nontriv += 1
        got = _rstr(raw)
        res.append((u, path, arg, line, got))
        bad = _lis_oracle(rc, u, path, arg, got, exp_of[u])
        tb = _type_bad(raw, want_t)
        if tb and not bad:
            bad = (f'code {rc} via {path}({arg}): {tb}', None)
        if bad:
            fails.append(({'op': 'lis', 'rc': rc, 'u': u, 'path': path, 'arg': arg}, bad[0], bad[1]))
    return rc, res, fails, nontriv


def _words32(ctx, rc):
    """stratified 32-bit words for code rc"""
    rng = ctx.rng
    out = []
    if rc == 68:
        bm = [0, 1, 2, 0x3FFFFF, 0x400000, 0x400001, 0x7FFFFE, 0x7FFFFF, 0x2AAAAA, 0x555555, 0x100000, 0x200000]
        k = ctx.n(40, 400)
        for se in range(512):
            for m in bm:
                out.append((se << 23) | m)
            for _ in range(k):
                out.append((se << 23) | rng.getrandbits(23))
    elif rc == 50:
        bm = [0, 1, 0x3FFF, 0x4000, 0x7FFF, 0x8000, 0x8001, 0xC000, 0xFFFF]
        k = ctx.n(1, 8)
        for e in range(65536):
            out.append((e << 16) | bm[(e * 7 + ctx.seed) % len(bm)])
            for _ in range(k):
                out.append((e << 16) | rng.getrandbits(16))
        for e in list(range(0, 1100)) + list(range(0x7F00, 0x8100)) + list(range(0xFB00, 0x10000)):
            for m in bm:
                out.append((e << 16) | m)
    else:   # 70, 73: two 16-bit halves
        b16 = [0, 1, 2, 0x7FFE, 0x7FFF, 0x8000, 0x8001, 0xFFFE, 0xFFFF, 0x00FF, 0x0100, 0xFF00]
        for hi in b16:
            for lo in b16:
                out.append((hi << 16) | lo)
        for hi in range(0, 65536, ctx.n(16, 1)):
            out.append((hi << 16) | rng.choice(b16))
            out.append((hi << 16) | rng.getrandbits(16))
        for _ in range(ctx.n(20000, 400000)):
            out.append(rng.getrandbits(32))
    return out


def _run_lis(ctx, pool):
    R = _M['R']
    jobs = []
    for rc in (56, 66, 77):
        jobs.append((rc, list(range(256))))
    for rc in (49, 79):
        ws = list(range(65536))
        jobs += [(rc, ws[i:i + 4096]) for i in range(0, 65536, 4096)]
    for rc in (68, 50, 70, 73):
        ws = _words32(ctx, rc)
        jobs += [(rc, ws[i:i + 8192]) for i in range(0, len(ws), 8192)]
    lines, meta = [], []
    for rc, res, fails, nontriv in pool.imap(_lis_chunk, jobs, 1):
        _report(ctx, fails)
        ctx.count('oracle_cases', len(res))
        ctx.count(f'lis{rc}_words', len({r[0] for r in res}))
        ctx.count('nontrivial_words', nontriv)
        for u, path, arg, line, got in res:
            lines.append(line); meta.append((rc, u, path, arg, got))
    model = ctx.lean(lines)
    for (rc, u, path, arg, got), m in zip(meta, model):
        ctx.corr(f'lis{rc}.{path}', {'op': 'lis', 'rc': rc, 'u': u, 'path': path, 'arg': arg}, got, m)
        if got not in ('f 0 0', 'i 0') and not got.startswith('err'):
            ctx.nontriv((rc, u))
    ctx.sample({'op': 'lis', 'rc': 68, 'word': '0xBBB38000', 'python/cython/c++/readBytes': [
        _lis_impl(68, 'p', 0xBBB38000), _lis_impl(68, 'c', 0xBBB38000), _lis_impl(68, 'cp', 0xBBB38000),
        _lis_impl(68, 'readBytes', 0xBBB38000)], 'reference': _lis_expected(68, 0xBBB38000)})
    # size table and unknown codes
    size_lines = [f'size {r}' for r in range(256)]
    for r, m in zip(range(256), ctx.lean(size_lines)):
        ctx.corr('lis.size', {'op': 'size', 'rc': r}, _call(_M['rc'].lisSize, r).replace('i ', '').replace('err Unknown', 'N'), m)
    # readBytes error branches: wrong number of bytes, unknown code, text code without a length, dipmeter codes
    bad = []
    for r in (49, 50, 56, 66, 68, 70, 73, 77, 79, 65, 130, 234, 0, 1, 67, 255):
        for n in (0, 1, 2, 3, 4, 5, 8):
            bad.append((r, bytes(ctx.rng.getrandbits(8) for _ in range(n))))
    for (r, b), m in zip(bad, ctx.lean([f'rb {r} {b.hex() or "-"}' for r, b in bad])):
        ctx.corr('lis.readBytes.err', {'op': 'rb', 'rc': r, 'hex': b.hex()}, _call(_M['rc'].readBytes, r, b), m)


# ------------------------------------------------------------------ to68
def _doubles(ctx):
    rng = ctx.rng
    bm = [0, 1, 2, (1 << 52) - 1, (1 << 52) - 2, 1 << 51, (1 << 29) - 1, 1 << 29, (1 << 29) + 1, (1 << 30) - 1, 1 << 28,
          ((1 << 23) - 1) << 29, (((1 << 23) - 1) << 29) | ((1 << 29) - 1), 0x5555555555555 & ((1 << 52) - 1), 0xAAAAAAAAAAAAA]
    out = []
    k = ctx.n(12, 150)
    kk = ctx.n(40, 400)
    for e in range(0, 2047):
        near = 1023 - 160 <= e <= 1023 + 135
        ms = bm + [rng.getrandbits(52) for _ in range(kk if near else k)]
        for m in ms:
            bits = (e << 52) | m
            out.append(bits)
            out.append(bits | (1 << 63))
    return [struct.unpack('>d', struct.pack('>Q', b))[0] for b in out]


def _to68_check(x, w):
    """property of one encoder output on the implementation alone -> None | (detail, finding)"""
    R = _M['R']
    if not (isinstance(w, int) and 0 <= w < (1 << 32)):
        return (f'to68({x.hex()}) = {w!r} is not a 32-bit word', None)
    v = Fraction(x)
    d = R.dy_fraction(R.lis68(w))
    av = abs(v)
    lo151, lo129, hi = Fraction(1, 1 << 151), Fraction(1, 1 << 129), Fraction(1 << 127)
    if av < lo151:
        return None if d == 0 else (f'to68({x.hex()}) = 0x{w:08X} decodes to {float(d)!r}, expected 0', None)
    if av < lo129:
        return None if abs(d - v) < lo151 else (f'to68({x.hex()}) = 0x{w:08X}: absolute error >= 2^-151 below the normal range', None)
    if av < hi:
        if abs(d - v) * (1 << 22) < av:
            return None
        return (f'to68({x.hex()}) = 0x{w:08X} decodes to {float(d)!r}: relative error >= 2^-22', None)
    if v > 0:
        return None if d == R.dy_fraction(R.R68_MAX) else (f'to68({x.hex()}) = 0x{w:08X} is not the maximum', None)
    if d == R.dy_fraction(R.R68_MIN):
        return None
    return (f'to68({x.hex()}) = 0x{w:08X} decodes to {float(d)!r}, not to the minimum -2^127 (0x80000000)', F_TO68MIN)


def _canon68(w):
    s, E, F = w >> 31, (w >> 23) & 0xFF, w & 0x7FFFFF
    if s == 0:
        return F >= (1 << 22) or (E == 0 and F != 0) or (E == 128 and F == 0)
    return 1 <= F <= (1 << 22) or (E == 255 and F > (1 << 22))


def _to68_chunk(xs, _fresh=False):
    """two phases: all encoder results (words, writeBytes68 bytes, re-encodings) of the chunk are produced and kept,
    then each is compared"""
    M = _M
    raws = []
    for x in xs:
        ws = [_raw(M[name].to68, x) for name in ('p', 'c', 'cp')]
        w2 = [_raw(lambda w=w, n=n: M[n].to68(M[n].from68(w))) if type(w) is int and 0 <= w < (1 << 32) else None
              for n, w in zip(('p', 'c', 'cp'), ws)]
        raws.append((ws, w2, _raw(M['rc'].writeBytes68, x)))
    alias = _alias_report([r[2] for r in raws])
    res, fails, pending = [], [], []
    for i, (x, (ws, w2s, wbr)) in enumerate(zip(xs, raws)):
        for name, w, w2 in zip(('p', 'c', 'cp'), ws, w2s):
            bad = (f'{name}.to68({x.hex()}) raised {w.s}', None) if isinstance(w, _Exc) else \
                ((f'to68({x.hex()}): ' + _type_bad(w, int), None) if _type_bad(w, int) else _to68_check(x, w))
            if bad:
                fails.append(({'op': 'to68', 'x': x.hex(), 'impl': name}, f'{name}: ' + bad[0], bad[1]))
            if w2 is not None and (not _canon68(w) or w2 != w):
                fails.append(({'op': 'to68', 'x': x.hex(), 'impl': name},
                              f'{name}: to68({x.hex()}) = 0x{w:08X} is {"" if _canon68(w) else "not "}canonical, '
                              f'to68(from68(.)) = {w2 if not isinstance(w2, _Exc) else w2.s}', None))
        wl = [w if not isinstance(w, _Exc) else w.s for w in ws]
        if not (wl[0] == wl[1] == wl[2]):
            fails.append(({'op': 'to68', 'x': x.hex(), 'impl': 'all'},
                          f'to68({x.hex()}) differs: python {wl[0]} cython {wl[1]} c++ {wl[2]}', None))
        # writeBytes68: a fresh immutable bytes object holding the big-endian word of RepCode.to68
        wb = wbr.s if isinstance(wbr, _Exc) else bytes(wbr).hex()
        bad = None
        if not isinstance(wbr, _Exc):
            cpw = ws[2]
            bad = _type_bad(wbr, bytes) or alias.get(i)
            if not bad and type(cpw) is int and 0 <= cpw < (1 << 32) and bytes(wbr) != cpw.to_bytes(4, 'big'):
                bad = f'holds {wb}, RepCode.to68 gave {cpw:08x}'
        if bad:
            pending.append((i, bad))
        res.append((x, wl, wb))
    for i, bad in pending:
        x = xs[i]
        case = None
        if not _fresh and not _to68_chunk([x], True)[1]:
            follow = list(xs[i + 1:i + 4]) or list(xs[max(0, i - 1):i]) or [-x if x else 1.0]
            case = {'op': 'hold', 'fn': 'to68', 'items': [v.hex() for v in [x] + follow]}
        fails.append((case or {'op': 'to68', 'x': x.hex(), 'impl': 'writeBytes68'},
                      f'writeBytes68({x.hex()}) looked at after {len(xs) - 1 - i} later call(s): {bad}', None))
    return res, fails


def _run_to68(ctx, pool):
    R = _M['R']
    xs = _doubles(ctx)
    xs += [0.0, -0.0, 153.0, -153.0, 1e40, -1e40, math.ldexp(-1.0, 127), math.ldexp(1.0, 127), math.ldexp(1.0, -151),
           math.ldexp(-1.0, -151), 3.50325e-46, 5e-324, -5e-324, sys.float_info.max, -sys.float_info.max]
    jobs = [xs[i:i + 4096] for i in range(0, len(xs), 4096)]
    lines, meta = [], []
    for res, fails in pool.imap(_to68_chunk, jobs, 1):
        _report(ctx, fails)
        ctx.count('oracle_cases', 4 * len(res))
        for x, ws, wb in res:
            m, e = R.dy_of_float(x)
            lines.append(f'to68 {m} {e}'); meta.append((x, ws, wb))
    model = ctx.lean(lines)
    for (x, ws, wb), m in zip(meta, model):
        case = {'op': 'to68', 'x': x.hex()}
        for name, w in zip(('p', 'c', 'cp'), ws):
            ctx.corr(f'to68.{name}', case, str(w), m)
        ctx.corr('writeBytes68', case, wb, '%08x' % int(m) if m.isdigit() else m)
        if x != 0.0:
            ctx.nontriv(('to68', x.hex()))
    ctx.count('to68_doubles', len(xs))
    ctx.sample({'op': 'to68', 'x': (-153.0).hex(), 'python/cython/c++': [hex(_M[n].to68(-153.0)) for n in ('p', 'c', 'cp')]})


# ------------------------------------------------------------------ code 68: vectorised sweep (implementation vs numpy reference)
def _np_ref68(w):
    import numpy as np
    s = (w >> 31) & 1
    E = ((w >> 23) & 0xFF).astype(np.int64)
    F = (w & 0x7FFFFF).astype(np.int64)
    m = np.where(s == 1, F - (1 << 23), F)
    e = np.where(s == 1, 104 - E, E - 151)
    return np.ldexp(m.astype(np.float64), e.astype(np.int32))


def _np_canon68(w):
    """the normalised code-68 words (written from the format: mantissa in [1/2, 1) resp. [-1, -1/2), or the smallest
    exponent, or the zero word 0x40000000)"""
    s = (w >> 31) & 1
    E = (w >> 23) & 0xFF
    F = w & 0x7FFFFF
    pos = (s == 0) & ((F >= (1 << 22)) | ((E == 0) & (F != 0)) | ((E == 128) & (F == 0)))
    neg = (s == 1) & (((F >= 1) & (F <= (1 << 22))) | ((E == 255) & (F > (1 << 22))))
    return pos | neg


def _sweep68_chunk(job):
    try:
        return _sweep68_chunk_(job)
    except Exception as e:      # a (mutated) implementation raised inside the vectorised loop: locate the word
        kind, a, b, pstride = job
        for u in (range(a, b) if kind == 'range' else a):
            for name in ('p', 'c', 'cp'):
                try:
                    _M[name].to68(_M[name].from68(u))
                except Exception as e2:
                    return 1, [({'op': 'lis', 'rc': 68, 'u': u, 'path': name, 'arg': u},
                                f'{name}: from68/to68 on word 0x{u:08X} raised {type(e2).__name__}: {e2}', None)]
        raise


def _sweep68_chunk_(job):
    """job = (kind, a, b, pstride): words a..b-1 (kind 'range') or an explicit list; returns counts and mismatches"""
    import numpy as np
    M = _M
    kind, a, b, pstride = job
    if kind == 'range':
        ws = range(a, b)
        w = np.arange(a, b, dtype=np.uint64)
    else:
        ws = a
        w = np.array(a, dtype=np.uint64)
    n = len(w)
    ref = _np_ref68(w).view(np.uint64)
    fails = []
    outs = {}
    for name in ('p', 'c', 'cp'):
        f = M[name].from68
        arr = np.fromiter(map(f, ws), dtype=np.float64, count=n)
        outs[name] = arr
        bad = np.nonzero(arr.view(np.uint64) != ref)[0]
        for i in bad[:20]:
            u = int(w[i])
            fails.append(({'op': 'lis', 'rc': 68, 'u': u, 'path': name, 'arg': u},
                          f'code 68 word 0x{u:08X} via {name}: got {float(arr[i]).hex()}, standard gives {float(_np_ref68(w[i:i+1])[0]).hex()}', None))
    # re-encode: to68(from68(w)) must decode to the same value (C++ and Cython on every word, Python on every pstride-th)
    nrt = 0
    for name in ('c', 'cp', 'p'):
        t = M[name].to68
        if name == 'p':
            idx = np.arange(0, n, pstride)
            xs = outs['p'][idx]
        else:
            idx = None
            xs = outs[name]
        w2 = np.fromiter(map(t, xs.tolist()), dtype=np.uint64, count=len(xs))
        nrt += len(xs)
        back = _np_ref68(w2).view(np.uint64)
        want = ref if idx is None else ref[idx]
        bad = np.nonzero(back != want)[0]
        # canonical-word property: to68(from68(w)) == w exactly for the canonical (normalised) words
        w_in = w if idx is None else w[idx]
        fixed_bad = np.nonzero((w2 == w_in) != _np_canon68(w_in))[0]
        for i in fixed_bad[:20]:
            u = int(w_in[i])
            fails.append(({'op': 'rt68', 'u': u, 'impl': name},
                          f'{name}: to68(from68(0x{u:08X})) = 0x{int(w2[i]):08X}; the word is '
                          f'{"canonical" if bool(_np_canon68(w_in[i:i+1])[0]) else "not canonical"}', None))
        for i in bad[:20]:
            u = int(w[i] if idx is None else w[idx[i]])
            fails.append(({'op': 'rt68', 'u': u, 'impl': name},
                          f'{name}: to68(from68(0x{u:08X})) = 0x{int(w2[i]):08X} decodes to a different value',
                          F_TO68MIN if u == 0x80000000 else None))
    return 3 * n + nrt, fails


def _run_sweep68(ctx, pool, nwords_log2, full):
    """returns (evaluations, complete): `complete` is True when `full` was asked for and every one of the 2^32 words
    was evaluated inside the time budget (C07_SWEEP_BUDGET_S, default 1020 s); the chunks are visited in bit-reversed
    order, so a sweep cut short by the budget is still a uniform stratified sample over sign x exponent."""
    jobs = []
    if full:
        nb = 11
        step = 1 << (32 - nb)
        order = [int(format(k, f'0{nb}b')[::-1], 2) for k in range(1 << nb)]
        jobs = [('range', a * step, (a + 1) * step, 16) for a in order]
    else:
        # stratified: for every sign x exponent (512) a run of consecutive mantissas at a random position + the edges
        per = (1 << nwords_log2) // 512
        for se in range(512):
            base = se << 23
            start = ctx.rng.randrange(0, (1 << 23) - per)
            ws = list(range(base, base + 64)) + list(range(base + (1 << 23) - 64, base + (1 << 23))) \
                + list(range(base + (1 << 22) - 32, base + (1 << 22) + 32)) + list(range(base + start, base + start + per))
            jobs.append(('list', ws, None, 4))
    budget = float(os.environ.get('C07_SWEEP_BUDGET_S', '1020'))
    t0 = time.time()
    total = done = 0
    for n, fails in pool.imap_unordered(_sweep68_chunk, jobs, 1):
        total += n
        done += 1
        _report(ctx, fails)
        if full and time.time() - t0 > budget and done < len(jobs):
            break
    ctx.count('oracle_cases', total)
    ctx.count('sweep68_evaluations', total)
    complete = bool(full and done == len(jobs))
    if full:
        ctx.extra['code68_sweep_words'] = done * (1 << 21)
        ctx.note(f'code 68 sweep: {done}/{len(jobs)} chunks of 2^21 words in {time.time() - t0:.0f} s'
                 + ('' if complete else ' (time budget reached: NOT exhaustive, stratified prefix in bit-reversed order)'))
    return total, complete


# ------------------------------------------------------------------ RP66V1
FLOAT_CODES = {'FSINGL': 4, 'FDOUBL': 8, 'ISINGL': 4, 'VSINGL': 4}
INT_CODES = ('SSHORT', 'SNORM', 'SLONG', 'USHORT', 'UNORM', 'ULONG', 'STATUS')


RP_TYPES = {'FSINGL': float, 'FDOUBL': float, 'ISINGL': float, 'VSINGL': float, 'SSHORT': int, 'SNORM': int, 'SLONG': int,
            'USHORT': int, 'UNORM': int, 'ULONG': int, 'STATUS': int, 'UVARI': int, 'ORIGIN': int, 'IDENT': bytes,
            'ASCII': bytes, 'UNITS': bytes}


def _rp_raw(name, b, idx):
    """(result object or captured exception, index after the call) — not looked into"""
    ld = _M['LD'](bytes(b))
    ld.seek(idx)
    v = _raw(getattr(_M['rp'], name), ld)
    return v, ld.index


def _rp_canon(name, idx, raw):
    """(canonical string, comparable value, bytes used, type complaint) of a held result"""
    v, index = raw
    if isinstance(v, _Exc):
        return v.s, None, None, None
    tb = None
    if name == 'DTIME':
        s = f'y={v.year} tz={v.tz} mo={v.month} d={v.day} h={v.hour} mi={v.minute} s={v.second} ms={v.millisecond}'
        val = (v.year, v.tz, v.month, v.day, v.hour, v.minute, v.second, v.millisecond)
        if type(v).__name__ != 'DateTime' or any(type(x) is not int for x in val):
            tb = f'result is a {type(v).__name__} with field types {[type(x).__name__ for x in val]}'
    elif name == 'OBNAME':
        s = f'O={v.O} C={v.C} I={bytes(v.I).hex() or "-"}'
        val = (v.O, v.C, bytes(v.I))
        if not isinstance(v, tuple) or (type(v.O), type(v.C), type(v.I)) != (int, int, bytes):
            tb = f'result is a {type(v).__name__} of ({type(v.O).__name__}, {type(v.C).__name__}, {type(v.I).__name__})'
    elif name == 'OBJREF':
        s = f'T={bytes(v.T).hex() or "-"} O={v.N.O} C={v.N.C} I={bytes(v.N.I).hex() or "-"}'
        val = (bytes(v.T), (v.N.O, v.N.C, bytes(v.N.I)))
        if not isinstance(v, tuple) or (type(v.T), type(v.N.O), type(v.N.C), type(v.N.I)) != (bytes, int, int, bytes):
            tb = f'result is a {type(v).__name__} with field types {[type(x).__name__ for x in (v.T, v.N.O, v.N.C, v.N.I)]}'
    else:
        s = _vstr(v)
        val = v
        tb = _type_bad(v, RP_TYPES[name])
    return f'{s} @{index}', val, index - idx, tb


def _rp_impl(name, b, idx):
    return _rp_canon(name, idx, _rp_raw(name, b, idx))[:3]


def _rp_reference(name, b, idx):
    """(value or canonical float string, length) or None when the bytes at idx do not hold a complete value"""
    R = _M['R']
    if name in FLOAT_CODES:
        n = FLOAT_CODES[name]
        if idx + n > len(b):
            return None
        by = bytes(b[idx:idx + n])
        if name == 'FSINGL':
            r = R.ieee_ref(8, 23, int.from_bytes(by, 'big'))
        elif name == 'FDOUBL':
            r = R.ieee_ref(11, 52, int.from_bytes(by, 'big'))
        elif name == 'ISINGL':
            r = R.ibm_ref(by)
        else:
            r = R.vax_ref_repo(by)
        return R.ref_str(r), n
    if name in INT_CODES:
        return R.fixed_int_ref(name, b, idx)
    if name in ('UVARI', 'ORIGIN'):
        return R.uvari_ref(b, idx)
    if name in ('IDENT', 'UNITS'):
        return R.ident_ref(b, idx)
    if name == 'ASCII':
        return R.ascii_ref(b, idx)
    if name == 'OBNAME':
        return R.obname_ref(b, idx)
    if name == 'OBJREF':
        return R.objref_ref(b, idx)
    if name == 'DTIME':
        return R.dtime_ref(b, idx)
    raise KeyError(name)


def _rp_oracle(name, b, idx, got, val, used):
    ref = _rp_reference(name, b, idx)
    if ref is None:
        if got == 'err IndexError':
            return None
        return f'{name} on {len(b) - idx} byte(s) (incomplete value) returned {got} instead of raising IndexError'
    want, n = ref
    if val is None:
        return f'{name} at {idx} of {bytes(b[idx:idx + 12]).hex()}..: {got}, standard gives {want!r} consuming {n}'
    if name in FLOAT_CODES:
        if got.rsplit(' @', 1)[0] != want:
            return f'{name} {bytes(b[idx:idx + n]).hex()}: got {got}, standard gives {want}'
    elif val != want:
        return f'{name} at {idx} of {bytes(b[idx:idx + 12]).hex()}..: got {val!r}, standard gives {want!r}'
    if used != n:
        return f'{name}: consumed {used} byte(s), standard length {n}'
    return None


def _len_impl(name, b, idx):
    return _call(getattr(_M['rp'], name + '_len'), bytes(b), idx).replace('i ', '')


def _len_oracle(name, b, idx, got):
    """helper lengths agree with what decoding consumes (reference and implementation)"""
    if idx < 0:
        return None if got == 'err RepCode' else f'{name}_len with negative index returned {got}'
    if idx >= len(b):
        return None if got == '0' else f'{name}_len past the end returned {got}'
    ref = _rp_reference(name, b, idx)
    g, val, used = _rp_impl(name, b, idx)
    if ref is not None and got != str(ref[1]):
        return f'{name}_len = {got} but the value at {idx} of {bytes(b[idx:idx + 10]).hex()}.. occupies {ref[1]} bytes'
    if used is not None and got != str(used):
        return f'{name}_len = {got} but {name}() consumed {used} bytes'
    return None


def _rp_chunk(cases, _fresh=False):
    """two phases: every reader / helper / IBM result of the chunk is produced and KEPT (the objects themselves),
    only afterwards each is canonicalised and compared with the reference"""
    M, R = _M, _M['R']
    raws = []
    for kind, name, b, idx in cases:
        if kind == 'rp':
            raws.append(_rp_raw(name, b, idx))
        elif kind == 'len':
            raws.append(_raw(getattr(M['rp'], name + '_len'), bytes(b), idx))
        elif kind == 'ibm':
            raws.append(_raw(M['bit'].bytes_to_float, b))
        else:   # f2b: the IBM encoder; b is the 8-byte big-endian double
            raws.append(_raw(M['bit'].float_to_bytes, struct.unpack('>d', b)[0]))
    alias = _alias_report([r[0] if k[0] == 'rp' else r for k, r in zip(cases, raws)])
    res, fails, pending = [], [], []
    for i, ((kind, name, b, idx), raw) in enumerate(zip(cases, raws)):
        tb = None
        if kind == 'rp':
            got, val, used, tb = _rp_canon(name, idx, raw)
            bad = _rp_oracle(name, b, idx, got, val, used)
            line = f'rp {name} {b.hex() or "-"} {idx}'
        elif kind == 'len':
            got = _rstr(raw).replace('i ', '')
            bad = _len_oracle(name, b, idx, got)
            tb = _type_bad(raw, int)
            line = f'len {name} {b.hex() or "-"} {idx}'
        elif kind == 'ibm':
            got = _rstr(raw)
            got = 'err struct' if got == 'err ValueError' else got
            bad = None
            if len(b) >= 4 and got != R.ref_str(R.ibm_ref(b)):
                bad = f'bytes_to_float({b.hex()}) = {got}, IBM format gives {R.ref_str(R.ibm_ref(b))}'
            if len(b) < 4 and got != 'err struct':
                bad = f'bytes_to_float on {len(b)} bytes returned {got}'
            tb = _type_bad(raw, float)
            line = f'ibm {b.hex() or "-"}'
        else:
            x = struct.unpack('>d', b)[0]
            got = raw.s if isinstance(raw, _Exc) else bytes(raw).hex()
            want = R.ibm_encode_ref(x)
            bad = None
            if want is not None and got != want.hex():
                bad = f'float_to_bytes({x.hex()}) holds {got}, IBM format gives {want.hex()}'
            tb = _type_bad(raw, bytes)
            m, e = R.dy_of_float(x)
            line = f'f2b {m} {e}'
        bad = bad or tb or alias.get(i)
        res.append((kind, name, b, idx, line, got))
        if bad:
            pending.append((i, bad))
    # only now (all held results have been looked at) decide, by a fresh single call, whether a failure needs the
    # later calls; such a case is recorded with the calls that followed it (at least one other call)
    for i, bad in pending:
        kind, name, b, idx = cases[i]
        case = None
        if not _fresh and not _rp_chunk([cases[i]], True)[1]:
            same = lambda c: c[0] == kind and c[1] == name and c is not cases[i]
            follow = [c for c in cases[i + 1:] if same(c)][:3] or [c for c in cases[:i] if same(c)][-1:] \
                or [(kind, name, bytes(x ^ 0xFF for x in b), idx)]
            case = {'op': 'hold', 'fn': 'rp', 'items': [(k, n, bb.hex(), ii) for k, n, bb, ii in [cases[i]] + follow]}
            bad += f' (looked at after {len(cases) - 1 - i} later call(s); a single fresh call is right)'
        fails.append((case or {'op': kind, 'name': name, 'hex': b.hex(), 'idx': idx}, bad, None))
    return res, fails


def _rb(rng, n):
    return bytes(rng.getrandbits(8) for _ in range(n))


def _uvari_enc(v, force=None):
    n = force or (1 if v < 0x80 else 2 if v < 0x4000 else 4)
    if n == 1: return bytes([v])
    if n == 2: return (v | 0x8000).to_bytes(2, 'big')
    return (v | 0xC0000000).to_bytes(4, 'big')


def _rp_cases(ctx):
    rng = ctx.rng
    cs = []
    pre = lambda: _rb(rng, rng.choice([0, 0, 0, 1, 3, 7]))
    def add(name, body, tail=b''):
        p = pre()
        cs.append(('rp', name, p + body + tail, len(p)))
    # 1-byte and 2-byte codes: every word
    for u in range(256):
        for name in ('SSHORT', 'USHORT', 'STATUS'):
            add(name, bytes([u]))
    for u in range(65536):
        for name in ('SNORM', 'UNORM'):
            cs.append(('rp', name, u.to_bytes(2, 'big'), 0))
    # 4-byte float codes: sign x exponent x mantissas
    bm23 = [0, 1, 2, 0x3FFFFF, 0x400000, 0x7FFFFF, 0x555555, 0x2AAAAA, 0x0FFFFF, 0x100000]
    k = ctx.n(12, 200)
    for se in range(512):
        for m in bm23 + [rng.getrandbits(23) for _ in range(k)]:
            w = (se << 23) | m
            add('FSINGL', w.to_bytes(4, 'big'))
    bm24 = [0, 1, 0x0FFFFF, 0x100000, 0x7FFFFF, 0x800000, 0xFFFFFF, 0x555555]
    for se in range(256):
        for m in bm24 + [rng.getrandbits(24) for _ in range(2 * k)]:
            w = (se << 24) | m
            add('ISINGL', w.to_bytes(4, 'big'))
            cs.append(('ibm', '', w.to_bytes(4, 'big') + _rb(rng, rng.choice([0, 0, 2])), 0))
    for n in range(0, 4):
        cs.append(('ibm', '', _rb(rng, n), 0))
    for s in (0, 1):
        for e in range(256):
            for f in bm23 + [rng.getrandbits(23) for _ in range(k)]:
                b0 = ((e & 1) << 7) | (f >> 16); b1 = (s << 7) | (e >> 1); b2 = f & 0xFF; b3 = (f >> 8) & 0xFF
                add('VSINGL', bytes([b0, b1, b2, b3]))
    add('VSINGL', bytes([0x0C, 0x44, 0x00, 0x80]))
    bm52 = [0, 1, (1 << 52) - 1, 1 << 51, 0x5555555555555, (1 << 29) - 1]
    kd = ctx.n(6, 100)
    for se in range(4096):
        for m in bm52 + [rng.getrandbits(52) for _ in range(kd)]:
            add('FDOUBL', ((se << 52) | m).to_bytes(8, 'big'))
    b16 = [0, 1, 0x7FFF, 0x8000, 0xFFFF, 0x00FF, 0xFF00]
    for name in ('SLONG', 'ULONG'):
        for hi in b16:
            for lo in b16:
                add(name, ((hi << 16) | lo).to_bytes(4, 'big'))
        for _ in range(ctx.n(5000, 100000)):
            add(name, _rb(rng, 4))
    # UVARI: every 1-byte and 2-byte form, stratified 4-byte forms, non-minimal encodings, truncation
    for v in range(0x80):
        add('UVARI', bytes([v]), _rb(rng, rng.choice([0, 2])))
    for v in range(0x4000):
        cs.append(('rp', 'UVARI', _uvari_enc(v, 2), 0))
        if v % 64 == 0:
            cs.append(('len', 'UVARI', _uvari_enc(v, 2), 0))
    for c0 in range(0xC0, 0x100):
        for _ in range(ctx.n(40, 600)):
            add('UVARI', bytes([c0]) + _rb(rng, 3), _rb(rng, rng.choice([0, 1])))
        add('UVARI', bytes([c0, 0, 0, 0])); add('UVARI', bytes([c0, 0xFF, 0xFF, 0xFF]))
    for c0 in range(256):
        for n in range(0, 4):
            b = bytes([c0]) + _rb(rng, n)
            cs.append(('rp', 'UVARI', b, 0)); cs.append(('rp', 'ORIGIN', b, 0))
            cs.append(('len', 'UVARI', b, 0)); cs.append(('len', 'ORIGIN', b, 0))
            cs.append(('len', 'UVARI', b, rng.choice([-1, -5, n + 1, n + 7, 1])))
    # IDENT / UNITS: every length, truncated, at offsets
    units_ok = b'abcdefghijklmnopqrstuvwxyzABCDEFGHIJKLMNOPQRSTUVWXYZ0123456789 -./()%'
    for n in range(256):
        for name in ('IDENT', 'UNITS'):
            body = bytes(rng.choice(units_ok) for _ in range(n)) if (name == 'UNITS' and rng.random() < 0.7) else _rb(rng, n)
            add(name, bytes([n]) + body, _rb(rng, rng.choice([0, 3])))
            if n:
                cut = rng.randrange(0, n)
                cs.append(('rp', name, bytes([n]) + body[:cut], 0))
        b = bytes([n]) + _rb(rng, n)
        cs.append(('len', 'IDENT', b, 0)); cs.append(('len', 'IDENT', b[:1 + n // 2], 0))
        cs.append(('len', 'IDENT', _rb(rng, 2) + b, 2)); cs.append(('len', 'IDENT', b, rng.choice([-1, len(b), len(b) + 3])))
    cs.append(('rp', 'IDENT', b'', 0)); cs.append(('rp', 'UNITS', b'', 0))
    # ASCII: lengths over the three UVARI forms
    for n in list(range(0, 140)) + [0x3FFF, 0x4000, 0x4001, 20000] + [rng.randrange(128, 3000) for _ in range(ctx.n(10, 100))]:
        for force in (None, 2, 4):
            if force and n >= (1 << (8 * force - 2)):
                continue
            if n > 300 and force != None and rng.random() < 0.7:
                continue
            body = _rb(rng, n) if n < 300 else bytes(n)
            add('ASCII', _uvari_enc(n, force) + body, _rb(rng, rng.choice([0, 2])))
            cs.append(('rp', 'ASCII', (_uvari_enc(n, force) + body)[:rng.randrange(0, len(body) + 1)], 0))
    # OBNAME / OBJREF: structured, truncated, offset, helper lengths
    def obname():
        o = rng.choice([rng.randrange(0, 128), rng.randrange(128, 0x4000), rng.randrange(0x4000, 1 << 30), 0, 127, 128, 0x3FFF, 0x4000])
        force = rng.choice([None, None, 2, 4])
        if force and o >= (1 << (8 * force - 2)): force = None
        n = rng.choice([0, 1, 2, 5, 17, 255, rng.randrange(0, 256)])
        return _uvari_enc(o, force) + bytes([rng.getrandbits(8), n]) + _rb(rng, n)
    for _ in range(ctx.n(6000, 120000)):
        b = obname()
        p = pre()
        t = _rb(rng, rng.choice([0, 0, 1, 4]))
        cs.append(('rp', 'OBNAME', p + b + t, len(p)))
        cs.append(('len', 'OBNAME', p + b + t, len(p)))
        cut = rng.randrange(0, len(b))
        cs.append(('rp', 'OBNAME', p + b[:cut], len(p)))
        cs.append(('len', 'OBNAME', p + b[:cut], len(p)))
        if rng.random() < 0.2:
            cs.append(('len', 'OBNAME', p + b, rng.choice([-1, -2, len(p) + len(b), len(p) + len(b) + 2, len(p) + 1])))
        n = rng.choice([0, 1, 7, 255, rng.randrange(0, 256)])
        ob = bytes([n]) + _rb(rng, n) + b
        cs.append(('rp', 'OBJREF', p + ob + t, len(p)))
        cs.append(('rp', 'OBJREF', p + ob[:rng.randrange(0, len(ob))], len(p)))
    for _ in range(ctx.n(3000, 60000)):     # unstructured bytes
        b = _rb(rng, rng.randrange(0, 24))
        i = rng.randrange(0, len(b) + 2)
        name = rng.choice(['OBNAME', 'OBJREF', 'ASCII', 'IDENT', 'UVARI', 'UNITS', 'DTIME'])
        cs.append(('rp', name, b, i))
        if name in ('OBNAME', 'IDENT', 'UVARI'):
            cs.append(('len', name, b, i))
    # DTIME
    for tm in range(256):
        add('DTIME', bytes([rng.getrandbits(8), tm]) + _rb(rng, 6))
    for _ in range(ctx.n(3000, 60000)):
        add('DTIME', _rb(rng, 8), _rb(rng, rng.choice([0, 1])))
    for n in range(8):
        cs.append(('rp', 'DTIME', _rb(rng, n), 0))
    # the IBM encoder ReadBIT.float_to_bytes: every binade it can represent (and beyond) x both signs x mantissas,
    # short runs of neighbouring values, zeros, subnormals, extremes
    bm52 = [0, 1, (1 << 52) - 1, 1 << 51, (1 << 28) - 1, 1 << 28, (1 << 29) + 1, 0x5555555555555, ((1 << 24) - 1) << 28]
    kf = ctx.n(6, 60)
    for e in list(range(1023 - 280, 1023 + 270)) + [0, 1, 2, 2046, 1023 - 400, 1023 + 400]:
        for m in bm52 + [rng.getrandbits(52) for _ in range(kf)]:
            for sgn in (0, 1):
                cs.append(('f2b', '', ((sgn << 63) | (e << 52) | m).to_bytes(8, 'big'), 0))
    for x in (0.0, -0.0, 1.0, -1.0, 153.0, -118.625, 0.1, 1 / 3, 16.0, 15.999999, 5e-324, 1.7e308, 7.2e75, 5.4e-79):
        cs.append(('f2b', '', struct.pack('>d', x), 0))
    # (2) helpers and readers at non-zero indices inside buffers longer than needed: every helper, structured values
    for _ in range(ctx.n(2500, 40000)):
        p = _rb(rng, rng.randrange(1, 10))
        t = _rb(rng, rng.randrange(0, 6))
        v = rng.choice([rng.randrange(0, 128), rng.randrange(128, 0x4000), rng.randrange(0x4000, 1 << 30)])
        uv = _uvari_enc(v, rng.choice([None, None, 2, 4]) if v < 0x4000 and rng.random() < 0.3 and v < 64 else None)
        n = rng.choice([0, 1, 3, 17, rng.randrange(0, 256)])
        ident = bytes([n]) + _rb(rng, n)
        obn = uv + bytes([rng.getrandbits(8)]) + ident
        for name, body in (('UVARI', uv), ('ORIGIN', uv), ('IDENT', ident), ('OBNAME', obn)):
            cs.append(('len', name, p + body + t, len(p)))
            cs.append(('rp', name, p + body + t, len(p)))
            if rng.random() < 0.25:       # the helper must not look before the index nor depend on the tail
                cs.append(('len', name, _rb(rng, len(p)) + body + _rb(rng, len(t) + 2), len(p)))
                cs.append(('len', name, p + body[:rng.randrange(0, len(body))], len(p)))
        for name, body in (('UNITS', ident), ('ASCII', uv[:0] + _uvari_enc(n) + ident[1:]), ('OBJREF', ident + obn),
                           ('DTIME', _rb(rng, 8)), ('FSINGL', _rb(rng, 4)), ('FDOUBL', _rb(rng, 8)), ('SLONG', _rb(rng, 4))):
            if rng.random() < 0.3:
                cs.append(('rp', name, p + body + t, len(p)))
    # truncated fixed-length codes
    for name, n in [('FSINGL', 4), ('FDOUBL', 8), ('ISINGL', 4), ('VSINGL', 4), ('SLONG', 4), ('ULONG', 4), ('SNORM', 2),
                    ('UNORM', 2), ('SSHORT', 1), ('USHORT', 1)]:
        for m in range(n):
            cs.append(('rp', name, _rb(rng, m), 0)); cs.append(('rp', name, _rb(rng, m + 3), 3))
    return cs


def _run_rp(ctx, pool):
    cs = _rp_cases(ctx)
    jobs = [cs[i:i + 4096] for i in range(0, len(cs), 4096)]
    lines, meta = [], []
    for res, fails in pool.imap(_rp_chunk, jobs, 1):
        _report(ctx, fails)
        ctx.count('oracle_cases', len(res))
        for kind, name, b, idx, line, got in res:
            lines.append(line); meta.append((kind, name, b, idx, got))
    model = ctx.lean(lines)
    for (kind, name, b, idx, got), m in zip(meta, model):
        stream = {'rp': 'rp66.' + name, 'len': 'rp66.len.' + name, 'ibm': 'bit.bytes_to_float', 'f2b': 'bit.float_to_bytes'}[kind]
        ctx.corr(stream, {'op': kind, 'name': name, 'hex': b.hex(), 'idx': idx}, got, m)
        if not got.startswith('err') and len(b) <= 12:
            ctx.nontriv((stream, b, idx))
    ctx.count('rp66_cases', len(cs))
    # fixed length table
    from_impl = []
    for r in range(0, 40):
        from_impl.append(_call(_M['rp'].rep_code_fixed_length, r).replace('i ', '').replace('err RepCode', 'N'))
    for r, m in zip(range(40), ctx.lean([f'fixed {r}' for r in range(40)])):
        ctx.corr('rp66.fixed_length', {'op': 'fixed', 'rc': r}, from_impl[r], m)
    # helper "fixed length = bytes consumed" for the fixed codes that are implemented
    rp = _M['rp']
    for code, fn in sorted(rp.REP_CODE_MAP.items()):
        if rp.is_fixed_length(code):
            ctx.count('oracle_cases')
            ld = _M['LD'](bytes(range(1, 40)))
            rp.code_read(code, ld)
            if ld.index != rp.rep_code_fixed_length(code):
                ctx.fail({'op': 'fixedlen', 'code': code}, f'rep code {code} consumed {ld.index} bytes, fixed length says {rp.rep_code_fixed_length(code)}')
    ctx.sample({'op': 'rp', 'name': 'OBNAME', 'hex': '8001020341424344', 'impl': _rp_impl('OBNAME', bytes.fromhex('8001020341424344'), 0)[0]})


# ------------------------------------------------------------------ run / replay / search
def run(ctx):
    M = _setup(ctx)
    ctx.note(f'native extensions rebuilt from {M["src_root"]} in {M["build_s"]} s; RepCode.from68 is '
             f'{"cpRepCode" if M["rc"].from68 is M["cp"].from68 else "NOT cpRepCode"}.from68, RepCode.from49 is '
             f'{"cRepCode" if M["rc"].from49 is M["c"].from49 else "NOT cRepCode"}.from49')
    for name, mod, fns in (('cRepCode', M['c'], ['from49', 'from50', 'from56', 'from66', 'from68', 'from70', 'from73', 'from77', 'from79', 'to68']),
                           ('cpRepCode', M['cp'], ['from68', 'to68'])):
        missing = [f for f in fns if not hasattr(mod, f)]
        if missing:
            import core
            raise core.InfraError(f'{name} built from the current sources lacks {missing}')
    with _pool() as pool:
        _run_lis(ctx, pool)
        _run_to68(ctx, pool)
        full = ctx.tier == 'thorough' and os.environ.get('C07_FULL', '1') == '1'
        _run_rp(ctx, pool)
        n, full = _run_sweep68(ctx, pool, 22, full)
        pool.terminate()
    ctx.extra['exhaustive'] = True
    ctx.extra['exhaustive_scope'] = (
        'every word of the 8-bit codes (LIS 56, 66, 77; RP66V1 SSHORT, USHORT, STATUS) and 16-bit codes (LIS 49, 79; RP66V1 '
        'SNORM, UNORM), every 1- and 2-byte UVARI form, every IDENT length, in every implementation path'
        + ('; code 68: all 2^32 words through from68 of pRepCode, cRepCode and cpRepCode and through to68(from68(w)) of '
           'cRepCode and cpRepCode (pRepCode.to68 on every 16th word)' if full else
           '; the 32-bit codes and the doubles are stratified samples (NOT exhaustive in this tier)'))
    ctx.extra['code68_sweep_exhaustive'] = bool(full)


def search(ctx):
    """extra oracle budget when a proof / the correspondence broke without a failing input: a larger code-68 sweep"""
    _setup(ctx)
    with _pool() as pool:
        _run_sweep68(ctx, pool, 25, False)


def replay(ctx, rec):
    case = rec.get('case') or {}
    op = case.get('op')
    if op not in ('lis', 'to68', 'rt68', 'rp', 'len', 'ibm', 'f2b', 'hold', 'fixedlen'):
        return True, 'nothing to replay (no concrete failing input was recorded)'
    M = _setup(ctx)
    R = M['R']
    if op == 'hold':
        # a failure that needs the later calls: re-run the recorded short sequence, holding all results
        if case['fn'] == 'to68':
            res, fails = _to68_chunk([float.fromhex(h) for h in case['items']])
        else:
            res, fails = _rp_chunk([(k, n, bytes.fromhex(h), i) for k, n, h, i in case['items']])
        return (not fails), (fails[0][1] if fails else f'{len(case["items"])} held results are all right')
    if op == 'lis':
        rc, u, path, arg = case['rc'], case['u'], case['path'], case['arg']
        if rc == 68 and path in ('p', 'c', 'cp'):
            got = _call(M[path].from68, arg)
        else:
            got = _lis_impl(rc, path, arg)
        exp = _lis_expected(rc, u)
        bad = _lis_oracle(rc, u, path, arg, got, exp)
        return (bad is None), (bad[0] if bad else f'got {got} as the standard says')
    if op == 'to68':
        x = float.fromhex(case['x'])
        res, fails = _to68_chunk([x])
        if fails:
            return False, fails[0][1]
        ws = {n: M[n].to68(x) for n in ('p', 'c', 'cp')}
        msgs = [f'{n}: ' + b[0] for n, w in ws.items() for b in [_to68_check(x, w)] if b]
        for n, w in ws.items():
            if isinstance(w, int) and 0 <= w < (1 << 32) and (not _canon68(w) or M[n].to68(M[n].from68(w)) != w):
                msgs.append(f'{n}: to68({x.hex()}) = 0x{w:08X} is not a canonical fixed point of to68(from68(.))')
        if len(set(ws.values())) != 1:
            msgs.append(f'implementations differ: {ws}')
        return (not msgs), ('; '.join(msgs) or f'to68({x.hex()}) = {ws}')
    if op == 'rt68':
        u = case['u']
        msgs = []
        for n in ('p', 'c', 'cp'):
            w2 = M[n].to68(M[n].from68(u))
            if R.lis68(w2) != R.lis68(u):
                msgs.append(f'{n}: to68(from68(0x{u:08X})) = 0x{w2:08X} decodes to a different value')
            import numpy as np
            canon = bool(_np_canon68(np.array([u], dtype=np.uint64))[0])
            if (w2 == u) != canon:
                msgs.append(f'{n}: to68(from68(0x{u:08X})) = 0x{w2:08X}; the word is {"canonical" if canon else "not canonical"}')
        return (not msgs), ('; '.join(msgs) or 'round trip gives an equivalent word')
    if op == 'fixedlen':
        return True, 'see run'
    b = bytes.fromhex(case['hex'])
    res, fails = _rp_chunk([(op, case.get('name', ''), b, case.get('idx', 0))])
    return (not fails), (fails[0][1] if fails else res[0][5])
