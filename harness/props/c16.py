"""C16 — Run-length indexes reproduce the positions they encode (common/Rle.py, LIS/core/Rle.py, RP66V1/IndexXML.py)."""
import bisect, itertools, sys

CLAIM = {
 'text': ('Lean 4 theorems, for every integer list (no bound, by induction): values_roundtrip, items_expand (the '
          'datum/stride/repeat triples written by RP66V1 IndexXML expand to the list), value_index (Python indexing '
          'with positive and negative indices incl. IndexError), num_first_last, largest_le_spec (any non-strictly '
          'ascending list: greatest stored value <= query, ValueError below the first); for the LIS frame index '
          'tell_for_frame / total_frames (any record positions, frame counts >= 1). They are about a model of '
          'RLEItem/RLE/RLEItemType01/RLEType01 that is tied to the source on every run by an exhaustive small-scope + '
          'random correspondence with the real classes; the oracle checks the same statements on the real classes '
          'against the plain Python list that was added. Proof is the right level: unbounded sequences, pure integer '
          'arithmetic. Floats: theorem float_values_close_partial over Rat with isclose as a parameter; the float '
          'rounding itself is exercised, not proved.'),
 'note': ('Trusted: Lean kernel; model<->code correspondence on the cases of the run. Float arithmetic is not modelled '
          '(Rat abstraction + oracle with an explicit rounding bound). RLE(theFunc) with a conversion function is '
          'exercised by the oracle only. NaN/inf and mixed int/float sequences are not generated.'),
 'technique': 'Lean 4 proof (induction over the added list, omega/nlinarith) + model-implementation correspondence',
 'design_ref': 'DESIGN.md section 6 C16',
}

RULE = ('integer lists: every list up to a small length over a small alphabet (exhaustive) with every index in '
        '-(n+2)..n+1 and every query min-2..max+2, plus random long lists built from runs (positive/zero/negative '
        'strides, repeats, near-miss continuations, bignums), sorted variants with queries around every element; '
        'float lists from noisy/exact progressions; LIS record tables from runs of regular positions and equal frame '
        'counts with every frame number; inputs outside the quantifier (largest_le of unsorted lists, frame counts < 1, '
        'positions not increasing) are compared with the model informationally only. Non-trivial = the encoding has >= 2 runs and at least one run with '
        'repeat >= 1 (RLE) / >= 2 runs or a run with repeat >= 1 and >= 2 frames per record (RLEType01); '
        'distinct by the input sequence.')
ASSUMPTIONS = ['the plain Python list of added values (and bisect on it) is the reference for position/iteration/largest_le',
               'float sequences are finite floats (no NaN/inf) and not mixed with ints',
               'RLE conversion function (theFunc) is None in the model (production callers never pass one)']
TRUSTED = ['modelled, not verified: Python int arithmetic, // and % (Int.fdiv / Int.fmod), list append/indexing',
           'float rounding in RLEItem.add/value/values is not modelled: Rat abstraction with isclose as a parameter, compared '
           'item for item with the code on exactly representable floats (multiples of 1/1024 below 2**43, incl. values '
           'near 2**42 where isclose accepts unequal values); general floats are exercised by the oracle with the bound '
           '|value(i) - added| <= 4*eps*max|x| and |values()[k] - added| <= (2k+4)*eps*max|x|']

EPS = sys.float_info.epsilon


def _impl():
    from TotalDepth.common import Rle
    from TotalDepth.LIS.core import Rle as LisRle
    return Rle, LisRle


def _exc(f, *a):
    try:
        return f(*a)
    except IndexError:
        return 'I'
    except ValueError:
        return 'V'
    except ZeroDivisionError:
        return 'Z'
    except AssertionError:
        return 'A'


def soft(ctx, key, impl, model):
    """comparison outside the property's quantifier (unsorted largest_le, frame counts < 1, positions not increasing):
    counted and noted, never a disagreement — a rewrite that only changes behaviour there must not raise an alarm."""
    ctx.count(key + '_compared')
    if impl != model:
        ctx.count(key + '_differences')


def _csv(xs):
    return ','.join(map(str, xs)) or '-'


def _o(v):
    return 'N' if v is None else str(v)


# ------------------------------------------------------------------ implementation adapters (canonical strings)

def impl_rle(R, xs, idx, qs):
    try:
        rle = R.create_rle(xs)
        items = ';'.join(f'{it.datum}:{it.stride}:{it.repeat}' for it in rle.rle_items) or '-'
        at = ','.join(str(_exc(rle.value, i)) for i in idx) or '-'
        le = ','.join(str(_exc(rle.largest_le, q)) for q in qs) or '-'
        return (f'items={items} n={rle.num_values()} first={_o(rle.first())} last={_o(rle.last())} '
                f'vals={_csv(list(rle.values()))} at={at} le={le}')
    except Exception as e:   # anything unexpected is a correspondence difference, never a crash of the check
        return f'exception {type(e).__name__}'


def _units(v):
    from fractions import Fraction
    f = Fraction(v) * 1024
    return str(f.numerator) if f.denominator == 1 else f'{f.numerator}/{f.denominator}'


def impl_frle(R, ns):
    """floats that are integer multiples of 1/1024 below 2**43: every float operation of RLEItem is exact on them."""
    try:
        rle = R.create_rle([n / 1024.0 for n in ns])
        items = ';'.join(f'{_units(it.datum)}:{_units(it.stride)}:{it.repeat}' for it in rle.rle_items) or '-'
        return f'items={items} n={rle.num_values()} vals={",".join(_units(v) for v in rle.values()) or "-"}'
    except Exception as e:
        return f'exception {type(e).__name__}'


def gen_units(rng, target):
    """integers n (floats n/1024): small ones, and ones near 2**52..2**53 where isclose accepts differences of 1-2 units."""
    big = rng.random() < 0.6
    cur = rng.randint(2**52, 2**53 - 2**24) * rng.choice([1, 1, -1]) if big else rng.randint(-2**30, 2**30)
    ns = []
    while len(ns) < target:
        ln = rng.choice([1, 2, 3, 4, 6, rng.randint(1, 30)])
        st = rng.choice([0, 1, -1, 2, 512, 1024, -1536, rng.randint(-5000, 5000)])
        cur += rng.choice([0, 0, st, rng.randint(-3, 3), rng.randint(-10**6, 10**6)])
        for k in range(ln):
            ns.append(cur + k * st + (rng.choice([0, 0, 0, 1, -1, 2, -2, 3]) if k >= 2 else 0))
        cur = ns[-1]
    return ns[:target]


def impl_t01(L, recs, frames):
    try:
        r = L.RLEType01('FEET')
        for p, n, x in recs:
            r.add(p, n, x)
        items = ';'.join(
            f'{it.datum}:{it.stride}:{it.repeat}:{it.numFrames}:' + '+'.join(f'{x.datum}/{x.stride}/{x.repeat}' for x in it._rleXaxis.rle_items)
            for it in r.rle_items) or '-'
        def one(f):
            v = _exc(r.tellLrForFrame, f)
            return v if isinstance(v, str) else f'{v[0]}:{v[1]}'
        tl = ','.join(one(f) for f in frames) or '-'
        return f'items={items} total={r.totalFrames()} tell={tl}'
    except Exception as e:
        return f'exception {type(e).__name__}'


# ------------------------------------------------------------------ property oracles (implementation alone)

def is_sorted(xs):
    return all(a <= b for a, b in zip(xs, xs[1:]))


def default_queries(xs):
    return sorted({x + d for x in xs for d in (-1, 0, 1)}) if xs else [0]


def oracle_rle(R, xs, idx=None, qs=None, fn=None):
    """None when the property holds for this list on the implementation, else a description of the failure."""
    want_list = xs if fn is None else [fn(x) for x in xs]
    n = len(xs)
    try:
        rle = R.create_rle(xs, fn) if fn is not None else R.create_rle(xs)
        vals = list(rle.values())
        if vals != want_list:
            return f'values() gives {vals[:10]}.. (len {len(vals)}), added {want_list[:10]}.. (len {n})'
        if rle.num_values() != n:
            return f'num_values() = {rle.num_values()}, added {n}'
        if sum(len(it) for it in rle.rle_items) != n:
            return 'sum of len(item) differs from the number of values added'
        first, last = rle.first(), rle.last()
        if first != (want_list[0] if n else None) or last != (want_list[-1] if n else None):
            return f'first/last = {first}/{last}, added first/last = {want_list[0] if n else None}/{want_list[-1] if n else None}'
        exp = [it.datum + it.stride * k for it in rle.rle_items for k in range(it.repeat + 1)]
        if exp != want_list:
            return 'datum + k*stride over the stored runs does not reproduce the list (what IndexXML writes)'
        for i in (range(-n - 2, n + 2) if idx is None else idx):
            want = want_list[i] if -n <= i < n else 'I'
            got = _exc(rle.value, i)
            if got != want or type(got) is not type(want):
                return f'value({i}) = {got}, list[{i}] = {want}'
        if fn is None and is_sorted(xs):
            for q in (default_queries(xs) if qs is None else qs):
                k = bisect.bisect_right(xs, q)
                want = xs[k - 1] if k else 'V'
                got = _exc(rle.largest_le, q)
                if got != want or type(got) is not type(want):
                    return f'largest_le({q}) = {got}, greatest stored <= {q} is {want}'
    except Exception as e:
        return f'unexpected {type(e).__name__}: {e}'
    return None


def oracle_float(R, xs):
    """floats: count, first exact; every decoded value (by position and by iteration) within rounding of the added one."""
    n = len(xs)
    try:
        rle = R.create_rle(xs)
        if rle.num_values() != n:
            return f'num_values() = {rle.num_values()}, added {n}'
        vals = list(rle.values())
        if len(vals) != n:
            return f'values() yields {len(vals)} values, added {n}'
        if n and rle.first() != xs[0]:
            return f'first() = {rle.first()!r}, added {xs[0]!r}'
        m = max((abs(x) for x in xs), default=0.0)
        for i, x in enumerate(xs):
            tol_pos = 4 * EPS * m
            tol_it = (2 * i + 4) * EPS * m
            for j in (i, i - n):
                got = rle.value(j)
                if not abs(got - x) <= tol_pos:
                    return f'value({j}) = {got!r}, added {x!r} (tolerance {tol_pos!r})'
            if not abs(vals[i] - x) <= tol_it:
                return f'values()[{i}] = {vals[i]!r}, added {x!r} (tolerance {tol_it!r})'
        if n and not abs(rle.last() - xs[-1]) <= 4 * EPS * m:
            return f'last() = {rle.last()!r}, added {xs[-1]!r}'
        for i in (n, n + 1, -n - 1):
            if _exc(rle.value, i) != 'I':
                return f'value({i}) does not raise IndexError for {n} values'
    except Exception as e:
        return f'unexpected {type(e).__name__}: {e}'
    return None


def oracle_t01(L, recs, frames=None):
    """recs: (position, frames>=1, x). Frame k -> (position of the record containing k, offset inside it)."""
    try:
        r = L.RLEType01('FEET')
        for p, n, x in recs:
            r.add(p, n, x)
        total = sum(n for _, n, _ in recs)
        if r.totalFrames() != total:
            return f'totalFrames() = {r.totalFrames()}, sum of frame counts = {total}'
        starts = list(itertools.accumulate([0] + [n for _, n, _ in recs[:-1]])) if recs else []
        for f in (range(-2, total + 3) if frames is None else frames):
            if 0 <= f < total:
                j = bisect.bisect_right(starts, f) - 1
                want = (recs[j][0], f - starts[j])
            else:
                want = 'I'
            got = _exc(r.tellLrForFrame, f)
            if got != want:
                return f'tellLrForFrame({f}) = {got}, expected {want}'
        back = [v for it in r.rle_items for v in it.values()]
        if [(a, b) for a, b, _ in back] != [(p, n) for p, n, _ in recs]:
            return 'iterating the runs does not give back the (position, frames) pairs added'
        if all(isinstance(x, int) for _, _, x in recs) and [c for _, _, c in back] != [x for _, _, x in recs]:
            return 'iterating the runs does not give back the integer X values added'
    except Exception as e:
        return f'unexpected {type(e).__name__}: {e}'
    return None


def oracle_history_t01(L, recs):
    """Interleaved history: after EVERY add, the frame index answers from the records added so far (no stale state)."""
    try:
        r = L.RLEType01('FEET')
        total, starts = 0, []
        for k, (p, n, x) in enumerate(recs):
            r.add(p, n, x)
            starts.append(total); total += n
            if r.totalFrames() != total:
                return f'after add #{k + 1}: totalFrames() = {r.totalFrames()}, sum of frame counts so far = {total}'
            for f in sorted({0, total - 1, total // 2, starts[-1], total}):
                if 0 <= f < total:
                    j = bisect.bisect_right(starts, f) - 1
                    want = (recs[j][0], f - starts[j])
                else:
                    want = 'I'
                got = _exc(r.tellLrForFrame, f)
                if got != want:
                    return f'after add #{k + 1}: tellLrForFrame({f}) = {got}, expected {want}'
    except Exception as e:
        return f'unexpected {type(e).__name__}: {e}'
    return None


def oracle_history_rle(R, xs):
    """Interleaved history: after EVERY add, count / first / last / indexing / iteration answer from the prefix added so far."""
    try:
        rle = R.RLE()
        for k, v in enumerate(xs):
            rle.add(v)
            pre = xs[:k + 1]
            if rle.num_values() != k + 1:
                return f'after add #{k + 1}: num_values() = {rle.num_values()}'
            if rle.first() != pre[0] or rle.last() != pre[-1]:
                return f'after add #{k + 1}: first/last = {rle.first()}/{rle.last()}, expected {pre[0]}/{pre[-1]}'
            for i in {0, k, -1, -(k + 1), k // 2}:
                if rle.value(i) != pre[i]:
                    return f'after add #{k + 1}: value({i}) = {rle.value(i)}, expected {pre[i]}'
            if k % 3 == 0 and list(rle.values()) != pre:
                return f'after add #{k + 1}: values() differs from the prefix added so far'
            if is_sorted(pre):
                for q in (pre[-1], pre[0], pre[k // 2] + 1):
                    j = bisect.bisect_right(pre, q)
                    if j and _exc(rle.largest_le, q) != pre[j - 1]:
                        return f'after add #{k + 1}: largest_le({q}) = {_exc(rle.largest_le, q)}, expected {pre[j - 1]}'
    except Exception as e:
        return f'unexpected {type(e).__name__}: {e}'
    return None


def shrink(xs, fails):
    """greedy delta-debugging of a failing list (only ever runs after a failure)."""
    xs = list(xs)
    chunk = max(1, len(xs) // 2)
    budget = 400
    while chunk >= 1 and budget > 0:
        i, changed = 0, False
        while i < len(xs) and budget > 0:
            cand = xs[:i] + xs[i + chunk:]
            budget -= 1
            if fails(cand):
                xs, changed = cand, True
            else:
                i += chunk
        if not changed or chunk > len(xs):
            chunk //= 2
    return xs


def _jfloat(xs):
    return [x.hex() for x in xs]


def report_rle(ctx, R, xs, idx, qs, detail):
    small = shrink(xs, lambda c: oracle_rle(R, c) is not None)
    d2 = oracle_rle(R, small)
    if d2 is not None:
        ctx.fail({'op': 'rle', 'xs': small}, d2)
    else:
        ctx.fail({'op': 'rle', 'xs': list(xs), 'idx': list(idx), 'qs': list(qs)}, detail)


# ------------------------------------------------------------------ generators

def gen_runs(rng, target, sorted_only=False, big=False):
    """integer list built from runs: arithmetic runs, repeats, singletons, near-miss continuations."""
    xs = []
    cur = rng.randint(-50, 50) if not big else rng.randint(-10**rng.randint(1, 30), 10**rng.randint(1, 30))
    while len(xs) < target:
        kind = rng.random()
        ln = rng.choice([1, 1, 2, 2, 3, 4, 5, 8, rng.randint(1, 40)])
        if sorted_only:
            st = rng.choice([0, 0, 1, 1, 2, 3, 7, 48, rng.randint(0, 1000)])
        else:
            st = rng.choice([0, 0, 1, -1, 2, -2, 3, -7, 48, rng.randint(-1000, 1000)])
        if big and rng.random() < 0.3:
            st = st * 10**rng.randint(5, 25)
        if kind < 0.15 and xs:
            # continue the previous progression exactly / off by one
            d = xs[-1] - xs[-2] if len(xs) > 1 else st
            d = abs(d) if sorted_only else d
            nxt = xs[-1] + d + rng.choice([0, 0, 1] if sorted_only else [0, 0, 1, -1])
            xs.append(max(nxt, xs[-1]) if sorted_only else nxt)
            cur = xs[-1]
            continue
        jump = rng.choice([0, 1, 2, 5, rng.randint(0, 300)])
        cur = cur + (jump if sorted_only else rng.choice([-1, 1]) * jump)
        for k in range(ln):
            xs.append(cur + k * st)
        cur = xs[-1]
    return xs[:target]


def gen_floats(rng, target):
    xs = []
    cur = rng.choice([0.0, 1.0, -3.5, 1000.25, rng.uniform(-1e4, 1e4), rng.uniform(-1e-3, 1e-3)])
    while len(xs) < target:
        ln = rng.choice([1, 2, 3, 5, 10, rng.randint(1, 60)])
        st = rng.choice([0.0, 0.5, -0.5, 0.1, -0.1, 0.25, 1.0 / 3, 0.1524, -0.1524, 75197.0, rng.uniform(-10, 10), rng.uniform(-1e-6, 1e-6)])
        mode = rng.random()
        base = cur + rng.choice([0.0, st, rng.uniform(-5, 5)])
        for k in range(ln):
            if mode < 0.5:
                v = base + k * st                     # the form the decoder uses
            elif mode < 0.8:
                v = (xs[-1] + st) if (k and xs) else base   # accumulated, as a producer would
            else:
                v = base + k * st + rng.choice([0.0, 1e-9, -1e-12, 1e-3])
            xs.append(v)
        cur = xs[-1]
    return xs[:target]


def gen_recs(rng, target, xfloat=False, wild=False):
    """(position, frames, x) triples: strictly increasing positions in regular runs, equal counts in runs."""
    recs = []
    pos = rng.randint(0, 200)
    x = rng.randint(-100, 100)
    while len(recs) < target:
        ln = rng.choice([1, 1, 2, 3, 4, 6, rng.randint(1, 25)])
        st = rng.choice([1, 2, 48, 1024, rng.randint(1, 5000)])
        nf = rng.choice([1, 1, 2, 3, 5, 8, rng.randint(1, 60)])
        xs = rng.choice([0, 1, -1, 5, -60, rng.randint(-100, 100)])
        for k in range(ln):
            n = nf
            if rng.random() < 0.08:
                n = rng.randint(1, 9)               # e.g. a short last record
            if wild and rng.random() < 0.15:
                n = rng.choice([0, -1, -3, 0, 2])
            p = pos
            if wild and rng.random() < 0.2:
                p = pos - rng.randint(0, 100)        # positions not increasing
            recs.append((p, n, (x * 0.5 if xfloat else x)))
            pos += st
            x += xs * n
        pos += rng.choice([0, 1, 7, rng.randint(0, 100000)])
    return recs[:target]


def in_quantifier(recs):
    return all(n >= 1 for _, n, _ in recs) and all(a[0] < b[0] for a, b in zip(recs, recs[1:]))


def _recs_s(recs):
    return ';'.join(f'{p}:{n}:{x}' for p, n, x in recs) or '-'


# ------------------------------------------------------------------ run

def run(ctx):
    R, L = _impl()
    rng = ctx.rng
    # ---------------- integer lists: exhaustive small scope
    maxlen = ctx.n(5, 6)
    alpha = list(range(-3, 4))
    cases = []
    for n in range(maxlen + 1):
        for xs in itertools.product(alpha, repeat=n):
            xs = list(xs)
            cases.append((xs, list(range(-n - 2, n + 2)), list(range(-5, 6))))
    n_exh = len(cases)
    # ---------------- random long lists
    for _ in range(ctx.n(1500, 20000)):
        mode = rng.random()
        target = rng.choice([rng.randint(1, 12), rng.randint(12, 60), rng.randint(60, 300)])
        xs = gen_runs(rng, target, sorted_only=mode < 0.45, big=rng.random() < 0.12)
        n = len(xs)
        idx = list(range(-n - 2, n + 2)) if n <= 40 else sorted({rng.randint(-n - 2, n + 1) for _ in range(40)} | {0, -1, n - 1, -n, n, -n - 1})
        if is_sorted(xs):
            qs = default_queries(xs)
            if len(qs) > 60:
                qs = sorted(set(rng.sample(qs, 50)) | {xs[0] - 1, xs[0], xs[-1], xs[-1] + 1})
        else:
            qs = [rng.choice(xs) + rng.randint(-2, 2) for _ in range(6)]
        cases.append((xs, idx, qs))
    for _ in range(ctx.n(20, 200)):    # a few very long ones
        xs = gen_runs(rng, rng.randint(1000, 5000), sorted_only=rng.random() < 0.5)
        n = len(xs)
        idx = sorted({rng.randint(-n - 2, n + 1) for _ in range(60)} | {0, -1, n - 1, -n, n, -n - 1})
        qs = [rng.choice(xs) + rng.randint(-1, 1) for _ in range(30)] + [min(xs) - 1, max(xs) + 1]
        cases.append((xs, idx, qs))
    model = ctx.lean([f'rle {_csv(xs)} {_csv(idx)} {_csv(qs)}' for xs, idx, qs in cases])
    for k, ((xs, idx, qs), m) in enumerate(zip(cases, model)):
        out = impl_rle(R, xs, idx, qs)
        if is_sorted(xs):
            ctx.corr('rle', {'op': 'rle', 'xs': xs if len(xs) <= 64 else xs[:64] + ['...'], 'idx': idx[:16], 'qs': qs[:16]}, out, m)
        else:   # largest_le of a sequence that is not ascending is outside the property: compared softly
            ctx.corr('rle', {'op': 'rle', 'xs': xs if len(xs) <= 64 else xs[:64] + ['...'], 'idx': idx[:16]},
                     out.rsplit(' le=', 1)[0], m.rsplit(' le=', 1)[0])
            soft(ctx, 'largest_le_on_unsorted', out, m)
        ctx.count('oracle_cases')
        srt = is_sorted(xs)
        bad = oracle_rle(R, xs, idx if k >= n_exh else None, (qs if srt else None) if k >= n_exh else (list(range(-5, 6)) if srt else None))
        if bad is not None:
            report_rle(ctx, R, xs, idx, qs, bad)
        else:
            nruns = out.count(';') + 1
            if nruns >= 2 and nruns < len(xs):
                ctx.nontriv(('rle', tuple(xs)) if len(xs) <= 12 else ('rle', hash(tuple(xs))))
            if srt and len(xs) >= 2:
                ctx.count('sorted_lists')
            if len(set(xs)) < len(xs):
                ctx.count('lists_with_repeated_values')
    ctx.extra['exhaustive'] = True
    ctx.extra['exhaustive_scope'] = f'all {n_exh} integer lists of length <= {maxlen} over -3..3, every index -(n+2)..n+1, every query -5..5'
    ctx.sample({'op': 'rle', 'xs': cases[n_exh + 1][0][:40], 'model_reply': model[n_exh + 1][:300]})
    ctx.sample({'op': 'rle', 'xs': cases[n_exh // 2][0], 'model_reply': model[n_exh // 2]})
    ctx.count('rle_cases', len(cases))
    # ---------------- conversion function (oracle only)
    for _ in range(ctx.n(200, 2000)):
        xs = gen_runs(rng, rng.randint(0, 40))
        a, b = rng.randint(-3, 3), rng.randint(-5, 5)
        ctx.count('oracle_cases')
        bad = oracle_rle(R, xs, fn=lambda v, a=a, b=b: a * v + b)
        if bad is not None:
            ctx.fail({'op': 'rle_fn', 'xs': xs, 'a': a, 'b': b}, bad)
    # ---------------- floats (oracle only; the model is over Rat)
    nf_abs = 0
    for _ in range(ctx.n(1500, 20000)):
        xs = gen_floats(rng, rng.choice([rng.randint(0, 10), rng.randint(10, 120)]))
        ctx.count('oracle_cases'); ctx.count('float_cases')
        bad = oracle_float(R, xs)
        if bad is not None:
            small = shrink(xs, lambda c: oracle_float(R, c) is not None)
            ctx.fail({'op': 'float', 'xs': _jfloat(small)}, oracle_float(R, small) or bad)
        elif len(xs) >= 3:
            nr = len(R.create_rle(xs))
            if 2 <= nr < len(xs):
                ctx.nontriv(('float', hash(tuple(xs))))
            if nr < len(xs) - 1:
                nf_abs += 1
    ctx.count('float_lists_with_absorbed_values', nf_abs)
    # exactly representable floats: the Rat model with the exact isclose predicate must agree item for item
    fcases = [gen_units(rng, rng.choice([rng.randint(0, 8), rng.randint(8, 80)])) for _ in range(ctx.n(1500, 20000))]
    for k in range(0, 5):                      # exhaustive tiny: near 2**52 over offsets 0..3 (isclose tolerance = 1 unit)
        for offs in itertools.product(range(4), repeat=k):
            fcases.append([2**52 + 10 * j + o for j, o in enumerate(offs)])
    model = ctx.lean([f'frle {_csv(ns)}' for ns in fcases])
    nclose = 0
    for ns, m in zip(fcases, model):
        out = impl_frle(R, ns)
        ctx.corr('frle', {'op': 'frle', 'units_of_1_1024': ns[:40]}, out, m)
        if out.split(' vals=')[-1] != _csv(ns):
            nclose += 1                          # some value was absorbed through isclose without being equal
    ctx.count('frle_cases', len(fcases)); ctx.count('frle_cases_with_inexact_absorption', nclose)
    ctx.sample({'op': 'frle', 'units_of_1_1024': fcases[3][:12], 'model_reply': model[3][:300]})
    # ---------------- LIS RLEType01
    tcases = []
    for _ in range(ctx.n(1500, 20000)):
        recs = gen_recs(rng, rng.choice([rng.randint(0, 6), rng.randint(6, 40), rng.randint(40, 120)]))
        total = sum(n for _, n, _ in recs)
        frames = list(range(-2, total + 3)) if total <= 150 else sorted({rng.randint(0, total - 1) for _ in range(80)} | {-1, 0, total - 1, total, total + 1})
        tcases.append((recs, frames, True))
    for _ in range(ctx.n(400, 4000)):   # outside the hypotheses (counts <= 0, positions not increasing): correspondence only
        recs = gen_recs(rng, rng.randint(0, 25), wild=True)
        total = max(0, sum(n for _, n, _ in recs))
        tcases.append((recs, list(range(-2, min(total, 100) + 3)), in_quantifier(recs)))
    # exhaustive tiny tables: up to 4 records, positions from increments 1..2, counts 1..3
    n_t_exh = 0
    for k in range(0, ctx.n(4, 5)):
        for incs in itertools.product((1, 2), repeat=k):
            for cnts in itertools.product((1, 2, 3), repeat=k):
                pos, recs = 10, []
                for j in range(k):
                    recs.append((pos, cnts[j], 100 + 5 * j)); pos += incs[j]
                tcases.append((recs, list(range(-2, sum(cnts) + 3)), True)); n_t_exh += 1
    model = ctx.lean([f't01 {_recs_s(recs)} {_csv(frames)}' for recs, frames, _ in tcases])
    for (recs, frames, valid), m in zip(tcases, model):
        out = impl_t01(L, recs, frames)
        if not valid:   # counts < 1 or positions not strictly increasing: outside the property, compared softly
            soft(ctx, 't01_outside_hypotheses', out, m)
            continue
        ctx.corr('t01', {'op': 't01', 'recs': [list(r) for r in recs[:40]], 'frames': frames[:16]}, out, m)
        ctx.count('oracle_cases')
        bad = oracle_t01(L, recs, frames)
        if bad is not None:
            small = shrink(recs, lambda c: oracle_t01(L, c) is not None)
            ctx.fail({'op': 't01', 'recs': [list(r) for r in small]}, oracle_t01(L, small) or bad)
        else:
            nitems = out.split(' ')[0].count(';') + 1
            if recs and (nitems >= 2 or len(recs) >= 2) and any(n >= 2 for _, n, _ in recs):
                ctx.nontriv(('t01', hash(tuple(recs))))
    ctx.extra['exhaustive_scope'] += f'; all {n_t_exh} record tables with <= {ctx.n(3, 4)} records, position increments 1..2, counts 1..3, every frame -2..total+2'
    ctx.sample({'op': 't01', 'recs': [list(r) for r in tcases[5][0][:12]], 'model_reply': model[5][:300]})
    ctx.count('t01_cases', len(tcases))
    for key in ('largest_le_on_unsorted', 't01_outside_hypotheses'):
        ctx.note(f'{key}: {ctx.stats.get(key + "_compared", 0)} model/implementation comparisons outside the property\'s '
                 f'quantifier, {ctx.stats.get(key + "_differences", 0)} differences (informational, not part of the verdict)')
    # interleaved add/query histories (oracle only: every answer is a function of the prefix added so far)
    for _ in range(ctx.n(400, 4000)):
        recs = gen_recs(rng, rng.randint(1, 30))
        if not in_quantifier(recs):
            continue
        ctx.count('oracle_cases'); ctx.count('history_cases')
        bad = oracle_history_t01(L, recs)
        if bad is not None:
            small = shrink(recs, lambda c: bool(c) and in_quantifier(c) and oracle_history_t01(L, c) is not None)
            ctx.fail({'op': 't01_hist', 'recs': [list(r) for r in small]}, oracle_history_t01(L, small) or bad)
    for _ in range(ctx.n(400, 4000)):
        xs = gen_runs(rng, rng.randint(1, 40), sorted_only=rng.random() < 0.5)
        if not xs:
            continue
        ctx.count('oracle_cases'); ctx.count('history_cases')
        bad = oracle_history_rle(R, xs)
        if bad is not None:
            small = shrink(xs, lambda c: bool(c) and oracle_history_rle(R, c) is not None)
            ctx.fail({'op': 'rle_hist', 'xs': small}, oracle_history_rle(R, small) or bad)
    # float X values (oracle only)
    for _ in range(ctx.n(300, 3000)):
        recs = gen_recs(rng, rng.randint(0, 40), xfloat=True)
        ctx.count('oracle_cases')
        bad = oracle_t01(L, recs)
        if bad is not None:
            ctx.fail({'op': 't01', 'recs': [list(r) for r in recs]}, bad)


def search(ctx):
    """extra oracle budget when a proof / the correspondence broke and no failing input was found yet."""
    R, L = _impl()
    rng = ctx.rng
    for _ in range(30000):
        xs = gen_runs(rng, rng.randint(1, 30), sorted_only=rng.random() < 0.5, big=rng.random() < 0.1)
        ctx.count('oracle_cases')
        bad = oracle_rle(R, xs)
        if bad is not None:
            report_rle(ctx, R, xs, [], [], bad); return
    for _ in range(10000):
        recs = gen_recs(rng, rng.randint(0, 30))
        ctx.count('oracle_cases')
        bad = oracle_t01(L, recs)
        if bad is not None:
            ctx.fail({'op': 't01', 'recs': [list(r) for r in recs]}, bad); return


def replay(ctx, rec):
    R, L = _impl()
    case = rec.get('case') or {}
    op = case.get('op')
    if op == 'rle':
        bad = oracle_rle(R, case['xs'], case.get('idx'), case.get('qs'))
    elif op == 'rle_fn':
        bad = oracle_rle(R, case['xs'], fn=lambda v: case['a'] * v + case['b'])
    elif op == 'float':
        bad = oracle_float(R, [float.fromhex(h) for h in case['xs']])
    elif op == 't01':
        bad = oracle_t01(L, [tuple(r) for r in case['recs']])
    elif op == 't01_hist':
        bad = oracle_history_t01(L, [tuple(r) for r in case['recs']])
    elif op == 'rle_hist':
        bad = oracle_history_rle(R, case['xs'])
    else:
        return True, 'nothing to replay (no concrete failing input was recorded)'
    if bad is not None:
        return False, bad
    return True, 'the property holds on the recorded input'
