"""C16 — Run-length indexes reproduce the positions they encode (common/Rle.py, LIS/core/Rle.py, RP66V1/IndexXML.py)."""
import bisect, itertools, sys

CLAIM = {
 'text': ('Lean 4 theorems, for every integer list (no bound, by induction): values_roundtrip, items_expand (the '
          'datum/stride/repeat triples written by RP66V1 IndexXML expand to the list), value_index (Python indexing '
          'with positive and negative indices incl. IndexError), num_first_last, largest_le_spec (any non-strictly '
          'ascending list: greatest stored value <= query, ValueError below the first); for the LIS frame index '
          'tell_for_frame / total_frames (any record positions, frame counts >= 1). They are about a model of '
          'RLEItem/RLE/RLEItemType01/RLEType01 that is tied to the source on every run by an exhaustive small-scope + '
          'random correspondence with the real classes; the oracle checks the same statements on the real classes '
          'against the plain Python list that was added. Proof is the right level: unbounded sequences, pure integer '
          'arithmetic. Floats: theorem float_values_close_partial over Rat with isclose as a parameter; the float '
          'rounding itself is exercised, not proved.'),
 'note': ('Trusted: Lean kernel; model<->code correspondence on the cases of the run. Float arithmetic is not modelled '
          '(Rat abstraction + oracle with an explicit rounding bound). RLE(theFunc) with a conversion function is '
          'exercised by the oracle only. NaN/inf are not generated. numpy scalars (what the RP66V1 index passes as X axis values) '
          'are outside the Lean model (mathematical integers): the oracle and the correspondence feed them and expect the '
          'answers of the equal Python numbers, inside the range where fixed-width arithmetic cannot overflow.'),
 'technique': 'Lean 4 proof (induction over the added list, omega/nlinarith) + model-implementation correspondence',
 'design_ref': 'DESIGN.md section 6 C16',
}

RULE = ('integer lists: every list up to a small length over a small alphabet (exhaustive) with every index in '
        '-(n+2)..n+1 and every query min-2..max+2, plus random long lists built from runs (positive/zero/negative '
        'strides, repeats, near-miss continuations, bignums), sorted variants with queries around every element; '
        'float lists from noisy/exact progressions; LIS record tables from runs of regular positions and equal frame '
        'counts with every frame number; inputs outside the quantifier (largest_le of unsorted lists, frame counts < 1, '
        'positions not increasing) are compared with the model informationally only. Non-trivial = the encoding has >= 2 runs and at least one run with '
        'repeat >= 1 (RLE) / >= 2 runs or a run with repeat >= 1 and >= 2 frames per record (RLEType01); '
        'distinct by the input sequence. The same questions with numpy scalars: values as elements of numpy arrays of '
        'int8..int64, uint8..uint64, float32, float64 (exhaustive small scope per type, random runs), mixed with Python '
        'numbers and with each other, indices / frame numbers / queries as Python numbers and as numpy scalars '
        '(equal to the first / last / first-of-run value, one step below and above, between neighbours, float queries on '
        'integer lists); floats are multiples of 1/8 or 1/1024 (every operation exact, so the answer must be exact) or '
        'general floats as float64 / float32 array elements (rounding bound of the type); ascending general floats are '
        'asked for the first value of every stored run, below the first, above the last and midpoints of clearly '
        'separated neighbours; LIS tables with numpy positions, counts, X values and frame numbers.')
ASSUMPTIONS = ['the plain Python list of added values (and bisect on it) is the reference for position/iteration/largest_le',
               'float sequences are finite floats (no NaN/inf); ints and floats are mixed only where every value and every '
               'intermediate is exactly representable',
               'numpy integer scalars: every integer of a case (values, length + 2, positions, frame totals) is at most a quarter of '
               'the maximum of the narrowest numpy integer type of the case, values of unsigned types are ascending, and uint64 never '
               'meets a signed numpy integer: inside these limits fixed-width arithmetic neither wraps nor raises OverflowError '
               'nor promotes to float64, and the unchanged code answers as for the equal Python ints; outside them (numpy wraps '
               'with a RuntimeWarning, a Python int that does not fit the type raises OverflowError, int64 with uint64 gives float64) '
               'nothing is claimed',
               'numpy floats: numpy.float64 is a Python float (isclose branch of RLEItem.add), numpy.float32 is not (== branch, '
               'arithmetic in float32): answers are compared as numbers (value equality after .item()), the returned scalar type '
               'is only required to be an integer type when integers were fed and asked with',
               'RLE conversion function (theFunc) is None in the model (production callers never pass one)']
TRUSTED = ['modelled, not verified: Python int arithmetic, // and % (Int.fdiv / Int.fmod), list append/indexing',
           'numpy scalar arithmetic is not modelled (the Lean model is about mathematical integers): numpy integers inside the '
           'no-overflow range are compared with the model through the equal Python ints (stream np_rle) and checked by the oracle; '
           'numpy floats by the oracle only (exact on dyadic values, rounding bound otherwise). numpy specifics relied on: '
           'x // 0 on numpy floats gives nan / on numpy integers 0 with a RuntimeWarning instead of ZeroDivisionError, '
           'Python ints are weak scalars (NEP 50), str() of a numpy scalar is the plain number',
           'float rounding in RLEItem.add/value/values is not modelled: Rat abstraction with isclose as a parameter, compared '
           'item for item with the code on exactly representable floats (multiples of 1/1024 below 2**43, incl. values '
           'near 2**42 where isclose accepts unequal values); general floats are exercised by the oracle with the bound '
           '|value(i) - added| <= 4*eps*max|x| and |values()[k] - added| <= (2k+4)*eps*max|x|']

EPS = sys.float_info.epsilon


def _impl():
    from TotalDepth.common import Rle
    from TotalDepth.LIS.core import Rle as LisRle
    return Rle, LisRle


def _np():
    import numpy
    return numpy


class _quiet:
    """numpy scalar arithmetic reports overflow / division by zero as RuntimeWarning and carries on (nan, 0, wrapped
    value): keep that default behaviour whatever warning filter the process runs with."""
    def __enter__(self):
        import warnings
        self._cm = warnings.catch_warnings()
        self._cm.__enter__()
        warnings.simplefilter('ignore')
        return self

    def __exit__(self, *a):
        return self._cm.__exit__(*a)


def _exc(f, *a):
    try:
        return f(*a)
    except IndexError:
        return 'I'
    except ValueError:
        return 'V'
    except ZeroDivisionError:
        return 'Z'
    except AssertionError:
        return 'A'


def soft(ctx, key, impl, model):
    """comparison outside the property's quantifier (unsorted largest_le, frame counts < 1, positions not increasing):
    counted and noted, never a disagreement — a rewrite that only changes behaviour there must not raise an alarm."""
    ctx.count(key + '_compared')
    if impl != model:
        ctx.count(key + '_differences')


def _csv(xs):
    return ','.join(map(str, xs)) or '-'


def _o(v):
    return 'N' if v is None else str(v)


# ------------------------------------------------------------------ implementation adapters (canonical strings)

def impl_rle(R, xs, idx, qs):
    try:
        rle = R.create_rle(xs)
        items = ';'.join(f'{it.datum}:{it.stride}:{it.repeat}' for it in rle.rle_items) or '-'
        at = ','.join(str(_exc(rle.value, i)) for i in idx) or '-'
        le = ','.join(str(_exc(rle.largest_le, q)) for q in qs) or '-'
        return (f'items={items} n={rle.num_values()} first={_o(rle.first())} last={_o(rle.last())} '
                f'vals={_csv(list(rle.values()))} at={at} le={le}')
    except Exception as e:   # anything unexpected is a correspondence difference, never a crash of the check
        return f'exception {type(e).__name__}'


def _units(v):
    from fractions import Fraction
    f = Fraction(v) * 1024
    return str(f.numerator) if f.denominator == 1 else f'{f.numerator}/{f.denominator}'


def impl_frle(R, ns):
    """floats that are integer multiples of 1/1024 below 2**43: every float operation of RLEItem is exact on them."""
    try:
        rle = R.create_rle([n / 1024.0 for n in ns])
        items = ';'.join(f'{_units(it.datum)}:{_units(it.stride)}:{it.repeat}' for it in rle.rle_items) or '-'
        return f'items={items} n={rle.num_values()} vals={",".join(_units(v) for v in rle.values()) or "-"}'
    except Exception as e:
        return f'exception {type(e).__name__}'


def gen_units(rng, target):
    """integers n (floats n/1024): small ones, and ones near 2**52..2**53 where isclose accepts differences of 1-2 units."""
    big = rng.random() < 0.6
    cur = rng.randint(2**52, 2**53 - 2**24) * rng.choice([1, 1, -1]) if big else rng.randint(-2**30, 2**30)
    ns = []
    while len(ns) < target:
        ln = rng.choice([1, 2, 3, 4, 6, rng.randint(1, 30)])
        st = rng.choice([0, 1, -1, 2, 512, 1024, -1536, rng.randint(-5000, 5000)])
        cur += rng.choice([0, 0, st, rng.randint(-3, 3), rng.randint(-10**6, 10**6)])
        for k in range(ln):
            ns.append(cur + k * st + (rng.choice([0, 0, 0, 1, -1, 2, -2, 3]) if k >= 2 else 0))
        cur = ns[-1]
    return ns[:target]


def impl_t01(L, recs, frames):
    try:
        r = L.RLEType01('FEET')
        for p, n, x in recs:
            r.add(p, n, x)
        items = ';'.join(
            f'{it.datum}:{it.stride}:{it.repeat}:{it.numFrames}:' + '+'.join(f'{x.datum}/{x.stride}/{x.repeat}' for x in it._rleXaxis.rle_items)
            for it in r.rle_items) or '-'
        def one(f):
            v = _exc(r.tellLrForFrame, f)
            return v if isinstance(v, str) else f'{v[0]}:{v[1]}'
        tl = ','.join(one(f) for f in frames) or '-'
        return f'items={items} total={r.totalFrames()} tell={tl}'
    except Exception as e:
        return f'exception {type(e).__name__}'


# ------------------------------------------------------------------ property oracles (implementation alone)

def is_sorted(xs):
    return all(a <= b for a, b in zip(xs, xs[1:]))


def default_queries(xs):
    return sorted({x + d for x in xs for d in (-1, 0, 1)}) if xs else [0]


def oracle_rle(R, xs, idx=None, qs=None, fn=None):
    """None when the property holds for this list on the implementation, else a description of the failure."""
    want_list = xs if fn is None else [fn(x) for x in xs]
    n = len(xs)
    try:
        rle = R.create_rle(xs, fn) if fn is not None else R.create_rle(xs)
        vals = list(rle.values())
        if vals != want_list:
            return f'values() gives {vals[:10]}.. (len {len(vals)}), added {want_list[:10]}.. (len {n})'
        if rle.num_values() != n:
            return f'num_values() = {rle.num_values()}, added {n}'
        if sum(len(it) for it in rle.rle_items) != n:
            return 'sum of len(item) differs from the number of values added'
        first, last = rle.first(), rle.last()
        if first != (want_list[0] if n else None) or last != (want_list[-1] if n else None):
            return f'first/last = {first}/{last}, added first/last = {want_list[0] if n else None}/{want_list[-1] if n else None}'
        exp = [it.datum + it.stride * k for it in rle.rle_items for k in range(it.repeat + 1)]
        if exp != want_list:
            return 'datum + k*stride over the stored runs does not reproduce the list (what IndexXML writes)'
        for i in (range(-n - 2, n + 2) if idx is None else idx):
            want = want_list[i] if -n <= i < n else 'I'
            got = _exc(rle.value, i)
            if got != want or type(got) is not type(want):
                return f'value({i}) = {got}, list[{i}] = {want}'
        if fn is None and is_sorted(xs):
            for q in (default_queries(xs) if qs is None else qs):
                k = bisect.bisect_right(xs, q)
                want = xs[k - 1] if k else 'V'
                got = _exc(rle.largest_le, q)
                if got != want or type(got) is not type(want):
                    return f'largest_le({q}) = {got}, greatest stored <= {q} is {want}'
    except Exception as e:
        return f'unexpected {type(e).__name__}: {e}'
    return None


def oracle_float(R, xs, t='py'):
    """floats: count, first exact; every decoded value (by position and by iteration) within rounding of the added one;
    ascending lists: largest_le for queries that rounding cannot move across a stored value (below the first, the first
    value of every stored run, midpoints of clearly separated neighbours, above the last).
    t = 'py' (Python floats) | 'float64' | 'float32': the values are fed as elements of a numpy array of that dtype
    (xs must then be representable in it); expectations are the same Python floats, eps is the one of the dtype."""
    n = len(xs)
    try:
        if t == 'py':
            typed, eps, cv = list(xs), EPS, float
        else:
            np = _np()
            typed, eps, cv = list(np.array(xs, dtype=t)), float(np.finfo(t).eps), getattr(np, t)
        with _quiet():
            rle = R.create_rle(typed)
            if rle.num_values() != n:
                return f'num_values() = {rle.num_values()}, added {n}'
            vals = [float(v) for v in rle.values()]
            if len(vals) != n:
                return f'values() yields {len(vals)} values, added {n}'
            if n and float(rle.first()) != xs[0]:
                return f'first() = {rle.first()!r}, added {xs[0]!r}'
            m = max((abs(x) for x in xs), default=0.0)
            tol_pos = 4 * eps * m
            for i, x in enumerate(xs):
                tol_it = (2 * i + 4) * eps * m
                for j in (i, i - n):
                    got = float(rle.value(j))
                    if not abs(got - x) <= tol_pos:
                        return f'value({j}) = {got!r}, added {x!r} (tolerance {tol_pos!r})'
                if not abs(vals[i] - x) <= tol_it:
                    return f'values()[{i}] = {vals[i]!r}, added {x!r} (tolerance {tol_it!r})'
            if n and not abs(float(rle.last()) - xs[-1]) <= tol_pos:
                return f'last() = {rle.last()!r}, added {xs[-1]!r}'
            for i in (n, n + 1, -n - 1):
                if _exc(rle.value, i) != 'I':
                    return f'value({i}) does not raise IndexError for {n} values'
            if n and is_sorted(xs):
                # queries as Python floats and as scalars of the list's own type (numpy scalar when t is a numpy dtype)
                def ask(q):
                    out = []
                    for qq in ((q,) if t == 'py' else (cv(q), float(cv(q)))):
                        g = _exc(rle.largest_le, qq)
                        out.append(g if isinstance(g, str) else float(g))
                    return out
                if xs[0] - 1.0 < xs[0]:
                    for g in ask(xs[0] - 1.0):
                        if g != 'V':
                            return f'largest_le({xs[0] - 1.0!r}) = {g!r}, every stored value is greater: ValueError expected'
                for g in ask(xs[-1] + 1.0):
                    if isinstance(g, str) or not abs(g - xs[-1]) <= tol_pos:
                        return f'largest_le({xs[-1] + 1.0!r}) = {g!r}, the last stored value is {xs[-1]!r}'
                for it in rle.rle_items:   # the first value of a stored run is stored exactly: it is its own answer
                    d = float(it.datum)
                    for g in ask(d):
                        if g != d:
                            return f'largest_le({d!r}) = {g!r}, {d!r} itself is stored (first value of a run with stride {it.stride!r}, repeat {it.repeat})'
                gap = (1e-6 if eps == EPS else 1e-3) * max(1.0, m)
                for a, b in zip(xs, xs[1:]):
                    if b - a > gap:
                        q = (a + b) / 2
                        for g in ask(q):
                            if isinstance(g, str) or not abs(g - a) <= tol_pos:
                                return f'largest_le({q!r}) = {g!r}, greatest stored value <= query is {a!r} (next {b!r})'
    except Exception as e:
        return f'unexpected {type(e).__name__}: {e}'
    return None


def oracle_t01(L, recs, frames=None):
    """recs: (position, frames>=1, x). Frame k -> (position of the record containing k, offset inside it)."""
    try:
        r = L.RLEType01('FEET')
        for p, n, x in recs:
            r.add(p, n, x)
        total = sum(n for _, n, _ in recs)
        if r.totalFrames() != total:
            return f'totalFrames() = {r.totalFrames()}, sum of frame counts = {total}'
        starts = list(itertools.accumulate([0] + [n for _, n, _ in recs[:-1]])) if recs else []
        for f in (range(-2, total + 3) if frames is None else frames):
            if 0 <= f < total:
                j = bisect.bisect_right(starts, f) - 1
                want = (recs[j][0], f - starts[j])
            else:
                want = 'I'
            got = _exc(r.tellLrForFrame, f)
            if got != want:
                return f'tellLrForFrame({f}) = {got}, expected {want}'
        back = [v for it in r.rle_items for v in it.values()]
        if [(a, b) for a, b, _ in back] != [(p, n) for p, n, _ in recs]:
            return 'iterating the runs does not give back the (position, frames) pairs added'
        if all(isinstance(x, int) for _, _, x in recs) and [c for _, _, c in back] != [x for _, _, x in recs]:
            return 'iterating the runs does not give back the integer X values added'
    except Exception as e:
        return f'unexpected {type(e).__name__}: {e}'
    return None


def oracle_history_t01(L, recs):
    """Interleaved history: after EVERY add, the frame index answers from the records added so far (no stale state)."""
    try:
        r = L.RLEType01('FEET')
        total, starts = 0, []
        for k, (p, n, x) in enumerate(recs):
            r.add(p, n, x)
            starts.append(total); total += n
            if r.totalFrames() != total:
                return f'after add #{k + 1}: totalFrames() = {r.totalFrames()}, sum of frame counts so far = {total}'
            for f in sorted({0, total - 1, total // 2, starts[-1], total}):
                if 0 <= f < total:
                    j = bisect.bisect_right(starts, f) - 1
                    want = (recs[j][0], f - starts[j])
                else:
                    want = 'I'
                got = _exc(r.tellLrForFrame, f)
                if got != want:
                    return f'after add #{k + 1}: tellLrForFrame({f}) = {got}, expected {want}'
    except Exception as e:
        return f'unexpected {type(e).__name__}: {e}'
    return None


def oracle_history_rle(R, xs):
    """Interleaved history: after EVERY add, count / first / last / indexing / iteration answer from the prefix added so far."""
    try:
        rle = R.RLE()
        for k, v in enumerate(xs):
            rle.add(v)
            pre = xs[:k + 1]
            if rle.num_values() != k + 1:
                return f'after add #{k + 1}: num_values() = {rle.num_values()}'
            if rle.first() != pre[0] or rle.last() != pre[-1]:
                return f'after add #{k + 1}: first/last = {rle.first()}/{rle.last()}, expected {pre[0]}/{pre[-1]}'
            for i in {0, k, -1, -(k + 1), k // 2}:
                if rle.value(i) != pre[i]:
                    return f'after add #{k + 1}: value({i}) = {rle.value(i)}, expected {pre[i]}'
            if k % 3 == 0 and list(rle.values()) != pre:
                return f'after add #{k + 1}: values() differs from the prefix added so far'
            if is_sorted(pre):
                for q in (pre[-1], pre[0], pre[k // 2] + 1):
                    j = bisect.bisect_right(pre, q)
                    if j and _exc(rle.largest_le, q) != pre[j - 1]:
                        return f'after add #{k + 1}: largest_le({q}) = {_exc(rle.largest_le, q)}, expected {pre[j - 1]}'
    except Exception as e:
        return f'unexpected {type(e).__name__}: {e}'
    return None


_SHRINKS_LEFT = [25]     # a broken implementation fails thousands of cases: minimise the first ones only


def shrink(xs, fails):
    """greedy delta-debugging of a failing list (only ever runs after a failure)."""
    xs = list(xs)
    if _SHRINKS_LEFT[0] <= 0:
        return xs
    _SHRINKS_LEFT[0] -= 1
    chunk = max(1, len(xs) // 2)
    budget = 400
    while chunk >= 1 and budget > 0:
        i, changed = 0, False
        while i < len(xs) and budget > 0:
            cand = xs[:i] + xs[i + chunk:]
            budget -= 1
            if fails(cand):
                xs, changed = cand, True
            else:
                i += chunk
        if not changed or chunk > len(xs):
            chunk //= 2
    return xs


def _jfloat(xs):
    return [x.hex() for x in xs]


def report_rle(ctx, R, xs, idx, qs, detail):
    small = shrink(xs, lambda c: oracle_rle(R, c) is not None)
    d2 = oracle_rle(R, small)
    if d2 is not None:
        ctx.fail({'op': 'rle', 'xs': small}, d2)
    else:
        ctx.fail({'op': 'rle', 'xs': list(xs), 'idx': list(idx), 'qs': list(qs)}, detail)


# ------------------------------------------------------------------ numpy scalar types (what the index builders pass)
#
# RP66V1 LogicalFile.add_iflr passes frame_array.x_axis.array.mean() (numpy.float64, numpy.float32 for a float32 channel)
# as the X axis value that IndexXML feeds to Rle.create_rle(); frame numbers / positions are Python ints; LIS
# FileIndexer passes Python floats. numpy.float64 IS a Python float (isinstance), numpy.float32 and the numpy integers
# are not; numpy integer scalars are fixed width, and Python ints meeting a numpy integer must fit its type (NEP 50,
# OverflowError otherwise). The streams below therefore stay where fixed-width arithmetic cannot overflow (see np_bound)
# and never let uint64 meet a signed numpy integer (numpy promotes that pair to float64): inside that range the unchanged
# code gives, value for value, the results it gives for the equal Python numbers, and that is what is asserted.
# A type name is 'py' (the Python number as it is), 'pyf' (float(x)) or a numpy scalar type name.

NP_SIGNED = ('int8', 'int16', 'int32', 'int64')
NP_UNSIGNED = ('uint8', 'uint16', 'uint32', 'uint64')
NP_INTS = NP_SIGNED + NP_UNSIGNED
NP_FLOATS = ('float32', 'float64')


def _enc(x):
    return x.hex() if isinstance(x, float) else int(x)


def _dec(v):
    return float.fromhex(v) if isinstance(v, str) else v


def _fits(np, t, x):
    """x can be given as type t without changing its value."""
    if t in ('py', 'pyf'):
        return True
    if t in NP_FLOATS:
        return float(getattr(np, t)(x)) == x
    return x == int(x) and int(np.iinfo(t).min) <= x <= int(np.iinfo(t).max)


def _conv(np, t, x):
    if t == 'py':
        return x
    if t == 'pyf':
        return float(x)
    if t in NP_FLOATS:
        return getattr(np, t)(x)
    return getattr(np, t)(int(x))


def _py(v):
    return v.item() if hasattr(v, 'item') and hasattr(v, 'dtype') else v


def _same(got, want):
    """value equality with the Python number (exact: Python compares int/float exactly); error letters compare as such."""
    if isinstance(got, str) or isinstance(want, str):
        return isinstance(got, str) and isinstance(want, str) and got == want
    g = _py(got)
    if g is None or want is None:
        return g is None and want is None
    if isinstance(g, bool) or not isinstance(g, (int, float)):
        return False
    return g == want


def np_bound(np, types):
    """largest magnitude B of any integer of a case (values, list length + 2, frame totals, positions) such that every
    intermediate of RLEItem (v - datum, stride * (repeat + 1), datum + that, value - datum) stays inside every numpy
    integer type of the case: 4 * B <= max of the type (values then lie in [-B, B], or [0, B] with unsigned types)."""
    return min([int(np.iinfo(t).max) // 4 for t in types if t in NP_INTS] or [2**61])


def _mixes_u64(types):
    types = set(types)
    return 'uint64' in types and bool(types & set(NP_SIGNED))


def typed_list(np, xs, ts):
    if xs and len(set(ts)) == 1 and ts[0] not in ('py', 'pyf'):
        return list(np.array(xs, dtype=ts[0]))     # elements of a numpy array, as the real callers have them
    return [_conv(np, t, x) for x, t in zip(xs, ts)]


def default_np_idx(np, xs, ts):
    n = len(xs)
    comp = sorted({t for t in ts if t in NP_INTS}) or ['int64']
    out = []
    for i in range(-n - 2, n + 2):
        out.append((i, 'py'))
        out.extend((i, t) for t in comp if _fits(np, t, i))
    return out


def default_np_qs(np, xs, ts):
    n = len(xs)
    isf = any(isinstance(x, float) for x in xs)
    d = 0.125 if isf else 1
    out = set()
    for j, (x, t) in enumerate(zip(xs, ts)):
        cands = [x - d, x, x + d]
        if j + 1 < n and xs[j + 1] > x:
            cands.append((x + xs[j + 1]) / 2 if isf else (x + xs[j + 1]) // 2)
        for q in cands:
            out.add((q, 'py'))
            out.add((q, t if _fits(np, t, q) else 'py'))
    return sorted(out) if out else [(0, 'py')]


def oracle_np(R, xs, ts, idx=None, qs=None):
    """xs: Python ints or exactly representable floats, ts: the type each one is fed as; idx / qs: (number, type) pairs.
    Every answer must equal, as a number, the answer of the plain Python list xs. None when the property holds."""
    np = _np()
    n = len(xs)
    allint = all(isinstance(x, int) and t not in NP_FLOATS and t != 'pyf' for x, t in zip(xs, ts))

    def int_expected(tq):     # integers in, integer type asked with: an integer comes back (no float contamination)
        return allint and tq not in NP_FLOATS and tq != 'pyf' and not _mixes_u64(list(ts) + [tq])

    try:
        with _quiet():
            typed = typed_list(np, xs, ts)
            rle = R.create_rle(typed)
            vals = list(rle.values())
            if len(vals) != n or not all(_same(g, w) for g, w in zip(vals, xs)):
                return f'values() gives {[_py(v) for v in vals[:10]]}.. (len {len(vals)}), added {xs[:10]}.. (len {n}) as {sorted(set(ts))}'
            if allint and not _mixes_u64(ts) and not all(isinstance(_py(v), int) for v in vals):
                return f'values() of integers {sorted(set(ts))} yields a non-integer type'
            if not _same(rle.num_values(), n):
                return f'num_values() = {rle.num_values()}, added {n}'
            if sum(len(it) for it in rle.rle_items) != n:
                return 'sum of len(item) differs from the number of values added'
            first, last = rle.first(), rle.last()
            if not _same(first, xs[0] if n else None) or not _same(last, xs[-1] if n else None):
                return f'first/last = {first}/{last}, added first/last = {xs[0] if n else None}/{xs[-1] if n else None}'
            exp = [it.datum + it.stride * k for it in rle.rle_items for k in range(it.repeat + 1)]
            if len(exp) != n or not all(_same(g, w) for g, w in zip(exp, xs)):
                return 'datum + k*stride over the stored runs does not reproduce the list (what IndexXML writes)'
            for i, ti in (default_np_idx(np, xs, ts) if idx is None else idx):
                want = xs[i] if -n <= i < n else 'I'
                got = _exc(rle.value, _conv(np, ti, i))
                if not _same(got, want) or (not isinstance(got, str) and int_expected(ti) and not isinstance(_py(got), int)):
                    return f'value({ti}:{i}) = {got!r}, list[{i}] = {want!r} (values as {sorted(set(ts))})'
            if is_sorted(xs):
                for q, tq in (default_np_qs(np, xs, ts) if qs is None else qs):
                    k = bisect.bisect_right(xs, q)
                    want = xs[k - 1] if k else 'V'
                    got = _exc(rle.largest_le, _conv(np, tq, q))
                    if not _same(got, want) or (not isinstance(got, str) and int_expected(tq) and not isinstance(_py(got), int)):
                        return f'largest_le({tq}:{q!r}) = {got!r}, greatest stored <= {q!r} is {want!r} (values as {sorted(set(ts))})'
            if n:
                bad = oracle_history_rle(R, typed)
                if bad is not None:
                    return bad + f' (values as {sorted(set(ts))})'
    except Exception as e:
        return f'unexpected {type(e).__name__}: {e} (values as {sorted(set(ts))})'
    return None


def gen_bounded(rng, target, lo, hi, ascending):
    """target integers in [lo, hi] built from runs (zero / positive / negative strides, repeats, singletons, near misses
    of the running progression); ascending=True: non-strictly ascending."""
    span = hi - lo
    xs = []
    if ascending:
        cur = rng.choice([lo, lo, lo + rng.randint(0, span // 4), hi - rng.randint(0, min(span, 500))])
    else:
        cur = rng.choice([lo, lo + span // 2, rng.randint(lo, hi), hi - rng.randint(0, min(span, 2000))])
    while len(xs) < target:
        ln = rng.choice([1, 1, 2, 2, 3, 3, 4, 5, 8, rng.randint(1, 30)])
        st = rng.choice([0, 0, 0, 1, 1, 2, 3, 7, 48, rng.randint(0, 1000), rng.randint(0, max(1, span // 16))])
        jump = rng.choice([0, 0, 1, 2, 5, rng.randint(0, 300), rng.randint(0, max(1, span // 16))])
        if len(xs) > 1 and rng.random() < 0.15:       # near miss: one more step of the last progression, or one off
            d = xs[-1] - xs[-2]
            jump, ln, st = d + rng.choice([0, 1, 1] if ascending else [0, 1, -1]), 1, 0
            if ascending:
                jump = max(jump, 0)
        elif not ascending:
            st = st if rng.random() < 0.55 else -st
            jump = jump if rng.random() < 0.5 else -jump
        if ascending:
            room = hi - cur                             # stay below hi: shorten the jump, then the stride
            jump = min(jump, room)
            st = min(st, (room - jump) // ln)
            cur += jump
        else:
            cur += jump
            end = cur + (ln - 1) * st
            if not (lo <= cur <= hi and lo <= end <= hi):
                cur = rng.randint(lo, hi)
                st = max(min(st, (hi - cur) // ln), -((cur - lo) // ln))
        xs.extend(cur + k * st for k in range(ln))
        cur = xs[-1]
    return xs[:target]


def pick_types(np, B, pool, signed_only):
    """numpy integer types an index / query may be given as with a pool: wide enough for every integer of the case
    (Python ints meeting it must fit), never uint64 with a signed numpy integer (float64 promotion), unsigned only when
    the pool itself is unsigned (all values >= 0, strides >= 0) and the number is not negative."""
    has_u = any(t in NP_UNSIGNED for t in pool)
    out = ['py']
    for t in NP_INTS:
        if int(np.iinfo(t).max) // 4 < B or (t in NP_UNSIGNED and (signed_only or not has_u)) or _mixes_u64(list(pool) + [t]):
            continue
        out.append(t)
    return out


def gen_np_int_case(np, rng, homog=None):
    """(xs, ts, idx, qs) for an integer list fed as numpy integer scalars / mixed with Python ints."""
    r = rng.random()
    if homog is not None:
        pool = [homog]
    elif r < 0.45:
        pool = [rng.choice(NP_INTS)]
    elif r < 0.65:
        pool = rng.sample(('py',) + NP_SIGNED, rng.randint(2, 3))
    elif r < 0.8:
        pool = rng.sample(('py',) + NP_UNSIGNED, rng.randint(2, 3))
    else:                                    # signed with unsigned: every pair but (signed, uint64) promotes to an integer type
        pool = rng.sample(('py',) + NP_SIGNED + NP_UNSIGNED[:3], rng.randint(2, 4))
    has_u = any(t in NP_UNSIGNED for t in pool)
    B = np_bound(np, pool)
    hi = rng.choice([min(B, 31), min(B, 1000), min(B, 10**6), B, B])
    target = min(rng.choice([rng.randint(1, 8), rng.randint(8, 28), rng.randint(28, 120)]), hi - 2)
    ascending = has_u or rng.random() < 0.4
    xs = gen_bounded(rng, target, 0 if has_u else -hi, hi, ascending)
    n = len(xs)
    ts = [rng.choice(pool) for _ in xs]
    it_all = pick_types(np, max(hi, n + 2), pool, False)
    it_neg = pick_types(np, max(hi, n + 2), pool, True)
    ii = list(range(-n - 2, n + 2)) if n <= 24 else sorted({rng.randint(-n - 2, n + 1) for _ in range(24)} | {0, -1, n - 1, -n, n, -n - 1})
    idx = [(i, rng.choice(it_neg if i < 0 else it_all)) for i in ii]
    qs = []
    if is_sorted(xs):
        base = default_queries(xs)
        base += [(a + b) // 2 for a, b in zip(xs, xs[1:]) if b - a > 1]
        if len(base) > 50:
            base = rng.sample(base, 46) + [xs[0] - 1, xs[0], xs[-1], xs[-1] + 1]
        for q in sorted(set(base)):
            tq = rng.choice(it_neg if q < 0 else it_all)
            qs.append((q, tq if _fits(np, tq, q) else 'py'))
            if hi <= 2**20 and rng.random() < 0.3:      # a float query on integers: between the stored values
                qs.append((q + rng.choice([0.0, 0.5, -0.5, 0.25]), rng.choice(['pyf', 'float64', 'float32'])))
    return xs, ts, idx, qs


def gen_np_float_case(np, rng, homog=None):
    """exactly representable floats (multiples of 1/8 or 1/1024, every operation of RLEItem exact in the narrowest type
    of the case) fed as numpy.float64 / numpy.float32 / Python floats, optionally with integers among them."""
    r = rng.random()
    if homog is not None:
        pool = [homog]
    elif r < 0.35:
        pool = ['float64']
    elif r < 0.55:
        pool = ['float32']
    elif r < 0.7:
        pool = ['pyf', 'float64']
    elif r < 0.85:
        pool = rng.sample(['pyf', 'float64', 'float32'], 2) + [rng.choice(['pyf', 'float64', 'float32'])]
    else:                                    # integers and floats together (equal numbers, exact everywhere)
        pool = ['pyf', 'float64'] + rng.sample(['py', 'int32', 'int64', 'float32', 'int16'], 2)
    narrow = 'float32' in pool or 'int16' in pool
    div = 8 if narrow else 1024
    hi = 2**13 if 'int16' in pool else (2**17 if narrow else 2**40)      # in units of 1/div
    hi = rng.choice([64, 1000, hi])
    ascending = rng.random() < 0.6
    target = rng.choice([rng.randint(1, 8), rng.randint(8, 28), rng.randint(28, 100)])
    if any(t == 'py' or t in NP_INTS for t in pool) and rng.random() < 0.7:
        us = [u * div for u in gen_bounded(rng, target, -max(4, hi // div), max(4, hi // div), ascending)]     # whole numbers
    else:
        us = gen_bounded(rng, target, -hi, hi, ascending)
    xs, ts = [], []
    for u in us:
        x = u / div
        t = rng.choice(pool)
        if t == 'py' or t in NP_INTS:
            if u % div == 0:
                x = u // div if t == 'py' else x
            else:
                t = 'pyf'
        xs.append(x); ts.append(t)
    n = len(xs)
    # a Python-int stride (two neighbouring Python ints) must fit the numpy type of the index it is multiplied with
    itypes = ['py', 'int64', 'int32'] + ([] if 'py' in pool else ['int16'])
    utypes = itypes + ([] if 'py' in pool else ['uint8', 'uint16', 'uint32', 'uint64'])
    ii = list(range(-n - 2, n + 2)) if n <= 24 else sorted({rng.randint(-n - 2, n + 1) for _ in range(24)} | {0, -1, n - 1, -n, n, -n - 1})
    idx = []
    for i in ii:
        t = rng.choice(itypes if i < 0 else utypes)
        idx.append((i, t if _fits(np, t, i) else 'py'))
    qs = []
    if is_sorted(xs):
        base = set()
        for a, b in zip(xs, xs[1:] + [xs[-1]] if xs else []):
            base |= {a, a - 1 / div, a + 1 / div, a - 0.5 / div, a + 0.5 / div}
            if b > a:
                base.add((a + b) / 2)
        base = sorted(base)
        if len(base) > 60:
            base = rng.sample(base, 56) + [xs[0] - 1 / div, xs[0], xs[-1], xs[-1] + 1 / div]
        qtypes = ['pyf', 'float64'] + (['float32'] if narrow else []) + [t for t in pool if t in NP_INTS or t == 'py']
        for q in sorted(set(base)):
            tq = rng.choice(qtypes)
            if tq == 'py' and q == int(q):
                q = int(q)
            qs.append((q, tq if _fits(np, tq, q) else 'pyf'))
    return xs, ts, idx, qs


def report_np(ctx, R, xs, ts, idx, qs, detail):
    pairs = shrink(list(zip(xs, ts)), lambda c: oracle_np(R, [x for x, _ in c], [t for _, t in c]) is not None)
    sx, st = [x for x, _ in pairs], [t for _, t in pairs]
    d2 = oracle_np(R, sx, st)
    if d2 is not None:
        ctx.fail({'op': 'np_rle', 'xs': [_enc(x) for x in sx], 'ts': st}, d2)
    else:
        ctx.fail({'op': 'np_rle', 'xs': [_enc(x) for x in xs], 'ts': list(ts), 'idx': [[i, t] for i, t in idx],
                  'qs': [[_enc(q), t] for q, t in qs]}, detail)


def gen_floats_asc(rng, target):
    """non-strictly ascending floats from progressions (exact form, accumulated form, noisy), with repeats."""
    xs = []
    cur = rng.choice([0.0, 1.0, 100.0, 1000.25, rng.uniform(-1e4, 1e4), rng.uniform(0, 1e-3)])
    while len(xs) < target:
        ln = rng.choice([1, 1, 2, 3, 3, 5, 10, rng.randint(1, 40)])
        st = rng.choice([0.0, 0.0, 0.5, 0.1, 0.25, 1.0 / 3, 0.1524, 0.5 * 0.3048, 75197.0, rng.uniform(0, 10), rng.uniform(0, 1e-6)])
        mode = rng.random()
        base = cur + rng.choice([0.0, 0.0, st, rng.uniform(0, 5)])
        for k in range(ln):
            if mode < 0.5:
                v = base + k * st
            elif mode < 0.8:
                v = (xs[-1] + st) if (k and xs) else base
            else:
                v = base + k * st + rng.choice([0.0, 1e-9, 1e-3])
            xs.append(max(v, xs[-1]) if xs else v)
        cur = xs[-1]
    return xs[:target]


def oracle_t01_np(L, recs, rts, frames):
    """recs: Python (position, frames, x); rts: (position type, count type, x type) per record; frames: (number, type).
    Same expectations as oracle_t01 on the Python numbers."""
    np = _np()
    try:
        with _quiet():
            r = L.RLEType01('FEET')
            for (p, c, x), (tp, tc, tx) in zip(recs, rts):
                r.add(_conv(np, tp, p), _conv(np, tc, c), _conv(np, tx, x))
            total = sum(c for _, c, _ in recs)
            if not _same(r.totalFrames(), total):
                return f'totalFrames() = {r.totalFrames()!r}, sum of frame counts = {total}'
            starts = list(itertools.accumulate([0] + [c for _, c, _ in recs[:-1]])) if recs else []
            for f, tf in frames:
                if 0 <= f < total:
                    j = bisect.bisect_right(starts, f) - 1
                    want = (recs[j][0], f - starts[j])
                else:
                    want = 'I'
                got = _exc(r.tellLrForFrame, _conv(np, tf, f))
                if isinstance(got, str) or isinstance(want, str):
                    same = got == want
                else:
                    same = len(got) == 2 and _same(got[0], want[0]) and _same(got[1], want[1])
                if not same:
                    return f'tellLrForFrame({tf}:{f}) = {got!r}, expected {want}'
            back = [v for it in r.rle_items for v in it.values()]
            if len(back) != len(recs) or not all(_same(a, p) and _same(b, c) and _same(xx, x) for (a, b, xx), (p, c, x) in zip(back, recs)):
                return 'iterating the runs does not give back the (position, frames, X) triples added'
    except Exception as e:
        return f'unexpected {type(e).__name__}: {e}'
    return None


def gen_recs_scaled(rng, target, B):
    """record triples whose positions, frame total and |X| stay <= B (so that narrow numpy integers can carry them)."""
    recs, total = [], 0
    pos, x = rng.randint(0, 3), rng.randint(-3, 3)
    while len(recs) < target:
        ln = rng.choice([1, 1, 2, 3, 4, 6])
        st = rng.choice([1, 1, 2, 3, max(1, B // 50)])
        nf = rng.choice([1, 1, 2, 3, max(1, B // 40)])
        xs = rng.choice([0, 1, -1, 2])
        for k in range(ln):
            n = nf if rng.random() > 0.1 else rng.randint(1, 3)
            if pos > B or total + n > B or abs(x) > B or len(recs) >= target:
                return recs
            recs.append((pos, n, x)); total += n
            pos += st; x += xs * n
        pos += rng.choice([0, 0, 1, 5])
    return recs


def gen_np_t01_case(np, rng):
    signed = rng.random() < 0.5
    fam = ('py',) + (NP_SIGNED if signed else NP_UNSIGNED)
    pool = rng.sample(fam, rng.randint(1, 3))
    B = np_bound(np, pool)
    if B >= 10**8:
        recs = gen_recs(rng, rng.choice([rng.randint(0, 6), rng.randint(6, 40)]), xfloat=rng.random() < 0.3)
    else:
        recs = gen_recs_scaled(rng, rng.randint(0, 25), B)
    total = sum(c for _, c, _ in recs)
    xfl = any(isinstance(x, float) for _, _, x in recs)
    xt = ['pyf', 'float64', 'float32'] + ([] if xfl else [t for t in NP_SIGNED if int(np.iinfo(t).max) // 4 >= max([B if B < 10**8 else 10**6] + [abs(x) for _, _, x in recs])])
    if signed and not xfl:
        xt.append('py')
    x1 = rng.choice(xt)
    xpool = [x1] if rng.random() < 0.6 or x1 == 'py' else [x1, rng.choice([t for t in xt if t != 'py'])]
    rts = [(rng.choice(pool), rng.choice(pool), rng.choice(xpool)) for _ in recs]
    fl = list(range(-2, total + 3)) if total <= 120 else sorted({rng.randint(0, total - 1) for _ in range(60)} | {-1, 0, total - 1, total, total + 1})
    frames = []
    for f in fl:
        t = rng.choice(pool)
        frames.append((f, t if _fits(np, t, f) else 'py'))
    return recs, rts, frames


# ------------------------------------------------------------------ generators

def gen_runs(rng, target, sorted_only=False, big=False):
    """integer list built from runs: arithmetic runs, repeats, singletons, near-miss continuations."""
    xs = []
    cur = rng.randint(-50, 50) if not big else rng.randint(-10**rng.randint(1, 30), 10**rng.randint(1, 30))
    while len(xs) < target:
        kind = rng.random()
        ln = rng.choice([1, 1, 2, 2, 3, 4, 5, 8, rng.randint(1, 40)])
        if sorted_only:
            st = rng.choice([0, 0, 1, 1, 2, 3, 7, 48, rng.randint(0, 1000)])
        else:
            st = rng.choice([0, 0, 1, -1, 2, -2, 3, -7, 48, rng.randint(-1000, 1000)])
        if big and rng.random() < 0.3:
            st = st * 10**rng.randint(5, 25)
        if kind < 0.15 and xs:
            # continue the previous progression exactly / off by one
            d = xs[-1] - xs[-2] if len(xs) > 1 else st
            d = abs(d) if sorted_only else d
            nxt = xs[-1] + d + rng.choice([0, 0, 1] if sorted_only else [0, 0, 1, -1])
            xs.append(max(nxt, xs[-1]) if sorted_only else nxt)
            cur = xs[-1]
            continue
        jump = rng.choice([0, 1, 2, 5, rng.randint(0, 300)])
        cur = cur + (jump if sorted_only else rng.choice([-1, 1]) * jump)
        for k in range(ln):
            xs.append(cur + k * st)
        cur = xs[-1]
    return xs[:target]


def gen_floats(rng, target):
    xs = []
    cur = rng.choice([0.0, 1.0, -3.5, 1000.25, rng.uniform(-1e4, 1e4), rng.uniform(-1e-3, 1e-3)])
    while len(xs) < target:
        ln = rng.choice([1, 2, 3, 5, 10, rng.randint(1, 60)])
        st = rng.choice([0.0, 0.5, -0.5, 0.1, -0.1, 0.25, 1.0 / 3, 0.1524, -0.1524, 75197.0, rng.uniform(-10, 10), rng.uniform(-1e-6, 1e-6)])
        mode = rng.random()
        base = cur + rng.choice([0.0, st, rng.uniform(-5, 5)])
        for k in range(ln):
            if mode < 0.5:
                v = base + k * st                     # the form the decoder uses
            elif mode < 0.8:
                v = (xs[-1] + st) if (k and xs) else base   # accumulated, as a producer would
            else:
                v = base + k * st + rng.choice([0.0, 1e-9, -1e-12, 1e-3])
            xs.append(v)
        cur = xs[-1]
    return xs[:target]


def gen_recs(rng, target, xfloat=False, wild=False):
    """(position, frames, x) triples: strictly increasing positions in regular runs, equal counts in runs."""
    recs = []
    pos = rng.randint(0, 200)
    x = rng.randint(-100, 100)
    while len(recs) < target:
        ln = rng.choice([1, 1, 2, 3, 4, 6, rng.randint(1, 25)])
        st = rng.choice([1, 2, 48, 1024, rng.randint(1, 5000)])
        nf = rng.choice([1, 1, 2, 3, 5, 8, rng.randint(1, 60)])
        xs = rng.choice([0, 1, -1, 5, -60, rng.randint(-100, 100)])
        for k in range(ln):
            n = nf
            if rng.random() < 0.08:
                n = rng.randint(1, 9)               # e.g. a short last record
            if wild and rng.random() < 0.15:
                n = rng.choice([0, -1, -3, 0, 2])
            p = pos
            if wild and rng.random() < 0.2:
                p = pos - rng.randint(0, 100)        # positions not increasing
            recs.append((p, n, (x * 0.5 if xfloat else x)))
            pos += st
            x += xs * n
        pos += rng.choice([0, 1, 7, rng.randint(0, 100000)])
    return recs[:target]


def in_quantifier(recs):
    return all(n >= 1 for _, n, _ in recs) and all(a[0] < b[0] for a, b in zip(recs, recs[1:]))


def _recs_s(recs):
    return ';'.join(f'{p}:{n}:{x}' for p, n, x in recs) or '-'


# ------------------------------------------------------------------ run

def run(ctx):
    R, L = _impl()
    rng = ctx.rng
    # ---------------- integer lists: exhaustive small scope
    maxlen = ctx.n(5, 6)
    alpha = list(range(-3, 4))
    cases = []
    for n in range(maxlen + 1):
        for xs in itertools.product(alpha, repeat=n):
            xs = list(xs)
            cases.append((xs, list(range(-n - 2, n + 2)), list(range(-5, 6))))
    n_exh = len(cases)
    # ---------------- random long lists
    for _ in range(ctx.n(1500, 20000)):
        mode = rng.random()
        target = rng.choice([rng.randint(1, 12), rng.randint(12, 60), rng.randint(60, 300)])
        xs = gen_runs(rng, target, sorted_only=mode < 0.45, big=rng.random() < 0.12)
        n = len(xs)
        idx = list(range(-n - 2, n + 2)) if n <= 40 else sorted({rng.randint(-n - 2, n + 1) for _ in range(40)} | {0, -1, n - 1, -n, n, -n - 1})
        if is_sorted(xs):
            qs = default_queries(xs)
            if len(qs) > 60:
                qs = sorted(set(rng.sample(qs, 50)) | {xs[0] - 1, xs[0], xs[-1], xs[-1] + 1})
        else:
            qs = [rng.choice(xs) + rng.randint(-2, 2) for _ in range(6)]
        cases.append((xs, idx, qs))
    for _ in range(ctx.n(20, 200)):    # a few very long ones
        xs = gen_runs(rng, rng.randint(1000, 5000), sorted_only=rng.random() < 0.5)
        n = len(xs)
        idx = sorted({rng.randint(-n - 2, n + 1) for _ in range(60)} | {0, -1, n - 1, -n, n, -n - 1})
        qs = [rng.choice(xs) + rng.randint(-1, 1) for _ in range(30)] + [min(xs) - 1, max(xs) + 1]
        cases.append((xs, idx, qs))
    model = ctx.lean([f'rle {_csv(xs)} {_csv(idx)} {_csv(qs)}' for xs, idx, qs in cases])
    for k, ((xs, idx, qs), m) in enumerate(zip(cases, model)):
        out = impl_rle(R, xs, idx, qs)
        if is_sorted(xs):
            ctx.corr('rle', {'op': 'rle', 'xs': xs if len(xs) <= 64 else xs[:64] + ['...'], 'idx': idx[:16], 'qs': qs[:16]}, out, m)
        else:   # largest_le of a sequence that is not ascending is outside the property: compared softly
            ctx.corr('rle', {'op': 'rle', 'xs': xs if len(xs) <= 64 else xs[:64] + ['...'], 'idx': idx[:16]},
                     out.rsplit(' le=', 1)[0], m.rsplit(' le=', 1)[0])
            soft(ctx, 'largest_le_on_unsorted', out, m)
        ctx.count('oracle_cases')
        srt = is_sorted(xs)
        bad = oracle_rle(R, xs, idx if k >= n_exh else None, (qs if srt else None) if k >= n_exh else (list(range(-5, 6)) if srt else None))
        if bad is not None:
            report_rle(ctx, R, xs, idx, qs, bad)
        else:
            nruns = out.count(';') + 1
            if nruns >= 2 and nruns < len(xs):
                ctx.nontriv(('rle', tuple(xs)) if len(xs) <= 12 else ('rle', hash(tuple(xs))))
            if srt and len(xs) >= 2:
                ctx.count('sorted_lists')
            if len(set(xs)) < len(xs):
                ctx.count('lists_with_repeated_values')
    ctx.extra['exhaustive'] = True
    ctx.extra['exhaustive_scope'] = f'all {n_exh} integer lists of length <= {maxlen} over -3..3, every index -(n+2)..n+1, every query -5..5'
    ctx.sample({'op': 'rle', 'xs': cases[n_exh + 1][0][:40], 'model_reply': model[n_exh + 1][:300]})
    ctx.sample({'op': 'rle', 'xs': cases[n_exh // 2][0], 'model_reply': model[n_exh // 2]})
    ctx.count('rle_cases', len(cases))
    # ---------------- conversion function (oracle only)
    for _ in range(ctx.n(200, 2000)):
        xs = gen_runs(rng, rng.randint(0, 40))
        a, b = rng.randint(-3, 3), rng.randint(-5, 5)
        ctx.count('oracle_cases')
        bad = oracle_rle(R, xs, fn=lambda v, a=a, b=b: a * v + b)
        if bad is not None:
            ctx.fail({'op': 'rle_fn', 'xs': xs, 'a': a, 'b': b}, bad)
    # ---------------- floats (oracle only; the model is over Rat)
    nf_abs = 0
    for _ in range(ctx.n(1500, 20000)):
        xs = gen_floats(rng, rng.choice([rng.randint(0, 10), rng.randint(10, 120)]))
        ctx.count('oracle_cases'); ctx.count('float_cases')
        bad = oracle_float(R, xs)
        if bad is not None:
            small = shrink(xs, lambda c: oracle_float(R, c) is not None)
            ctx.fail({'op': 'float', 'xs': _jfloat(small)}, oracle_float(R, small) or bad)
        elif len(xs) >= 3:
            nr = len(R.create_rle(xs))
            if 2 <= nr < len(xs):
                ctx.nontriv(('float', hash(tuple(xs))))
            if nr < len(xs) - 1:
                nf_abs += 1
    ctx.count('float_lists_with_absorbed_values', nf_abs)
    # exactly representable floats: the Rat model with the exact isclose predicate must agree item for item
    fcases = [gen_units(rng, rng.choice([rng.randint(0, 8), rng.randint(8, 80)])) for _ in range(ctx.n(1500, 20000))]
    for k in range(0, 5):                      # exhaustive tiny: near 2**52 over offsets 0..3 (isclose tolerance = 1 unit)
        for offs in itertools.product(range(4), repeat=k):
            fcases.append([2**52 + 10 * j + o for j, o in enumerate(offs)])
    model = ctx.lean([f'frle {_csv(ns)}' for ns in fcases])
    nclose = 0
    for ns, m in zip(fcases, model):
        out = impl_frle(R, ns)
        ctx.corr('frle', {'op': 'frle', 'units_of_1_1024': ns[:40]}, out, m)
        if out.split(' vals=')[-1] != _csv(ns):
            nclose += 1                          # some value was absorbed through isclose without being equal
    ctx.count('frle_cases', len(fcases)); ctx.count('frle_cases_with_inexact_absorption', nclose)
    ctx.sample({'op': 'frle', 'units_of_1_1024': fcases[3][:12], 'model_reply': model[3][:300]})
    # ---------------- LIS RLEType01
    tcases = []
    for _ in range(ctx.n(1500, 20000)):
        recs = gen_recs(rng, rng.choice([rng.randint(0, 6), rng.randint(6, 40), rng.randint(40, 120)]))
        total = sum(n for _, n, _ in recs)
        frames = list(range(-2, total + 3)) if total <= 150 else sorted({rng.randint(0, total - 1) for _ in range(80)} | {-1, 0, total - 1, total, total + 1})
        tcases.append((recs, frames, True))
    for _ in range(ctx.n(400, 4000)):   # outside the hypotheses (counts <= 0, positions not increasing): correspondence only
        recs = gen_recs(rng, rng.randint(0, 25), wild=True)
        total = max(0, sum(n for _, n, _ in recs))
        tcases.append((recs, list(range(-2, min(total, 100) + 3)), in_quantifier(recs)))
    # exhaustive tiny tables: up to 4 records, positions from increments 1..2, counts 1..3
    n_t_exh = 0
    for k in range(0, ctx.n(4, 5)):
        for incs in itertools.product((1, 2), repeat=k):
            for cnts in itertools.product((1, 2, 3), repeat=k):
                pos, recs = 10, []
                for j in range(k):
                    recs.append((pos, cnts[j], 100 + 5 * j)); pos += incs[j]
                tcases.append((recs, list(range(-2, sum(cnts) + 3)), True)); n_t_exh += 1
    model = ctx.lean([f't01 {_recs_s(recs)} {_csv(frames)}' for recs, frames, _ in tcases])
    for (recs, frames, valid), m in zip(tcases, model):
        out = impl_t01(L, recs, frames)
        if not valid:   # counts < 1 or positions not strictly increasing: outside the property, compared softly
            soft(ctx, 't01_outside_hypotheses', out, m)
            continue
        ctx.corr('t01', {'op': 't01', 'recs': [list(r) for r in recs[:40]], 'frames': frames[:16]}, out, m)
        ctx.count('oracle_cases')
        bad = oracle_t01(L, recs, frames)
        if bad is not None:
            small = shrink(recs, lambda c: oracle_t01(L, c) is not None)
            ctx.fail({'op': 't01', 'recs': [list(r) for r in small]}, oracle_t01(L, small) or bad)
        else:
            nitems = out.split(' ')[0].count(';') + 1
            if recs and (nitems >= 2 or len(recs) >= 2) and any(n >= 2 for _, n, _ in recs):
                ctx.nontriv(('t01', hash(tuple(recs))))
    ctx.extra['exhaustive_scope'] += f'; all {n_t_exh} record tables with <= {ctx.n(3, 4)} records, position increments 1..2, counts 1..3, every frame -2..total+2'
    ctx.sample({'op': 't01', 'recs': [list(r) for r in tcases[5][0][:12]], 'model_reply': model[5][:300]})
    ctx.count('t01_cases', len(tcases))
    for key in ('largest_le_on_unsorted', 't01_outside_hypotheses'):
        ctx.note(f'{key}: {ctx.stats.get(key + "_compared", 0)} model/implementation comparisons outside the property\'s '
                 f'quantifier, {ctx.stats.get(key + "_differences", 0)} differences (informational, not part of the verdict)')
    # interleaved add/query histories (oracle only: every answer is a function of the prefix added so far)
    for _ in range(ctx.n(400, 4000)):
        recs = gen_recs(rng, rng.randint(1, 30))
        if not in_quantifier(recs):
            continue
        ctx.count('oracle_cases'); ctx.count('history_cases')
        bad = oracle_history_t01(L, recs)
        if bad is not None:
            small = shrink(recs, lambda c: bool(c) and in_quantifier(c) and oracle_history_t01(L, c) is not None)
            ctx.fail({'op': 't01_hist', 'recs': [list(r) for r in small]}, oracle_history_t01(L, small) or bad)
    for _ in range(ctx.n(400, 4000)):
        xs = gen_runs(rng, rng.randint(1, 40), sorted_only=rng.random() < 0.5)
        if not xs:
            continue
        ctx.count('oracle_cases'); ctx.count('history_cases')
        bad = oracle_history_rle(R, xs)
        if bad is not None:
            small = shrink(xs, lambda c: bool(c) and oracle_history_rle(R, c) is not None)
            ctx.fail({'op': 'rle_hist', 'xs': small}, oracle_history_rle(R, small) or bad)
    # float X values (oracle only)
    for _ in range(ctx.n(300, 3000)):
        recs = gen_recs(rng, rng.randint(0, 40), xfloat=True)
        ctx.count('oracle_cases')
        bad = oracle_t01(L, recs)
        if bad is not None:
            ctx.fail({'op': 't01', 'recs': [list(r) for r in recs]}, bad)
    run_numpy(ctx, R, L)


def run_numpy(ctx, R, L):
    """the same questions with the values, indices, frame numbers and queries given as numpy scalars."""
    np = _np()
    rng = ctx.rng

    def one(xs, ts, idx, qs, tag):
        ctx.count('oracle_cases'); ctx.count('numpy_cases'); ctx.count('numpy_' + tag)
        bad = oracle_np(R, xs, ts, idx, qs)
        if bad is not None:
            report_np(ctx, R, xs, ts, idx or [], qs or [], bad)
            return False
        if len(xs) >= 3:
            with _quiet():
                items = R.create_rle(typed_list(np, xs, ts)).rle_items
            if 2 <= len(items) < len(xs):
                ctx.nontriv(('np', tag, hash((tuple(xs), tuple(ts)))))
            if is_sorted(xs) and any(it.stride == 0 for it in items):
                ctx.count('numpy_sorted_lists_with_a_zero_stride_run_queried')
        return True

    # ---- exhaustive small scope per numpy type (every index and query in the list's own type and as Python numbers)
    maxlen = ctx.n(4, 5)
    n_exh = 0
    for t in NP_INTS + NP_FLOATS:
        if t in NP_UNSIGNED:
            lists = [list(c) for n in range(maxlen + 2) for c in itertools.combinations_with_replacement(range(5), n)]
        else:
            alpha = [-2, -1, 0, 1, 2] if t in NP_INTS else [-1.0, -0.5, 0.0, 0.5, 1.0]
            lists = [list(c) for n in range(maxlen + 1) for c in itertools.product(alpha, repeat=n)]
        for xs in lists:
            n_exh += 1
            one(xs, [t] * len(xs), None, None, t)
    ctx.extra['exhaustive_scope'] += (f'; numpy scalars: for each of int8..int64, float32, float64 all lists of length <= {maxlen} over 5 values, '
                                      f'for each of uint8..uint64 all ascending lists of length <= {maxlen + 1} over 0..4 ({n_exh} lists), every index '
                                      f'-(n+2)..n+1 and every query value-1/value/value+1/midpoint, each as a Python number and as a scalar of the type')
    # ---- random integer lists as numpy integers / mixed with Python ints; also against the model (it sees the equal Python ints)
    cases = [gen_np_int_case(np, rng) for _ in range(ctx.n(1500, 20000))]
    lines = []
    for xs, ts, idx, qs in cases:
        iq = [q for q, tq in qs if isinstance(q, int)]
        lines.append(f'rle {_csv(xs)} {_csv([i for i, _ in idx])} {_csv(iq)}')
    model = ctx.lean(lines)
    for (xs, ts, idx, qs), m in zip(cases, model):
        if one(xs, ts, idx, qs, 'int_mixed' if len(set(ts)) > 1 else ts[0] if ts else 'empty'):
            with _quiet():
                out = impl_rle(R, typed_list(np, xs, ts), [_conv(np, t, i) for i, t in idx],
                               [_conv(np, t, q) for q, t in qs if isinstance(q, int)])
            ctx.corr('np_rle', {'op': 'np_rle', 'xs': xs[:64], 'ts': ts[:64], 'idx': idx[:16], 'qs': [[_enc(q), t] for q, t in qs[:16]]}, out, m)
    ctx.sample({'op': 'np_rle', 'xs': cases[0][0][:30], 'ts': cases[0][1][:30], 'model_reply': model[0][:300]})
    # ---- exactly representable floats as numpy.float64 / numpy.float32 / Python floats (and integers among them)
    for _ in range(ctx.n(1500, 20000)):
        xs, ts, idx, qs = gen_np_float_case(np, rng)
        one(xs, ts, idx, qs, 'float_mixed' if len(set(ts)) > 1 else ts[0] if ts else 'empty')
    # the index of the task: equal neighbours then a step, asked for the repeated value
    one([100.0, 100.0, 100.0, 100.5], ['float64'] * 4, None, None, 'float64')
    # ---- general floats: Python floats (with largest_le now), elements of float64 / float32 arrays
    for k in range(ctx.n(900, 12000)):
        xs = (gen_floats_asc if k % 3 else gen_floats)(rng, rng.choice([rng.randint(0, 10), rng.randint(10, 80)]))
        for t in ('py', 'float64', 'float32'):
            ys = [float(v) for v in np.array(xs, dtype='float32')] if t == 'float32' else xs
            ctx.count('oracle_cases'); ctx.count('float_cases'); ctx.count('numpy_cases' if t != 'py' else 'float_le_cases')
            bad = oracle_float(R, ys, t)
            if bad is not None:
                small = shrink(ys, lambda c: oracle_float(R, c, t) is not None)
                ctx.fail({'op': 'float', 'xs': _jfloat(small), 't': t}, oracle_float(R, small, t) or bad)
            elif len(ys) >= 3 and is_sorted(ys):
                ctx.nontriv(('float_le', t, hash(tuple(ys))))
    # ---- LIS frame index with numpy positions / counts / X values / frame numbers
    for _ in range(ctx.n(1200, 15000)):
        recs, rts, frames = gen_np_t01_case(np, rng)
        ctx.count('oracle_cases'); ctx.count('numpy_cases'); ctx.count('numpy_t01_cases')
        bad = oracle_t01_np(L, recs, rts, frames)
        if bad is not None:
            def fails(c):
                rr, tt = [r for r, _ in c], [t for _, t in c]
                tot = sum(n for _, n, _ in rr)
                return oracle_t01_np(L, rr, tt, [(f, t if _fits(np, t, f) else 'py') for f in range(-2, tot + 3) for t in {'py'} | {a[1] for a in tt}]) is not None
            small = shrink(list(zip(recs, rts)), fails)
            if fails(small):
                ctx.fail({'op': 'np_t01', 'recs': [[p, c, _enc(x)] for (p, c, x), _ in small], 'rts': [list(t) for _, t in small]},
                         'with all frames -2..total+2: ' + bad)
            else:
                ctx.fail({'op': 'np_t01', 'recs': [[p, c, _enc(x)] for p, c, x in recs], 'rts': [list(t) for t in rts],
                          'frames': [list(f) for f in frames]}, bad)
        elif len(recs) >= 2 and any(c >= 2 for _, c, _ in recs):
            ctx.nontriv(('np_t01', hash((tuple(recs), tuple(rts)))))


def search(ctx):
    """extra oracle budget when a proof / the correspondence broke and no failing input was found yet."""
    R, L = _impl()
    rng = ctx.rng
    for _ in range(30000):
        xs = gen_runs(rng, rng.randint(1, 30), sorted_only=rng.random() < 0.5, big=rng.random() < 0.1)
        ctx.count('oracle_cases')
        bad = oracle_rle(R, xs)
        if bad is not None:
            report_rle(ctx, R, xs, [], [], bad); return
    for _ in range(10000):
        recs = gen_recs(rng, rng.randint(0, 30))
        ctx.count('oracle_cases')
        bad = oracle_t01(L, recs)
        if bad is not None:
            ctx.fail({'op': 't01', 'recs': [list(r) for r in recs]}, bad); return


def replay(ctx, rec):
    R, L = _impl()
    case = rec.get('case') or {}
    op = case.get('op')
    if op == 'rle':
        bad = oracle_rle(R, case['xs'], case.get('idx'), case.get('qs'))
    elif op == 'rle_fn':
        bad = oracle_rle(R, case['xs'], fn=lambda v: case['a'] * v + case['b'])
    elif op == 'float':
        bad = oracle_float(R, [float.fromhex(h) for h in case['xs']], case.get('t', 'py'))
    elif op == 'np_rle':
        pairs = lambda key: None if case.get(key) is None else [(_dec(v), t) for v, t in case[key]]
        bad = oracle_np(R, [_dec(v) for v in case['xs']], case['ts'], pairs('idx'), pairs('qs'))
    elif op == 'np_t01':
        np = _np()
        recs = [(p, c, _dec(x)) for p, c, x in case['recs']]
        rts = [tuple(t) for t in case['rts']]
        frames = case.get('frames')
        if frames is None:
            tot = sum(c for _, c, _ in recs)
            frames = [(f, t if _fits(np, t, f) else 'py') for f in range(-2, tot + 3) for t in {'py'} | {a[1] for a in rts}]
        bad = oracle_t01_np(L, recs, rts, [tuple(f) for f in frames])
    elif op == 't01':
        bad = oracle_t01(L, [tuple(r) for r in case['recs']])
    elif op == 't01_hist':
        bad = oracle_history_t01(L, [tuple(r) for r in case['recs']])
    elif op == 'rle_hist':
        bad = oracle_history_rle(R, case['xs'])
    else:
        return True, 'nothing to replay (no concrete failing input was recorded)'
    if bad is not None:
        return False, bad
    return True, 'the property holds on the recorded input'
